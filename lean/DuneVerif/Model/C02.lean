/-
C02 — executable model of the LU path of DenseMatrix::solve / invert / determinant
(dune/common/densematrix.hh: luDecomposition, Elim, ElimPivot, ElimDet, the `else` branches of
solve / invert / determinant) and of DiagonalMatrix::solve / invert / determinant.

Core Lean only.  Generic in the scalar type `K` (core `Add Sub Mul Div Neg OfNat`) and in the type `Q` of
absolute values (`absval : K → Q`, `<` and `==` on `Q`), so that the driver runs it over the prime field
GF(32003) and over `Float`, and the theorems of Props/C02.lean instantiate it at an arbitrary `Field`.

Matrices and vectors are arrays with their size (`Mat`, `Vec`), read with `Mat.f A i j` / `Vec.f v i` and
built entry-wise with `Mat.ofFn` / `Vec.ofFn` (`Mat.ofFn_f : (Mat.ofFn g).f i j = g i j`).  The C++ loops are kept as folds over `List.finRange n`:
`forUp`  = `for (k = 0; k < n; ++k)`,  `forDown` = `for (k = n; k > 0;) { --k; … }`; loops that start at
`i+1` are written with the guard `i < k` inside the body.
-/
namespace DV.C02

/-! ### matrices, vectors, loops -/

/-- an n×n array of scalars -/
structure Mat (n : Nat) (K : Type) where
  rows : Array (Array K)
  wf : rows.size = n ∧ ∀ i (hi : i < rows.size), rows[i].size = n

/-- `A[i][j]` -/
def Mat.f {n : Nat} {K : Type} (A : Mat n K) (i j : Fin n) : K :=
  (A.rows[i.1]'(by have := A.wf.1; omega))[j.1]'(by rw [A.wf.2]; exact j.2)

/-- the matrix with entries `g i j` (tabulated) -/
def Mat.ofFn {n : Nat} {K : Type} (g : Fin n → Fin n → K) : Mat n K :=
  ⟨Array.ofFn (fun i => Array.ofFn (fun j => g i j)), by simp⟩

@[simp] theorem Mat.ofFn_f {n : Nat} {K : Type} (g : Fin n → Fin n → K) (i j : Fin n) :
    (Mat.ofFn g).f i j = g i j := by
  simp [Mat.f, Mat.ofFn]

/-- an array of n scalars -/
structure Vec (n : Nat) (K : Type) where
  arr : Array K
  wf : arr.size = n

/-- `v[i]` -/
def Vec.f {n : Nat} {K : Type} (v : Vec n K) (i : Fin n) : K := v.arr[i.1]'(by have := v.wf; omega)

def Vec.ofFn {n : Nat} {K : Type} (g : Fin n → K) : Vec n K := ⟨Array.ofFn g, by simp⟩

@[simp] theorem Vec.ofFn_f {n : Nat} {K : Type} (g : Fin n → K) (i : Fin n) : (Vec.ofFn g).f i = g i := by
  simp [Vec.f, Vec.ofFn]

/-- `for (k = 0; k < n; ++k) st = body k st` -/
def forUp (n : Nat) {β : Type} (init : β) (body : Fin n → β → β) : β :=
  (List.finRange n).foldl (fun st k => body k st) init

/-- `for (k = n; k > 0; ) { --k; st = body k st }` -/
def forDown (n : Nat) {β : Type} (init : β) (body : Fin n → β → β) : β :=
  (List.finRange n).foldr (fun k st => body k st) init

section LU
variable {n : Nat} {K Q S : Type}
variable [Add K] [Sub K] [Mul K] [Div K] [Neg K] [OfNat K 0] [OfNat K 1]
variable [LT Q] [DecidableLT Q] [BEq Q] [OfNat Q 0]

/-- the functor argument `Func func` of `luDecomposition`: `swap(i, imax)` and `operator()(factor, k, i)` -/
structure Func (n : Nat) (K S : Type) where
  swap : S → Fin n → Fin n → S
  elim : S → K → Fin n → Fin n → S

structure LUState (n : Nat) (K S : Type) where
  A : Mat n K
  s : S
  /-- `nonsingularLanes` (scalar case: one lane).  Once false, the C++ code has thrown (`throwEarly`) or returned. -/
  ok : Bool

/-- column maximum search: `pivmax = |A[i][i]|; imax = i; for k = i+1..n-1: if (|A[k][i]| > pivmax) {pivmax = |A[k][i]|; imax = k}`
(a strict comparison: the first maximum is kept) -/
def pivotSearch (absval : K → Q) (A : Mat n K) (i : Fin n) : Q × Fin n :=
  forUp n (absval (A.f i i), i) fun k st =>
    if i < k then
      (if st.1 < absval (A.f k i) then (absval (A.f k i), k) else st)
    else st

/-- `for j: swap(A[i][j], A[imax][j])` -/
def swapRows (A : Mat n K) (i imax : Fin n) : Mat n K :=
  Mat.ofFn fun r c => if r = i then A.f imax c else if r = imax then A.f i c else A.f r c

/-- `factor = A[k][i]/A[i][i]` -/
def factor (A : Mat n K) (i k : Fin n) : K := A.f k i / A.f i i

/-- `A[k][i] = factor; for j = i+1..n-1: A[k][j] -= factor*A[i][j]` -/
def elimRow (A : Mat n K) (i k : Fin n) (fac : K) : Mat n K :=
  Mat.ofFn fun r c =>
    if r = k then (if c = i then fac else if i < c then A.f k c - fac * A.f i c else A.f k c)
    else A.f r c

/-- the elimination loop of outer step `i`: `for k = i+1..n-1 { factor…; A[k]… ; func(factor, k, i) }` -/
def elimLoop (F : Func n K S) (A : Mat n K) (s : S) (i : Fin n) : Mat n K × S :=
  forUp n (A, s) fun k st =>
    if i < k then
      (elimRow st.1 i k (factor st.1 i k), F.elim st.2 (factor st.1 i k) k i)
    else st

/-- pivot value, row-swapped matrix and functor state at the singularity test of outer step `i` -/
def pivotPhase (doPivoting : Bool) (absval : K → Q) (F : Func n K S) (A : Mat n K) (s : S) (i : Fin n) :
    Q × Mat n K × S :=
  if doPivoting then
    ((pivotSearch absval A i).1, swapRows A i (pivotSearch absval A i).2,
      F.swap s i (pivotSearch absval A i).2)
  else (absval (A.f i i), A, s)

/-- one pass of the outer loop `for i` of `luDecomposition` -/
def luStep (doPivoting : Bool) (absval : K → Q) (F : Func n K S) (i : Fin n) (st : LUState n K S) :
    LUState n K S :=
  if st.ok then
    if (pivotPhase doPivoting absval F st.A st.s i).1 == 0 then
      -- singular: `throw FMatrixError` (throwEarly) or `return` (determinant)
      ⟨(pivotPhase doPivoting absval F st.A st.s i).2.1, (pivotPhase doPivoting absval F st.A st.s i).2.2, false⟩
    else
      ⟨(elimLoop F (pivotPhase doPivoting absval F st.A st.s i).2.1
          (pivotPhase doPivoting absval F st.A st.s i).2.2 i).1,
       (elimLoop F (pivotPhase doPivoting absval F st.A st.s i).2.1
          (pivotPhase doPivoting absval F st.A st.s i).2.2 i).2, true⟩
  else st

/-- `luDecomposition(A, func, nonsingularLanes, throwEarly, doPivoting)` for one lane -/
def luDecomp (doPivoting : Bool) (absval : K → Q) (F : Func n K S) (A : Mat n K) (s : S) : LUState n K S :=
  forUp n ⟨A, s, true⟩ (luStep doPivoting absval F)

/-! ### the three functors -/

/-- `Elim<V>`: swaps / updates the right-hand side -/
def elimFunc : Func n K (Vec n K) where
  swap rhs i j := Vec.ofFn fun r => if r = i then rhs.f j else if r = j then rhs.f i else rhs.f r
  elim rhs fac k i := Vec.ofFn fun r => if r = k then rhs.f k - fac * rhs.f i else rhs.f r

/-- `ElimPivot`: `pivot_[i] = (i == j) ? pivot_[i] : j` -/
def pivotFunc : Func n K (Vec n (Fin n)) where
  swap p i j := Vec.ofFn fun r => if r = i then (if i = j then p.f i else j) else p.f r
  elim p _ _ _ := p

/-- `ElimDet`: `sign_ *= (i == j) ? 1 : -1` -/
def detFunc : Func n K K where
  swap sign i j := sign * (if i = j then (1 : K) else -(1 : K))
  elim sign _ _ _ := sign

/-! ### solve -/

inductive Res (α : Type) where
  | ok (x : α)
  | fmatrixError

/-- `for i = n-1..0 { for j = i+1..n-1: rhs[i] -= A[i][j]*x[j];  x[i] = rhs[i]/A[i][i] }` (rhs and x are one object) -/
def backSubst (A : Mat n K) (rhs : Vec n K) : Vec n K :=
  forDown n rhs fun i x =>
    Vec.ofFn fun r =>
      if r = i then (forUp n (x.f i) fun j acc => if i < j then acc - A.f i j * x.f j else acc) / A.f i i
      else x.f r

/-- the `else` branch (rows() ≥ 4) of `DenseMatrix::solve` -/
def solveLU (doPivoting : Bool) (absval : K → Q) (A : Mat n K) (b : Vec n K) : Res (Vec n K) :=
  if (luDecomp doPivoting absval elimFunc A b).ok then
    .ok (backSubst (luDecomp doPivoting absval elimFunc A b).A (luDecomp doPivoting absval elimFunc A b).s)
  else .fmatrixError

/-! ### determinant -/

/-- the LU branch of `DenseMatrix::determinant`:
`det = sign (set by ElimDet); for i: det *= A[i][i]; det = cond(nonsingularLanes, det, 0)`.
(The product of the singular case is computed by the code and then discarded; it has no observable effect.) -/
def detLU (doPivoting : Bool) (absval : K → Q) (A : Mat n K) : K :=
  if (luDecomp doPivoting absval detFunc A (1 : K)).ok then
    forUp n (luDecomp doPivoting absval detFunc A (1 : K)).s
      fun i det => det * (luDecomp doPivoting absval detFunc A (1 : K)).A.f i i
  else (0 : K)

/-! ### invert -/

def idPivot : Vec n (Fin n) := Vec.ofFn fun i => i

def identity : Mat n K := Mat.ofFn fun i j => if i = j then (1 : K) else (0 : K)

/-- `L Y = I`: `for i: for j < i: for k: B[i][k] -= L[i][j]*B[j][k]` -/
def forwardL (L : Mat n K) (B : Mat n K) : Mat n K :=
  forUp n B fun i B =>
    forUp n B fun j B =>
      if j < i then Mat.ofFn fun r c => if r = i then B.f i c - L.f i j * B.f j c else B.f r c
      else B

/-- `U X = Y`: `for i = n-1..0: for k: { for j = i+1..n-1: B[i][k] -= U[i][j]*B[j][k];  B[i][k] /= U[i][i] }` -/
def backwardU (U : Mat n K) (B : Mat n K) : Mat n K :=
  forDown n B fun i B =>
    Mat.ofFn fun r c =>
      if r = i then (forUp n (B.f i c) fun j acc => if i < j then acc - U.f i j * B.f j c else acc) / U.f i i
      else B.f r c

/-- `for j: swap(B[j][pi], B[j][i])` -/
def swapCols (B : Mat n K) (pi i : Fin n) : Mat n K :=
  Mat.ofFn fun r c => if c = pi then B.f r i else if c = i then B.f r pi else B.f r c

/-- `for i = n-1..0: if (i != pivot[i]) swap columns pivot[i], i` -/
def unpermute (pivot : Vec n (Fin n)) (B : Mat n K) : Mat n K :=
  forDown n B fun i B => if i ≠ pivot.f i then swapCols B (pivot.f i) i else B

/-- the `else` branch (rows() ≥ 4) of `DenseMatrix::invert` -/
def invertLU (doPivoting : Bool) (absval : K → Q) (A : Mat n K) : Res (Mat n K) :=
  if (luDecomp doPivoting absval pivotFunc A idPivot).ok then
    .ok (unpermute (luDecomp doPivoting absval pivotFunc A idPivot).s
          (backwardU (luDecomp doPivoting absval pivotFunc A idPivot).A
            (forwardL (luDecomp doPivoting absval pivotFunc A idPivot).A identity)))
  else .fmatrixError

end LU

/-! ### DiagonalMatrix -/
section Diag
variable {n : Nat} {K : Type} [Mul K] [Div K] [OfNat K 1]

/-- `for i: x[i] = b[i]/diag_[i]` -/
def solveDiag (d b : Vec n K) : Vec n K := Vec.ofFn fun i => b.f i / d.f i

/-- `for i: diag_[i] = real_type(1.0)/diag_[i]` -/
def invertDiag (d : Vec n K) : Vec n K := Vec.ofFn fun i => (1 : K) / d.f i

/-- `det = diag_[0]; for i = 1..n-1: det *= diag_[i]` -/
def detDiag (d : Vec (n + 1) K) : K :=
  forUp (n + 1) (d.f 0) fun i det => if 0 < i.1 then det * d.f i else det

end Diag

/-! ### the prime field GF(32003) used by the driver (correspondence only; nothing is proved about it) -/

def P : Nat := 32003

structure Fp where
  v : Nat
deriving Inhabited

namespace Fp
def ofInt (x : Int) : Fp := ⟨(x % (P : Int)).toNat⟩
def powAux : Nat → Nat → Nat → Nat → Nat
  | 0, _, _, r => r
  | fuel + 1, b, e, r => if e = 0 then r else powAux fuel (b * b % P) (e / 2) (if e % 2 = 1 then r * b % P else r)
/-- Fermat inverse, `inv 0 = 0` -/
def inv (a : Fp) : Fp := ⟨powAux 64 (a.v % P) (P - 2) 1 % P⟩
instance : Add Fp := ⟨fun a b => ⟨(a.v + b.v) % P⟩⟩
instance : Sub Fp := ⟨fun a b => ⟨(a.v + P - b.v) % P⟩⟩
instance : Mul Fp := ⟨fun a b => ⟨(a.v * b.v) % P⟩⟩
instance : Neg Fp := ⟨fun a => ⟨(P - a.v) % P⟩⟩
instance : Div Fp := ⟨fun a b => ⟨(a.v * (inv b).v) % P⟩⟩
instance : OfNat Fp 0 := ⟨⟨0⟩⟩
instance : OfNat Fp 1 := ⟨⟨1⟩⟩
/-- `abs` of the harness' number class: the symmetric representative's magnitude -/
def absval (a : Fp) : Nat := min a.v (P - a.v)
end Fp

/-! ### complex numbers over `Float` (driver only) -/

structure Cx where
  re : Float
  im : Float

namespace Cx
instance : Add Cx := ⟨fun a b => ⟨a.re + b.re, a.im + b.im⟩⟩
instance : Sub Cx := ⟨fun a b => ⟨a.re - b.re, a.im - b.im⟩⟩
instance : Mul Cx := ⟨fun a b => ⟨a.re * b.re - a.im * b.im, a.re * b.im + a.im * b.re⟩⟩
instance : Neg Cx := ⟨fun a => ⟨-a.re, -a.im⟩⟩
/-- complex division with the divisor first brought to magnitude ~1 by an exact power of two (as the run-time
library of the compiler does), so that `|b|²` neither overflows nor underflows for operands of any magnitude -/
instance : Div Cx := ⟨fun a b =>
  let m := if b.re.abs < b.im.abs then b.im.abs else b.re.abs
  let e := (Float.frExp m).2
  let br := b.re.scaleB (-e)
  let bi := b.im.scaleB (-e)
  let d := br * br + bi * bi
  ⟨((a.re * br + a.im * bi) / d).scaleB (-e), ((a.im * br - a.re * bi) / d).scaleB (-e)⟩⟩
instance : OfNat Cx 0 := ⟨⟨0, 0⟩⟩
instance : OfNat Cx 1 := ⟨⟨1, 0⟩⟩
/-- `fvmeta::absreal(std::complex)` = |re| + |im| -/
def absval (a : Cx) : Float := a.re.abs + a.im.abs
end Cx

end DV.C02
