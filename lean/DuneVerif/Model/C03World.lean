/-
C03 — several index-set objects in one history (round four).

`ParallelIndexSet` has the implicit copy constructor and copy assignment (member-wise: both chunked lists, `state_`,
`seqNo_`, `deletedEntries_`).  A world is the set under test plus one snapshot made of it; the history may copy the set
into the snapshot (`Set snap(set)`), look at the snapshot later, compare the two with `operator==`, and assign the
snapshot back (`set = snap`).  In the model a copy is the value itself; theorem `world_reachable` (Props/C03.lean) shows
that every object of every multi-object history is in a state some single-object history reaches, so all theorems about
`run h` hold for each of them, and that a snapshot is not influenced by what happens to the original afterwards.
Core Lean only.
-/
import DuneVerif.Model.C03

namespace DV.C03

structure World where
  cur : ISet
  snap : Option ISet
  deriving DecidableEq, Repr

def World.init : World := { cur := DV.C03.init, snap := none }

inductive WOp where
  | op (o : Op)     -- an operation on the set under test
  | snapshot        -- `snap = Set(set)` (copy construction)
  | restore         -- `set = snap` (copy assignment)
  | view            -- observe the snapshot: seqNo, state, contents, `snap == set`
  deriving DecidableEq, Repr

/-- what `operator==(ParallelIndexSet, ParallelIndexSet)` compares: sizes, then per position the global index and the
local index (`ParallelLocalIndex::operator==`: local number, attribute, public flag — not the VALID/DELETED state) -/
def eqKey (p : Pair) : Int × Nat × Nat × Bool := (p.g, p.l.loc, p.l.attr, p.l.pub)

def setsEqual (a b : ISet) : Bool := a.loc.map eqKey == b.loc.map eqKey

inductive WObs where
  | base (s : ISet) (o : Obs)   -- observation of an `Op`, with the set it was made on
  | ok
  | skip
  | view (snap : ISet) (eq : Bool)
  deriving DecidableEq, Repr

def stepW (w : World) : WOp → World × WObs
  | .op o => let (s, ob) := step w.cur o; ({ w with cur := s }, .base w.cur ob)
  | .snapshot => ({ w with snap := some w.cur }, .ok)
  | .restore => match w.snap with
    | none => (w, .skip)
    | some s => ({ w with cur := s }, .ok)
  | .view => match w.snap with
    | none => (w, .skip)
    | some s => (w, .view s (setsEqual s w.cur))

def runWFrom (w : World) : List WOp → World
  | [] => w
  | o :: os => runWFrom (stepW w o).1 os

def runW (h : List WOp) : World := runWFrom World.init h

/-- the single-object histories of the two objects: `(history of the set under test, history of the snapshot)` -/
def flatFrom (c : List Op) (s : Option (List Op)) : List WOp → List Op × Option (List Op)
  | [] => (c, s)
  | .op o :: r => flatFrom (c ++ [o]) s r
  | .snapshot :: r => flatFrom c (some c) r
  | .restore :: r => flatFrom (s.getD c) s r
  | .view :: r => flatFrom c s r

def flat (h : List WOp) : List Op × Option (List Op) := flatFrom [] none h

end DV.C03
