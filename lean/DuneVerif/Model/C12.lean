/-
C12 — faithful model of Dune::ParameterTree / Dune::ParameterTreeParser
(dune/common/parametertree.hh, parametertree.cc, parametertreeparser.cc).

Strings are `List Char` (one `Char` per byte of the C++ `std::string`).  A tree node is the pair of
insertion-ordered association lists `(valueKeys_/values_, subKeys_/subs_)`.  Every function is named after
the C++ function whose control flow it transcribes.  Core Lean only.

Sections: 1 strings  2 tree  3 INI reader  4 documented dialect (Item / render / denote)
          5 command line  6 typed retrieval (classic-locale lexers)
-/
import DuneVerif.Common.Proto

namespace DV.C12

abbrev Str := List Char

/-- error classes of the code under test (`fuel` is the model's own "ran out of fuel", proved unreachable) -/
inductive Err where
  | range    -- Dune::RangeError
  | parser   -- Dune::ParameterTreeParserError
  | help     -- Dune::HelpRequest
  | io       -- Dune::IOError (the input stream failed; fixes/C12_badstream.patch)
  | fuel
  deriving DecidableEq, Repr, Inhabited

/-! ## 1. strings -/

/-- the blank set of `ltrim/rtrim/split`: `" \t\n\r"` -/
def isWs (c : Char) : Bool := c == ' ' || c == '\t' || c == '\n' || c == '\r'

/-- `s.substr(s.find_first_not_of(" \t\n\r"))`, empty if there is none -/
def ltrim (s : Str) : Str := s.dropWhile isWs

/-- `s.substr(0, s.find_last_not_of(" \t\n\r")+1)`, empty if there is none -/
def rtrim : Str → Str
  | [] => []
  | c :: cs =>
    match rtrim cs with
    | [] => if isWs c then [] else [c]
    | r => c :: r

/-- `find(c)` + the two `substr`s around the hit; `none` = `npos` -/
def splitFirst (c : Char) : Str → Option (Str × Str)
  | [] => none
  | x :: xs =>
    if x == c then some ([], xs)
    else match splitFirst c xs with
      | none => none
      | some (a, b) => some (x :: a, b)

/-- all maximal pieces between occurrences of `c` (never the empty list): `getline` for `'\n'`, the recursive
    descent of `operator[]`/`sub`/`hasKey` for `'.'` -/
def splitOnC (c : Char) : Str → List Str
  | [] => [[]]
  | x :: xs =>
    if x == c then [] :: splitOnC c xs
    else match splitOnC c xs with
      | h :: t => (x :: h) :: t
      | [] => [[x]]

/-- `*(s.rbegin()) == q`; on the empty string the code reads the byte in front of the (SSO) buffer, which
    is 0 in libstdc++ and hence different from a quote (after fixes/C12_emptyquote.patch: explicit test) -/
def endsWith (s : Str) (q : Char) : Bool := s.getLast? == some q

/-! ## 2. the tree -/

inductive Tree where
  | node (vals : List (Str × Str)) (subs : List (Str × Tree))
  deriving Repr, Inhabited

def Tree.empty : Tree := .node [] []
def Tree.vals : Tree → List (Str × Str) | .node v _ => v
def Tree.subs : Tree → List (Str × Tree) | .node _ s => s

/-- `map.count(k) > 0` -/
def aHas {α} (k : Str) (l : List (Str × α)) : Bool := l.any (fun e => e.1 == k)

/-- `map.find(k)->second` -/
def aGet? {α} (k : Str) : List (Str × α) → Option α
  | [] => none
  | (k', v) :: r => if k' == k then some v else aGet? k r

/-- `map[k] = v` with the ordered key list: replace in place, else append -/
def aSet {α} (k : Str) (v : α) : List (Str × α) → List (Str × α)
  | [] => [(k, v)]
  | (k', v') :: r => if k' == k then (k', v) :: r else (k', v') :: aSet k v r

/-- `pt[key] = v` for the component list of `key` (`operator[]` + `sub`, non-const) -/
def setPath : List Str → Str → Tree → Except Err Tree
  | [], _, t => .ok t
  | [k], v, .node vals subs =>
    -- `if (!hasKey(key)) valueKeys_.push_back(key); values_[key] = v`
    if aHas k vals then (if aHas k subs then .error .range else .ok (.node (aSet k v vals) subs))
    else .ok (.node (aSet k v vals) subs)
  | k :: rest, v, .node vals subs =>
    -- `sub(k)`: throws if `k` is a value; creates the sub-tree if missing
    if aHas k vals then .error .range
    else match setPath rest v ((aGet? k subs).getD .empty) with
      | .error e => .error e
      | .ok s' => .ok (.node vals (aSet k s' subs))

/-- `hasKey(key)` for the component list of `key` -/
def hasKeyPath : List Str → Tree → Except Err Bool
  | [], _ => .ok false
  | [k], .node vals subs =>
    if aHas k vals then (if aHas k subs then .error .range else .ok true) else .ok false
  | k :: rest, .node vals subs =>
    match aGet? k subs with
    | none => .ok false
    | some s => if aHas k vals then .error .range else hasKeyPath rest s

/-- `hasSub(key)` -/
def hasSubPath : List Str → Tree → Except Err Bool
  | [], _ => .ok false
  | [k], .node vals subs =>
    if aHas k subs then (if aHas k vals then .error .range else .ok true) else .ok false
  | k :: rest, .node vals subs =>
    match aGet? k subs with
    | none => .ok false
    | some s => if aHas k vals then .error .range else hasSubPath rest s

/-- `(*this)[key]` const: the stored string, `none` = RangeError -/
def getPath : List Str → Tree → Option Str
  | [], _ => none
  | [k], .node vals subs => if aHas k vals && !aHas k subs then aGet? k vals else none
  | k :: rest, .node vals subs =>
    if aHas k vals then none
    else match aGet? k subs with
      | none => none      -- continues in `empty_`, where the key is not found
      | some s => getPath rest s

/-- `sub(key, fail_if_missing)` const -/
def subPath (failIfMissing : Bool) : List Str → Tree → Except Err Tree
  | [], t => .ok t
  | [k], .node vals subs =>
    if aHas k vals then .error .range
    else match aGet? k subs with
      | none => if failIfMissing then .error .range else .ok .empty
      | some s => .ok s
  | k :: rest, .node vals subs =>
    if aHas k vals then .error .range
    else match aGet? k subs with
      | none => subPath failIfMissing rest .empty
      | some s => subPath failIfMissing rest s

/-- the non-const `sub(key)`: creates the missing groups on the way (empty), throws when a component is a value -/
def mkSubPath : List Str → Tree → Except Err Tree
  | [], t => .ok t
  | k :: rest, .node vals subs =>
    if aHas k vals then .error .range
    else match mkSubPath rest ((aGet? k subs).getD .empty) with
      | .error e => .error e
      | .ok s' => .ok (.node vals (aSet k s' subs))

def comps (key : Str) : List Str := splitOnC '.' key

def Tree.set (t : Tree) (key value : Str) : Except Err Tree := setPath (comps key) value t
def Tree.hasKey (t : Tree) (key : Str) : Except Err Bool := hasKeyPath (comps key) t
def Tree.hasSub (t : Tree) (key : Str) : Except Err Bool := hasSubPath (comps key) t
def Tree.get? (t : Tree) (key : Str) : Option Str := getPath (comps key) t
def Tree.sub (t : Tree) (key : Str) (failIfMissing : Bool) : Except Err Tree := subPath failIfMissing (comps key) t
def Tree.mkSub (t : Tree) (key : Str) : Except Err Tree := mkSubPath (comps key) t

/-- `get<T>(key)`: RangeError when the key is absent or the text is rejected by `Parser<T>` -/
def Tree.getAs {α} (parse : Str → Option α) (t : Tree) (key : Str) : Except Err α :=
  match t.get? key with
  | none => .error .range
  | some s => match parse s with
    | none => .error .range
    | some v => .ok v

/-- `get<T>(key, defaultValue)`: `hasKey(key) ? get<T>(key) : defaultValue` -/
def Tree.getD {α} (parse : Str → Option α) (t : Tree) (key : Str) (dflt : α) : Except Err α :=
  match t.hasKey key with
  | .error e => .error e
  | .ok false => .ok dflt
  | .ok true => t.getAs parse key

/-! ## 3. readINITree -/

/-- `prefix = rtrim(ltrim(…)); if (prefix != "") prefix += ".";` -/
def newPrefix (p : Str) : Str := if p = [] then [] else p ++ ['.']

/-- the quote continuation `while (*(rtrim(value).rbegin())!=quote) { … }`: appends `"\n"+line` while lines
    are left, appends the quote itself at end of input; returns the value and the unread lines -/
def quoteLoop (q : Char) (value : Str) : List Str → Str × List Str
  | [] => if endsWith (rtrim value) q then (value, []) else (value ++ [q], [])
  | l :: ls => if endsWith (rtrim value) q then (value, l :: ls) else quoteLoop q (value ++ '\n' :: l) ls

/-- loop state: current prefix, `keysInFile`, the tree -/
structure St where
  pfx : Str
  seen : List Str
  tree : Tree
  deriving Inhabited

/-- the tail of the `default:` branch: duplicate test, overwrite test, assignment -/
def assignStep (ow : Bool) (st : St) (key value : Str) : Except Err St :=
  if st.seen.contains key then .error .parser
  else
    let store : Except Err Tree :=
      if ow then st.tree.set key value
      else match st.tree.hasKey key with
        | .error e => .error e
        | .ok true => .ok st.tree
        | .ok false => st.tree.set key value
    match store with
    | .error e => .error e
    | .ok t => .ok { st with seen := key :: st.seen, tree := t }

/-- value text after `=`: quoted (possibly continued on the following lines) or trimmed -/
def readValue (rhs : Str) (rest : List Str) : Str × List Str :=
  match ltrim rhs with
  | [] => ([], rest)
  | c :: v =>
    if c == '\'' || c == '"' then
      let r := quoteLoop c v rest
      ((rtrim r.1).dropLast, r.2)
    else (rtrim (c :: v), rest)

/-- one iteration of `while(!in.eof())`: `raw` is what `getline` returned, `rest` the unread lines -/
def lineStep (ow : Bool) (raw : Str) (rest : List Str) (st : St) : Except Err (St × List Str) :=
  match ltrim raw with
  | [] => .ok (st, rest)
  | c :: r =>
    if c == '#' then .ok (st, rest)
    else if c == '[' then
      match splitFirst ']' r with
      | none => .ok (st, rest)
      | some (inner, _) => .ok ({ st with pfx := newPrefix (rtrim (ltrim inner)) }, rest)
    else
      match splitFirst '=' ((c :: r).takeWhile (· != '#')) with
      | none => .ok (st, rest)
      | some (k, rhs) =>
        let vr := readValue rhs rest
        match assignStep ow st (st.pfx ++ rtrim (ltrim k)) vr.1 with
        | .error e => .error e
        | .ok st' => .ok (st', vr.2)

/-- the line loop with fuel (one unit per iteration; `lines.length + 1` always suffices: `parse_total`) -/
def parseLoop (ow : Bool) : Nat → List Str → St → Except Err St
  | 0, _, _ => .error .fuel
  | _+1, [], st => .ok st
  | f+1, l :: ls, st =>
    match lineStep ow l ls st with
    | .error e => .error e
    | .ok (st', ls') => parseLoop ow f ls' st'

def parseLines (ow : Bool) (lines : List Str) (st : St) : Except Err St :=
  parseLoop ow (lines.length + 1) lines st

/-- `readINITree(in, pt, srcname, overwrite)` on the bytes `doc` -/
def parseINI (doc : Str) (t : Tree) (ow : Bool) : Except Err Tree :=
  match parseLines ow (splitOnC '\n' doc) ⟨[], [], t⟩ with
  | .error e => .error e
  | .ok st => .ok st.tree

/-- `readINITree` on a stream that delivers the first `n` bytes of `doc` and then fails (badbit; after
    fixes/C12_badstream.patch): the line in progress is processed as if the input ended there, the loops stop
    because `in.good()` is false, and the read error is reported — unless an error of the text came first -/
def parseBad (doc : Str) (n : Nat) (t : Tree) (ow : Bool) : Except Err Tree :=
  match parseINI (doc.take n) t ow with
  | .error e => .error e
  | .ok _ => .error .io

/-! ## 4. the documented dialect -/

/-- one syntactic item of a document in the documented dialect (ParameterTreeParser class documentation) -/
inductive Item where
  /-- a line of blanks -/
  | blank (ws : Str)
  /-- `ws # text` -/
  | comment (ws text : Str)
  /-- `ws1 [ ws2 p ws3 ] junk` — following assignments get the prefix `p.` (none for empty `p`) -/
  | header (ws1 ws2 p ws3 junk : Str)
  /-- `ws1 key ws2 = ws3 value ws4 [# cmt]`, the value bare or enclosed in the quote character `q`
      (then it may contain blanks at both ends and newlines) -/
  | assign (ws1 key ws2 ws3 : Str) (q : Option Char) (value ws4 : Str) (cmt : Option Str)
  deriving Repr, Inhabited

def renderItem : Item → Str
  | .blank ws => ws
  | .comment ws text => ws ++ '#' :: text
  | .header ws1 ws2 p ws3 junk => ws1 ++ '[' :: ws2 ++ p ++ ws3 ++ ']' :: junk
  | .assign ws1 key ws2 ws3 q value ws4 cmt =>
    ws1 ++ key ++ ws2 ++ '=' :: ws3
      ++ (match q with | none => value | some c => c :: value ++ [c])
      ++ ws4 ++ (match cmt with | none => [] | some t => '#' :: t)

/-- the text of a document: its items separated by newlines -/
def renderDoc : List Item → Str
  | [] => []
  | [it] => renderItem it
  | it :: r => renderItem it ++ '\n' :: renderDoc r

/-- what a document says: the sequence of `(full key, value)` assignments, starting under prefix `pfx` -/
def denote : Str → List Item → List (Str × Str)
  | _, [] => []
  | _, .header _ _ p _ _ :: r => denote (newPrefix p) r
  | pfx, .assign _ k _ _ _ v _ _ :: r => (pfx ++ k, v) :: denote pfx r
  | pfx, .blank _ :: r => denote pfx r
  | pfx, .comment _ _ :: r => denote pfx r

/-- prefix in force after a document -/
def lastPrefix : Str → List Item → Str
  | pfx, [] => pfx
  | _, .header _ _ p _ _ :: r => lastPrefix (newPrefix p) r
  | pfx, _ :: r => lastPrefix pfx r

/-- the assignments of one source applied in order: duplicate → ParserError, overwrite flag honoured -/
def applyAll (ow : Bool) : List (Str × Str) → St → Except Err St
  | [], st => .ok st
  | (k, v) :: r, st =>
    match assignStep ow st k v with
    | .error e => .error e
    | .ok st' => applyAll ow r st'

/-! ### lexical well-formedness of the items (decidable; the harness evaluates the same predicate) -/

/-- blanks that may pad a line: space, tab, carriage return -/
def isBlank (c : Char) : Bool := c == ' ' || c == '\t' || c == '\r'
def blankStr (s : Str) : Bool := s.all isBlank
def noNl (s : Str) : Bool := s.all (· != '\n')
/-- no blank at either end -/
def trimmed (s : Str) : Bool := (s.head?.all fun c => !isWs c) && (s.getLast?.all fun c => !isWs c)
def isQuote (c : Char) : Bool := c == '\'' || c == '"'

def Item.wf : Item → Bool
  | .blank ws => blankStr ws
  | .comment ws text => blankStr ws && noNl text
  | .header ws1 ws2 p ws3 junk =>
    blankStr ws1 && blankStr ws2 && blankStr ws3 && noNl junk && noNl p && p.all (· != ']') && trimmed p
  | .assign ws1 key ws2 ws3 q value ws4 cmt =>
    blankStr ws1 && blankStr ws2 && blankStr ws3 && blankStr ws4
    && key.all (fun c => c != '=' && c != '#' && c != '\n') && trimmed key && key.head? != some '['
    && (cmt.all noNl)
    && (match q with
        | none => value.all (fun c => c != '#' && c != '\n') && trimmed value && (value.head?.all fun c => !isQuote c)
        | some c => isQuote c && value.all (· != c) && (value.takeWhile (· != '\n')).all (· != '#')
                    && (noNl value || cmt.isNone))

/-! ## 5. command line -/

/-- `(argv[i][0]=='-') && (argv[i][1]!='\000')` -/
def isOpt (a : Str) : Bool :=
  match a with
  | c :: _ :: _ => c == '-'
  | _ => false

/-- `readOptions(argc, argv, pt)`; `args` = `argv[1..argc-1]` (argv is NULL-terminated) -/
def readOptions : List Str → Tree → Except Err Tree
  | [], t => .ok t
  | [a], t => if isOpt a then .error .range else .ok t     -- "last option … does not have an argument"
  | a :: v :: rest, t =>
    if isOpt a then
      match t.set (a.drop 1) v with
      | .error e => .error e
      | .ok t' => readOptions rest t'
    else readOptions (v :: rest) t

/-- index of the first element equal to `k` (`std::find`) -/
def findIdx? (k : Str) : List Str → Option Nat
  | [] => none
  | x :: xs => if x == k then some 0 else (findIdx? k xs).map (· + 1)

/-- `while(current < done.size() && done[current]) ++current;` -/
def skipDone : Nat → List Bool → Nat → Nat
  | 0, _, cur => cur
  | f+1, done, cur => if done.getD cur false then skipDone f done (cur + 1) else cur

/-- the non-const `pt[key]` used as an rvalue in `!overwrite && pt[key] != ""`: creates the entry (and the
    sub-trees on the way) when missing; returns the tree and the string found -/
def touchPath : List Str → Tree → Except Err (Tree × Str)
  | [], t => .ok (t, [])
  | [k], .node vals subs =>
    if aHas k vals then
      (if aHas k subs then .error .range else .ok (.node vals subs, (aGet? k vals).getD []))
    else .ok (.node (aSet k [] vals) subs, [])
  | k :: rest, .node vals subs =>
    if aHas k vals then .error .range
    else match touchPath rest ((aGet? k subs).getD .empty) with
      | .error e => .error e
      | .ok (s', v) => .ok (.node vals (aSet k s' subs), v)

/-- store one named/positional option -/
def storeOpt (ow : Bool) (t : Tree) (key value : Str) : Except Err Tree :=
  if ow then t.set key value
  else match touchPath (comps key) t with
    | .error e => .error e
    | .ok (t', found) => if found != [] then .error .parser else t'.set key value

/-- the argument loop of `readNamedOptions` -/
def namedLoop (keywords : List Str) (allowMore ow : Bool) : List Str → Tree → List Bool → Nat → Except Err (Tree × List Bool)
  | [], t, done, _ => .ok (t, done)
  | opt :: rest, t, done, cur =>
    if opt == "-h".toList || opt == "--help".toList then .error .help
    else match opt with
    | '-' :: '-' :: body =>
      match splitFirst '=' body with
      | none => .error .parser                     -- "value missing for parameter"
      | some (key, value) =>
        let it := findIdx? key keywords
        if !allowMore && it.isNone then .error .parser      -- "unknown parameter"
        else match storeOpt ow t key value with
          | .error e => .error e
          | .ok t' =>
            let done' := match it with | some i => done.set i true | none => done
            namedLoop keywords allowMore ow rest t' done' cur
    | _ =>
      let cur' := skipDone done.length done cur
      if cur' ≥ done.length then .error .parser      -- "superfluous unnamed parameter"
      else
        let key := keywords.getD cur' []
        match storeOpt ow t key opt with
        | .error e => .error e
        | .ok t' => namedLoop keywords allowMore ow rest t' (done.set cur' true) cur'

/-- `readNamedOptions(argc, argv, pt, keywords, required, allow_more, overwrite)`; `args` = `argv[1..]` -/
def readNamedOptions (args : List Str) (t : Tree) (keywords : List Str) (required : Nat)
    (allowMore ow : Bool) : Except Err Tree :=
  match namedLoop keywords allowMore ow args t (List.replicate keywords.length false) 0 with
  | .error e => .error e
  | .ok (t', done) =>
    -- "missing parameter(s)"
    if (List.range keywords.length).any (fun i => i < required && !(done.getD i false)) then .error .parser
    else .ok t'

/-! ## 6. typed retrieval: `Parser<T>::parse` -/

/-- `std::isspace` in the classic locale (what `operator>>` skips) -/
def isSpaceC (c : Char) : Bool :=
  c == ' ' || c == '\t' || c == '\n' || c == '\x0b' || c == '\x0c' || c == '\r'

def skipWs (s : Str) : Str := s.dropWhile isSpaceC

def isDig (c : Char) : Bool := 48 ≤ c.toNat && c.toNat ≤ 57

def digitsVal (ds : Str) : Nat := ds.foldl (fun acc c => acc * 10 + (c.toNat - 48)) 0

/-- built-in integer types by signedness and width -/
structure IntTy where
  signed : Bool
  bits : Nat
  deriving DecidableEq, Repr

def IntTy.lo (ty : IntTy) : Int := if ty.signed then -(2 ^ (ty.bits - 1) : Nat) else 0
def IntTy.hi (ty : IntTy) : Int := if ty.signed then (2 ^ (ty.bits - 1) : Nat) - 1 else (2 ^ ty.bits : Nat) - 1

/-- `s >> x` for an integer `x` (libstdc++ `num_get::_M_extract_int`, base 10, classic locale): skip blanks,
    optional sign, at least one digit, overflow → failbit.  A negative literal for an unsigned type is
    negated modulo 2^bits, as the library does.  Returns the value and the unread text; `none` = failbit -/
def extractInt (ty : IntTy) (s : Str) : Option (Int × Str) :=
  let s1 := skipWs s
  let neg := s1.head? == some '-'
  let s2 := if s1.head? == some '-' || s1.head? == some '+' then s1.drop 1 else s1
  let digs := s2.takeWhile isDig
  let rest := s2.dropWhile isDig
  if digs = [] then none
  else
    let m := digitsVal digs
    if ty.signed then
      let v : Int := if neg then -(m : Int) else m
      if ty.lo ≤ v ∧ v ≤ ty.hi then some (v, rest) else none
    else if (m : Int) > ty.hi then none
    else some (if neg then (((2 ^ ty.bits - m) % 2 ^ ty.bits : Nat) : Int) else (m : Int), rest)

/-- `s >> str`: skip blanks, then the maximal run of non-blanks (at least one) -/
def extractWord (s : Str) : Option (Str × Str) :=
  let s1 := skipWs s
  let w := s1.takeWhile (fun c => !isSpaceC c)
  if w = [] then none else some (w, s1.dropWhile (fun c => !isSpaceC c))

/-- `s >> c` for a `char`: skip blanks, then one character -/
def extractChar (s : Str) : Option (Char × Str) :=
  match skipWs s with
  | [] => none
  | c :: r => some (c, r)

/-- the generic `Parser<T>::parse`: one extraction, then `char dummy; s >> dummy` must fail at end of input,
    i.e. nothing but blanks may follow -/
def parseScalar {α} (extract : Str → Option (α × Str)) (s : Str) : Option α :=
  match extract s with
  | none => none
  | some (v, rest) => if skipWs rest = [] then some v else none

def parseInt (ty : IntTy) (s : Str) : Option Int := parseScalar (extractInt ty) s

/-- `parseRange` (std::array<T,n>, FieldVector<T,n>): `n` extractions from one stream, then only blanks
    (fixes/C12_parserange.patch: the trailing test extracts a `char`, not a `Value`) -/
def parseRange {α} (extract : Str → Option (α × Str)) : Nat → Str → Option (List α)
  | 0, s => if skipWs s = [] then some [] else none
  | n+1, s =>
    match extract s with
    | none => none
    | some (v, rest) => match parseRange extract n rest with
      | none => none
      | some vs => some (v :: vs)

/-- `s >> b` for a `bool` without `boolalpha` (the elements of `std::array<bool,n>` in `parseRange`): libstdc++'s
    `num_get::do_get(bool&)` extracts a `long` and accepts the values 0 and 1 only -/
def extractBool01 (s : Str) : Option (Bool × Str) :=
  match extractInt ⟨true, 64⟩ s with
  | none => none
  | some (v, rest) => if v = 0 then some (false, rest) else if v = 1 then some (true, rest) else none

def toLowerC (c : Char) : Char := if 65 ≤ c.toNat ∧ c.toNat ≤ 90 then Char.ofNat (c.toNat + 32) else c

def tInt : IntTy := ⟨true, 32⟩

/-- `Parser<bool>::parse` -/
def parseBool (s : Str) : Option Bool :=
  let r := s.map toLowerC
  if r = "yes".toList || r = "true".toList then some true
  else if r = "no".toList || r = "false".toList then some false
  else (parseInt tInt r).map (· != 0)

/-- `Parser<std::string>::parse` -/
def parseString (s : Str) : Str := ltrim (rtrim s)

/-- `ParameterTree::split`: maximal runs of non-blank characters (blank set `" \t\n\r"`) -/
def splitWsGo : Str → Str → List Str
  | [], cur => if cur = [] then [] else [cur]
  | c :: cs, cur =>
    if isWs c then (if cur = [] then splitWsGo cs [] else cur :: splitWsGo cs [])
    else splitWsGo cs (cur ++ [c])

def splitWs (s : Str) : List Str := splitWsGo s []

/-- `Parser<std::vector<T>>::parse` -/
def parseVector {α} (parse : Str → Option α) (s : Str) : Option (List α) := (splitWs s).mapM parse

/-- `Parser<std::bitset<n>>::parse` (bit `i` = item `i`) -/
def parseBitset (n : Nat) (s : Str) : Option (List Bool) :=
  let sub := splitWs s
  if sub.length != n then none else sub.mapM parseBool

/-! ### floating point (syntax and exact value only; rounding is libstdc++/glibc's) -/

/-- result of the lexer: sign, mantissa digits before and after the point, exponent sign and digits -/
structure FloatLex where
  neg : Bool
  ip : Str
  fp : Str
  eneg : Bool
  ex : Str
  deriving Repr

/-- `num_get::_M_extract_float` in the classic locale followed by `strtod` on the extracted text (which must
    be consumed completely).  `none` = failbit.  Returns the lexed pieces and the unread text -/
def extractFloatLex (s : Str) : Option (FloatLex × Str) :=
  let s1 := skipWs s
  let neg := s1.head? == some '-'
  let s2 := if s1.head? == some '-' || s1.head? == some '+' then s1.drop 1 else s1
  let ip := s2.takeWhile isDig
  let s3 := s2.dropWhile isDig
  let (fp, s4) := match s3 with
    | '.' :: r => (r.takeWhile isDig, r.dropWhile isDig)
    | _ => ([], s3)
  if ip = [] && fp = [] then none   -- no mantissa digit: strtod rejects ("", ".", "+", "e5", …)
  else match s4 with
    | e :: r =>
      if e == 'e' || e == 'E' then
        -- the exponent marker is consumed whenever a mantissa was found
        let eneg := r.head? == some '-'
        let r2 := if r.head? == some '-' || r.head? == some '+' then r.drop 1 else r
        let ex := r2.takeWhile isDig
        if ex = [] then none          -- "1e", "1e+": extracted, but strtod stops before the 'e'
        else some (⟨neg, ip, fp, eneg, ex⟩, r2.dropWhile isDig)
      else some (⟨neg, ip, fp, false, []⟩, s4)
    | [] => some (⟨neg, ip, fp, false, []⟩, [])

def stripZeros (s : Str) : Str := s.dropWhile (· == '0')

/-- round-half-even of `num/den` -/
def roundHalfEven (num den : Nat) : Nat :=
  let f := num / den
  let r := num % den
  if 2 * r < den then f else if 2 * r > den then f + 1 else if f % 2 = 0 then f else f + 1

/-- parameters of an IEEE-754 binary interchange format: `mb` significand bits (hidden bit included), `eb` exponent
    field bits.  binary64 = ⟨53, 11⟩, binary32 = ⟨24, 8⟩ -/
structure BinFmt where
  mb : Nat
  eb : Nat
  deriving Repr

def binary64 : BinFmt := ⟨53, 11⟩
def binary32 : BinFmt := ⟨24, 8⟩

/-- exponent of the unit in the last place of the subnormals: `3 - 2^(eb-1) - mb` (-1074, -149) -/
def BinFmt.uMin (f : BinFmt) : Int := 3 - (2 ^ (f.eb - 1) : Nat) - (f.mb : Nat)

/-- the number nearest to `p/q > 0` in the format (ties to even) as its bit pattern without the sign bit;
    `none` when it rounds to infinity (which `operator>>` reports as failbit).  glibc's `strtod/strtof` are
    correctly rounded. -/
def roundToBin (f : BinFmt) (p q : Nat) : Option Nat :=
  let e0 : Int := (Nat.log2 p : Int) - (Nat.log2 q : Int)
  -- p/q ≥ 2^e0 ?
  let ge : Bool := if e0 ≥ 0 then p ≥ q * 2 ^ e0.toNat else p * 2 ^ (-e0).toNat ≥ q
  let E : Int := if ge then e0 else e0 - 1
  let u : Int := if E - (f.mb - 1 : Nat) ≥ f.uMin then E - (f.mb - 1 : Nat) else f.uMin
  let m := if u ≥ 0 then roundHalfEven p (q * 2 ^ u.toNat) else roundHalfEven (p * 2 ^ (-u).toNat) q
  let (m, u) := if m = 2 ^ f.mb then (2 ^ (f.mb - 1), u + 1) else (m, u)
  if m < 2 ^ (f.mb - 1) then some m       -- subnormal or zero (u = uMin)
  else
    let biased := u - f.uMin + 1
    if biased ≥ (2 ^ f.eb - 1 : Nat) then none else some (biased.toNat * 2 ^ (f.mb - 1) + (m - 2 ^ (f.mb - 1)))

def roundToDouble (p q : Nat) : Option Nat := roundToBin binary64 p q

/-- the bit pattern of the number of format `b` denoted by the lexed text; `none` = overflow -/
def FloatLex.evalB (b : BinFmt) (f : FloatLex) : Option Nat :=
  let sign := if f.neg then 2 ^ (b.eb + b.mb - 1) else 0
  let mant := stripZeros (f.ip ++ f.fp)
  let M := digitsVal mant
  if M = 0 then some sign
  else
    let nd : Int := mant.length
    let exd := stripZeros f.ex
    -- exponents with more than 6 significant digits are far outside the range of both formats
    if exd.length > 6 then (if f.eneg then some sign else none)
    else
      let e : Int := (if f.eneg then -(digitsVal exd : Int) else (digitsVal exd : Int)) - (f.fp.length : Int)
      if e + nd > 310 then none
      else if e + nd < -400 then some sign
      else
        let r := if e ≥ 0 then roundToBin b (M * 10 ^ e.toNat) 1 else roundToBin b M (10 ^ (-e).toNat)
        r.map (· + sign)

def FloatLex.eval (f : FloatLex) : Option Nat := f.evalB binary64

def extractBin (b : BinFmt) (s : Str) : Option (Nat × Str) :=
  match extractFloatLex s with
  | none => none
  | some (f, rest) => match f.evalB b with
    | none => none
    | some v => some (v, rest)

/-- `s >> x` for a `float` -/
def extractFloat (s : Str) : Option (Nat × Str) := extractBin binary32 s

def parseFloat (s : Str) : Option Nat := parseScalar extractFloat s

def extractDouble (s : Str) : Option (Nat × Str) :=
  match extractFloatLex s with
  | none => none
  | some (f, rest) => match f.eval with
    | none => none
    | some v => some (v, rest)

def parseDouble (s : Str) : Option Nat := parseScalar extractDouble s

/-! ### canonical decimal text (the inverse direction of `get_int_roundtrip`) -/

def digitChar (d : Nat) : Char := Char.ofNat (48 + d)

def showNat (n : Nat) : Str :=
  if n < 10 then [digitChar n] else showNat (n / 10) ++ [digitChar (n % 10)]
termination_by n
decreasing_by omega

/-- what `operator<<` prints for a built-in integer in the classic locale -/
def showInt (i : Int) : Str := if i < 0 then '-' :: showNat i.natAbs else showNat i.natAbs

end DV.C12
