import DuneVerif.Model.C01.Basic
import DuneVerif.Gen.C01
/-!
C01 — executable model of the dense matrix / vector operations of dune-common (core Lean only).

* `Rep K` : the representations a matrix can come in — `full` (FieldMatrix, DynamicMatrix: the generic
  `DenseMatrix` kernels), `diag` (DiagonalMatrix: its own kernels), `scalar` (ScalarMatrixView: a `DenseMatrix`
  of shape 1x1), `transposed r` (TransposedMatrixWrapper around `r`: forwards the kernels it offers; wrappers nest).
* `repKernel` runs kernel `k` on a representation through the tables generated from the source
  (`Gen.denseSig`, `Gen.diagSig`, `Gen.wrapFwd`).
* matrix-matrix products, `leftmultiply/rightmultiply(any)`, `multMatrix`, `multTransposedMatrix`, `transposed` are the
  loop nests `prodSem` / `transSem` run on the tables `Gen.psig_*` / `Gen.tsig_*` that the translator reads from
  fmatrix.hh / densematrix.hh / dynmatrix.hh; `multAssign*` are `kernelSem` on `Gen.sig_multAssign*`.
* the vector operations of densevector.hh are the elementwise loops `elemSem` on the tables `Gen.vsig_*`; the dot products
  use the argument order and the conjugated argument read from densevector.hh / dotproduct.hh.
* hand-written (tied to the code by the differential run only): the FieldMatrix<K,1,1> / FieldVector<K,1> specialisations,
  the row-wise delegation of the DenseMatrix compound assignments to the vector operations, DiagonalMatrix * DiagonalMatrix,
  conversions.
* round four: the FieldVector / FieldMatrix operators with a scalar (`*`, `/`), `FieldMatrix ± FieldMatrix` and the unary
  minus of DenseMatrix are the fresh-result loops `ewSemVec` / `ewSemMat` on `Gen.fvsig_*`, `Gen.fmsig_*`, `Gen.msig_neg`;
  `negObj` says what unary minus does to the storage of its operand (`Gen.vnegResult`, `Gen.mnegResult`).
-/
namespace DV.C01

section
variable {K : Type _} [Zero K] [Add K] [Sub K] [Mul K] [Neg K] [Div K]

/-! ### representations -/

inductive Rep (K : Type _) where
  | full (m : Mat K)
  | diag (n : Nat) (d : Nat → K)
  | scalar (a : K)
  | transposed (r : Rep K)

/-- (rows, cols) of a representation -/
def Rep.shape : Rep K → Nat × Nat
  | .full m => (m.rows, m.cols)
  | .diag n _ => (n, n)
  | .scalar _ => (1, 1)
  | .transposed r => (r.shape.2, r.shape.1)

def Rep.rows (r : Rep K) : Nat := r.shape.1
def Rep.cols (r : Rep K) : Nat := r.shape.2

def transposeMat (A : Mat K) : Mat K := ⟨A.cols, A.rows, fun i j => A.e j i⟩

/-- the full matrix with the same entries -/
def Rep.toFull : Rep K → Mat K
  | .full m => m
  | .diag n d => ⟨n, n, fun i j => if i = j then d i else 0⟩
  | .scalar a => ⟨1, 1, fun _ _ => a⟩
  | .transposed r => transposeMat r.toFull

/-- does the representation have a member function for kernel `k`?  (the wrapper only has what transpose.hh
forwards) -/
def offers : KName → Rep K → Bool
  | _, .full _ => true
  | _, .diag _ _ => true
  | _, .scalar _ => true
  | k, .transposed r =>
    match Gen.wrapFwd k with
    | some k' => offers k' r
    | none => false

/-- kernel `k` of representation `rep` applied to `alpha, x, y` (returns the new `y`) -/
def repKernel (conj : K → K) : KName → Rep K → K → (Nat → K) → Vec K → Vec K
  | k, .full m, al, x, y => kernelSem (Gen.denseSig k) conj m.rows m.cols m.e al x y
  | k, .diag n d, al, x, y => diagKernelSem (Gen.diagSig k) conj n d al x y
  | k, .scalar a, al, x, y => kernelSem (Gen.denseSig k) conj 1 1 (fun _ _ => a) al x y
  | k, .transposed r, al, x, y =>
    match Gen.wrapFwd k with
    | some k' => repKernel conj k' r al x y
    | none => y

/-- a freshly constructed (value-initialised) result vector of size `n` -/
def zeroVec (n : Nat) : Vec K := ⟨n, fun _ => 0⟩

/-- a freshly constructed (value-initialised) matrix -/
def zeroMat (r c : Nat) : Mat K := ⟨r, c, fun _ _ => 0⟩

/-! ### matrix-matrix products -/

/-- `acc = 0; for (k = 0; k < n; ++k) acc += f k` -/
def sumLoop (n : Nat) (f : Nat → K) : K := forN n (fun k acc => acc + f k) 0

/-- fmatrix.hh `operator*(FieldMatrix, FieldMatrix)`: the loop nest `Gen.psig_fmMul` on a fresh `result` -/
def matmul (A B : Mat K) : Mat K := prodSem Gen.psig_fmMul A B (zeroMat A.rows B.cols)

/-- fmatrix.hh, class FieldMatrix<K,1,1>: `result[0][j] = matrixA[0][0] * matrixB[0][j]` -/
def matmul11 (A B : Mat K) : Mat K := ⟨1, B.cols, fun _ j => A.e 0 0 * B.e 0 j⟩

/-- fmatrix.hh `FieldMatrix * OtherMatrix`: row j of the result is `B.mtv(A[j])`
(kernel name read from the source: `Gen.fmMulOther` / `Gen.fm11MulOther`) -/
def mulFmOther (conj : K → K) (k : KName) (A : Mat K) (B : Rep K) : Mat K :=
  ⟨A.rows, B.cols, fun j => (repKernel conj k B 0 (A.e j) (zeroVec B.cols)).get⟩

/-- fmatrix.hh `OtherMatrix * FieldMatrix`: column j of the result is `A.mv(column j of B)` -/
def mulOtherFm (conj : K → K) (k : KName) (A : Rep K) (B : Mat K) : Mat K :=
  ⟨A.rows, B.cols, fun i j => (repKernel conj k A 0 (fun l => B.e l j) (zeroVec A.rows)).get i⟩

/-- transpose.hh `A * transposedView(B)`: row j of the result is `B.mv(A[j])`; `B` is the wrapped matrix -/
def mulTransposedView (conj : K → K) (k : KName) (A : Mat K) (B : Rep K) : Mat K :=
  ⟨A.rows, B.rows, fun j => (repKernel conj k B 0 (A.e j) (zeroVec B.rows)).get⟩

/-- diagonalmatrix.hh `operator*(DiagonalMatrix, DiagonalMatrix)` -/
def mulDiag (d e : Nat → K) : Nat → K := fun i => d i * e i

/-- densematrix.hh `leftmultiply(M)`: `C = *this`; the nest `Gen.psig_dmLeftmultiply` writes `*this` from `M` and `C` -/
def leftmultiply (A M : Mat K) : Mat K := prodSem Gen.psig_dmLeftmultiply M A A

/-- densematrix.hh `rightmultiply(M)`: `C = *this`; the nest `Gen.psig_dmRightmultiply` writes `*this` from `C` and `M` -/
def rightmultiply (A M : Mat K) : Mat K := prodSem Gen.psig_dmRightmultiply A M A

/-- fmatrix.hh `FieldMatrix::rightmultiply(FieldMatrix)` (its own overload, same construction) -/
def rightmultiplyFM (A M : Mat K) : Mat K := prodSem Gen.psig_fmRightmultiply A M A

/-- FieldMatrix<K,1,1>::rightmultiply: `_data[0] *= M[0][0]` -/
def rightmultiply11 (A M : Mat K) : Mat K := ⟨1, 1, fun _ _ => A.e 0 0 * M.e 0 0⟩

/-- fmatrix.hh `leftmultiplyany(M)`: `M` is l x rows; the nest `Gen.psig_fmLeftmultiplyany` on a fresh `C` -/
def leftmultiplyany (A M : Mat K) : Mat K := prodSem Gen.psig_fmLeftmultiplyany M A (zeroMat M.rows A.cols)

/-- FieldMatrix<K,1,1>::leftmultiplyany: `C[j][0] = M[j][0]*(*this)[0][0]` -/
def leftmultiplyany11 (A M : Mat K) : Mat K := ⟨M.rows, 1, fun j _ => M.e j 0 * A.e 0 0⟩

/-- fmatrix.hh `rightmultiplyany(M)`: `M` is cols x l; the nest `Gen.psig_fmRightmultiplyany` on a fresh `C` -/
def rightmultiplyany (A M : Mat K) : Mat K := prodSem Gen.psig_fmRightmultiplyany A M (zeroMat A.rows M.cols)

/-- FieldMatrix<K,1,1>::rightmultiplyany: `C[0][j] = M[0][j]*_data[0]` -/
def rightmultiplyany11 (A M : Mat K) : Mat K := ⟨1, M.cols, fun _ j => M.e 0 j * A.e 0 0⟩

/-- FMatrixHelp::multMatrix(A, B, ret): the nest `Gen.psig_multMatrix` on the caller's `ret` -/
def multMatrix (A B ret : Mat K) : Mat K := prodSem Gen.psig_multMatrix A B ret

/-- FMatrixHelp::multTransposedMatrix(matrix, ret): the nest `Gen.psig_multTransposedMatrix` (both factors read `matrix`) -/
def multTransposedMatrix (A ret : Mat K) : Mat K := prodSem Gen.psig_multTransposedMatrix A A ret

/-- DenseMatrixHelp::multAssign(matrix, x, ret): the loop nest `Gen.sig_multAssign` on the caller's `ret` -/
def multAssign (A : Mat K) (x : Nat → K) (ret : Vec K) : Vec K :=
  kernelSem Gen.sig_multAssign (fun z => z) A.rows A.cols A.e 0 x ret

/-- FMatrixHelp::multAssignTransposed(matrix, x, ret): the loop nest `Gen.sig_multAssignTransposed` -/
def multAssignT (A : Mat K) (x : Nat → K) (ret : Vec K) : Vec K :=
  kernelSem Gen.sig_multAssignTransposed (fun z => z) A.rows A.cols A.e 0 x ret

/-! ### conversion between representations -/

/-- `FieldMatrix / DynamicMatrix = other representation` (DenseMatrixAssigner): rows are copied; a diagonal matrix is
assigned as `dense = 0; dense[i][i] = diagonal[i]` -/
def assignFrom : Rep K → Mat K
  | .diag n d => forN n (fun i (M : Mat K) => M.upd i i (d i)) (zeroMat n n)
  | r => r.toFull

/-! ### transposition -/

/-- `FieldMatrix::transposed`: the nest `Gen.tsig_fm` (`AT[j][i] = this[i][j]`) on a fresh `AT` -/
def transposed (A : Mat K) : Mat K := transSem Gen.tsig_fm A (zeroMat A.cols A.rows)

/-- `DynamicMatrix::transposed`: the nest `Gen.tsig_dyn` on `AT(M(), N())` -/
def transposedDyn (A : Mat K) : Mat K := transSem Gen.tsig_dyn A (zeroMat A.cols A.rows)

/-- `transposed()` / `transpose()` / `asDense()` per representation, as a full matrix
(diagonal and 1x1 matrices return themselves) -/
def Rep.transposedFull (r : Rep K) : Mat K := transposeMat r.toFull

/-! ### vector-space operations on vectors (densevector.hh: the elementwise loops `Gen.vsig_*`) -/

/-- `*this += x` -/
def vPlusAssign (t : Vec K) (x : Nat → K) : Vec K := elemSem Gen.vsig_plusAssign t.n t.get 0 x t
/-- `*this -= x` -/
def vMinusAssign (t : Vec K) (x : Nat → K) : Vec K := elemSem Gen.vsig_minusAssign t.n t.get 0 x t
/-- `*this += k` -/
def vPlusAssignScalar (t : Vec K) (k : K) : Vec K := elemSem Gen.vsig_plusAssignScalar t.n t.get k (fun _ => 0) t
/-- `*this -= k` -/
def vMinusAssignScalar (t : Vec K) (k : K) : Vec K := elemSem Gen.vsig_minusAssignScalar t.n t.get k (fun _ => 0) t
/-- `*this *= k` -/
def vTimesAssign (t : Vec K) (k : K) : Vec K := elemSem Gen.vsig_timesAssign t.n t.get k (fun _ => 0) t
/-- `*this /= k` -/
def vDivAssign (t : Vec K) (k : K) : Vec K := elemSem Gen.vsig_divAssign t.n t.get k (fun _ => 0) t
/-- `this->axpy(a, x)` -/
def vAxpy (t : Vec K) (a : K) (x : Nat → K) : Vec K := elemSem Gen.vsig_axpy t.n t.get a x t
/-- unary minus: `result = *this; result[i] = -asImp()[i]` -/
def vNeg (t : Vec K) : Vec K := elemSem Gen.vsig_neg t.n t.get 0 (fun _ => 0) t

def applyVia : ViaAssign → Vec K → (Nat → K) → Vec K
  | .plusAssign => vPlusAssign
  | .minusAssign => vMinusAssign

/-- `a + b`: `z = a; return z += b` (which compound assignment: read from the source) -/
def vPlus (a : Vec K) (b : Nat → K) : Vec K := applyVia Gen.vplusVia a b
/-- `a - b` -/
def vMinus (a : Vec K) (b : Nat → K) : Vec K := applyVia Gen.vminusVia a b

/-- binary `a + b` / `a - b` applied to an object whose storage holds `a`, with `r` the value `z` has after `z += b` / `z -= b`:
(the result, the storage of the first operand afterwards).  When `z` is declared with the operand's own type
(`Gen.vplusResult = .sameType`) and the operand is a scalar view, `z` is a second handle onto the same scalar and the compound
assignment writes through it -/
def binObj (mode : NegResult) (isView : Bool) (a r : Vec K) : Vec K × Vec K :=
  if mode == .sameType && isView then (r, r) else (r, a)

/-- fvector.hh `vector * scalar`: the loop `Gen.fvsig_times` (`result[i] = vector[i] * scalar`) on a fresh `result` -/
def vscale (n : Nat) (x : Nat → K) (k : K) : Nat → K := (ewSemVec Gen.fvsig_times n x x k (zeroVec n)).get
/-- fvector.hh `scalar * vector`: the loop `Gen.fvsig_ltimes` -/
def vscaleL (n : Nat) (k : K) (x : Nat → K) : Nat → K := (ewSemVec Gen.fvsig_ltimes n x x k (zeroVec n)).get
/-- fvector.hh `vector / scalar`: the loop `Gen.fvsig_over` -/
def vdiv (n : Nat) (x : Nat → K) (k : K) : Nat → K := (ewSemVec Gen.fvsig_over n x x k (zeroVec n)).get

/-- the scalar `dot(a,b)` of dotproduct.hh -/
def scalarDot (c : ConjArg) (conj : K → K) (a b : K) : K :=
  match c with
  | .first => conj a * b
  | .second => a * conj b
  | .none => a * b

def ordered (o : ArgOrder) (s x : K) : K × K :=
  match o with
  | .selfX => (s, x)
  | .xSelf => (x, s)

/-- `operator*` (dotT): `result(0); result += (*this)[i]*x[i]` -/
def vdotT (n : Nat) (a b : Nat → K) : K :=
  sumLoop n (fun i => (ordered Gen.vdotTOrder (a i) (b i)).1 * (ordered Gen.vdotTOrder (a i) (b i)).2)

/-- `dot`: `result(0); result += Dune::dot((*this)[i], x[i])`; `cplx` selects the overload of the scalar dot
(field type different from its real type) -/
def vdot (cplx : Bool) (conj : K → K) (n : Nat) (a b : Nat → K) : K :=
  sumLoop n (fun i => scalarDot (if cplx then Gen.scalarDotComplex else Gen.scalarDotReal) conj
    (ordered Gen.vdotOrder (a i) (b i)).1 (ordered Gen.vdotOrder (a i) (b i)).2)

/-! ### vector-space operations on matrices (densematrix.hh: row-wise delegation to the vector operations) -/

/-- row `i` of a matrix as a vector that is written to -/
def Mat.row (A : Mat K) (i : Nat) : Vec K := ⟨A.cols, A.e i⟩

/-- `for i < rows: (*this)[i] (op) ...` -/
def rowwise (A : Mat K) (f : Nat → Vec K → Vec K) : Mat K := ⟨A.rows, A.cols, fun i => (f i (A.row i)).get⟩

/-- `*this += B` -/
def madd (A B : Mat K) : Mat K := rowwise A fun i r => vPlusAssign r (B.e i)
/-- `*this -= B` -/
def msub (A B : Mat K) : Mat K := rowwise A fun i r => vMinusAssign r (B.e i)
/-- `*this *= k` -/
def mscale (A : Mat K) (k : K) : Mat K := rowwise A fun _ r => vTimesAssign r k
/-- `*this /= k` -/
def mdiv (A : Mat K) (k : K) : Mat K := rowwise A fun _ r => vDivAssign r k
/-- `axpy(a, X)` -/
def maxpy (A : Mat K) (a : K) (X : Mat K) : Mat K := rowwise A fun i r => vAxpy r a (X.e i)
/-- unary minus: `result = asImp()` (a copy), then the nest `Gen.msig_neg` (`result[i][j] = -asImp()[i][j]`) -/
def mneg (A : Mat K) : Mat K := ewSemMat Gen.msig_neg A.rows A.cols A.e A.e 0 A

/-- unary minus applied to an object whose storage holds `b`: (the result, the storage afterwards).  When the result is
declared with the operand's own type (`Gen.*negResult = .sameType`) and the operand is a scalar view, the "copy" is a second
handle onto the same scalar and the loop writes the negated entries through it -/
def negObj (mode : NegResult) (isView : Bool) (b : Mat K) : Mat K × Mat K :=
  if mode == .sameType && isView then (mneg b, mneg b) else (mneg b, b)

/-- fmatrix.hh `FieldMatrix + FieldMatrix`: the nest `Gen.fmsig_plus` (`result[i][j] = matrixA[i][j] + matrixB[i][j]`) on a fresh result -/
def mplus (A B : Mat K) : Mat K := ewSemMat Gen.fmsig_plus A.rows A.cols A.e B.e 0 (zeroMat A.rows A.cols)
/-- fmatrix.hh `FieldMatrix - FieldMatrix` -/
def mminus (A B : Mat K) : Mat K := ewSemMat Gen.fmsig_minus A.rows A.cols A.e B.e 0 (zeroMat A.rows A.cols)
/-- fmatrix.hh `matrix * scalar` -/
def mtimes (A : Mat K) (k : K) : Mat K := ewSemMat Gen.fmsig_times A.rows A.cols A.e A.e k (zeroMat A.rows A.cols)
/-- fmatrix.hh `scalar * matrix` -/
def mltimes (k : K) (A : Mat K) : Mat K := ewSemMat Gen.fmsig_ltimes A.rows A.cols A.e A.e k (zeroMat A.rows A.cols)
/-- fmatrix.hh `matrix / scalar` -/
def mover (A : Mat K) (k : K) : Mat K := ewSemMat Gen.fmsig_over A.rows A.cols A.e A.e k (zeroMat A.rows A.cols)

end

section
variable {K : Type _} [DecidableEq K]

/-- `for (i < n) if (!(p i)) return false; return true` -/
def allN (n : Nat) (p : Nat → Bool) : Bool := forN n (fun i ok => ok && p i) true

/-- `operator==` of DenseVector -/
def veq (n : Nat) (x y : Nat → K) : Bool := allN n (fun i => decide (x i = y i))
/-- `operator==` of DenseMatrix (row by row) -/
def meq (A B : Mat K) : Bool := allN A.rows (fun i => veq A.cols (A.e i) (B.e i))

end

/-- the four order relations of FieldVector<K,1> (fvector.hh) -/
inductive OrdRel where
  | lt | le | gt | ge
  deriving DecidableEq, Repr

/-- `a[0] < b`, `a[0] <= b`, `a[0] > b`, `a[0] >= b` decided with the `<` of the scalar type (a linear order) -/
def ordRel {K : Type _} (lt : K → K → Bool) (r : OrdRel) (a b : K) : Bool :=
  match r with
  | .lt => lt a b
  | .le => !lt b a
  | .gt => lt b a
  | .ge => !lt a b

end DV.C01
