import DuneVerif.Model.C01.Basic
import DuneVerif.Gen.C01
/-!
C01 — executable model of the dense matrix / vector operations of dune-common (core Lean only).

* `Rep K` : the representations a matrix can come in — `full` (FieldMatrix, DynamicMatrix: the generic
  `DenseMatrix` kernels), `diag` (DiagonalMatrix: its own kernels), `scalar` (ScalarMatrixView: a `DenseMatrix`
  of shape 1x1), `transposed r` (TransposedMatrixWrapper around `r`: forwards the kernels it offers).
* `repKernel` runs kernel `k` on a representation through the tables generated from the source
  (`Gen.denseSig`, `Gen.diagSig`, `Gen.wrapFwd`).
* matrix-matrix products, `leftmultiply/rightmultiply(any)`, `transposed`, and the vector-space operations,
  written as the loops of fmatrix.hh / densematrix.hh / densevector.hh (the accumulation order of every
  inner product loop is kept: `acc = 0; acc += a*b` for k = 0, 1, …).
-/
namespace DV.C01

section
variable {K : Type _} [Zero K] [Add K] [Sub K] [Mul K] [Neg K] [Div K]

/-! ### representations -/

inductive Rep (K : Type _) where
  | full (m : Mat K)
  | diag (n : Nat) (d : Nat → K)
  | scalar (a : K)
  | transposed (r : Rep K)

/-- (rows, cols) of a representation -/
def Rep.shape : Rep K → Nat × Nat
  | .full m => (m.rows, m.cols)
  | .diag n _ => (n, n)
  | .scalar _ => (1, 1)
  | .transposed r => (r.shape.2, r.shape.1)

def Rep.rows (r : Rep K) : Nat := r.shape.1
def Rep.cols (r : Rep K) : Nat := r.shape.2

def transposeMat (A : Mat K) : Mat K := ⟨A.cols, A.rows, fun i j => A.e j i⟩

/-- the full matrix with the same entries -/
def Rep.toFull : Rep K → Mat K
  | .full m => m
  | .diag n d => ⟨n, n, fun i j => if i = j then d i else 0⟩
  | .scalar a => ⟨1, 1, fun _ _ => a⟩
  | .transposed r => transposeMat r.toFull

/-- does the representation have a member function for kernel `k`?  (the wrapper only has what transpose.hh
forwards) -/
def offers : KName → Rep K → Bool
  | _, .full _ => true
  | _, .diag _ _ => true
  | _, .scalar _ => true
  | k, .transposed r =>
    match Gen.wrapFwd k with
    | some k' => offers k' r
    | none => false

/-- kernel `k` of representation `rep` applied to `alpha, x, y` (returns the new `y`) -/
def repKernel (conj : K → K) : KName → Rep K → K → (Nat → K) → Vec K → Vec K
  | k, .full m, al, x, y => kernelSem (Gen.denseSig k) conj m.rows m.cols m.e al x y
  | k, .diag n d, al, x, y => diagKernelSem (Gen.diagSig k) conj n d al x y
  | k, .scalar a, al, x, y => kernelSem (Gen.denseSig k) conj 1 1 (fun _ _ => a) al x y
  | k, .transposed r, al, x, y =>
    match Gen.wrapFwd k with
    | some k' => repKernel conj k' r al x y
    | none => y

/-- a freshly constructed (value-initialised) result vector of size `n` -/
def zeroVec (n : Nat) : Vec K := ⟨n, fun _ => 0⟩

/-! ### matrix-matrix products -/

/-- `acc = 0; for (k = 0; k < n; ++k) acc += f k` -/
def sumLoop (n : Nat) (f : Nat → K) : K := forN n (fun k acc => acc + f k) 0

/-- fmatrix.hh `operator*(FieldMatrix, FieldMatrix)`, `FMatrixHelp::multMatrix` -/
def matmul (A B : Mat K) : Mat K :=
  ⟨A.rows, B.cols, fun i j => sumLoop A.cols (fun k => A.e i k * B.e k j)⟩

/-- fmatrix.hh, class FieldMatrix<K,1,1>: `result[0][j] = matrixA[0][0] * matrixB[0][j]` -/
def matmul11 (A B : Mat K) : Mat K := ⟨1, B.cols, fun _ j => A.e 0 0 * B.e 0 j⟩

/-- fmatrix.hh `FieldMatrix * OtherMatrix`: row j of the result is `B.mtv(A[j])`
(kernel name read from the source: `Gen.fmMulOther` / `Gen.fm11MulOther`) -/
def mulFmOther (conj : K → K) (k : KName) (A : Mat K) (B : Rep K) : Mat K :=
  ⟨A.rows, B.cols, fun j => (repKernel conj k B 0 (A.e j) (zeroVec B.cols)).get⟩

/-- fmatrix.hh `OtherMatrix * FieldMatrix`: column j of the result is `A.mv(column j of B)` -/
def mulOtherFm (conj : K → K) (k : KName) (A : Rep K) (B : Mat K) : Mat K :=
  ⟨A.rows, B.cols, fun i j => (repKernel conj k A 0 (fun l => B.e l j) (zeroVec A.rows)).get i⟩

/-- transpose.hh `A * transposedView(B)`: row j of the result is `B.mv(A[j])`; `B` is the wrapped matrix -/
def mulTransposedView (conj : K → K) (k : KName) (A : Mat K) (B : Rep K) : Mat K :=
  ⟨A.rows, B.rows, fun j => (repKernel conj k B 0 (A.e j) (zeroVec B.rows)).get⟩

/-- diagonalmatrix.hh `operator*(DiagonalMatrix, DiagonalMatrix)` -/
def mulDiag (d e : Nat → K) : Nat → K := fun i => d i * e i

/-- densematrix.hh `leftmultiply`: `C = *this; this[i][j] = 0; for k < rows: this[i][j] += M[i][k]*C[k][j]` -/
def leftmultiply (A M : Mat K) : Mat K :=
  ⟨A.rows, A.cols, fun i j => sumLoop A.rows (fun k => M.e i k * A.e k j)⟩

/-- densematrix.hh / fmatrix.hh `rightmultiply`: `this[i][j] += C[i][k]*M[k][j]`, k < cols -/
def rightmultiply (A M : Mat K) : Mat K :=
  ⟨A.rows, A.cols, fun i j => sumLoop A.cols (fun k => A.e i k * M.e k j)⟩

/-- FieldMatrix<K,1,1>::rightmultiply: `_data[0] *= M[0][0]` -/
def rightmultiply11 (A M : Mat K) : Mat K := ⟨1, 1, fun _ _ => A.e 0 0 * M.e 0 0⟩

/-- fmatrix.hh `leftmultiplyany`: `C[i][j] += M[i][k]*this[k][j]`, `M` is l x rows -/
def leftmultiplyany (A M : Mat K) : Mat K :=
  ⟨M.rows, A.cols, fun i j => sumLoop A.rows (fun k => M.e i k * A.e k j)⟩

/-- FieldMatrix<K,1,1>::leftmultiplyany: `C[j][0] = M[j][0]*(*this)[0][0]` -/
def leftmultiplyany11 (A M : Mat K) : Mat K := ⟨M.rows, 1, fun j _ => M.e j 0 * A.e 0 0⟩

/-- fmatrix.hh `rightmultiplyany`: `C[i][j] += this[i][k]*M[k][j]`, `M` is cols x l -/
def rightmultiplyany (A M : Mat K) : Mat K :=
  ⟨A.rows, M.cols, fun i j => sumLoop A.cols (fun k => A.e i k * M.e k j)⟩

/-- FieldMatrix<K,1,1>::rightmultiplyany: `C[0][j] = M[0][j]*_data[0]` -/
def rightmultiplyany11 (A M : Mat K) : Mat K := ⟨1, M.cols, fun _ j => M.e 0 j * A.e 0 0⟩

/-- FMatrixHelp::multTransposedMatrix: `ret[i][j] += matrix[k][i]*matrix[k][j]`, k < rows -/
def multTransposedMatrix (A : Mat K) : Mat K :=
  ⟨A.cols, A.cols, fun i j => sumLoop A.rows (fun k => A.e k i * A.e k j)⟩

/-- DenseMatrixHelp::multAssign: `ret[i] = 0; ret[i] += matrix[i][j]*x[j]` -/
def multAssign (A : Mat K) (x : Nat → K) : Nat → K := fun i => sumLoop A.cols (fun j => A.e i j * x j)

/-- FMatrixHelp::multAssignTransposed: `ret[i] = 0; ret[i] += matrix[j][i]*x[j]` -/
def multAssignT (A : Mat K) (x : Nat → K) : Nat → K := fun i => sumLoop A.rows (fun j => A.e j i * x j)

/-! ### conversion between representations -/

/-- `FieldMatrix / DynamicMatrix = other representation` (DenseMatrixAssigner): rows are copied; a diagonal matrix is
assigned as `dense = 0; dense[i][i] = diagonal[i]` -/
def assignFrom : Rep K → Mat K
  | .diag n d => forN n (fun i (M : Mat K) => ⟨M.rows, M.cols, fun a b => if a = i ∧ b = i then d i else M.e a b⟩) ⟨n, n, fun _ _ => 0⟩
  | r => r.toFull

/-! ### transposition -/

/-- `FieldMatrix::transposed`, `DynamicMatrix::transposed`: `AT[j][i] = this[i][j]` -/
def transposed (A : Mat K) : Mat K := transposeMat A

/-- `transposed()` / `transpose()` / `asDense()` per representation, as a full matrix
(diagonal and 1x1 matrices return themselves) -/
def Rep.transposedFull (r : Rep K) : Mat K := transposeMat r.toFull

/-! ### vector-space operations on matrices (densematrix.hh, fmatrix.hh) -/

def madd (A B : Mat K) : Mat K := ⟨A.rows, A.cols, fun i j => A.e i j + B.e i j⟩
def msub (A B : Mat K) : Mat K := ⟨A.rows, A.cols, fun i j => A.e i j - B.e i j⟩
/-- `*= k` and `matrix * scalar` -/
def mscale (A : Mat K) (k : K) : Mat K := ⟨A.rows, A.cols, fun i j => A.e i j * k⟩
/-- `scalar * matrix` -/
def mscaleL (k : K) (A : Mat K) : Mat K := ⟨A.rows, A.cols, fun i j => k * A.e i j⟩
def mdiv (A : Mat K) (k : K) : Mat K := ⟨A.rows, A.cols, fun i j => A.e i j / k⟩
/-- `axpy(a, X)`: `this[i][j] += a * X[i][j]` -/
def maxpy (A : Mat K) (a : K) (X : Mat K) : Mat K := ⟨A.rows, A.cols, fun i j => A.e i j + a * X.e i j⟩
def mneg (A : Mat K) : Mat K := ⟨A.rows, A.cols, fun i j => - A.e i j⟩

/-! ### vector-space operations on vectors (densevector.hh, fvector.hh); `n` = size -/

def vadd (x y : Nat → K) : Nat → K := fun i => x i + y i
def vsub (x y : Nat → K) : Nat → K := fun i => x i - y i
def vneg (x : Nat → K) : Nat → K := fun i => - x i
def vaddScalar (x : Nat → K) (k : K) : Nat → K := fun i => x i + k
def vsubScalar (x : Nat → K) (k : K) : Nat → K := fun i => x i - k
/-- `*= k`, `vector * scalar` -/
def vscale (x : Nat → K) (k : K) : Nat → K := fun i => x i * k
/-- `scalar * vector` -/
def vscaleL (k : K) (x : Nat → K) : Nat → K := fun i => k * x i
def vdiv (x : Nat → K) (k : K) : Nat → K := fun i => x i / k
/-- `axpy(a, x)`: `this[i] += a * x[i]` -/
def vaxpy (y : Nat → K) (a : K) (x : Nat → K) : Nat → K := fun i => y i + a * x i
/-- `operator*` (dotT): `result += this[i]*x[i]`, no conjugation -/
def vdotT (n : Nat) (a b : Nat → K) : K := sumLoop n (fun i => a i * b i)
/-- `dot`: `result += Dune::dot(this[i], x[i]) = conj(this[i]) * x[i]` — conjugates the FIRST argument -/
def vdot (conj : K → K) (n : Nat) (a b : Nat → K) : K := sumLoop n (fun i => conj (a i) * b i)

end

section
variable {K : Type _} [DecidableEq K]

/-- `for (i < n) if (!(p i)) return false; return true` -/
def allN (n : Nat) (p : Nat → Bool) : Bool := forN n (fun i ok => ok && p i) true

/-- `operator==` of DenseVector -/
def veq (n : Nat) (x y : Nat → K) : Bool := allN n (fun i => decide (x i = y i))
/-- `operator==` of DenseMatrix (row by row) -/
def meq (A B : Mat K) : Bool := allN A.rows (fun i => veq A.cols (A.e i) (B.e i))

end

end DV.C01
