/-
C06 — executable model of `Dune::VariableSizeCommunicator` (dune/common/parallel/variablesizecommunicator.hh),
core Lean only.  The model follows the C++ control flow function by function:

  MessageBuffer            `MessageBuffer`  (size_, position_, the cells written / received)
  InterfaceTracker         `Tracker`        (index_, interface_, sizes_, fixedSize; skipZeroIndices, moveToNextIndex, …)
  PackEntries              `packEntries`    (fixed branch `packFixedLoop`, variable branch `packVarLoop`)
  SetupSendRequest         `setupSend`
  SetupRecvRequest         `setupRecv`      (with the repair fixes/C06_zero_sizes_hang.patch; `repaired := false` gives
                                             the behaviour of the code before the repair)
  UnpackEntries            `unpackEntries`  (`unpackFixedLoop`, `unpackVarLoop`)
  UnpackSizeEntries        `unpackSizeEntries`
  SizeDataHandle           `sizeHandle`
  setupInterfaceTrackers   `setupInterfaceTrackers`
  checkAndContinue + the progress loops, seen from one neighbour:
                           `sendAll` (every message one send tracker produces, in order) and
                           `recvLoop`/`recvAll` (what one receive tracker does with the FIFO stream of messages of its
                           peer: unpack, skip, re-post), plus the small-step machine `Pair` (actions deliver / sendDone /
                           recvDone) and its free product over all neighbour relations (`sysStep`, `sysExec`) used for
                           the schedule theorems.

Representation: a tracker keeps the *not yet visited* tails `interface_[index_..]` and `sizes_[index_..]` in `iface` and
`sizes` and counts the visited entries in `index` (a zipper for the C++ index into two arrays).  `hasSizes` stands for
"the size array was allocated"; `sizes_.size()` in `skipZeroIndices` is additionally zero for an empty interface, but
then `index_ == interface_.size()` stops the loop anyway.
A data handle is `data : Nat → List α` (what `gather(i)` writes) with `size i = (data i).length`; `scatter` is recorded
as a `Call`.
-/
namespace DV.C06

/-! ### MessageBuffer -/

structure MessageBuffer (α : Type) where
  size : Nat
  cells : List α
  position : Nat
deriving Repr

namespace MessageBuffer
variable {α : Type}

def new (size : Nat) : MessageBuffer α := ⟨size, [], 0⟩
/-- `position_ = 0`.  The C++ array keeps its old cells; they are never read before being overwritten (a handle
    writes `size(i)` items in `gather(i)`, a received message overwrites the front), so the model forgets them. -/
def reset (b : MessageBuffer α) : MessageBuffer α := { b with position := 0, cells := [] }
/-- `write` for every item of `xs` -/
def write (b : MessageBuffer α) (xs : List α) : MessageBuffer α :=
  { b with cells := b.cells.take b.position ++ xs, position := b.position + xs.length }
/-- `n` times `read` -/
def read (b : MessageBuffer α) (n : Nat) : List α × MessageBuffer α :=
  ((b.cells.drop b.position).take n, { b with position := b.position + n })
def hasSpaceForItems (b : MessageBuffer α) (n : Nat) : Bool := b.position + n ≤ b.size
/-- MPI delivered `msg` into the array of the buffer -/
def received (b : MessageBuffer α) (msg : List α) : MessageBuffer α := { b with cells := msg }

end MessageBuffer

/-! ### data handles -/

structure Handle (α : Type) where
  fixed : Bool
  data : Nat → List α

def Handle.size {α} (h : Handle α) (i : Nat) : Nat := (h.data i).length

/-- `SizeDataHandle`: fixed size 1, gathers `data_.size(i)` -/
def sizeHandle {α} (h : Handle α) : Handle Nat := ⟨true, fun i => [h.size i]⟩

/-- a recorded `scatter(buffer, index, count)` with the items read -/
structure Call (α : Type) where
  index : Nat
  count : Nat
  items : List α
deriving Repr, DecidableEq

/-! ### InterfaceTracker -/

structure Tracker where
  rank : Nat
  index : Nat
  iface : List Nat
  hasSizes : Bool
  sizes : List Nat
  fixedSize : Nat
deriving Repr, DecidableEq

/-- the loop of `skipZeroIndices` on (interface tail, size tail, index) -/
def skipZ : List Nat → List Nat → Nat → List Nat × List Nat × Nat
  | i :: is, s :: ss, k => if s = 0 then skipZ is ss (k + 1) else (i :: is, s :: ss, k)
  | is, ss, k => (is, ss, k)

namespace Tracker

def mk' (rank : Nat) (info : List Nat) (fixedsize : Nat := 0) (allocateSizes : Bool := false) : Tracker :=
  { rank, index := 0, iface := info, hasSizes := allocateSizes,
    sizes := if allocateSizes then List.replicate info.length 0 else [], fixedSize := fixedsize }

def finished (t : Tracker) : Bool := t.iface.isEmpty
def indicesLeft (t : Tracker) : Nat := t.iface.length
def offset (t : Tracker) : Nat := t.index

def skipZeroIndices (t : Tracker) : Tracker :=
  if t.hasSizes then
    let r := skipZ t.iface t.sizes t.index
    { t with iface := r.1, sizes := r.2.1, index := r.2.2 }
  else t

def moveToNextIndex (t : Tracker) : Tracker :=
  skipZeroIndices { t with index := t.index + 1, iface := t.iface.tail, sizes := t.sizes.tail }

/-- the `MPI_Irecv(&(iter->fixedSize), …)` of `sendFixedSize` completed with value `f` -/
def setFixedSize (t : Tracker) (f : Nat) : Tracker := { t with fixedSize := f }

def increment (t : Tracker) (n : Nat) : Tracker :=
  { t with index := t.index + n, iface := t.iface.drop n, sizes := t.sizes.drop n }

end Tracker

/-! ### PackEntries -/

variable {α : Type}

def packFixedLoop (h : Handle α) : Nat → Tracker → MessageBuffer α → Tracker × MessageBuffer α
  | 0, t, b => (t, b)
  | n + 1, t, b =>
    match t.iface with
    | [] => (t, b)
    | i :: _ => packFixedLoop h n t.moveToNextIndex (b.write (h.data i))

/-- `while(!tracker.finished()) if(buffer.hasSpaceForItems(size)) {gather; packed+=size; moveToNextIndex} else break;`
    (`fuel` = indices left: every iteration visits at least one) -/
def packVarLoop (h : Handle α) : Nat → Tracker → MessageBuffer α → Nat → Nat × Tracker × MessageBuffer α
  | 0, t, b, packed => (packed, t, b)
  | fuel + 1, t, b, packed =>
    match t.iface with
    | [] => (packed, t, b)
    | i :: _ =>
      if b.hasSpaceForItems (h.size i) then
        packVarLoop h fuel t.moveToNextIndex (b.write (h.data i)) (packed + h.size i)
      else (packed, t, b)

/-- returns (number of items packed, tracker, buffer) -/
def packEntries (h : Handle α) (t : Tracker) (b : MessageBuffer α) : Nat × Tracker × MessageBuffer α :=
  if t.fixedSize ≠ 0 then
    let n := min (b.size / t.fixedSize) t.indicesLeft
    let r := packFixedLoop h n t b
    (n * t.fixedSize, r.1, r.2)
  else
    let t := t.skipZeroIndices
    packVarLoop h t.indicesLeft t b 0

/-! ### SetupSendRequest / SetupRecvRequest -/

/-- `while(!tracker.finished() && !handle.size(tracker.index())) tracker.moveToNextIndex();` -/
def skipZeroSend (h : Handle α) : Nat → Tracker → Tracker
  | 0, t => t
  | fuel + 1, t =>
    match t.iface with
    | [] => t
    | i :: _ => if h.size i = 0 then skipZeroSend h fuel t.moveToNextIndex else t

structure SendSetup (α : Type) where
  tracker : Tracker
  buffer : MessageBuffer α
  /-- `some m`: `MPI_Issend(buffer, size)` was started with these items -/
  message : Option (List α)

def setupSend (h : Handle α) (t : Tracker) (b : MessageBuffer α) : SendSetup α :=
  let b := b.reset
  let r := packEntries h t b
  let t := skipZeroSend h r.2.1.indicesLeft r.2.1
  { tracker := t, buffer := r.2.2, message := if r.1 ≠ 0 then some (r.2.2.cells.take r.1) else none }

/-- returns (tracker, buffer, was `MPI_Irecv` posted?).  `repaired = true` is the code with
    fixes/C06_zero_sizes_hang.patch (zero-size indices are skipped before the decision). -/
def setupRecv {β : Type} (repaired : Bool) (t : Tracker) (b : MessageBuffer β) : Tracker × MessageBuffer β × Bool :=
  let b := b.reset
  let t := if repaired then t.skipZeroIndices else t
  (t, b, t.indicesLeft ≠ 0)

/-! ### UnpackEntries / UnpackSizeEntries -/

def unpackFixedLoop : Nat → Tracker → MessageBuffer α → List (Call α) → Tracker × MessageBuffer α × List (Call α)
  | 0, t, b, cs => (t, b, cs)
  | n + 1, t, b, cs =>
    match t.iface with
    | [] => (t, b, cs)
    | i :: _ =>
      let r := b.read t.fixedSize
      unpackFixedLoop n t.moveToNextIndex r.2 (cs ++ [⟨i, t.fixedSize, r.1⟩])

/-- `for(int unpacked=0; unpacked<count;) { scatter(buffer, index, size); unpacked+=size; moveToNextIndex(); }` -/
def unpackVarLoop (count : Nat) : Nat → Nat → Tracker → MessageBuffer α → List (Call α) →
    Tracker × MessageBuffer α × List (Call α)
  | 0, _, t, b, cs => (t, b, cs)
  | fuel + 1, unpacked, t, b, cs =>
    if unpacked < count then
      match t.iface, t.sizes with
      | i :: _, s :: _ =>
        let r := b.read s
        unpackVarLoop count fuel (unpacked + s) t.moveToNextIndex r.2 (cs ++ [⟨i, s, r.1⟩])
      | _, _ => (t, b, cs)   -- assert(!tracker.finished()) fails
    else (t, b, cs)

def unpackEntries (t : Tracker) (b : MessageBuffer α) (count : Nat) (cs : List (Call α)) :
    Tracker × MessageBuffer α × List (Call α) :=
  if t.fixedSize ≠ 0 then
    unpackFixedLoop (min (b.size / t.fixedSize) t.indicesLeft) t b cs
  else
    unpackVarLoop count t.indicesLeft 0 t b cs

/-- `std::copy(buffer, buffer+n, sizes+offset)` -/
def writeAt (dst : List Nat) (off : Nat) (chunk : List Nat) : List Nat :=
  dst.take off ++ chunk ++ dst.drop (off + chunk.length)

/-- `dst` is the size array of the data receive tracker of the same neighbour -/
def unpackSizeEntries (t : Tracker) (b : MessageBuffer Nat) (dst : List Nat) : Tracker × List Nat :=
  let n := min b.size t.indicesLeft
  (t.increment n, writeAt dst t.offset (b.cells.take n))

/-! ### one neighbour, seen from the sender: every message of one send tracker -/

structure SendRun (α : Type) where
  messages : List (List α)
  tracker : Tracker
  /-- a continuation packed nothing although indices are left: the request stays null, the counter is never decremented -/
  stuck : Bool

/-- initial `setupRequests`, then for every completed send `checkAndContinue`: `if(!tracker.finished()) SetupSendRequest` -/
def sendAll (h : Handle α) : Nat → Bool → Tracker → MessageBuffer α → SendRun α
  | 0, _, t, _ => ⟨[], t, true⟩
  | fuel + 1, initial, t, b =>
    let r := setupSend h t b
    match r.message with
    | none => ⟨[], r.tracker, !initial⟩
    | some m =>
      let t := r.tracker.skipZeroIndices
      if t.finished then ⟨[m], t, false⟩
      else
        let rest := sendAll h fuel false t r.buffer
        ⟨m :: rest.messages, rest.tracker, rest.stuck⟩

/-! ### one neighbour, seen from the receiver -/

structure RecvRun (σ : Type) where
  acc : σ
  /-- number of `MPI_Irecv` posted -/
  posted : Nat
  /-- messages of the peer for which no receive was posted (their `MPI_Issend` never completes) -/
  unreceived : Nat
  /-- a receive is posted for which no message comes -/
  waiting : Bool
  /-- indices are left but no receive is posted -/
  stuck : Bool
  tracker : Tracker

def RecvRun.ok {σ} (r : RecvRun σ) : Bool := !r.waiting && !r.stuck && r.unreceived == 0 && r.tracker.finished

/-- a receive is posted; `msgs` is what the peer sends from now on.  Per completed receive `checkAndContinue` does:
    unpack; `skipZeroIndices`; `if(!finished) { SetupRecvRequest; skipZeroIndices; }`. -/
def recvLoop {β σ : Type} (repaired getCount : Bool)
    (unpack : Tracker → MessageBuffer β → Nat → σ → Tracker × MessageBuffer β × σ) :
    List (List β) → Tracker → MessageBuffer β → Nat → σ → RecvRun σ
  | [], t, _, posted, acc => ⟨acc, posted, 0, true, false, t⟩
  | m :: ms, t, b, posted, acc =>
    let b := b.received m
    let r := unpack t b (if getCount then m.length else 0) acc
    let t := r.1.skipZeroIndices
    if t.finished then ⟨r.2.2, posted, ms.length, false, false, t⟩
    else
      let s := setupRecv repaired t r.2.1
      let t := s.1.skipZeroIndices
      if s.2.2 then recvLoop repaired getCount unpack ms t s.2.1 (posted + 1) r.2.2
      else ⟨r.2.2, posted, ms.length, false, true, t⟩

/-- initial `setupRequests(…, SetupRecvRequest)`, then `recvLoop` -/
def recvAll {β σ : Type} (repaired getCount : Bool)
    (unpack : Tracker → MessageBuffer β → Nat → σ → Tracker × MessageBuffer β × σ)
    (msgs : List (List β)) (t : Tracker) (b : MessageBuffer β) (acc : σ) : RecvRun σ :=
  let s := setupRecv repaired t b
  if s.2.2 then recvLoop repaired getCount unpack msgs s.1 s.2.1 1 acc
  else ⟨acc, 0, msgs.length, false, false, s.1⟩

def unpackSizes (t : Tracker) (b : MessageBuffer Nat) (_count : Nat) (dst : List Nat) :
    Tracker × MessageBuffer Nat × List Nat :=
  let r := unpackSizeEntries t b dst
  (r.1, b, r.2)

/-! ### one directed neighbour relation p → q, whole phases -/

/-- `communicateSizes` for one neighbour: p's sizes of `sendIdx` travel in rounds of `B` into the size array (initially
    zeros) of q's data receive tracker.  Both trackers are those `setupInterfaceTrackers(size_handle, …)` creates. -/
def exchangeSizes (repaired : Bool) (B : Nat) (h : Handle α) (sendIdx recvIdx : List Nat) :
    SendRun Nat × RecvRun (List Nat) :=
  let s := sendAll (sizeHandle h) (sendIdx.length + 1) true (Tracker.mk' 0 sendIdx 1) (MessageBuffer.new B)
  let r := recvAll repaired false unpackSizes s.messages (Tracker.mk' 0 recvIdx 1) (MessageBuffer.new B)
             (List.replicate recvIdx.length 0)
  (s, r)

structure PairRun (α : Type) where
  calls : List (Call α)
  /-- every send completed, every receive completed, all trackers finished -/
  returns : Bool
  dataMessages : Nat
  receivesPosted : Nat

/-- `communicateVariableSize` for one directed neighbour relation -/
def communicatePairVar (repaired : Bool) (B : Nat) (h : Handle α) (sendIdx recvIdx : List Nat) : PairRun α :=
  let sz := exchangeSizes repaired B h sendIdx recvIdx
  let recvT : Tracker := { Tracker.mk' 0 recvIdx 0 true with sizes := sz.2.acc }
  let s := sendAll h (sendIdx.length + 1) true (Tracker.mk' 0 sendIdx 0) (MessageBuffer.new B)
  let r := recvAll repaired true unpackEntries s.messages recvT (MessageBuffer.new B) []
  { calls := r.acc,
    returns := sz.2.ok && !sz.1.stuck && sz.1.tracker.finished && r.ok && !s.stuck && s.tracker.finished,
    dataMessages := s.messages.length, receivesPosted := r.posted }

/-- `communicateFixedSize` for one directed neighbour relation; `fSend` is the `fixedSize` of p's send tracker, which
    `sendFixedSize` transmits into q's receive tracker; the data receive is set up when that scalar has arrived
    (`receiveSizeAndSetupReceive`: `skipZeroIndices; if(!finished) SetupRecvRequest`). -/
def communicatePairFixed (repaired : Bool) (B : Nat) (h : Handle α) (fSend : Nat) (sendIdx recvIdx : List Nat) :
    PairRun α :=
  let s := sendAll h (sendIdx.length + 1) true (Tracker.mk' 0 sendIdx fSend) (MessageBuffer.new B)
  let recvT : Tracker := (Tracker.mk' 0 recvIdx 0).setFixedSize fSend
  let recvT := recvT.skipZeroIndices
  let r : RecvRun (List (Call α)) :=
    if recvT.finished then ⟨[], 0, s.messages.length, false, false, recvT⟩
    else recvAll repaired false unpackEntries s.messages recvT (MessageBuffer.new B) []
  { calls := r.acc, returns := r.ok && !s.stuck && s.tracker.finished,
    dataMessages := s.messages.length, receivesPosted := r.posted }

/-! ### setupInterfaceTrackers -/

/-- one entry of an `InterfaceMap`: neighbour rank, first list, second list -/
structure IfaceEntry where
  rank : Nat
  first : List Nat
  second : List Nat
deriving Repr

def IfaceEntry.send (fwd : Bool) (e : IfaceEntry) : List Nat := if fwd then e.first else e.second
def IfaceEntry.recv (fwd : Bool) (e : IfaceEntry) : List Nat := if fwd then e.second else e.first

/-- the loop over the interface map; `fixedsize` is carried from one neighbour to the next.
    Returns (send tracker, receive tracker) per neighbour. -/
def setupTrackersLoop (h : Handle α) (fwd : Bool) : List IfaceEntry → Nat → List (Tracker × Tracker)
  | [], _ => []
  | e :: es, fixedsize =>
    let fixedsize :=
      if h.fixed then
        match e.send fwd with
        | i :: _ => h.size i
        | [] => fixedsize
      else fixedsize
    (Tracker.mk' e.rank (e.send fwd) fixedsize, Tracker.mk' e.rank (e.recv fwd) fixedsize (fixedsize == 0))
      :: setupTrackersLoop h fwd es fixedsize

def setupInterfaceTrackers (h : Handle α) (fwd : Bool) (imap : List IfaceEntry) : List (Tracker × Tracker) :=
  setupTrackersLoop h fwd imap (if h.fixed then 1 else 0)

/-! ### the whole distributed communication (every rank, every neighbour) -/

structure RankData (α : Type) where
  imap : List IfaceEntry        -- sorted by neighbour rank (std::map order)
  handle : Handle α

/-- what rank `q` receives from its neighbour `e.rank` in one `forward`/`backward` -/
def receiveFrom (repaired : Bool) (B : Nat) (fwd : Bool) (ranks : List (RankData α)) (q : Nat) (e : IfaceEntry) :
    Option (PairRun α) :=
  match ranks[e.rank]? with
  | none => none
  | some pd =>
    -- the peer's trackers for q
    let trk := setupInterfaceTrackers pd.handle fwd pd.imap
    match (trk.zip pd.imap).find? (fun x => x.2.rank == q) with
    | none => none
    | some (ts, pe) =>
      if pd.handle.fixed then
        some (communicatePairFixed repaired B pd.handle ts.1.fixedSize (pe.send fwd) (e.recv fwd))
      else
        some (communicatePairVar repaired B pd.handle (pe.send fwd) (e.recv fwd))

/-! ### small-step machine of one directed neighbour relation (for the schedule theorem) -/

inductive SendReq where
  | null        -- MPI_REQUEST_NULL
  | active      -- MPI_Issend started, not yet matched by a receive
  | complete    -- matched: MPI_Testsome may report it
deriving Repr, DecidableEq

inductive RecvReq (β : Type) where
  | null
  | posted
  | complete (msg : List β)   -- a message was delivered into the buffer: MPI_Testsome may report it
deriving Repr

/-- sender at p, FIFO channel p → q, receiver at q for one phase (data or sizes) -/
structure Pair (α σ : Type) where
  st : Tracker
  sb : MessageBuffer α
  sreq : SendReq
  /-- the counter `no_to_send` still counts this neighbour -/
  sendOpen : Bool
  chan : List (List α)
  rt : Tracker
  rb : MessageBuffer α
  rreq : RecvReq α
  recvOpen : Bool
  acc : σ

inductive Action where
  | deliver    -- MPI matches the oldest message in the channel with the posted receive
  | sendDone   -- MPI_Testsome reports the completed send: checkAndContinue body for this neighbour
  | recvDone   -- MPI_Testsome reports the completed receive: checkAndContinue body for this neighbour
deriving Repr, DecidableEq

structure PairCfg (α σ : Type) where
  repaired : Bool
  getCount : Bool
  handle : Handle α
  unpack : Tracker → MessageBuffer α → Nat → σ → Tracker × MessageBuffer α × σ

/-- state after both sides ran their initial `setupRequests` -/
def Pair.init {σ} (c : PairCfg α σ) (st rt : Tracker) (B : Nat) (acc : σ) : Pair α σ :=
  let s := setupSend c.handle st (MessageBuffer.new B)
  let r := setupRecv c.repaired rt (MessageBuffer.new B)
  { st := s.tracker, sb := s.buffer,
    sreq := if s.message.isSome then .active else .null, sendOpen := s.message.isSome,
    chan := s.message.toList,
    rt := r.1, rb := r.2.1, rreq := if r.2.2 then .posted else .null, recvOpen := r.2.2, acc }

/-- one step; `none` = the action is not enabled -/
def Pair.step {σ} (c : PairCfg α σ) (s : Pair α σ) : Action → Option (Pair α σ)
  | .deliver =>
    match s.chan, s.rreq with
    | m :: ms, .posted => some { s with chan := ms, rreq := .complete m, sreq := .complete }
    | _, _ => none
  | .sendDone =>
    match s.sreq with
    | .complete =>
      let t := s.st.skipZeroIndices
      if t.finished then some { s with st := t, sreq := .null, sendOpen := false }
      else
        let r := setupSend c.handle t s.sb
        some { s with st := r.tracker.skipZeroIndices, sb := r.buffer,
                      sreq := if r.message.isSome then .active else .null,
                      chan := s.chan ++ r.message.toList }
    | _ => none
  | .recvDone =>
    match s.rreq with
    | .complete m =>
      let b := s.rb.received m
      let r := c.unpack s.rt b (if c.getCount then m.length else 0) s.acc
      let t := r.1.skipZeroIndices
      if t.finished then some { s with rt := t, rb := r.2.1, acc := r.2.2, rreq := .null, recvOpen := false }
      else
        let q := setupRecv c.repaired t r.2.1
        some { s with rt := q.1.skipZeroIndices, rb := q.2.1, acc := r.2.2,
                      rreq := if q.2.2 then .posted else .null }
    | _ => none

/-- both loops of this neighbour relation have counted down and nothing is in flight -/
def Pair.final {σ} (s : Pair α σ) : Bool :=
  !s.sendOpen && !s.recvOpen && s.chan.isEmpty && s.st.finished && s.rt.finished

/-- executing a schedule (list of actions) of one neighbour relation; `none` if an action is not enabled -/
def Pair.exec {σ} (c : PairCfg α σ) : Pair α σ → List Action → Option (Pair α σ)
  | s, [] => some s
  | s, a :: as => (Pair.step c s a).bind fun s' => Pair.exec c s' as

/-! ### the composed system of one phase: all directed neighbour relations of all ranks

Per neighbour the C++ code keeps its own tracker, buffer and request; `checkAndContinue` runs the body modelled by
`Pair.step` for whichever requests `MPI_Testsome` reports, in whatever order.  So the composed system is the free
interleaving of the per-neighbour machines: a schedule is a list of (component, action). -/

structure Comp (α σ : Type) where
  cfg : PairCfg α σ
  state : Pair α σ

def sysStep {σ} (ss : List (Comp α σ)) (i : Nat) (a : Action) : Option (List (Comp α σ)) :=
  match ss[i]? with
  | none => none
  | some x => (Pair.step x.cfg x.state a).map fun s' => ss.set i { x with state := s' }

def sysExec {σ} : List (Comp α σ) → List (Nat × Action) → Option (List (Comp α σ))
  | ss, [] => some ss
  | ss, ia :: rest => (sysStep ss ia.1 ia.2).bind fun ss' => sysExec ss' rest

/-- one directed neighbour relation of a data phase: the sender's handle and send list, `f` = fixed size (0 = variable
    size), the receiver's list -/
structure PairSpec (α : Type) where
  h : Handle α
  f : Nat
  sendIdx : List Nat
  recvIdx : List Nat

def dataCfg (p : PairSpec α) : PairCfg α (List (Call α)) := ⟨true, p.f == 0, p.h, unpackEntries⟩

/-- the receive tracker when the data phase starts: variable size: sizes known from `communicateSizes`;
    fixed size: `fixedSize` received from the peer -/
def PairSpec.recvTracker (p : PairSpec α) : Tracker :=
  if p.f = 0 then { Tracker.mk' 0 p.recvIdx 0 true with sizes := p.sendIdx.map p.h.size }
  else (Tracker.mk' 0 p.recvIdx 0).setFixedSize p.f

/-- state of one neighbour relation after the initial `setupRequests` of both sides (for fixed-size handles the
    first receive is really posted a little later, when the scalar size has arrived — a pure delay) -/
def dataInit (B : Nat) (p : PairSpec α) : Comp α (List (Call α)) :=
  ⟨dataCfg p, Pair.init (dataCfg p) (Tracker.mk' 0 p.sendIdx p.f) p.recvTracker B []⟩

def sizeCfg (p : PairSpec α) : PairCfg Nat (List Nat) := ⟨true, false, sizeHandle p.h, unpackSizes⟩

/-- the same neighbour relation in `communicateSizes` -/
def sizeInit (B : Nat) (p : PairSpec α) : Comp Nat (List Nat) :=
  ⟨sizeCfg p, Pair.init (sizeCfg p) (Tracker.mk' 0 p.sendIdx 1) (Tracker.mk' 0 p.recvIdx 1) B
     (List.replicate p.recvIdx.length 0)⟩


/-! ### rank level: `communicateVariableSize` on all ranks at once

Every rank runs `communicateSizes` (the size loop `while(size_to_send+size_to_recv)`), then `setupRequests` for the data
and the data loop `while(no_to_send+no_to_recv)`, then returns — each rank at its own pace.  The state of the whole
communication is: per rank its program position and the two counters of its current loop; per directed neighbour
relation src → dst (a *link*) the size-phase machine and the data-phase machine of that relation (`Pair`), where the two
sides of the data-phase machine are started separately, when the respective rank leaves its size loop.  Size messages
and data messages of a link travel with the same tag on the same communicator, i.e. through **one** FIFO: the physical
channel is `sz.chan ++ dt.chan`, and `LinkSt.confusable` describes the states in which MPI would match a message of
one phase with a receive posted by the other. -/

structure LinkSpec (α : Type) where
  src : Nat
  dst : Nat
  /-- the data handle of rank `src` -/
  h : Handle α
  /-- `src`'s list for `dst` (first list for forward, second for backward) -/
  sendIdx : List Nat
  /-- `dst`'s list for `src` -/
  recvIdx : List Nat

def LinkSpec.pair (l : LinkSpec α) : PairSpec α := ⟨l.h, 0, l.sendIdx, l.recvIdx⟩

structure LinkSt (α : Type) where
  sz : Pair Nat (List Nat)
  dt : Pair α (List (Call α))
  /-- rank `src` has left its size loop and run `setupRequests(…, SetupSendRequest)` for the data -/
  sStarted : Bool
  /-- rank `dst` has left its size loop and run `setupRequests(…, SetupRecvRequest)` for the data -/
  rStarted : Bool

/-- the data-phase machine before either side has started: no request, nothing in flight -/
def Pair.blank {σ} (acc : σ) : Pair α σ :=
  { st := Tracker.mk' 0 [], sb := MessageBuffer.new 0, sreq := .null, sendOpen := false, chan := [],
    rt := Tracker.mk' 0 [], rb := MessageBuffer.new 0, rreq := .null, recvOpen := false, acc }

/-- the sender's half of `Pair.init`: `SetupSendRequest` on the fresh send tracker -/
def startSend {σ} (B : Nat) (p : PairSpec α) (x : Pair α σ) : Pair α σ :=
  let s := setupSend p.h (Tracker.mk' 0 p.sendIdx p.f) (MessageBuffer.new B)
  { x with st := s.tracker, sb := s.buffer, sreq := if s.message.isSome then .active else .null,
           sendOpen := s.message.isSome, chan := s.message.toList }

/-- the receiver's half of `Pair.init` for a variable-size handle: the receive tracker carries the size array that
    `communicateSizes` has filled (`sizes`), then `SetupRecvRequest` -/
def startRecv (B : Nat) (p : PairSpec α) (sizes : List Nat) (x : Pair α (List (Call α))) : Pair α (List (Call α)) :=
  let rt : Tracker := { Tracker.mk' 0 p.recvIdx 0 true with sizes := sizes }
  let r := setupRecv (β := α) true rt (MessageBuffer.new B)
  { x with rt := r.1, rb := r.2.1, rreq := if r.2.2 then .posted else .null, recvOpen := r.2.2, acc := [] }

def RecvReq.isPosted {β : Type} : RecvReq β → Bool
  | .posted => true
  | _ => false

/-- MPI could match a size message with a posted data receive, or a data message with a posted size receive -/
def LinkSt.confusable (x : LinkSt α) : Bool :=
  (!x.sz.chan.isEmpty && x.dt.rreq.isPosted) || (x.sz.chan.isEmpty && !x.dt.chan.isEmpty && x.sz.rreq.isPosted)

structure VarSys (α : Type) where
  /-- per rank: 0 = in the size loop, 1 = in the data loop, 2 = `forward`/`backward` has returned -/
  phase : List Nat
  /-- per rank: `size_to_send` resp. `no_to_send` of the loop the rank is in -/
  toSend : List Nat
  /-- per rank: `size_to_recv` resp. `no_to_recv` -/
  toRecv : List Nat
  links : List (LinkSt α)

/-- number of links (position by position with their descriptions) that satisfy `sel` -/
def countSel {γ δ : Type} (sel : γ → δ → Bool) : List γ → List δ → Nat
  | l :: ls, x :: xs => (if sel l x then 1 else 0) + countSel sel ls xs
  | _, _ => 0

/-- `count_if(requests, valid)` of rank `p` after a `setupRequests`: its links whose request is not null -/
def sizeSendOpen (p : Nat) (l : LinkSpec α) (x : LinkSt α) : Bool := l.src == p && x.sz.sendOpen
def sizeRecvOpen (p : Nat) (l : LinkSpec α) (x : LinkSt α) : Bool := l.dst == p && x.sz.recvOpen
def dataSendOpen (p : Nat) (l : LinkSpec α) (x : LinkSt α) : Bool := l.src == p && x.dt.sendOpen
def dataRecvOpen (p : Nat) (l : LinkSpec α) (x : LinkSt α) : Bool := l.dst == p && x.dt.recvOpen

inductive GAct where
  /-- an action of the size-phase machine of link `i` -/
  | size (i : Nat) (a : Action)
  /-- an action of the data-phase machine of link `i` -/
  | data (i : Nat) (a : Action)
  /-- rank `p` finds `size_to_send+size_to_recv == 0`, leaves `communicateSizes`, sets up its data requests and counts
      the valid ones -/
  | advance (p : Nat)
  /-- rank `p` finds `no_to_send+no_to_recv == 0` and returns -/
  | ret (p : Nat)
deriving Repr, DecidableEq

/-- `counter -= 1` if the reported request closed its neighbour (tracker finished), as `checkAndContinue` returns it -/
def decIf (closed : Bool) (p : Nat) (cs : List Nat) : List Nat :=
  if closed then cs.set p (cs.getD p 0 - 1) else cs

/-- the data side(s) of link `l` that rank `p` starts when it leaves its size loop -/
def advanceLink (B p : Nat) (l : LinkSpec α) (x : LinkSt α) : LinkSt α :=
  let x := if l.src = p then { x with dt := startSend B l.pair x.dt, sStarted := true } else x
  if l.dst = p then { x with dt := startRecv B l.pair x.sz.acc x.dt, rStarted := true } else x

def varStep (B : Nat) (specs : List (LinkSpec α)) (g : VarSys α) : GAct → Option (VarSys α)
  | .size i a =>
    match specs[i]?, g.links[i]? with
    | some l, some x =>
      match a with
      | .deliver => (Pair.step (sizeCfg l.pair) x.sz .deliver).map fun s' => { g with links := g.links.set i { x with sz := s' } }
      | .sendDone =>
        -- `if(size_to_send) size_to_send -= checkSendAndContinueSending(…)` of rank `src`, which is in its size loop
        if g.phase.getD l.src 3 = 0 ∧ g.toSend.getD l.src 0 ≠ 0 then
          (Pair.step (sizeCfg l.pair) x.sz .sendDone).map fun s' =>
            { g with links := g.links.set i { x with sz := s' },
                     toSend := decIf (x.sz.sendOpen && !s'.sendOpen) l.src g.toSend }
        else none
      | .recvDone =>
        if g.phase.getD l.dst 3 = 0 ∧ g.toRecv.getD l.dst 0 ≠ 0 then
          (Pair.step (sizeCfg l.pair) x.sz .recvDone).map fun s' =>
            { g with links := g.links.set i { x with sz := s' },
                     toRecv := decIf (x.sz.recvOpen && !s'.recvOpen) l.dst g.toRecv }
        else none
    | _, _ => none
  | .data i a =>
    match specs[i]?, g.links[i]? with
    | some l, some x =>
      match a with
      | .deliver =>
        -- one FIFO per link and tag: a data message is matched only when no size message is ahead of it
        if x.sz.chan.isEmpty then
          (Pair.step (dataCfg l.pair) x.dt .deliver).map fun s' => { g with links := g.links.set i { x with dt := s' } }
        else none
      | .sendDone =>
        if g.phase.getD l.src 3 = 1 ∧ g.toSend.getD l.src 0 ≠ 0 then
          (Pair.step (dataCfg l.pair) x.dt .sendDone).map fun s' =>
            { g with links := g.links.set i { x with dt := s' },
                     toSend := decIf (x.dt.sendOpen && !s'.sendOpen) l.src g.toSend }
        else none
      | .recvDone =>
        if g.phase.getD l.dst 3 = 1 ∧ g.toRecv.getD l.dst 0 ≠ 0 then
          (Pair.step (dataCfg l.pair) x.dt .recvDone).map fun s' =>
            { g with links := g.links.set i { x with dt := s' },
                     toRecv := decIf (x.dt.recvOpen && !s'.recvOpen) l.dst g.toRecv }
        else none
    | _, _ => none
  | .advance p =>
    if p < g.phase.length ∧ g.phase.getD p 3 = 0 ∧ g.toSend.getD p 0 + g.toRecv.getD p 0 = 0 then
      let links := List.zipWith (advanceLink B p) specs g.links
      some { phase := g.phase.set p 1,
             toSend := g.toSend.set p (countSel (dataSendOpen p) specs links),
             toRecv := g.toRecv.set p (countSel (dataRecvOpen p) specs links),
             links }
    else none
  | .ret p =>
    if p < g.phase.length ∧ g.phase.getD p 3 = 1 ∧ g.toSend.getD p 0 + g.toRecv.getD p 0 = 0 then
      some { g with phase := g.phase.set p 2 }
    else none

def varExec (B : Nat) (specs : List (LinkSpec α)) : VarSys α → List GAct → Option (VarSys α)
  | g, [] => some g
  | g, a :: as => (varStep B specs g a).bind fun g' => varExec B specs g' as

/-- all `n` ranks have entered `communicateSizes` and run its two `setupRequests` -/
def varInit (B n : Nat) (specs : List (LinkSpec α)) : VarSys α :=
  let links := specs.map fun l => ({ sz := (sizeInit B l.pair).state, dt := Pair.blank [], sStarted := false, rStarted := false } : LinkSt α)
  { phase := List.replicate n 0,
    toSend := (List.range n).map fun p => countSel (sizeSendOpen p) specs links,
    toRecv := (List.range n).map fun p => countSel (sizeRecvOpen p) specs links,
    links }

/-- every rank has returned, and nothing of any link is left in flight or half done -/
def VarSys.final (g : VarSys α) : Bool :=
  g.phase.all (· == 2) && g.links.all fun x => x.sz.final && x.dt.final

end DV.C06
