/-
C13 — IndicesSyncer (dune/common/parallel/indicessyncer.hh) at the level of the message protocol.

What is modelled (after the repairs fixes/C13_*.patch):

* per rank: the index set as the list of its pairs `(global, attribute, local number)` in iteration order, and the
  `RemoteIndices` map as an association list `neighbour ↦ remote index list` in `std::map` order; a remote index is
  `(global, attribute of the referenced local pair, remote attribute)`.  During `sync()` the code itself replaces the
  pointer to the local pair by exactly this key (`globalMap_`), and `repairLocalIndexPointers` re-resolves it by
  `(global, attribute)` after the index set has been re-sorted: `resolve`.
* `messages`: `packAndSend` runs for every old neighbour *before* any receive, hence from the pre-sync state, and
  publishes only entries flagged old (all of them at that moment): for every index `g` of `p` in order and every
  neighbour `q` whose list has an entry for `g`:  `(g, attr_p g, [(r, attr_r) | r's list has an entry for g])`.
* `receiveItem`: `recvAndUnpack` for one published index: the pair naming the receiver gives the attribute of the
  receiver's copy; the index is added to the index set unless a pair `(g, attr)` is already there (either before the
  sync or added earlier in the same sync — the index set is in its resize phase, `endResize` sorts and merges the new
  pairs; the model keeps the pairs in one sorted list, which is the same list when the keys are distinct);
  `insertIntoRemoteIndexList` for the source and every third party: sorted position by `(g, own attribute)`, no
  insertion if the run of equal keys already has an entry with that remote attribute; unknown processes become new
  neighbours.
* the order in which the messages of the neighbours are processed is a parameter (`recvAll` takes the list of
  messages in processing order); `sync` uses the fixed order (ascending source rank), `syncOrd` any order.  A sync
  consumes exactly the messages of this sync, one per old neighbour: in arrival-order mode the code probes only the
  neighbours it has not heard of yet (fixes/C13_syncer_arrival_order_mixes_syncs.patch; with MPI_ANY_SOURCE the
  message a fast neighbour sends in its *next* sync could be taken instead), so consecutive syncs compose as
  `sync ∘ sync` and histories are lists of `Step`s (Proofs/C13Add.lean).
* sequence numbers: `endResize` increments the index set's; `sync` ends with `sourceSeqNo_ = destSeqNo_ = seqNo`.
* numberer objects with internal state (`receiveItemS … syncS`): the numberer is called exactly when an index is
  added, on the caller's object, in processing order.
* the wire format as three lists of field types (`WireLayout`); the lists themselves are regenerated from
  `calculateMessageSizes`, `packAndSend` and `recvAndUnpack` on every run (Gen/C13.lean, tools/translators/tr_c13.py).

Not modelled: the bytes MPI_Pack produces, the SLList iterator bookkeeping (`Iterators`, `resetIteratorsMap`,
`checkReset`).  Core Lean only.
-/
namespace DV.C13

/- ranks and attributes are `Nat`, global indices `Int` (written out so that `omega` sees the arithmetic) -/

structure IdxEntry where
  g : Int
  attr : Nat
  loc : Nat
deriving DecidableEq, Repr

structure RemEntry where
  g : Int
  own : Nat
  rem : Nat
deriving DecidableEq, Repr

structure RankState where
  idx : List IdxEntry
  remote : List (Nat × List RemEntry)
  idxSeq : Nat
  remSeq : Nat
deriving DecidableEq, Repr

abbrev World := List RankState

structure Item where
  g : Int
  srcAttr : Nat
  pairs : List (Nat × Nat)
deriving DecidableEq, Repr

/-- the remote index list kept for neighbour `q` (empty when `q` is not a neighbour) -/
def listOf (remote : List (Nat × List RemEntry)) (q : Nat) : List RemEntry :=
  (remote.lookup q).getD []

def isNeighbour (remote : List (Nat × List RemEntry)) (q : Nat) : Bool :=
  remote.any (fun x => x.1 == q)

/-! ### packing -/

/-- the processes whose (old) remote index list has an entry for `g`, with the attribute recorded there, in map order -/
def holders (remote : List (Nat × List RemEntry)) (g : Int) : List (Nat × Nat) :=
  remote.filterMap fun x => (x.2.find? (fun en => en.g == g)).map (fun en => (x.1, en.rem))

/-- what `packAndSend(destination = q)` puts into the message -/
def itemsFor (st : RankState) (q : Nat) : List Item :=
  st.idx.filterMap fun e =>
    let hs := holders st.remote e.g
    if hs.any (fun h => h.1 == q) then some ⟨e.g, e.attr, hs⟩ else none

/-- the messages addressed to `q`: one from every process that has `q` as a neighbour (possibly without items),
in ascending order of the source -/
def inbox (w : World) (q : Nat) : List (Nat × List Item) :=
  (List.range w.length).filterMap fun p =>
    match w[p]? with
    | some st => if isNeighbour st.remote q then some (p, itemsFor st q) else none
    | none => none

/-! ### receiving -/

def idxLt (a b : IdxEntry) : Bool := a.g < b.g || (a.g == b.g && a.attr < b.attr)

/-- sorted position by (global, attribute): what `std::sort` + `merge` of `endResize` produce -/
def insertIdx (n : IdxEntry) : List IdxEntry → List IdxEntry
  | [] => [n]
  | e :: es => if idxLt e n then e :: insertIdx n es else n :: e :: es

def hasKey (idx : List IdxEntry) (g : Int) (a : Nat) : Bool :=
  idx.any (fun e => e.g == g && e.attr == a)

def remLt (a b : RemEntry) : Bool := a.g < b.g || (a.g == b.g && a.own < b.own)
def sameKey (a b : RemEntry) : Bool := a.g == b.g && a.own == b.own

/-- `insertIntoRemoteIndexList` on one list -/
def insertEntry (n : RemEntry) : List RemEntry → List RemEntry
  | [] => [n]
  | e :: es =>
    if remLt e n then e :: insertEntry n es
    else if !sameKey e n then n :: e :: es
    else if ((e :: es).takeWhile (fun x => sameKey x n)).any (fun x => x.rem == n.rem) then e :: es
    else n :: e :: es

/-- the map part of `insertIntoRemoteIndexList`: find the process or create the new neighbour -/
def insertRemote (x : Nat) (n : RemEntry) : List (Nat × List RemEntry) → List (Nat × List RemEntry)
  | [] => [(x, [n])]
  | (y, l) :: rest =>
    if y < x then (y, l) :: insertRemote x n rest
    else if y = x then (y, insertEntry n l) :: rest
    else (x, [n]) :: (y, l) :: rest

/-- one published index of a message from `src`, received by `me` -/
def receiveItem (num : Int → Nat) (me src : Nat) (st : RankState) (it : Item) : RankState :=
  match it.pairs.lookup me with
  | none => st
  | some a =>
    let idx' := if hasKey st.idx it.g a then st.idx else insertIdx ⟨it.g, a, num it.g⟩ st.idx
    let others := (src, it.srcAttr) :: it.pairs.filter (fun x => x.1 != me)
    let remote' := others.foldl (fun r x => insertRemote x.1 ⟨it.g, a, x.2⟩ r) st.remote
    { st with idx := idx', remote := remote' }

def receiveMsg (num : Int → Nat) (me : Nat) (st : RankState) (m : Nat × List Item) : RankState :=
  m.2.foldl (receiveItem num me m.1) st

/-- all messages, in the order given -/
def recvAll (num : Int → Nat) (me : Nat) (st : RankState) (msgs : List (Nat × List Item)) : RankState :=
  msgs.foldl (receiveMsg num me) st

/-- `endResize` (sequence number) and the last line of `sync` -/
def finish (st : RankState) : RankState :=
  { st with idxSeq := st.idxSeq + 1, remSeq := st.idxSeq + 1 }

def syncRank (num : Int → Nat) (w : World) (q : Nat) (st : RankState) : RankState :=
  finish (recvAll num q st (inbox w q))

/-- the collective operation, fixed processing order -/
def sync (num : Int → Nat) (w : World) : World :=
  w.mapIdx fun q st => syncRank num w q st

/-- the collective operation when rank `q` processes its messages in the order `ord q (inbox w q)` -/
def syncOrd (ord : Nat → List (Nat × List Item) → List (Nat × List Item)) (num : Int → Nat) (w : World) : World :=
  w.mapIdx fun q st => finish (recvAll num q st (ord q (inbox w q)))

def isSynced (st : RankState) : Bool := st.remSeq == st.idxSeq

/-! ### a user-supplied numberer object with internal state

`sync(T1& numberer, bool)` takes the numberer by reference and calls `numberer(global)` exactly when an index is added
to the index set; a numberer may have state (a counter handing out consecutive local indices, a free list ...).
`nm s g = (local number, next state)`.  The functions below are `receiveItem … sync` with the numberer state
threaded through the receives in processing order; `Proofs/C13Shape.lean` shows that they coincide with the pure
versions for a numberer without state and, for any numberer, produce the same index set (global, attribute) pairs and
the same remote index lists. -/

def receiveItemS {σ : Type} (nm : σ → Int → Nat × σ) (me src : Nat) (x : RankState × σ) (it : Item) : RankState × σ :=
  match it.pairs.lookup me with
  | none => x
  | some a =>
    let others := (src, it.srcAttr) :: it.pairs.filter (fun y => y.1 != me)
    let remote' := others.foldl (fun r y => insertRemote y.1 ⟨it.g, a, y.2⟩ r) x.1.remote
    if hasKey x.1.idx it.g a then ({ x.1 with remote := remote' }, x.2)
    else
      let r := nm x.2 it.g
      ({ x.1 with idx := insertIdx ⟨it.g, a, r.1⟩ x.1.idx, remote := remote' }, r.2)

def receiveMsgS {σ : Type} (nm : σ → Int → Nat × σ) (me : Nat) (x : RankState × σ) (m : Nat × List Item) : RankState × σ :=
  m.2.foldl (receiveItemS nm me m.1) x

def recvAllS {σ : Type} (nm : σ → Int → Nat × σ) (me : Nat) (x : RankState × σ) (msgs : List (Nat × List Item)) :
    RankState × σ :=
  msgs.foldl (receiveMsgS nm me) x

def syncRankS {σ : Type} (nm : σ → Int → Nat × σ) (w : World) (q : Nat) (x : RankState × σ) : RankState × σ :=
  let r := recvAllS nm q x (inbox w q)
  (finish r.1, r.2)

/-- the collective operation (fixed processing order) when rank `q` uses a numberer object in state `ss[q]` -/
def syncS {σ : Type} (nm : σ → Int → Nat × σ) (w : World) (ss : List σ) : List (RankState × σ) :=
  (w.zip ss).mapIdx fun q x => syncRankS nm w q x

/-- a counting numberer: hands out `base, base+1, …` (state = number of calls so far) -/
def countingNumberer (base : Nat) : Nat → Int → Nat × Nat := fun c _ => (base + c, c + 1)

/-- any numberer together with a counter of its calls -/
def counted {σ : Type} (nm : σ → Int → Nat × σ) : σ × Nat → Int → Nat × (σ × Nat) :=
  fun s g => ((nm s.1 g).1, ((nm s.1 g).2, s.2 + 1))

/-- the numberer object of the harness: recycles the slots of a free list (front first), then hands out fresh
numbers `next, next+1, …`; state = (free list, next) -/
def slotNumberer : List Nat × Nat → Int → Nat × (List Nat × Nat) := fun s _ =>
  match s.1 with
  | x :: xs => (x, (xs, s.2))
  | [] => (s.2, ([], s.2 + 1))

/-- `repairLocalIndexPointers`: position of the pair `(global, attribute)` in the index set -/
def resolve (idx : List IdxEntry) (en : RemEntry) : Option Nat :=
  idx.findIdx? (fun e => e.g == en.g && e.attr == en.own)

/-! ### the consistent state of a decomposition (the specification of `RemoteIndices::rebuild`) -/

/-- per rank the sorted list of (global, attribute) -/
abbrev Decomp := List (List (Int × Nat))

def Decomp.slice (D : Decomp) (p : Nat) : List (Int × Nat) := D.getD p []
def Decomp.attrOf (D : Decomp) (p : Nat) (g : Int) : Option Nat := (D.slice p).lookup g

/-- the common indices, in the order of `mine` -/
def interList (mine other : List (Int × Nat)) : List RemEntry :=
  mine.filterMap fun x => (other.lookup x.1).map fun b => ⟨x.1, x.2, b⟩

def numberFrom : Nat → List (Int × Nat) → List IdxEntry
  | _, [] => []
  | i, x :: xs => ⟨x.1, x.2, i⟩ :: numberFrom (i + 1) xs

def consistentRank (D : Decomp) (p : Nat) (mine : List (Int × Nat)) : RankState :=
  { idx := numberFrom 0 mine
    remote := (List.range D.length).filterMap fun q =>
      if q = p then none
      else
        let l := interList mine (D.slice q)
        if l.isEmpty then none else some (q, l)
    idxSeq := 1
    remSeq := 1 }

def consistent (D : Decomp) : World := D.mapIdx fun p mine => consistentRank D p mine

/-- delete local copies and their remote entries (one resize of the index set) -/
def deleteRank (del : Int → Bool) (st : RankState) : RankState :=
  { st with
    idx := st.idx.filter (fun e => !del e.g)
    remote := st.remote.map fun x => (x.1, x.2.filter (fun en => !del en.g))
    idxSeq := st.idxSeq + 1 }

def deleteCopies (del : Nat → Int → Bool) (w : World) : World :=
  w.mapIdx fun p st => deleteRank (del p) st

/-- add a new local index together with remote entries for the given neighbours (one resize; used by the driver for
the cases in which a process announces copies the others do not have yet) -/
def addCopy (st : RankState) (g : Int) (a : Nat) (loc : Nat) (known : List (Nat × Nat)) : RankState :=
  { st with
    idx := insertIdx ⟨g, a, loc⟩ st.idx
    remote := st.remote.map fun x =>
      match known.lookup x.1 with
      | some b => (x.1, insertEntry ⟨g, a, b⟩ x.2)
      | none => x }

/-! ### the wire format (field types only; the three layouts themselves are regenerated from the source: Gen/C13.lean) -/

inductive WireTy where
  | int | char | global
deriving DecidableEq, Repr

/-- the typed fields of a message: once per message, once per published index, once per (process, attribute) pair -/
structure WireLayout where
  header : List WireTy
  perIndex : List WireTy
  perPair : List WireTy
deriving DecidableEq, Repr

def WireLayout.groupBytes (sz : WireTy → Nat) (l : List WireTy) : Nat := (l.map sz).sum

/-- bytes of a message with `publish` published indices and `pairs` pairs in total, when one field of type `t` takes
`sz t` bytes in the packed representation -/
def WireLayout.bytes (L : WireLayout) (sz : WireTy → Nat) (publish pairs : Nat) : Nat :=
  WireLayout.groupBytes sz L.header + publish * WireLayout.groupBytes sz L.perIndex + pairs * WireLayout.groupBytes sz L.perPair

/-- every field type occurs in `b` at least as often as in `a` -/
def WireLayout.covers (a b : List WireTy) : Bool :=
  [WireTy.int, WireTy.char, WireTy.global].all fun t => a.count t ≤ b.count t


/-! ### round four: parts of the source read as data (Gen/C13.lean) and the definitions they are plugged into -/

inductive Cmp where
  | lt | le | gt | ge | eq | ne
deriving DecidableEq, Repr

/-- comparison of two keys `(global, own attribute)` in the lexicographic order of `std::pair` -/
def Cmp.evalKey (c : Cmp) (a b : RemEntry) : Bool :=
  let lt := a.g < b.g || (a.g == b.g && a.own < b.own)
  let eq := a.g == b.g && a.own == b.own
  match c with
  | .lt => lt
  | .le => lt || eq
  | .gt => !(lt || eq)
  | .ge => !lt
  | .eq => eq
  | .ne => !eq

def Cmp.evalNat (c : Cmp) (a b : Nat) : Bool :=
  match c with
  | .lt => a < b
  | .le => a ≤ b
  | .gt => b < a
  | .ge => b ≤ a
  | .eq => a == b
  | .ne => a != b

/-- the branch conditions of `insertIntoRemoteIndexList`, in source order -/
structure InsertConds where
  advanceWhile : Cmp   -- `while(notAtEnd && key(cursor) ? newKey) ++cursor`
  insertIf : Cmp       -- `if(atEnd || key(cursor) ? newKey) { insert; return; }`
  scanWhile : Cmp      -- `for(tmp = cursor; notAtEnd && key(tmp) ? newKey; ++tmp)`
  foundIf : Cmp        -- `if(remoteAttribute(tmp) ? attribute) { found = true; break; }`
  insertUnlessFound : Bool  -- `if(!found) insert` (true) / `if(found) insert` (false)
deriving DecidableEq, Repr

/-- the control-flow skeleton of `insertIntoRemoteIndexList` on one list with the conditions as parameters; the
translator checks the skeleton and regenerates the conditions (`Gen.insertConds`) -/
def insertEntryG (c : InsertConds) (n : RemEntry) : List RemEntry → List RemEntry
  | [] => [n]
  | e :: es =>
    if c.advanceWhile.evalKey e n then e :: insertEntryG c n es
    else if c.insertIf.evalKey e n then n :: e :: es
    else if (((e :: es).takeWhile (fun x => c.scanWhile.evalKey x n)).any (fun x => c.foundIf.evalNat x.rem n.rem))
        == c.insertUnlessFound then e :: es
    else n :: e :: es

/-- the phases of `sync(numberer, useFixedOrder)` the translator recognises -/
inductive Phase where
  | markPending | sizes | beginResize | pack | recv | waitall | clearIterators | endResize | repair
  | clearOld | clearAdded | clearGlobal | clearInfo | clearPending | seqSource | seqDest
deriving DecidableEq, Repr

/-- one statement of `sync`: the phase, the number of the innermost loop around it (0 = none), inside an if/else body -/
structure SyncEv where
  ph : Phase
  loop : Nat
  guarded : Bool
deriving DecidableEq, Repr

/-- `for(i = start; i ? bound; ++i)`: start, comparison, "the bound is the number of old neighbours", "the step is +1" -/
structure LoopHdr where
  start : Nat
  cmp : Cmp
  boundIsNeighbours : Bool
  stepInc : Bool
deriving DecidableEq, Repr

/-- the loop visits every old neighbour exactly once -/
def LoopHdr.full (h : LoopHdr) : Bool := h.start == 0 && h.cmp == .lt && h.boundIsNeighbours && h.stepInc

namespace SyncOrder
def count (evs : List SyncEv) (p : Phase) : Nat := evs.countP (fun e => e.ph == p)
def pos (evs : List SyncEv) (p : Phase) : Nat := evs.findIdx (fun e => e.ph == p)
def loopOf (evs : List SyncEv) (p : Phase) : Nat := ((evs.find? (fun e => e.ph == p)).map (·.loop)).getD 0
/-- the phase is executed exactly once per sync, unconditionally, outside every loop -/
def once (evs : List SyncEv) (p : Phase) : Bool :=
  count evs p == 1 && evs.all (fun e => e.ph != p || (e.loop == 0 && !e.guarded))
/-- the phase occurs exactly once in the text, unconditionally, inside a loop -/
def perNeighbour (evs : List SyncEv) (p : Phase) : Bool :=
  count evs p == 1 && evs.all (fun e => e.ph != p || (e.loop != 0 && !e.guarded))
def before (evs : List SyncEv) (a b : Phase) : Bool := pos evs a < pos evs b
end SyncOrder

open SyncOrder in
/-- what the protocol model assumes about the statement order of `sync`:
* `sizes` once and before the packing loop (the buffers are sized for the messages packed);
* the packing loop and the receiving loop are two different loops, the first complete before the second starts
  (`inbox` is computed from the pre-sync state of *every* process; no process waits for a message before all of its
  own are on their way);
* everything received is added between `beginResize` and `endResize` (one resize = one increment of the sequence
  number, `finish`), `repairLocalIndexPointers` runs after the index set is sorted again;
* every per-sync member is emptied exactly once per sync, unconditionally, at a place where it is not in use - before
  its first use in this sync or after its last (so a second `sync` on the same object starts like the first:
  `sync ∘ sync`, `runSteps`): `infoSend_` is in use from `sizes` to the packing loop, `globalMap_` from the set-up loop
  (the loop that also fills `pendingSources_`) to `repairLocalIndexPointers`, `oldMap_` and `iteratorsMap_` from the
  set-up loop to the receiving loop, `addedIndices_` during the receiving loop;
* both sequence numbers are set from the index set after `endResize` (`isSynced`), the wait for the sends comes after
  the receives (synchronous sends complete only when matched). -/
def syncPhasesOK (evs : List SyncEv) : Bool :=
  once evs .sizes && once evs .beginResize && once evs .endResize && once evs .repair && once evs .waitall
  && perNeighbour evs .pack && perNeighbour evs .recv && perNeighbour evs .markPending
  && loopOf evs .pack != loopOf evs .recv && loopOf evs .markPending != loopOf evs .recv
  && before evs .sizes .pack && before evs .pack .recv && before evs .beginResize .recv && before evs .markPending .recv
  && before evs .markPending .pack
  && before evs .recv .waitall && before evs .recv .endResize && before evs .endResize .repair
  && once evs .clearIterators && once evs .clearOld && once evs .clearAdded && once evs .clearGlobal && once evs .clearInfo
  && (before evs .clearInfo .sizes || before evs .pack .clearInfo)
  && (before evs .clearGlobal .markPending || before evs .repair .clearGlobal)
  && (before evs .clearOld .markPending || before evs .recv .clearOld)
  && (before evs .clearIterators .markPending || before evs .recv .clearIterators)
  && once evs .seqSource && once evs .seqDest && before evs .endResize .seqSource && before evs .endResize .seqDest
  && count evs .clearPending == 0

/-- an amount added to a counter of `calculateMessageSizes`: a literal or the number of holders of the index -/
inductive Amount where
  | const (k : Nat) | holders
deriving DecidableEq, Repr

def Amount.eval (a : Amount) (holders : Nat) : Nat :=
  match a with
  | .const k => k
  | .holders => holders

/-- what is added to `infoSend_[h].publish` and `infoSend_[h].pairs` for every holder `h` of an index -/
structure CountIncr where
  publish : Amount
  pairs : Amount
deriving DecidableEq, Repr

/-- the counting loop of `calculateMessageSizes`: for every index of the set, in order, for every holder `h` of the
index: `infoSend_[h].publish += inc.publish`, `infoSend_[h].pairs += inc.pairs` (the map `infoSend_` as a function,
absent = (0, 0) as `operator[]` creates it) -/
def calcInfo (inc : CountIncr) (st : RankState) : Nat → Nat × Nat :=
  st.idx.foldl (fun info e =>
    let hs := holders st.remote e.g
    hs.foldl (fun info h => fun q =>
      if q = h.1 then ((info q).1 + inc.publish.eval hs.length, (info q).2 + inc.pairs.eval hs.length) else info q) info)
    (fun _ => (0, 0))

/-- number of published indices and of pairs in a message -/
def msgCounts (items : List Item) : Nat × Nat := (items.length, (items.map (fun it => it.pairs.length)).sum)

/-- `addCopy` on rank `p` of a world -/
def addCopyAt (w : World) (p : Nat) (g : Int) (a : Nat) (loc : Nat) (known : List (Nat × Nat)) : World :=
  match w[p]? with
  | some st => w.set p (addCopy st g a loc known)
  | none => w

end DV.C13
