/-
C16 — model of the iterator facades, ranges and hybrid helpers of dune-common.

Sources transcribed (comments name the C++ line of thought, not line numbers):
  dune/common/iteratorfacades.hh   Forward/Bidirectional/RandomAccessIteratorFacade (`Legacy`), IteratorFacade (`NewF`)
  dune/common/genericiterator.hh, densevector.hh (DenseIterator), arraylist.hh, sllist.hh, diagonalmatrix.hh
                                   (ContainerWrapperIterator): the position based primitives `posCore`
  dune/common/indexediterator.hh   `Indexed`
  dune/common/rangeutilities.hh    IntegralRangeIterator (`IR`), IntegralRange, StaticIntegralRange, TransformedRangeIterator,
                                   transformedRangeView, sparseRange
  dune/common/hybridutilities.hh   size / elementAt / forEach / accumulate / ifElse / switchCases / HybridFunctor

An iterator is `(container id, position : Int)`.  A facade derives every public operator from the few
primitives of the derived class; those derivations are what is written down here, one definition per
operator and per `std::is_convertible` branch.  Core Lean only.
-/
import DuneVerif.Common.Proto

namespace DV.C16

/-! ## iterators and the primitives a derived class supplies -/

/-- iterator = container identity + position (distance from `begin()`, `-1` = before-begin) -/
structure It where
  cont : Nat
  pos : Int
  deriving DecidableEq, Repr

/-- the interface a legacy facade expects from its derived class -/
structure Core (I : Type) where
  equals : I → I → Bool
  increment : I → I
  decrement : I → I
  advance : I → Int → I
  distanceTo : I → I → Int

/-- GenericIterator / DenseIterator / ArrayListIterator / ContainerWrapperIterator:
`equals`: `position_ == other.position_ && container_ == other.container_`;
`increment`: `++position_`; `decrement`: `--position_`; `advance(n)`: `position_ = position_ + n`;
`distanceTo(other)`: `other.position_ - position_`. -/
def posCore : Core It where
  equals a b := a.pos == b.pos && a.cont == b.cont
  increment a := { a with pos := a.pos + 1 }
  decrement a := { a with pos := a.pos - 1 }
  advance a n := { a with pos := a.pos + n }
  distanceTo a b := b.pos - a.pos

/-- element access of a container given as the list of its values (`none` outside `0..size-1`) -/
def getAt (c : List Int) (i : Int) : Option Int :=
  if i < 0 then none else c[i.toNat]?

/-- `dereference()`: `container_->operator[](position_)` -/
def dereference (c : List Int) (a : It) : Option Int := getAt c a.pos
/-- `elementAt(i)`: `container_->operator[](position_+i)` -/
def elementAt (c : List Int) (a : It) (i : Int) : Option Int := getAt c (a.pos + i)

/-! ## the legacy facades (ForwardIteratorFacade, BidirectionalIteratorFacade, RandomAccessIteratorFacade)

`conv` is the compile-time constant `std::is_convertible<T2,T1>::value` (`T1` the type of the left operand). -/
namespace Legacy
variable {I : Type} (k : Core I)

/-- `operator==`: `if(conv) lhs.equals(rhs) else rhs.equals(lhs)` -/
def eq (conv : Bool) (l r : I) : Bool := if conv then k.equals l r else k.equals r l
/-- `operator!=` (forward and random access facade): `if(conv) !lhs.equals(rhs) else !rhs.equals(lhs)` -/
def ne (conv : Bool) (l r : I) : Bool := if conv then !k.equals l r else !k.equals r l
/-- `operator!=` of BidirectionalIteratorFacade: `!(lhs == rhs)` -/
def neBidi (conv : Bool) (l r : I) : Bool := !eq k conv l r
/-- `operator<`: `if(conv) lhs.distanceTo(rhs)>0 else rhs.distanceTo(lhs)<0` -/
def lt (conv : Bool) (l r : I) : Bool :=
  if conv then decide (k.distanceTo l r > 0) else decide (k.distanceTo r l < 0)
/-- `operator<=`: `if(conv) lhs.distanceTo(rhs)>=0 else rhs.distanceTo(lhs)<=0` -/
def le (conv : Bool) (l r : I) : Bool :=
  if conv then decide (k.distanceTo l r ≥ 0) else decide (k.distanceTo r l ≤ 0)
/-- `operator>`: `if(conv) lhs.distanceTo(rhs)<0 else rhs.distanceTo(lhs)>0` -/
def gt (conv : Bool) (l r : I) : Bool :=
  if conv then decide (k.distanceTo l r < 0) else decide (k.distanceTo r l > 0)
/-- `operator>=`: `if(conv) lhs.distanceTo(rhs)<=0 else rhs.distanceTo(lhs)>=0` -/
def ge (conv : Bool) (l r : I) : Bool :=
  if conv then decide (k.distanceTo l r ≤ 0) else decide (k.distanceTo r l ≥ 0)
/-- `operator-(lhs,rhs)`: `if(conv) -lhs.distanceTo(rhs) else rhs.distanceTo(lhs)` -/
def diff (conv : Bool) (l r : I) : Int :=
  if conv then -(k.distanceTo l r) else k.distanceTo r l

/-- `operator++()`: `increment(); return *this` -/
def preInc (i : I) : I := k.increment i
/-- `operator++(int)`: `tmp(*this); ++*this; return tmp` — (returned copy, iterator afterwards) -/
def postInc (i : I) : I × I := (i, k.increment i)
def preDec (i : I) : I := k.decrement i
def postDec (i : I) : I × I := (i, k.decrement i)
/-- `operator+=(n)`: `advance(n)` -/
def addAssign (i : I) (n : Int) : I := k.advance i n
/-- `operator-=(n)`: `advance(-n)` -/
def subAssign (i : I) (n : Int) : I := k.advance i (-n)
/-- `operator+(n)`: `tmp(*this); tmp.advance(n); return tmp` -/
def plus (i : I) (n : Int) : I := k.advance i n
/-- `operator-(n)`: `tmp(*this); tmp.advance(-n); return tmp` -/
def minus (i : I) (n : Int) : I := k.advance i (-n)
end Legacy

/-- `n` single steps: `++` for positive, `--` for negative `n` -/
def stepsNat {I : Type} (f : I → I) : Nat → I → I
  | 0, i => i
  | n+1, i => stepsNat f n (f i)

def steps {I : Type} (inc dec : I → I) (i : I) (n : Int) : I :=
  if n ≥ 0 then stepsNat inc n.toNat i else stepsNat dec (-n).toNat i

/-! ## the hand-written iterator of IntegralRange (after the repair of `<` and `>`) -/

/-- `Impl::IntegralRangeIterator<T>`: just `value_` -/
structure IR where
  value : Int
  deriving DecidableEq, Repr

namespace IR
def eq (a b : IR) : Bool := a.value == b.value
def ne (a b : IR) : Bool := a.value != b.value
/-- `value_ < other.value_` (fix C16_integralrange_strict_order; was `<=`) -/
def lt (a b : IR) : Bool := decide (a.value < b.value)
def le (a b : IR) : Bool := decide (a.value ≤ b.value)
/-- `value_ > other.value_` (same fix; was `>=`) -/
def gt (a b : IR) : Bool := decide (a.value > b.value)
def ge (a b : IR) : Bool := decide (a.value ≥ b.value)
def inc (a : IR) : IR := ⟨a.value + 1⟩
def dec (a : IR) : IR := ⟨a.value - 1⟩
def postInc (a : IR) : IR × IR := (a, inc a)
def postDec (a : IR) : IR × IR := (a, dec a)
def addAssign (a : IR) (n : Int) : IR := ⟨a.value + n⟩
def subAssign (a : IR) (n : Int) : IR := ⟨a.value - n⟩
/-- `friend operator+(a, n)` and `operator+(n, a)`: `IntegralRangeIterator(a.value_ + n)` -/
def plus (a : IR) (n : Int) : IR := ⟨a.value + n⟩
def nplus (n : Int) (a : IR) : IR := ⟨a.value + n⟩
def minus (a : IR) (n : Int) : IR := ⟨a.value - n⟩
/-- `operator-(other)`: `difference_type(value_) - difference_type(other.value_)` -/
def diff (a b : IR) : Int := a.value - b.value
def deref (a : IR) : Int := a.value
/-- `operator[](n)`: `value_ + n` -/
def index (a : IR) (n : Int) : Int := a.value + n
end IR

/-- `IntegralRange<T>`: `from_`, `to_` -/
structure IntegralRange where
  lo : Int
  hi : Int
  deriving Repr

namespace IntegralRange
def begin_ (r : IntegralRange) : IR := ⟨r.lo⟩
def end_ (r : IntegralRange) : IR := ⟨r.hi⟩
/-- `operator[](i)`: `from_ + i` -/
def get (r : IntegralRange) (i : Int) : Int := r.lo + i
def empty (r : IntegralRange) : Bool := r.lo == r.hi
/-- `size()`: `static_cast<size_type>(to_) - static_cast<size_type>(from_)`, arithmetic of the `bits` wide unsigned type -/
def size (bits : Nat) (r : IntegralRange) : Int := (r.hi % 2 ^ bits - r.lo % 2 ^ bits) % 2 ^ bits
def contains (r : IntegralRange) (x : Int) : Bool := decide (r.lo ≤ x) && decide (x < r.hi)
/-- the loop of a range-based `for`: `for (it = begin(); it != end(); ++it) out.push_back(*it)`;
`fuel` bounds the number of iterations (the driver passes `to - from`). -/
def enumLoop : Nat → IR → IR → List Int
  | 0, _, _ => []
  | fuel+1, it, e => if IR.ne it e then IR.deref it :: enumLoop fuel (IR.inc it) e else []
def enumerate (r : IntegralRange) : List Int := enumLoop (r.hi - r.lo).toNat r.begin_ r.end_
end IntegralRange

/-! ## the new `IteratorFacade` (used by TransformedRangeIterator): everything is forwarded to `baseIterator()` -/

/-- what `IteratorFacade` uses of the base iterator -/
structure Base (B : Type) where
  eq : B → B → Bool          -- `base1 == base2`
  inc : B → B                -- `++base`
  dec : B → B                -- `--base`
  addAssign : B → Int → B    -- `base += n`
  sub : B → B → Int          -- `base1 - base2`

namespace NewF
variable {B : Type} (b : Base B)
/-- `operator==`: `baseIterator(it1) == baseIterator(it2)` -/
def eq (l r : B) : Bool := b.eq l r
/-- `operator!=`: `not(it1 == it2)` -/
def ne (l r : B) : Bool := !eq b l r
/-- `operator-(it1,it2)`: `D(base1 - base2)` -/
def diff (l r : B) : Int := b.sub l r
/-- `operator<`: `(it1 - it2) < D(0)` and so on -/
def lt (l r : B) : Bool := decide (diff b l r < 0)
def le (l r : B) : Bool := decide (diff b l r ≤ 0)
def gt (l r : B) : Bool := decide (diff b l r > 0)
def ge (l r : B) : Bool := decide (diff b l r ≥ 0)
def preInc (i : B) : B := b.inc i
def postInc (i : B) : B × B := (i, b.inc i)
def preDec (i : B) : B := b.dec i
def postDec (i : B) : B × B := (i, b.dec i)
/-- `operator+=(n)`: `baseIterator() += n` -/
def addAssign (i : B) (n : Int) : B := b.addAssign i n
/-- `operator-=(n)`: `derived() += (-n)` -/
def subAssign (i : B) (n : Int) : B := addAssign b i (-n)
/-- `operator+(n)`: `tmp(derived()); tmp += n` -/
def plus (i : B) (n : Int) : B := addAssign b i n
/-- `operator-(n)`: `tmp(derived()); tmp -= n` -/
def minus (i : B) (n : Int) : B := subAssign b i n
/-- `operator[](n)`: `*(derived()+n)`; `drf` is the derived class' `operator*` -/
def index {α : Type} (drf : B → α) (i : B) (n : Int) : α := drf (plus b i n)
end NewF

/-- iterators of std:: containers (trusted: position arithmetic) -/
def stdBase : Base It where
  eq a b := a.pos == b.pos && a.cont == b.cont
  inc a := { a with pos := a.pos + 1 }
  dec a := { a with pos := a.pos - 1 }
  addAssign a n := { a with pos := a.pos + n }
  sub a b := a.pos - b.pos

/-- IntegralRangeIterator as the base of a transformed range -/
def irBase : Base IR where
  eq := IR.eq
  inc := IR.inc
  dec := IR.dec
  addAssign := IR.addAssign
  sub := IR.diff

/-- DenseIterator (through the RandomAccessIteratorFacade) as the base of a sparse range -/
def denseBase : Base It where
  eq := Legacy.eq posCore true
  inc := Legacy.preInc posCore
  dec := Legacy.preDec posCore
  addAssign := Legacy.addAssign posCore
  sub := Legacy.diff posCore true

/-! ## IndexedIterator: the wrapped iterator plus a running index -/

structure Indexed (B : Type) where
  base : B
  index : Int

namespace Indexed
variable {B : Type} (b : Base B)
def inc (i : Indexed B) : Indexed B := ⟨b.inc i.base, i.index + 1⟩
def dec (i : Indexed B) : Indexed B := ⟨b.dec i.base, i.index - 1⟩
def postInc (i : Indexed B) : Indexed B × Indexed B := (i, inc b i)
def postDec (i : Indexed B) : Indexed B × Indexed B := (i, dec b i)
/-- `operator+=(n)`: `Iter::operator+=(n); index_ += n` -/
def addAssign (i : Indexed B) (n : Int) : Indexed B := ⟨b.addAssign i.base n, i.index + n⟩
/-- `operator-=(n)`: `Iter::operator-=(n); index_ -= n` (std iterators: `base += -n`) -/
def subAssign (i : Indexed B) (n : Int) : Indexed B := ⟨b.addAssign i.base (-n), i.index - n⟩
/-- `it + n`, `it - n` are inherited from the wrapped iterator and return it (the index is sliced away) -/
def plus (i : Indexed B) (n : Int) : B := b.addAssign i.base n
def minus (i : Indexed B) (n : Int) : B := b.addAssign i.base (-n)
end Indexed

/-! ## ranges -/

/-- range-based `for` over a position range `[first,last)` of a container `c`, applying `f` to every
dereferenced element and logging each call: returns (produced values, arguments `f` was called with).
`TransformedRangeIterator::operator*` is `f(*it_)`; the loop is `for (it = begin; it != end; ++it)`. -/
def transformLoop (f : Int → Int) (c : List Int) : Nat → It → It → List Int × List Int
  | 0, _, _ => ([], [])
  | fuel+1, it, e =>
    if NewF.ne stdBase it e then
      match dereference c it with
      | some x =>
        let (vs, log) := transformLoop f c fuel (NewF.preInc stdBase it) e
        (f x :: vs, x :: log)
      | none => ([], [])
    else ([], [])

/-- `for (auto&& e : transformedRangeView(c, f))` -/
def transformedEnumerate (f : Int → Int) (c : List Int) : List Int × List Int :=
  transformLoop f c c.length ⟨0, 0⟩ ⟨0, c.length⟩

/-- transformed range over an integral range (base iterator = IntegralRangeIterator) -/
def transformLoopIR (f : Int → Int) : Nat → IR → IR → List Int × List Int
  | 0, _, _ => ([], [])
  | fuel+1, it, e =>
    if NewF.ne irBase it e then
      let (vs, log) := transformLoopIR f fuel (NewF.preInc irBase it) e
      (f (IR.deref it) :: vs, IR.deref it :: log)
    else ([], [])

def transformedEnumerateIR (f : Int → Int) (r : IntegralRange) : List Int × List Int :=
  transformLoopIR f (r.hi - r.lo).toNat r.begin_ r.end_

/-- `sparseRange(c)`: iterator transformation `it ↦ (*it, it.index())`; DenseIterator's `index()` is its position -/
def sparseLoop (c : List Int) : Nat → It → It → List (Int × Int)
  | 0, _, _ => []
  | fuel+1, it, e =>
    if NewF.ne denseBase it e then
      match dereference c it with
      | some x => (x, it.pos) :: sparseLoop c fuel (NewF.preInc denseBase it) e
      | none => []
    else []

def sparseEnumerate (c : List Int) : List (Int × Int) :=
  sparseLoop c c.length ⟨0, 0⟩ ⟨0, c.length⟩

/-- plain range-for over a container through a legacy facade iterator (`!=`, `++`, `*`) -/
def legacyLoop (conv : Bool) (c : List Int) : Nat → It → It → List Int
  | 0, _, _ => []
  | fuel+1, it, e =>
    if Legacy.ne posCore conv it e then
      match dereference c it with
      | some x => x :: legacyLoop conv c fuel (Legacy.preInc posCore it) e
      | none => []
    else []

/-- `IteratorRange(begin+a, begin+b)` enumerated by range-for -/
def iteratorRangeEnumerate (c : List Int) (a b : Nat) : List Int :=
  legacyLoop true c (b - a) ⟨0, a⟩ ⟨0, b⟩

/-! ## hybrid helpers

A compile-time container (tuple, TupleVector, std::array, integer_sequence, static integral range) is the
list of its values; the static overloads walk it by index (`elementAt(c, index_constant<i>)` for
`i = 0 … size-1`, in that order: the initializer-list fold is evaluated left to right), the dynamic
overloads walk it by a range-based `for`. -/
namespace Hybrid

/-- static `size`: `std::tuple_size<T>::value` / `T::size()` -/
def sizeStatic (c : List Int) : Nat := c.length
/-- dynamic `size`: `t.size()` -/
def sizeDynamic (c : List Int) : Nat := c.length

/-- static `elementAt(c, index_constant<i>)`: `std::get<i>(c)` / `integerSequenceEntry` -/
def elementAtStatic : List Int → Nat → Option Int
  | [], _ => none
  | x :: _, 0 => some x
  | _ :: xs, i+1 => elementAtStatic xs i
/-- dynamic `elementAt(c, i)`: `c[i]` -/
def elementAtDynamic (c : List Int) (i : Nat) : Option Int := c[i]?

/-- `forEachIndex`: `f(elementAt(range, integral_constant<Index,i>()))` for `i` in `make_index_sequence<size>` -/
def forEachIndex {σ : Type} (c : List Int) (f : σ → Int → σ) : List Nat → σ → σ
  | [], s => s
  | i :: is, s =>
    match elementAtStatic c i with
    | some x => forEachIndex c f is (f s x)
    | none => forEachIndex c f is s

/-- static `forEach` with a state threaded through the callback -/
def forEachStatic {σ : Type} (c : List Int) (f : σ → Int → σ) (s : σ) : σ :=
  forEachIndex c f (List.range (sizeStatic c)) s

/-- dynamic `forEach`: `for (auto&& e : range) f(e)` -/
def forEachDynamic {σ : Type} (c : List Int) (f : σ → Int → σ) (s : σ) : σ :=
  match c with
  | [] => s
  | x :: xs => forEachDynamic xs f (f s x)

/-- `accumulate(range, value, f)`: `forEach(range, [&](auto&& e){ value = f(value, e); }); return value;` -/
def accumulateStatic (c : List Int) (init : Int) (f : Int → Int → Int) : Int := forEachStatic c f init
def accumulateDynamic (c : List Int) (init : Int) (f : Int → Int → Int) : Int := forEachDynamic c f init

/-- `ifElse(std::true_type / std::false_type, ifFunc, elseFunc)`: overload selected by the type -/
def ifElseStatic {α : Type} (cond : Bool) (ifF elseF : α) : α :=
  match cond with
  | true => ifF
  | false => elseF
/-- `ifElse(const bool&, …)`: `if (condition) return ifFunc(Id{}); else return elseFunc(Id{});` -/
def ifElseDynamic {α : Type} (cond : Bool) (ifF elseF : α) : α := if cond then ifF else elseF

/-- `switchCases(integer_sequence<T,t0,tt...>, value, branches, elseBranch)` with a run-time value:
`if (t0 == value) return branches(t0); else recurse on tt...`; the empty sequence calls `elseBranch()` -/
def switchSeqDynamic {α : Type} (cases : List Int) (v : Int) (branch : Int → α) (els : α) : α :=
  match cases with
  | [] => els
  | t0 :: tt => if t0 = v then branch t0 else switchSeqDynamic tt v branch els
/-- the same with an `integral_constant` value: `if constexpr ((t0 == value) || ... ) branches(value) else elseBranch()` -/
def switchSeqStatic {α : Type} (cases : List Int) (v : Int) (branch : Int → α) (els : α) : α :=
  if cases.any (· == v) then branch v else els
/-- `switchCases(IntegralRange<T>, value, …)`: `range.contains(value) ? branches(T(value)) : elseBranch()` -/
def switchRangeDynamic {α : Type} (r : IntegralRange) (v : Int) (branch : Int → α) (els : α) : α :=
  if r.contains v then branch v else els
/-- `switchCases(StaticIntegralRange, value, …)`: forwards to the sequence `from, from+1, …, to-1` -/
def switchRangeStatic {α : Type} (r : IntegralRange) (v : Int) (branch : Int → α) (els : α) : α :=
  switchSeqDynamic (r.enumerate) v branch els

/-- `HybridFunctor`: on integral constants the result is computed at compile time from `Args::value...`,
otherwise `_functor(args...)`; both apply the same functor -/
def functorStatic (f : Int → Int → Int) (a b : Int) : Int := f a b
def functorDynamic (f : Int → Int → Int) (a b : Int) : Int := f a b

end Hybrid

end DV.C16
