/-
C16 — model of the iterator facades, ranges and hybrid helpers of dune-common.

Sources transcribed (comments name the C++ line of thought, not line numbers):
  dune/common/iteratorfacades.hh   Forward/Bidirectional/RandomAccessIteratorFacade (`Legacy`), IteratorFacade (`NewF`)
  dune/common/genericiterator.hh, densevector.hh (DenseIterator), diagonalmatrix.hh (ContainerWrapperIterator):
                                   the position based primitives `posCore`;  arraylist.hh: `alCore`
  dune/common/sllist.hh            the pointer chasing list iterators (`SL`)
  dune/common/indexediterator.hh   `Indexed`
  dune/common/rangeutilities.hh    IntegralRangeIterator (`IR`), IntegralRange, StaticIntegralRange (`SR`),
                                   TransformedRangeIterator, transformedRangeView, sparseRange
  dune/common/hybridutilities.hh   size / elementAt / forEach / accumulate / ifElse / switchCases / HybridFunctor
  dune/common/integersequence.hh   get / front / back / head / tail / push_* / contains / difference / equal / sorted (`Seq`)

An iterator is `(container id, position : Int)`.  A facade derives every public operator from the few
primitives of the derived class; those derivations are what is written down here, one definition per
operator and per `std::is_convertible` branch.

TIE TO THE SOURCE: the one-line bodies (which primitive is called on which operand, the comparison with zero, the
sign of an argument, `value_ + n`, `from_ <= index && index < to_`, ...) are not typed in here: they are the
expressions of `DuneVerif/Gen/C16.lean`, regenerated from the headers on every run by tools/translators/tr_c16.py,
and the operators below *evaluate* them.  Core Lean only.
-/
import DuneVerif.Common.Proto
import DuneVerif.Gen.C16

namespace DV.C16

/-! ## iterators and the primitives a derived class supplies -/

/-- iterator = container identity + position (distance from `begin()`, `-1` = before-begin) -/
structure It where
  cont : Nat
  pos : Int
  deriving DecidableEq, Repr

/-- the interface a legacy facade expects from its derived class -/
structure Core (I : Type) where
  equals : I → I → Bool
  increment : I → I
  decrement : I → I
  advance : I → Int → I
  distanceTo : I → I → Int

/-- GenericIterator / DenseIterator / ContainerWrapperIterator (bodies: `Gen.pos_*`):
`equals`: `position_ == other.position_ && container_ == other.container_`;
`increment`: `++position_`; `decrement`: `--position_`; `advance(n)`: `position_ = position_ + n`;
`distanceTo(other)`: `other.position_ - position_`. -/
def posCore : Core It where
  equals a b := Gen.pos_equals.eval { a := a.pos, b := b.pos } { a := a.cont == b.cont }
  increment a := { a with pos := Gen.pos_increment.eval1 a.pos }
  decrement a := { a with pos := Gen.pos_decrement.eval1 a.pos }
  advance a n := { a with pos := Gen.pos_advance.eval2 a.pos n }
  distanceTo a b := Gen.pos_distanceTo.eval2 a.pos b.pos

/-- ArrayListIterator / ConstArrayListIterator (bodies: `Gen.al_*`): as above, but `equals` compares the positions
only (`assert(list_==other.list_)`) -/
def alCore : Core It where
  equals a b := Gen.al_equals.eval { a := a.pos, b := b.pos } { a := a.cont == b.cont }
  increment a := { a with pos := Gen.al_increment.eval1 a.pos }
  decrement a := { a with pos := Gen.al_decrement.eval1 a.pos }
  advance a n := { a with pos := Gen.al_advance.eval2 a.pos n }
  distanceTo a b := Gen.al_distanceTo.eval2 a.pos b.pos

/-- element access of a container given as the list of its values (`none` outside `0..size-1`) -/
def getAt (c : List Int) (i : Int) : Option Int :=
  if i < 0 then none else c[i.toNat]?

/-- `dereference()`: `container_->operator[](position_)` -/
def dereference (c : List Int) (a : It) : Option Int := getAt c (Gen.pos_dereference.eval1 a.pos)
/-- `elementAt(i)`: `container_->operator[](position_+i)` -/
def elementAt (c : List Int) (a : It) (i : Int) : Option Int := getAt c (Gen.pos_elementAt.eval2 a.pos i)
/-- the same for the ArrayList iterators: `list_->elementAt(position_)`, `list_->elementAt(i+position_)` -/
def alDereference (c : List Int) (a : It) : Option Int := getAt c (Gen.al_dereference.eval1 a.pos)
def alElementAt (c : List Int) (a : It) (i : Int) : Option Int := getAt c (Gen.al_elementAt.eval2 a.pos i)

/-- positions of the iterators the dense containers hand out besides `begin()`/`end()`:
`beforeEnd()`: `Iterator(*this, size()-1)`, `beforeBegin()`: `Iterator(*this, -1)`, `find(i)`: `Iterator(*this, min(i,size()))` -/
def beforeEndPos (n : Nat) : Int := (n : Int) - 1
def beforeBeginPos : Int := -1
def findPos (n i : Nat) : Int := ((min i n : Nat) : Int)

/-! ## the legacy facades (ForwardIteratorFacade, BidirectionalIteratorFacade, RandomAccessIteratorFacade)

`conv` is the compile-time constant `std::is_convertible<T2,T1>::value` (`T1` the type of the left operand). -/
namespace Legacy
variable {I : Type} (k : Core I)

/-- what the branch expressions of the relational operators refer to: `lhs.distanceTo(rhs)`, `rhs.distanceTo(lhs)` -/
def renv (l r : I) : Env := { a := k.distanceTo l r, b := k.distanceTo r l }
/-- `lhs.equals(rhs)`, `rhs.equals(lhs)` -/
def benv (l r : I) : BEnv := { a := k.equals l r, b := k.equals r l }

/-- RandomAccessIteratorFacade `operator==`: `if(conv) lhs.equals(rhs) else rhs.equals(lhs)` -/
def eq (conv : Bool) (l r : I) : Bool := (if conv then Gen.ra_eq_conv else Gen.ra_eq_else).eval (renv k l r) (benv k l r)
/-- RandomAccessIteratorFacade `operator!=`: `if(conv) !lhs.equals(rhs) else !rhs.equals(lhs)` -/
def ne (conv : Bool) (l r : I) : Bool := (if conv then Gen.ra_ne_conv else Gen.ra_ne_else).eval (renv k l r) (benv k l r)
/-- ForwardIteratorFacade `operator==`, `operator!=` (same shape) -/
def eqFw (conv : Bool) (l r : I) : Bool := (if conv then Gen.fw_eq_conv else Gen.fw_eq_else).eval (renv k l r) (benv k l r)
def neFw (conv : Bool) (l r : I) : Bool := (if conv then Gen.fw_ne_conv else Gen.fw_ne_else).eval (renv k l r) (benv k l r)
/-- BidirectionalIteratorFacade `operator==`: two overloads selected by `enable_if` on the same condition -/
def eqBi (conv : Bool) (l r : I) : Bool := (if conv then Gen.bi_eq_conv else Gen.bi_eq_else).eval (renv k l r) (benv k l r)
/-- BidirectionalIteratorFacade `operator!=`: `!(lhs == rhs)` -/
def neBi (conv : Bool) (l r : I) : Bool := Gen.bi_ne.eval (renv k l r) { c := eqBi k conv l r }
/-- `operator<`: `if(conv) lhs.distanceTo(rhs)>0 else rhs.distanceTo(lhs)<0` -/
def lt (conv : Bool) (l r : I) : Bool := (if conv then Gen.ra_lt_conv else Gen.ra_lt_else).eval (renv k l r) (benv k l r)
/-- `operator<=`: `if(conv) lhs.distanceTo(rhs)>=0 else rhs.distanceTo(lhs)<=0` -/
def le (conv : Bool) (l r : I) : Bool := (if conv then Gen.ra_le_conv else Gen.ra_le_else).eval (renv k l r) (benv k l r)
/-- `operator>`: `if(conv) lhs.distanceTo(rhs)<0 else rhs.distanceTo(lhs)>0` -/
def gt (conv : Bool) (l r : I) : Bool := (if conv then Gen.ra_gt_conv else Gen.ra_gt_else).eval (renv k l r) (benv k l r)
/-- `operator>=`: `if(conv) lhs.distanceTo(rhs)<=0 else rhs.distanceTo(lhs)>=0` -/
def ge (conv : Bool) (l r : I) : Bool := (if conv then Gen.ra_ge_conv else Gen.ra_ge_else).eval (renv k l r) (benv k l r)
/-- `operator-(lhs,rhs)`: `if(conv) -lhs.distanceTo(rhs) else rhs.distanceTo(lhs)` -/
def diff (conv : Bool) (l r : I) : Int := (if conv then Gen.ra_diff_conv else Gen.ra_diff_else).eval (renv k l r)

/-- `operator++()`: `increment(); return *this` -/
def preInc (i : I) : I := k.increment i
/-- `operator++(int)`: `tmp(*this); ++*this; return tmp` — (returned copy, iterator afterwards) -/
def postInc (i : I) : I × I := (i, k.increment i)
def preDec (i : I) : I := k.decrement i
def postDec (i : I) : I × I := (i, k.decrement i)
/-- `operator+=(n)`: `advance(n)` -/
def addAssign (i : I) (n : Int) : I := k.advance i (Gen.ra_addAssign_arg.eval1 n)
/-- `operator-=(n)`: `advance(-n)` -/
def subAssign (i : I) (n : Int) : I := k.advance i (Gen.ra_subAssign_arg.eval1 n)
/-- `operator+(n)`: `tmp(*this); tmp.advance(n); return tmp` -/
def plus (i : I) (n : Int) : I := k.advance i (Gen.ra_plus_arg.eval1 n)
/-- `operator-(n)`: `tmp(*this); tmp.advance(-n); return tmp` -/
def minus (i : I) (n : Int) : I := k.advance i (Gen.ra_minus_arg.eval1 n)
/-- `operator[](n)`: `elementAt(n)` — the argument handed to `elementAt` -/
def indexArg (n : Int) : Int := Gen.ra_index_arg.eval1 n
end Legacy

/-- `n` single steps: `++` for positive, `--` for negative `n` -/
def stepsNat {I : Type} (f : I → I) : Nat → I → I
  | 0, i => i
  | n+1, i => stepsNat f n (f i)

def steps {I : Type} (inc dec : I → I) (i : I) (n : Int) : I :=
  if n ≥ 0 then stepsNat inc n.toNat i else stepsNat dec (-n).toNat i

/-! ## operation histories: any sequence of the stepping operators applied to one iterator -/

inductive Step where
  | inc | dec | postInc | postDec
  | add (n : Int) | sub (n : Int)        -- `it += n`, `it -= n`
  | plus (n : Int) | minus (n : Int)     -- `it = it + n`, `it = it - n`
  deriving Repr

/-- net displacement of a step / of a history -/
def Step.delta : Step → Int
  | .inc | .postInc => 1
  | .dec | .postDec => -1
  | .add n | .plus n => n
  | .sub n | .minus n => -n

def deltaSum (s : List Step) : Int := (s.map Step.delta).foldl (· + ·) 0

/-- the stepping operators of one iterator kind -/
structure StepOps (I : Type) where
  inc : I → I
  dec : I → I
  postInc : I → I × I
  postDec : I → I × I
  addAssign : I → Int → I
  subAssign : I → Int → I
  plus : I → Int → I
  minus : I → Int → I

def StepOps.apply {I : Type} (o : StepOps I) (i : I) : Step → I
  | .inc => o.inc i
  | .dec => o.dec i
  | .postInc => (o.postInc i).2
  | .postDec => (o.postDec i).2
  | .add n => o.addAssign i n
  | .sub n => o.subAssign i n
  | .plus n => o.plus i n
  | .minus n => o.minus i n

def StepOps.run {I : Type} (o : StepOps I) (i : I) (s : List Step) : I := s.foldl o.apply i

def Legacy.stepOps {I : Type} (k : Core I) : StepOps I where
  inc := Legacy.preInc k
  dec := Legacy.preDec k
  postInc := Legacy.postInc k
  postDec := Legacy.postDec k
  addAssign := Legacy.addAssign k
  subAssign := Legacy.subAssign k
  plus := Legacy.plus k
  minus := Legacy.minus k

/-! ## the hand-written iterator of IntegralRange (after the repairs of `<`, `>` and of the difference) -/

/-- `Impl::IntegralRangeIterator<T>`: just `value_` -/
structure IR where
  value : Int
  deriving DecidableEq, Repr

/-- reinterpretation of a `bits` wide unsigned value as the signed type of the same width -/
def toSigned (bits : Nat) (x : Int) : Int := if x < 2 ^ (bits - 1) then x else x - 2 ^ bits

namespace IR
def eq (a b : IR) : Bool := Gen.ir_eq.eval2 a.value b.value
def ne (a b : IR) : Bool := Gen.ir_ne.eval2 a.value b.value
/-- `value_ < other.value_` (fix C16_integralrange_strict_order; was `<=`) -/
def lt (a b : IR) : Bool := Gen.ir_lt.eval2 a.value b.value
def le (a b : IR) : Bool := Gen.ir_le.eval2 a.value b.value
/-- `value_ > other.value_` (same fix; was `>=`) -/
def gt (a b : IR) : Bool := Gen.ir_gt.eval2 a.value b.value
def ge (a b : IR) : Bool := Gen.ir_ge.eval2 a.value b.value
/-- the six comparisons as the machine evaluates them for a `bits` wide `T`: the same bodies, but a difference of
iterators / a cast to `difference_type` inside them (`E.wsub`) wraps modulo `2^bits`.  The bodies of the present
source compare `value_` directly, so these are the comparisons above for every width (`ir_rel_ops_all_widths`). -/
def eqW (bits : Nat) (a b : IR) : Bool := Gen.ir_eq.evalW bits a.value b.value
def neW (bits : Nat) (a b : IR) : Bool := Gen.ir_ne.evalW bits a.value b.value
def ltW (bits : Nat) (a b : IR) : Bool := Gen.ir_lt.evalW bits a.value b.value
def leW (bits : Nat) (a b : IR) : Bool := Gen.ir_le.evalW bits a.value b.value
def gtW (bits : Nat) (a b : IR) : Bool := Gen.ir_gt.evalW bits a.value b.value
def geW (bits : Nat) (a b : IR) : Bool := Gen.ir_ge.evalW bits a.value b.value
def inc (a : IR) : IR := ⟨Gen.ir_inc.eval1 a.value⟩
def dec (a : IR) : IR := ⟨Gen.ir_dec.eval1 a.value⟩
def postInc (a : IR) : IR × IR := (a, inc a)
def postDec (a : IR) : IR × IR := (a, dec a)
def addAssign (a : IR) (n : Int) : IR := ⟨Gen.ir_addAssign.eval2 a.value n⟩
def subAssign (a : IR) (n : Int) : IR := ⟨Gen.ir_subAssign.eval2 a.value n⟩
/-- `friend operator+(a, n)` and `operator+(n, a)`: `IntegralRangeIterator(a.value_ + n)` -/
def plus (a : IR) (n : Int) : IR := ⟨Gen.ir_plus.eval2 a.value n⟩
def nplus (n : Int) (a : IR) : IR := ⟨Gen.ir_nplus.eval2 a.value n⟩
def minus (a : IR) (n : Int) : IR := ⟨Gen.ir_minus.eval2 a.value n⟩
/-- `operator-(other)` in exact arithmetic: `value_ - other.value_` -/
def diff (a b : IR) : Int := Gen.ir_diff.eval2 a.value b.value
/-- `operator-(other)` as the machine computes it for a `bits` wide `T` (fix C16_integralrange_diff_overflow):
`difference_type(size_type(value_) - size_type(other.value_))` — subtraction modulo `2^bits`, read as signed -/
def diffW (bits : Nat) (a b : IR) : Int := toSigned bits (diff a b % 2 ^ bits)
def deref (a : IR) : Int := Gen.ir_deref.eval1 a.value
/-- `operator[](n)`: `value_ + n` -/
def index (a : IR) (n : Int) : Int := Gen.ir_index.eval2 a.value n

def stepOps : StepOps IR where
  inc := inc
  dec := dec
  postInc := postInc
  postDec := postDec
  addAssign := addAssign
  subAssign := subAssign
  plus := plus
  minus := minus
end IR

/-- `IntegralRange<T>`: `from_`, `to_` -/
structure IntegralRange where
  lo : Int
  hi : Int
  deriving Repr

namespace IntegralRange
/-- `IntegralRange(to)`: `from_(0), to_(to)`; `IntegralRange(pair)`: `from_(first), to_(second)` -/
def ofTo (to : Int) : IntegralRange := ⟨Gen.rg_ctor_to_from.eval {}, to⟩
def ofPair (p : Int × Int) : IntegralRange := ⟨p.1, p.2⟩
def begin_ (r : IntegralRange) : IR := ⟨Gen.rg_begin.eval2 r.lo r.hi⟩
def end_ (r : IntegralRange) : IR := ⟨Gen.rg_end.eval2 r.lo r.hi⟩
/-- `operator[](i)`: `from_ + i` -/
def get (r : IntegralRange) (i : Int) : Int := Gen.rg_at.eval3 r.lo r.hi i
def empty (r : IntegralRange) : Bool := Gen.rg_empty.eval2 r.lo r.hi
/-- `size()`: `static_cast<size_type>(to_) - static_cast<size_type>(from_)`, arithmetic of the `bits` wide unsigned type -/
def size (bits : Nat) (r : IntegralRange) : Int := Gen.rg_size.eval2 (r.lo % 2 ^ bits) (r.hi % 2 ^ bits) % 2 ^ bits
def contains (r : IntegralRange) (x : Int) : Bool := Gen.rg_contains.eval3 r.lo r.hi x
/-- the loop of a range-based `for`: `for (it = begin(); it != end(); ++it) out.push_back(*it)`;
`fuel` bounds the number of iterations (the theorems hold for every sufficient fuel: the loop stops by itself). -/
def enumLoop : Nat → IR → IR → List Int
  | 0, _, _ => []
  | fuel+1, it, e => if IR.ne it e then IR.deref it :: enumLoop fuel (IR.inc it) e else []
def enumerateFuel (fuel : Nat) (r : IntegralRange) : List Int := enumLoop fuel r.begin_ r.end_
def enumerate (r : IntegralRange) : List Int := enumerateFuel (r.hi - r.lo).toNat r
end IntegralRange

/-! ## `StaticIntegralRange<T,to,from>`: the same functions with compile-time bounds (bodies `Gen.sr_*`) -/
namespace SR
def begin_ (r : IntegralRange) : IR := ⟨Gen.sr_begin.eval2 r.lo r.hi⟩
def end_ (r : IntegralRange) : IR := ⟨Gen.sr_end.eval2 r.lo r.hi⟩
/-- `operator[](integral_constant<U,i>)`: `integral_constant<T, from + i>` -/
def getStatic (r : IntegralRange) (i : Int) : Int := Gen.sr_at_static.eval3 r.lo r.hi i
/-- `operator[](size_type i)`: `from + i` -/
def get (r : IntegralRange) (i : Int) : Int := Gen.sr_at.eval3 r.lo r.hi i
def empty (r : IntegralRange) : Bool := Gen.sr_empty.eval2 r.lo r.hi
def size (bits : Nat) (r : IntegralRange) : Int := Gen.sr_size.eval2 (r.lo % 2 ^ bits) (r.hi % 2 ^ bits) % 2 ^ bits
def contains (r : IntegralRange) (x : Int) : Bool := Gen.sr_contains.eval3 r.lo r.hi x
def enumerateFuel (fuel : Nat) (r : IntegralRange) : List Int := IntegralRange.enumLoop fuel (begin_ r) (end_ r)
def enumerate (r : IntegralRange) : List Int := enumerateFuel (r.hi - r.lo).toNat r
/-- `to_integer_sequence()`: `make_integer_sequence<T,to-from>` shifted by `from` -/
def toSequence (r : IntegralRange) : List Int := (List.range (r.hi - r.lo).toNat).map (fun (i : Nat) => (i : Int) + r.lo)
/-- conversion `operator IntegralRange<T>()`: `{from, to}` -/
def toDynamic (r : IntegralRange) : IntegralRange := ⟨r.lo, r.hi⟩
end SR

/-! ## the new `IteratorFacade` (used by TransformedRangeIterator): everything is forwarded to `baseIterator()` -/

/-- what `IteratorFacade` uses of the base iterator -/
structure Base (B : Type) where
  eq : B → B → Bool          -- `base1 == base2`
  inc : B → B                -- `++base`
  dec : B → B                -- `--base`
  addAssign : B → Int → B    -- `base += n`
  sub : B → B → Int          -- `base1 - base2`
  lt : B → B → Bool          -- `base1 < base2`

namespace NewF
variable {B : Type} (b : Base B)
/-- `operator==`: `baseIterator(it1) == baseIterator(it2)` -/
def eq (l r : B) : Bool := b.eq l r
/-- `operator!=`: `not(it1 == it2)` -/
def ne (l r : B) : Bool := Gen.nf_ne.eval {} { a := eq b l r }
/-- `operator-(it1,it2)`: `D(base1 - base2)` -/
def diff (l r : B) : Int := b.sub l r
/-- what the relational bodies refer to: `it1 - it2` (and `it2 - it1`) -/
def renv (l r : B) : Env := { a := diff b l r, b := diff b r l }
/-- `operator<`, `<=`, `>`, `>=` of a derived class WITH comparable base iterators (fix C16_facade_order_by_base):
`base1 < base2`, `not(base2 < base1)`, `base2 < base1`, `not(base1 < base2)` -/
def benvB (l r : B) : BEnv := { a := b.lt l r, b := b.lt r l }
def ltB (l r : B) : Bool := Gen.nf_lt_base.eval {} (benvB b l r)
def leB (l r : B) : Bool := Gen.nf_le_base.eval {} (benvB b l r)
def gtB (l r : B) : Bool := Gen.nf_gt_base.eval {} (benvB b l r)
def geB (l r : B) : Bool := Gen.nf_ge_base.eval {} (benvB b l r)
/-- the same operators of a derived class without base iterators (it implements `it1 - it2` itself):
`(it1 - it2) < D(0)` and so on -/
def lt (l r : B) : Bool := Gen.nf_lt.eval (renv b l r) {}
def le (l r : B) : Bool := Gen.nf_le.eval (renv b l r) {}
def gt (l r : B) : Bool := Gen.nf_gt.eval (renv b l r) {}
def ge (l r : B) : Bool := Gen.nf_ge.eval (renv b l r) {}
def preInc (i : B) : B := b.inc i
def postInc (i : B) : B × B := (i, b.inc i)
def preDec (i : B) : B := b.dec i
def postDec (i : B) : B × B := (i, b.dec i)
/-- `operator+=(n)`: `baseIterator() += n` -/
def addAssign (i : B) (n : Int) : B := b.addAssign i n
/-- `operator-=(n)`: `derived() += (-n)` -/
def subAssign (i : B) (n : Int) : B := addAssign b i (Gen.nf_subAssign_arg.eval1 n)
/-- `operator+(n)`: `tmp(derived()); tmp += n` -/
def plus (i : B) (n : Int) : B := addAssign b i n
/-- `operator-(n)`: `tmp(derived()); tmp -= n` -/
def minus (i : B) (n : Int) : B := subAssign b i n
/-- `operator[](n)`: `*(derived()+n)`; `drf` is the derived class' `operator*` -/
def index {α : Type} (drf : B → α) (i : B) (n : Int) : α := drf (plus b i n)
/-- the second branch of `operator++` / `operator--`, taken when the derived class offers no incrementable
`baseIterator()` but its own `operator+=`: `derived() += 1`, `derived() -= 1` -/
def preIncAdv (i : B) : B := addAssign b i (Gen.nf_inc_adv.eval {})
def preDecAdv (i : B) : B := subAssign b i (Gen.nf_dec_adv.eval {})

def stepOps : StepOps B where
  inc := preInc b
  dec := preDec b
  postInc := postInc b
  postDec := postDec b
  addAssign := addAssign b
  subAssign := subAssign b
  plus := plus b
  minus := minus b

/-- the stepping operators of a derived class that only offers `+=` (second branch of `++`/`--`) -/
def stepOpsAdv : StepOps B where
  inc := preIncAdv b
  dec := preDecAdv b
  postInc i := (i, preIncAdv b i)
  postDec i := (i, preDecAdv b i)
  addAssign := addAssign b
  subAssign := subAssign b
  plus := plus b
  minus := minus b
end NewF

/-- iterators of std:: containers (trusted: position arithmetic) -/
def stdBase : Base It where
  eq a b := a.pos == b.pos && a.cont == b.cont
  inc a := { a with pos := a.pos + 1 }
  dec a := { a with pos := a.pos - 1 }
  addAssign a n := { a with pos := a.pos + n }
  sub a b := a.pos - b.pos
  lt a b := decide (a.pos < b.pos)

/-- IntegralRangeIterator as the base of a transformed range -/
def irBase : Base IR where
  eq := IR.eq
  inc := IR.inc
  dec := IR.dec
  addAssign := IR.addAssign
  sub := IR.diff
  lt := IR.lt

/-- IntegralRangeIterator<T> of a `bits` wide `T` as the base of a transformed range, with the difference the
machine computes (`difference_type` = the signed type of the same width) and its own `<` -/
def irBaseW (bits : Nat) : Base IR where
  eq := IR.eqW bits
  inc := IR.inc
  dec := IR.dec
  addAssign := IR.addAssign
  sub := IR.diffW bits
  lt := IR.ltW bits

/-- DenseIterator (through the RandomAccessIteratorFacade) as the base of a sparse range / of an IndexedIterator -/
def denseBase : Base It where
  eq := Legacy.eq posCore true
  inc := Legacy.preInc posCore
  dec := Legacy.preDec posCore
  addAssign := Legacy.addAssign posCore
  sub := Legacy.diff posCore true
  lt := Legacy.lt posCore true

/-! ## IndexedIterator: the wrapped iterator plus a running index -/

structure Indexed (B : Type) where
  base : B
  index : Int

namespace Indexed
variable {B : Type} (b : Base B)
def inc (i : Indexed B) : Indexed B := ⟨b.inc i.base, i.index + 1⟩
def dec (i : Indexed B) : Indexed B := ⟨b.dec i.base, i.index - 1⟩
def postInc (i : Indexed B) : Indexed B × Indexed B := (i, inc b i)
def postDec (i : Indexed B) : Indexed B × Indexed B := (i, dec b i)
/-- `operator+=(n)`: `Iter::operator+=(n); index_ += n` -/
def addAssign (i : Indexed B) (n : Int) : Indexed B := ⟨b.addAssign i.base n, i.index + n⟩
/-- `operator-=(n)`: `Iter::operator-=(n); index_ -= n` (std iterators: `base += -n`) -/
def subAssign (i : Indexed B) (n : Int) : Indexed B := ⟨b.addAssign i.base (-n), i.index - n⟩
/-- `it + n`, `it - n` are inherited from the wrapped iterator and return it (the index is sliced away) -/
def plus (i : Indexed B) (n : Int) : B := b.addAssign i.base n
def minus (i : Indexed B) (n : Int) : B := b.addAssign i.base (-n)
/-- comparisons and the difference are inherited from the wrapped iterator as well: the index takes no part -/
def eq (l r : Indexed B) : Bool := b.eq l.base r.base
def ne (l r : Indexed B) : Bool := !b.eq l.base r.base
def diff (l r : Indexed B) : Int := b.sub l.base r.base
def lt (l r : Indexed B) : Bool := decide (b.sub l.base r.base < 0)
def le (l r : Indexed B) : Bool := decide (b.sub l.base r.base ≤ 0)
def gt (l r : Indexed B) : Bool := decide (b.sub l.base r.base > 0)
def ge (l r : Indexed B) : Bool := decide (b.sub l.base r.base ≥ 0)

/-- histories of the operators that keep the IndexedIterator type -/
inductive IStep where
  | inc | dec | postInc | postDec | add (n : Int) | sub (n : Int)

def IStep.delta : IStep → Int
  | .inc | .postInc => 1
  | .dec | .postDec => -1
  | .add n => n
  | .sub n => -n

def apply (i : Indexed B) : IStep → Indexed B
  | .inc => inc b i
  | .dec => dec b i
  | .postInc => (postInc b i).2
  | .postDec => (postDec b i).2
  | .add n => addAssign b i n
  | .sub n => subAssign b i n

def run (i : Indexed B) (s : List IStep) : Indexed B := s.foldl (apply b) i
def ideltaSum (s : List IStep) : Int := (s.map IStep.delta).foldl (· + ·) 0
end Indexed

/-! ## the pointer chasing iterators of SLList

The list is the sequence of the addresses of its nodes (pairwise distinct); an iterator is `current_`, the address of
a node or the null pointer (`none`) behind the tail.  `increment`: `current_ = current_->next_`; `equals`:
`current_ == other.current_`.  `SLListModifyIterator` carries a second iterator one node behind. -/
namespace SL
/-- `current_->next_` -/
def next : List Nat → Option Nat → Option Nat
  | _, none => none
  | [], some _ => none
  | x :: xs, some a => if x = a then xs.head? else next xs (some a)
def begin_ (nodes : List Nat) : Option Nat := nodes.head?
def end_ : Option Nat := none
def equals (a b : Option Nat) : Bool := a == b
/-- the iterator reached from `begin()` by `p` increments -/
def at_ (nodes : List Nat) (p : Nat) : Option Nat := stepsNat (next nodes) p (begin_ nodes)
/-- SLListModifyIterator: (`beforeIterator_`, `iterator_`); `beforeHead` is the address of the sentinel node -/
def mNext (beforeHead : Nat) (nodes : List Nat) (m : Option Nat × Option Nat) : Option Nat × Option Nat :=
  (next (beforeHead :: nodes) m.1, next nodes m.2)
def mBegin (beforeHead : Nat) (nodes : List Nat) : Option Nat × Option Nat := (some beforeHead, begin_ nodes)
def mEquals (a b : Option Nat × Option Nat) : Bool := equals a.2 b.2
end SL

/-! ## ranges -/

/-- range-based `for` over a position range `[first,last)` of a container `c`, applying `f` to every
dereferenced element and logging each call: returns (produced values, arguments `f` was called with).
`TransformedRangeIterator::operator*` is `f(*it_)`; the loop is `for (it = begin; it != end; ++it)`. -/
def transformLoop (f : Int → Int) (c : List Int) : Nat → It → It → List Int × List Int
  | 0, _, _ => ([], [])
  | fuel+1, it, e =>
    if NewF.ne stdBase it e then
      match getAt c it.pos with
      | some x =>
        let (vs, log) := transformLoop f c fuel (NewF.preInc stdBase it) e
        (f x :: vs, x :: log)
      | none => ([], [])
    else ([], [])

/-- `for (auto&& e : transformedRangeView(c, f))` -/
def transformedEnumerateFuel (fuel : Nat) (f : Int → Int) (c : List Int) : List Int × List Int :=
  transformLoop f c fuel ⟨0, 0⟩ ⟨0, c.length⟩
def transformedEnumerate (f : Int → Int) (c : List Int) : List Int × List Int :=
  transformedEnumerateFuel c.length f c

/-- `TransformedRangeView::operator[](i)`: `begin()[i]`; `size()`: `rawRange_.size()`; `empty()`: `begin == end` of the raw range -/
def viewAt (f : Int → Int) (c : List Int) (i : Nat) : Option Int :=
  NewF.index stdBase (fun it => (getAt c it.pos).map f) ⟨0, 0⟩ i
def viewSize (c : List Int) : Nat := c.length
def viewEmpty (c : List Int) : Bool := stdBase.eq ⟨0, 0⟩ ⟨0, c.length⟩

/-- transformed range over an integral range (base iterator = IntegralRangeIterator) -/
def transformLoopIR (f : Int → Int) : Nat → IR → IR → List Int × List Int
  | 0, _, _ => ([], [])
  | fuel+1, it, e =>
    if NewF.ne irBase it e then
      let (vs, log) := transformLoopIR f fuel (NewF.preInc irBase it) e
      (f (IR.deref it) :: vs, IR.deref it :: log)
    else ([], [])

def transformedEnumerateIRFuel (fuel : Nat) (f : Int → Int) (r : IntegralRange) : List Int × List Int :=
  transformLoopIR f fuel r.begin_ r.end_
def transformedEnumerateIR (f : Int → Int) (r : IntegralRange) : List Int × List Int :=
  transformedEnumerateIRFuel (r.hi - r.lo).toNat f r

/-- `iteratorTransformedRangeView(c, g)`: the transformation sees the iterator, not the value: `g(it)`.
Here `g it = (*it, it.index())`, the transformation of `sparseRange`; DenseIterator's `index()` is its position -/
def sparseLoop (c : List Int) : Nat → It → It → List (Int × Int)
  | 0, _, _ => []
  | fuel+1, it, e =>
    if NewF.ne denseBase it e then
      match dereference c it with
      | some x => (x, it.pos) :: sparseLoop c fuel (NewF.preInc denseBase it) e
      | none => []
    else []

def sparseEnumerateFuel (fuel : Nat) (c : List Int) : List (Int × Int) :=
  sparseLoop c fuel ⟨0, 0⟩ ⟨0, c.length⟩
def sparseEnumerate (c : List Int) : List (Int × Int) := sparseEnumerateFuel c.length c

/-- `sparseRange` over row `row` of a DiagonalMatrix with diagonal `d`: the row is a one-entry container whose
iterator's `index()` is the row index (ContainerWrapperIterator positions run over `row .. row+1`) -/
def sparseDiagRow (d : List Int) (row : Nat) : List (Int × Int) :=
  match d[row]? with
  | some x => [(x, (row : Int))]
  | none => []

/-- plain range-for over a container through a legacy facade iterator (`!=`, `++`, `*`) -/
def legacyLoop (k : Core It) (ne : It → It → Bool) (c : List Int) : Nat → It → It → List Int
  | 0, _, _ => []
  | fuel+1, it, e =>
    if ne it e then
      match getAt c it.pos with
      | some x => x :: legacyLoop k ne c fuel (Legacy.preInc k it) e
      | none => []
    else []

/-- `IteratorRange(begin+a, begin+b)` enumerated by range-for -/
def iteratorRangeEnumerateFuel (fuel : Nat) (c : List Int) (a b : Nat) : List Int :=
  legacyLoop posCore (Legacy.ne posCore true) c fuel ⟨0, a⟩ ⟨0, b⟩
def iteratorRangeEnumerate (c : List Int) (a b : Nat) : List Int := iteratorRangeEnumerateFuel (b - a) c a b

/-! ## hybrid helpers

A compile-time container (tuple, TupleVector, std::array, integer_sequence, static integral range) is the
list of its values; the static overloads walk it by index (`elementAt(c, index_constant<i>)` for
`i = 0 … size-1`, in that order: the initializer-list fold is evaluated left to right), the dynamic
overloads walk it by a range-based `for`. -/
namespace Hybrid

/-- static `size`: `std::tuple_size<T>::value` / `T::size()` -/
def sizeStatic (c : List Int) : Nat := c.length
/-- dynamic `size`: `t.size()` -/
def sizeDynamic (c : List Int) : Nat := c.length

/-- static `elementAt(c, index_constant<i>)`: `std::get<i>(c)` / `integerSequenceEntry` -/
def elementAtStatic : List Int → Nat → Option Int
  | [], _ => none
  | x :: _, 0 => some x
  | _ :: xs, i+1 => elementAtStatic xs i
/-- dynamic `elementAt(c, i)`: `c[i]` -/
def elementAtDynamic (c : List Int) (i : Nat) : Option Int := c[i]?

/-- `forEachIndex`: `f(elementAt(range, integral_constant<Index,i>()))` for `i` in `make_index_sequence<size>` -/
def forEachIndex {σ : Type} (c : List Int) (f : σ → Int → σ) : List Nat → σ → σ
  | [], s => s
  | i :: is, s =>
    match elementAtStatic c i with
    | some x => forEachIndex c f is (f s x)
    | none => forEachIndex c f is s

/-- static `forEach` with a state threaded through the callback -/
def forEachStatic {σ : Type} (c : List Int) (f : σ → Int → σ) (s : σ) : σ :=
  forEachIndex c f (List.range (sizeStatic c)) s

/-- dynamic `forEach`: `for (auto&& e : range) f(e)` -/
def forEachDynamic {σ : Type} (c : List Int) (f : σ → Int → σ) (s : σ) : σ :=
  match c with
  | [] => s
  | x :: xs => forEachDynamic xs f (f s x)

/-- static `forEach` over a StaticIntegralRange: `size()` is an integral constant, so the index walk is taken and the
elements are `range[integral_constant<size_t,i>]` = `from + i` -/
def forEachStaticRange {σ : Type} (r : IntegralRange) (f : σ → Int → σ) (s : σ) : σ :=
  (List.range (SR.size 64 r).toNat).foldl (fun st (i : Nat) => f st (SR.getStatic r (i : Int))) s

/-- `accumulate(range, value, f)`: `forEach(range, [&](auto&& e){ value = f(value, e); }); return value;` -/
def accumulateStatic (c : List Int) (init : Int) (f : Int → Int → Int) : Int := forEachStatic c f init
def accumulateDynamic (c : List Int) (init : Int) (f : Int → Int → Int) : Int := forEachDynamic c f init

/-- `ifElse(std::true_type / std::false_type, ifFunc, elseFunc)`: overload selected by the type -/
def ifElseStatic {α : Type} (cond : Bool) (ifF elseF : α) : α :=
  match cond with
  | true => ifF
  | false => elseF
/-- `ifElse(const bool&, …)`: `if (condition) return ifFunc(Id{}); else return elseFunc(Id{});` -/
def ifElseDynamic {α : Type} (cond : Bool) (ifF elseF : α) : α := if cond then ifF else elseF

/-- `switchCases(integer_sequence<T,t0,tt...>, value, branches, elseBranch)` with a run-time value:
`if (t0 == value) return branches(t0); else recurse on tt...`; the empty sequence calls `elseBranch()` -/
def switchSeqDynamic {α : Type} (cases : List Int) (v : Int) (branch : Int → α) (els : α) : α :=
  match cases with
  | [] => els
  | t0 :: tt => if t0 = v then branch t0 else switchSeqDynamic tt v branch els
/-- the same with an `integral_constant` value: `if constexpr ((t0 == value) || ... ) branches(value) else elseBranch()` -/
def switchSeqStatic {α : Type} (cases : List Int) (v : Int) (branch : Int → α) (els : α) : α :=
  if cases.any (· == v) then branch v else els
/-- `switchCases(IntegralRange<T>, value, …)`: `range.contains(value) ? branches(T(value)) : elseBranch()` -/
def switchRangeDynamic {α : Type} (r : IntegralRange) (v : Int) (branch : Int → α) (els : α) : α :=
  if r.contains v then branch v else els
/-- `switchCases(StaticIntegralRange, value, …)`: forwards to the sequence `from, from+1, …, to-1` -/
def switchRangeStatic {α : Type} (r : IntegralRange) (v : Int) (branch : Int → α) (els : α) : α :=
  switchSeqDynamic (SR.toSequence r) v branch els
/-- the three-argument forms (no else branch; the value must be among the cases): `elseBranch` asserts -/
def switchSeqDynamic3 {α : Type} (cases : List Int) (v : Int) (branch : Int → α) : Option α :=
  switchSeqDynamic cases v (fun i => some (branch i)) none
/-- `switchCases(IntegralRange<T>, value, branches)`: `assert(range.contains(value)); branches(T(value))` -/
def switchRangeDynamic3 {α : Type} (r : IntegralRange) (v : Int) (branch : Int → α) : Option α :=
  if r.contains v then some (branch v) else none

/-- `HybridFunctor`: on integral constants the result is computed at compile time from `Args::value...`,
otherwise `_functor(args...)`; both apply the same functor -/
def functorStatic (f : Int → Int → Int) (a b : Int) : Int := f a b
def functorDynamic (f : Int → Int → Int) (a b : Int) : Int := f a b

end Hybrid

/-! ## integersequence.hh: compile-time sequences as lists -/
namespace Seq
/-- `get<pos>(seq)` (static index) and `get(seq, pos)` (run-time index): `std::array{II...}[pos]` -/
def getStatic (s : List Int) (pos : Nat) : Option Int := Hybrid.elementAtStatic s pos
def getDynamic (s : List Int) (pos : Nat) : Option Int := s[pos]?
def front (s : List Int) : Option Int := s.head?
def head (s : List Int) : Option Int := s.head?
/-- `back(seq)`: `get<sizeof...(II)-1>(seq)` -/
def back (s : List Int) : Option Int := if s.length = 0 then none else getStatic s (s.length - 1)
def tail (s : List Int) : List Int := s.drop 1
def pushFront (x : Int) (s : List Int) : List Int := x :: s
def pushBack (x : Int) (s : List Int) : List Int := s ++ [x]
def size (s : List Int) : Nat := s.length
def empty (s : List Int) : Bool := s.length == 0
/-- `contains(seq, value)`: `((II == value) || ...)` -/
def contains (s : List Int) (v : Int) : Bool := s.any (· == v)
/-- `difference(iSeq, jSeq)`: keep the head if it is not contained in `jSeq`, recurse on the tail -/
def difference : List Int → List Int → List Int
  | [], _ => []
  | i0 :: is, js => if js.length = 0 then i0 :: is else if !contains js i0 then i0 :: difference is js else difference is js
/-- `equal(a, b)`: same length and element-wise equal -/
def equal : List Int → List Int → Bool
  | [], [] => true
  | x :: xs, y :: ys => x == y && equal xs ys
  | _, _ => false
/-- `sorted(seq)` at the level of its specification: insertion into a sorted list (the source runs a quicksort at
compile time; for integers under `<` the result is determined by the specification) -/
def insertSorted (x : Int) : List Int → List Int
  | [] => [x]
  | y :: ys => if x ≤ y then x :: y :: ys else y :: insertSorted x ys
def sorted : List Int → List Int
  | [] => []
  | x :: xs => insertSorted x (sorted xs)
end Seq

end DV.C16
