/-
C10 — operation histories on bigunsignedint<k> variables (round two).

A *program* case works on two variables `a`, `b` of type `bigunsignedint<k>` and applies a sequence of compound
operators to them, exactly as the harness does on the real class:

  `d op= s`      (`+= -= *= /= %= &= |= ^=`; `d` and `s` may be the same variable: `a += a`, `a /= a`)
  `d = d op y`   (mixed operation with a built-in `std::uintmax_t y`)
  `++d`, `d = ~d`, `d = d << s`, `d = d >> s`, `d = s`

`/=` and `%=` by zero throw `MathError` *before* touching the destination, so the state is unchanged and the
observation is the error.  (With `d` and `s` the same variable the repaired code divides by a copy of the divisor,
fix C10_divmod_self_alias; the value-level model is then simply `div a a`.)

Also here: the spec machine over plain natural numbers modulo `W` that the theorem `prog_refines` compares with,
the canonical (leading-zero-free) hex form used by the line protocol for `print`, and the constructor overloads.
Core Lean only.
-/
import DuneVerif.Model.C10

namespace DV.C10
open DV.C10.Gen

/-- the two variables of a program case -/
structure Regs where
  a : List Nat
  b : List Nat
  deriving Repr, BEq, DecidableEq

inductive Reg where
  | a | b
  deriving Repr, BEq, DecidableEq

def Regs.get (r : Regs) : Reg → List Nat
  | .a => r.a
  | .b => r.b

def Regs.set (r : Regs) : Reg → List Nat → Regs
  | .a, v => { r with a := v }
  | .b, v => { r with b := v }

-- `BinOp` (add sub mul div mod band bor bxor) is the operator vocabulary of the generated file Gen/C10.lean

/-- one statement of a program -/
inductive POp where
  | bin (o : BinOp) (d s : Reg)        -- d o= s
  | binU (o : BinOp) (d : Reg) (y : Nat) -- d = d o y   (y a built-in std::uintmax_t)
  | incr (d : Reg)                     -- ++d
  | bnot (d : Reg)                     -- d = ~d
  | shl (d : Reg) (s : Nat)            -- d = d << s
  | shr (d : Reg) (s : Nat)            -- d = d >> s
  | copy (d s : Reg)                   -- d = s
  deriving Repr, BEq, DecidableEq

/-- the compound operator `o=` on digit lists (`k` is the template parameter, needed by `*=` for its temporary) -/
def applyBin (k : Nat) : BinOp → List Nat → List Nat → Res
  | .add, a, x => .ok (add a x)
  | .sub, a, x => .ok (sub a x)
  | .mul, a, x => .ok (mul k a x)
  | .div, a, x => div a x
  | .mod, a, x => mod a x
  | .band, a, x => .ok (band a x)
  | .bor, a, x => .ok (bor a x)
  | .bxor, a, x => .ok (bxor a x)

/-- what the protocol admits: shift counts below the width, built-in operands that are a `uintmax_t` -/
def POp.valid (n : Nat) : POp → Bool
  | .binU _ _ y => y < 2 ^ 64
  | .shl _ s => s < bits * n
  | .shr _ s => s < bits * n
  | _ => true

/-- store the result of a statement: an error leaves the destination as it was -/
def commit (r : Regs) (d : Reg) : Res → Regs × Res
  | .ok v => (r.set d v, .ok v)
  | .mathError => (r, .mathError)

/-- one statement on the model state; the observation is the new value of the destination (or the error) -/
def step (k : Nat) (r : Regs) (op : POp) : Option (Regs × Res) :=
  let n := ndigits k
  if !op.valid n then none else
  match op with
  | .bin o d s => some (commit r d (applyBin k o (r.get d) (r.get s)))
  | .binU o d y => some (commit r d (applyBin k o (r.get d) (assign n y)))
  | .incr d => some (commit r d (.ok (incr (r.get d))))
  | .bnot d => some (commit r d (.ok (bnot (r.get d))))
  | .shl d s => some (commit r d (.ok (shl (r.get d) s)))
  | .shr d s => some (commit r d (.ok (shr (r.get d) s)))
  | .copy d s => some (commit r d (.ok (r.get s)))

/-- a whole history: observations in order and the final state -/
def run (k : Nat) : Regs → List POp → Option (List Res × Regs)
  | r, [] => some ([], r)
  | r, op :: ops =>
    match step k r op with
    | none => none
    | some (r', o) =>
      match run k r' ops with
      | none => none
      | some (os, r'') => some (o :: os, r'')

/-! ### the specification machine: the same statements on natural numbers modulo `W` -/

/-- `o` on exact integers, reduced modulo `W`; `none` = the zero divisor is reported -/
def specBin (W : Nat) : BinOp → Nat → Nat → Option Nat
  | .add, x, y => some ((x + y) % W)
  | .sub, x, y => some ((x + W - y) % W)
  | .mul, x, y => some ((x * y) % W)
  | .div, x, y => if y = 0 then none else some (x / y)
  | .mod, x, y => if y = 0 then none else some (x % y)
  | .band, x, y => some (x &&& y)
  | .bor, x, y => some (x ||| y)
  | .bxor, x, y => some (x ^^^ y)

structure SRegs where
  a : Nat
  b : Nat
  deriving Repr, BEq, DecidableEq

def SRegs.get (r : SRegs) : Reg → Nat
  | .a => r.a
  | .b => r.b

def SRegs.set (r : SRegs) : Reg → Nat → SRegs
  | .a, v => { r with a := v }
  | .b, v => { r with b := v }

def scommit (r : SRegs) (d : Reg) : Option Nat → SRegs × Option Nat
  | some v => (r.set d v, some v)
  | none => (r, none)

def specStep (n : Nat) (r : SRegs) (op : POp) : Option (SRegs × Option Nat) :=
  let W := 2 ^ (bits * n)
  if !op.valid n then none else
  match op with
  | .bin o d s => some (scommit r d (specBin W o (r.get d) (r.get s)))
  | .binU o d y => some (scommit r d (specBin W o (r.get d) (y % W)))
  | .incr d => some (scommit r d (some ((r.get d + 1) % W)))
  | .bnot d => some (scommit r d (some (W - 1 - r.get d)))
  | .shl d s => some (scommit r d (some ((r.get d * 2 ^ s) % W)))
  | .shr d s => some (scommit r d (some (r.get d / 2 ^ s)))
  | .copy d s => some (scommit r d (some (r.get s)))

def specRun (n : Nat) : SRegs → List POp → Option (List (Option Nat) × SRegs)
  | r, [] => some ([], r)
  | r, op :: ops =>
    match specStep n r op with
    | none => none
    | some (r', o) =>
      match specRun n r' ops with
      | none => none
      | some (os, r'') => some (o :: os, r'')

/-- abstraction of a model state / observation -/
def Regs.abs (r : Regs) : SRegs := ⟨val r.a, val r.b⟩
def Res.abs : Res → Option Nat
  | .ok v => some (val v)
  | .mathError => none

/-! ### canonical hex form (what the protocol compares for `print`: no leading zeros, "0" for zero) -/

def stripZeros (cs : List Char) : List Char :=
  match cs.dropWhile (· == '0') with
  | [] => ['0']
  | l => l

def printCanon (a : List Nat) : List Char := stripZeros (print a)

/-! ### constructor overloads -/

/-- the built-in integer types the harness constructs from: `(signed?, bits)` -/
structure IntTy where
  signed : Bool
  width : Nat
  deriving Repr, BEq, DecidableEq

/-- is `y` a value of the built-in type -/
def IntTy.holds (t : IntTy) (y : Int) : Bool :=
  if t.signed then decide (-((2 ^ (t.width - 1) : Nat) : Int) ≤ y ∧ y < ((2 ^ (t.width - 1) : Nat) : Int))
  else decide (0 ≤ y ∧ y < ((2 ^ t.width : Nat) : Int))

/-- overload resolution: signed integral types take the checking template constructor, everything else converts
    to `std::uintmax_t` (value preserving for unsigned types) -/
def construct (n : Nat) (t : IntTy) (y : Int) : CRes :=
  if t.signed then ofSigned n y else .ok (assign n y.toNat)

end DV.C10
