import DuneVerif.Model.C06
/-!
C06 — the *source view* used by the generated file `DuneVerif/Gen/C06.lean` (tools/translators/tr_c06.py).

The translator turns the bodies of the small functions of variablesizecommunicator.hh (MessageBuffer, InterfaceTracker,
PackEntries, UnpackEntries, UnpackSizeEntries, SetupSendRequest, SetupRecvRequest) into Lean definitions over the C++
*values* (`index_`, `interface_.size()`, `sizes_.size()`, `position_`, `size_` …).  This file says how these values are
read off the zipper representation of `Tracker` (hand-written, fixed) and gives the one loop combinator the generated
code uses.  Nothing here depends on the source text.
-/
namespace DV.C06

namespace Tracker
/-- `interface_.size()` -/
def ifaceSize (t : Tracker) : Nat := t.index + t.iface.length
/-- `sizes_.size()` (zero unless the size array was allocated) -/
def sizesSize (t : Tracker) : Nat := if t.hasSizes then t.index + t.sizes.length else 0
/-- `interface_[index_]` (`index()`) -/
def cur (t : Tracker) : Nat := t.iface.headD 0
/-- `sizes_[index_]` (`size()`) -/
def sizeHere (t : Tracker) : Nat := t.sizes.headD 0
/-- the next `interface_[index_]` and `sizes_[index_]` are inside their arrays -/
def okSkip (t : Tracker) : Bool := !t.iface.isEmpty && !t.sizes.isEmpty
end Tracker

/-- state of a pack / unpack loop: tracker, buffer, the integer accumulator (`packed`, `unpacked`), recorded scatters -/
structure St (α : Type) where
  t : Tracker
  b : MessageBuffer α
  acc : Nat
  calls : List (Call α)

namespace St
variable {α : Type}
/-- `interface_[index_]` is inside the array (reading past it is undefined behaviour; model and generated code stop) -/
def okIface (s : St α) : Bool := !s.t.iface.isEmpty
/-- additionally `sizes_[index_]` is inside its array -/
def okSizes (s : St α) : Bool := !s.t.iface.isEmpty && !s.t.sizes.isEmpty
end St

/-- `while(cond) body` resp. a counted `for`, with fuel; `ok` = the array accesses of the next iteration are in bounds -/
def loopG {σ : Type} (ok cond : σ → Bool) (body : σ → σ) : Nat → σ → σ
  | 0, s => s
  | n + 1, s => if ok s && cond s then loopG ok cond body n (body s) else s

end DV.C06
