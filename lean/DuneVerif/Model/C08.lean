import DuneVerif.Gen.C08
/-!
# C08 — model of the eigenvalue routines of dune-common (fmatrixev.hh, dynmatrixev.hh)

Core Lean only.  Everything is generic over a scalar type `K` with the core arithmetic classes, an order with
decidable comparisons, and explicit `sqrt` / `acos` / `cos` parameters, so that the same definitions run over
`Rat` in the line-protocol driver (exactly, on inputs whose square roots are rational), over `Float` (IEEE double, the
operation order of the C++ source is kept, so that the `double` instantiation of the code is reproduced) and are
instantiated at `ℝ` with `Real.sqrt` in `Props/C08.lean`.

The straight-line arithmetic and all threshold constants come from `DuneVerif/Gen/C08.lean`, which the translator
regenerates from the current `fmatrixev.hh`; this file adds the control flow:

* `eigenValues2x2`, `eigenValuesVectors2x2` — the 2x2 entry points: max-norm preconditioning (as in the 3x3 path),
  closed form on the scaled matrix, eigenvalues scaled back;
* `eigenValues2d`, `eigenVectorChoice2d`, `eigenVectors2d`, `eigenValuesVectors2d` — the 2x2 closed form with the
  clamp of slightly negative discriminants, the identity special case with the code's threshold, the choice of the
  larger column of `A - λI` (Cayley–Hamilton) and the normalisation;
* `eigenValuesVectors1d` — the 1x1 specialisation;
* `eigenValues3dImpl`, `eig0`, `orthoComp`, `eig1`, `trigVectors`, `sortPairs3`, `eigenValues3d`, `eigenValuesVectors3d`
  — the whole 3x3 path: scaling by the max norm, the diagonal test, the trigonometric form (with the determinant of
  `B` in the operation order of `DenseMatrix::determinant`, translated), the eigenvector from the largest cross product
  of two rows of `A - λI`, the orthonormal complement, the second eigenvector from the 2x2 reduced system with all its
  branches, the third as a cross product, the stable sort of the (value, vector) pairs, and the jointly sorted
  diagonal special case;
* `packRowMajor`, `packColMajor`, `fortranView`, `unpackRowMajor`, … — the row-major ↔ column-major hand-over to LAPACK
  as index arithmetic on flat arrays.
* `vresize`, `storePrefix`, `nsVecLoop`, `nsStoreVectors`, `nsStep`, `nsRun` — the caller-owned output containers of
  `DynamicMatrixHelp::eigenValuesNonSym` (a `DynamicVector` of eigenvalues and a `std::vector` of `DynamicVector`s) with
  `std::vector::resize` semantics, arbitrary content on entry, out-of-bounds access as `none`, and histories of calls
  that reuse the same containers.

The model describes the code *after* the proposed repairs fixes/C08_*.patch (relative identity threshold, sorted
3x3 values, column-major copy in DynamicMatrixHelp::eigenValuesNonSym, max-norm preconditioning of the 2x2 path); since thresholds and the sort flag are
translated, the unrepaired source yields a different generated file on which the scale theorem does not hold.
-/
namespace DV.C08

structure M2 (K : Type) where
  a00 : K
  a01 : K
  a10 : K
  a11 : K
deriving Repr

structure V2 (K : Type) where
  x : K
  y : K
deriving Repr

structure M3 (K : Type) where
  a00 : K
  a01 : K
  a02 : K
  a10 : K
  a11 : K
  a12 : K
  a20 : K
  a21 : K
  a22 : K
deriving Repr

structure V3 (K : Type) where
  x : K
  y : K
  z : K
deriving Repr

inductive Err where
  | math            -- Dune::MathError ("Complex eigenvalue detected")
deriving Repr, DecidableEq

section
variable {K : Type} [Add K] [Sub K] [Mul K] [Div K] [Neg K] [NatCast K] [LT K] [LE K]
  [DecidableLT K] [DecidableLE K]

/-- literal zero / one of the scalar type -/
@[reducible] def zero : K := (Nat.cast 0 : K)
@[reducible] def one : K := (Nat.cast 1 : K)

/-- `std::abs` on a real scalar -/
def absK (x : K) : K := if x < (zero : K) then -x else x

/-- `std::max(a, b)` = `(a < b) ? b : a` -/
def maxK (a b : K) : K := if a < b then b else a

/-! ## 1x1 -/

/-- `eigenValuesVectorsImpl` for 1x1: `eigenValues[0] = matrix[0][0]; eigenVectors[0] = {1.0}` -/
def eigenValuesVectors1d (a : K) : K × K := (a, one)

/-- `FMatrixHelp::eigenValues` for 1x1 -/
def eigenValues1d (a : K) : K := a

/-! ## 2x2 -/

/-- `FieldMatrix<K,2,2>::infinity_norm()`: `norm = 0; for rows: norm = max(row.one_norm(), norm)` -/
def infNorm2 (A : M2 K) : K :=
  let n0 : K := zero
  let n1 := maxK (((zero : K) + absK A.a00) + absK A.a01) n0
  maxK (((zero : K) + absK A.a10) + absK A.a11) n1

/-- `FieldVector<K,2>::two_norm2()` -/
def norm2 (v : V2 K) : K := ((zero : K) + v.x * v.x) + v.y * v.y

/-- `Impl::eigenValues2dImpl` with `sqrt` as a parameter -/
def eigenValues2d (sqrt : K → K) (A : M2 K) : Except Err (K × K) :=
  let p := Gen.ev2_p A.a00 A.a01 A.a10 A.a11
  let p2 := Gen.ev2_p2 A.a00 A.a01 A.a10 A.a11 p
  let q := Gen.ev2_q A.a00 A.a01 A.a10 A.a11 p p2
  let q := if q < (zero : K) ∧ (Gen.ev2_qClamp : K) < q then (zero : K) else q
  if q < (zero : K) then .error .math
  else
    let r := sqrt q
    .ok (Gen.ev2_lam0 p r, Gen.ev2_lam1 p r)

def ofPair (p : K × K) : V2 K := ⟨p.1, p.2⟩

/-- `(ev0.two_norm2() >= ev1.two_norm2()) ? ev0 : ev1` (before normalisation) -/
def pickColumn (e0 e1 : V2 K) : V2 K := if norm2 e1 ≤ norm2 e0 then e0 else e1

/-- The branch decision and the unnormalised columns of the 2x2 eigenvector code:
`none` = the identity special case (unit vectors are returned),
`some (c0, c1)` = the chosen columns of `A - λ₁ I` resp. `A - λ₀ I`. -/
def eigenVectorChoice2d (eps : K) (A : M2 K) (l0 l1 : K) : Option (V2 K × V2 K) :=
  let sh := if Gen.ev2_shiftIndex = 0 then l0 else l1
  let temp : M2 K := { A with a00 := A.a00 - sh, a11 := A.a11 - sh }
  if infNorm2 temp ≤ Gen.ev2_identThreshold eps (infNorm2 A) then none
  else
    let c0 := pickColumn (ofPair (Gen.ev2_v0_col0 A.a00 A.a01 A.a10 A.a11 l0 l1))
                         (ofPair (Gen.ev2_v0_col1 A.a00 A.a01 A.a10 A.a11 l0 l1))
    let c1 := pickColumn (ofPair (Gen.ev2_v1_col0 A.a00 A.a01 A.a10 A.a11 l0 l1))
                         (ofPair (Gen.ev2_v1_col1 A.a00 A.a01 A.a10 A.a11 l0 l1))
    some (c0, c1)

/-- `ev / ev.two_norm()` -/
def normalize2 (sqrt : K → K) (v : V2 K) : V2 K :=
  let n := sqrt (norm2 v)
  ⟨v.x / n, v.y / n⟩

def eigenVectors2d (sqrt : K → K) (eps : K) (A : M2 K) (l0 l1 : K) : V2 K × V2 K :=
  match eigenVectorChoice2d eps A l0 l1 with
  | none => (⟨one, zero⟩, ⟨zero, one⟩)
  | some (c0, c1) => (normalize2 sqrt c0, normalize2 sqrt c1)

/-- `FMatrixHelp::eigenValuesVectors` for 2x2 -/
def eigenValuesVectors2d (sqrt : K → K) (eps : K) (A : M2 K) : Except Err ((K × K) × (V2 K × V2 K)) :=
  match eigenValues2d sqrt A with
  | .error e => .error e
  | .ok (l0, l1) => .ok ((l0, l1), eigenVectors2d sqrt eps A l0 l1)

def smul2 (s : K) (A : M2 K) : M2 K := ⟨s * A.a00, s * A.a01, s * A.a10, s * A.a11⟩

def sdiv2 (A : M2 K) (s : K) : M2 K := ⟨A.a00 / s, A.a01 / s, A.a10 / s, A.a11 / s⟩

/-- `isnormal(norm) ? norm : 1` in exact arithmetic (the norm is non-negative; `isnormal` fails only for 0) -/
def maxAbsElement2 (A : M2 K) : K := if (zero : K) < infNorm2 A then infNorm2 A else one

/-- the matrix the closed form is applied to: `scaledMatrix = matrix / maxAbsElement` if the source preconditions
the 2x2 path (translated flag `Gen.ev2_preconditioned`), the matrix itself otherwise -/
def preScale2 (A : M2 K) : K := if Gen.ev2_preconditioned then maxAbsElement2 A else one

/-- `FMatrixHelp::eigenValues` for 2x2: precondition by the max norm, closed form, `eigenValues *= maxAbsElement` -/
def eigenValues2x2 (sqrt : K → K) (A : M2 K) : Except Err (K × K) :=
  let m := preScale2 A
  match eigenValues2d sqrt (sdiv2 A m) with
  | .error e => .error e
  | .ok (l0, l1) => .ok (l0 * m, l1 * m)

/-- `FMatrixHelp::eigenValuesVectors` for 2x2 (the eigenvectors are those of the scaled matrix) -/
def eigenValuesVectors2x2 (sqrt : K → K) (eps : K) (A : M2 K) : Except Err ((K × K) × (V2 K × V2 K)) :=
  let m := preScale2 A
  match eigenValuesVectors2d sqrt eps (sdiv2 A m) with
  | .error e => .error e
  | .ok ((l0, l1), v) => .ok ((l0 * m, l1 * m), v)

/-! ## 3x3 -/

def cross (u v : V3 K) : V3 K :=
  let c := Gen.cross u.x u.y u.z v.x v.y v.z
  ⟨c.1, c.2.1, c.2.2⟩

def norm2_3 (v : V3 K) : K := (((zero : K) + v.x * v.x) + v.y * v.y) + v.z * v.z

def dot3 (u v : V3 K) : K := (u.x * v.x + u.y * v.y) + u.z * v.z

def mulVec3 (A : M3 K) (v : V3 K) : V3 K :=
  ⟨dot3 ⟨A.a00, A.a01, A.a02⟩ v, dot3 ⟨A.a10, A.a11, A.a12⟩ v, dot3 ⟨A.a20, A.a21, A.a22⟩ v⟩

def det3 (A : M3 K) : K :=
  (A.a00 * (A.a11 * A.a22 - A.a12 * A.a21) - A.a01 * (A.a10 * A.a22 - A.a12 * A.a20))
    + A.a02 * (A.a10 * A.a21 - A.a11 * A.a20)

/-- `DenseMatrix::determinant()` for 3x3 in the operation order of the source (translated block) -/
def det3m (A : M3 K) : K := Gen.det3 A.a00 A.a01 A.a02 A.a10 A.a11 A.a12 A.a20 A.a21 A.a22

/-- `A - λ I` -/
def shift3 (A : M3 K) (l : K) : M3 K := { A with a00 := A.a00 - l, a11 := A.a11 - l, a22 := A.a22 - l }

def smul3 (s : K) (A : M3 K) : M3 K :=
  ⟨s * A.a00, s * A.a01, s * A.a02, s * A.a10, s * A.a11, s * A.a12, s * A.a20, s * A.a21, s * A.a22⟩

def sdiv3 (A : M3 K) (s : K) : M3 K :=
  ⟨A.a00 / s, A.a01 / s, A.a02 / s, A.a10 / s, A.a11 / s, A.a12 / s, A.a20 / s, A.a21 / s, A.a22 / s⟩

def infNorm3 (A : M3 K) : K :=
  let n0 : K := zero
  let n1 := maxK ((((zero : K) + absK A.a00) + absK A.a01) + absK A.a02) n0
  let n2 := maxK ((((zero : K) + absK A.a10) + absK A.a11) + absK A.a12) n1
  maxK ((((zero : K) + absK A.a20) + absK A.a21) + absK A.a22) n2

/-- compare-and-swap -/
def cswap (p : K × K) : K × K := if p.2 < p.1 then (p.2, p.1) else p

/-- ascending sort of three values (`std::sort` on a 3-element range; any correct sort returns the same values) -/
def sort3 (a b c : K) : K × K × K :=
  let p := cswap (a, b)
  let q := cswap (p.2, c)
  let r := cswap (p.1, q.1)
  (r.1, r.2, q.2)

def clampK (x lo hi : K) : K := if x < lo then lo else if hi < x then hi else x

/-- `Impl::eigenValues3dImpl` (called on the max-norm-scaled matrix): returns the eigenvalues and `r` -/
def eigenValues3dImpl (sqrt acos cos : K → K) (pi eps : K) (A : M3 K) : (K × K × K) × K :=
  let p1 := Gen.ev3_p1 A.a00 A.a01 A.a02 A.a10 A.a11 A.a12 A.a20 A.a21 A.a22
  if p1 ≤ Gen.ev3_diagThreshold eps then (sort3 A.a00 A.a11 A.a22, zero)
  else
    let q := Gen.ev3_q A.a00 A.a11 A.a22
    let p2 := Gen.ev3_p2 A.a00 A.a01 A.a02 A.a10 A.a11 A.a12 A.a20 A.a21 A.a22 q p1
    let p := Gen.ev3_p sqrt p2
    let B := smul3 (Gen.ev3_Bscale p) (shift3 A q)
    let r := clampK (Gen.ev3_r (det3m B)) Gen.ev3_clampLo Gen.ev3_clampHi
    let phi := Gen.ev3_phi acos r
    let l2 := Gen.ev3_lam2 cos q p phi pi
    let l0 := Gen.ev3_lam0 cos q p phi pi
    let l1 := Gen.ev3_lam1 q l0 l2
    (if Gen.ev3_sortedAfterTrig then sort3 l0 l1 l2 else (l0, l1, l2), r)

/-- `isnormal(norm) ? norm : 1` in exact arithmetic: the norm is non-negative, `isnormal` fails only for 0
(subnormal/infinite/NaN norms are floating-point matters outside the model) -/
def maxAbsElement (A : M3 K) : K := if (zero : K) < infNorm3 A then infNorm3 A else one

/-- `FMatrixHelp::eigenValues` for 3x3 -/
def eigenValues3d (sqrt acos cos : K → K) (pi eps : K) (A : M3 K) : K × K × K :=
  let m := maxAbsElement A
  let l := (eigenValues3dImpl sqrt acos cos pi eps (sdiv3 A m)).1
  (l.1 * m, l.2.1 * m, l.2.2 * m)

/-- `Impl::eig0`: unit eigenvector for `ev` from the largest cross product of two rows of `A - ev I` -/
def eig0 (sqrt : K → K) (A : M3 K) (ev : K) : V3 K :=
  let S := shift3 A ev
  let r0 : V3 K := ⟨S.a00, S.a01, S.a02⟩
  let r1 : V3 K := ⟨S.a10, S.a11, S.a12⟩
  let r2 : V3 K := ⟨S.a20, S.a21, S.a22⟩
  let c01 := cross r0 r1
  let c02 := cross r0 r2
  let c12 := cross r1 r2
  let d0 := sqrt (norm2_3 c01)
  let d1 := sqrt (norm2_3 c02)
  let d2 := sqrt (norm2_3 c12)
  -- `dmax = d0; imax = 0; if (d1 > dmax) { dmax = d1; imax = 1; } if (d2 > dmax) imax = 2;`
  let sel : K × Nat := if d0 < d1 then (d1, 1) else (d0, 0)
  let imax : Nat := if sel.1 < d2 then 2 else sel.2
  if imax = 0 then ⟨c01.x / d0, c01.y / d0, c01.z / d0⟩
  else if imax = 1 then ⟨c02.x / d1, c02.y / d1, c02.z / d1⟩
  else ⟨c12.x / d2, c12.y / d2, c12.z / d2⟩

/-- `DenseMatrix::mv`: `y[i] = 0; for j: y[i] += A[i][j] * x[j]` -/
def mv3 (A : M3 K) (x : V3 K) : V3 K :=
  ⟨(((zero : K) + A.a00 * x.x) + A.a01 * x.y) + A.a02 * x.z,
   (((zero : K) + A.a10 * x.x) + A.a11 * x.y) + A.a12 * x.z,
   (((zero : K) + A.a20 * x.x) + A.a21 * x.y) + A.a22 * x.z⟩

/-- `DenseVector::dot`: `result = 0; for i: result += x[i] * y[i]` -/
def dotv3 (u w : V3 K) : K := (((zero : K) + u.x * w.x) + u.y * w.y) + u.z * w.z

/-- `Impl::orthoComp`: a right-handed orthonormal set `{u, v, evec0}` for a unit vector `evec0` -/
def orthoComp (sqrt : K → K) (e : V3 K) : V3 K × V3 K :=
  let u : V3 K :=
    if absK e.y < absK e.x then
      -- `temp = {evec0[0], evec0[2]}; L = 1.0 / temp.two_norm(); u = L * {-evec0[2], 0.0, evec0[0]}`
      let L := (one : K) / sqrt (((zero : K) + e.x * e.x) + e.z * e.z)
      ⟨L * (-e.z), L * (zero : K), L * e.x⟩
    else
      -- `temp = {evec0[1], evec0[2]}; L = 1.0 / temp.two_norm(); u = L * {0.0, evec0[2], -evec0[1]}`
      let L := (one : K) / sqrt (((zero : K) + e.y * e.y) + e.z * e.z)
      ⟨L * (zero : K), L * e.z, L * (-e.y)⟩
  (u, cross e u)

/-- `a*u - b*v` -/
def comb3 (a : K) (u : V3 K) (b : K) (v : V3 K) : V3 K :=
  ⟨a * u.x - b * v.x, a * u.y - b * v.y, a * u.z - b * v.z⟩

/-- the branch structure of `Impl::eig1` on the reduced symmetric 2x2 matrix `M = [[m00, m01], [m01, m11]]`:
`some (a, b)` means `evec1 = a*u - b*v`, `none` means `evec1 = u` (the case `M = 0`).  The largest-length row of `M`
is used and normalised by dividing by its larger entry. -/
def eig1Coeffs (sqrt : K → K) (m00 m01 m11 : K) : Option (K × K) :=
  let a00 := absK m00
  let a01 := absK m01
  let a11 := absK m11
  if a11 ≤ a00 then
    if (zero : K) < maxK a00 a01 then
      if a01 ≤ a00 then
        let m01 := m01 / m00
        let m00 := (one : K) / sqrt ((one : K) + m01 * m01)
        let m01 := m01 * m00
        some (m01, m00)
      else
        let m00 := m00 / m01
        let m01 := (one : K) / sqrt ((one : K) + m00 * m00)
        let m00 := m00 * m01
        some (m01, m00)
    else none
  else
    if (zero : K) < maxK a11 a01 then
      if a01 ≤ a11 then
        let m01 := m01 / m11
        let m11 := (one : K) / sqrt ((one : K) + m01 * m01)
        let m01 := m01 * m11
        some (m11, m01)
      else
        let m11 := m11 / m01
        let m01 := (one : K) / sqrt ((one : K) + m11 * m11)
        let m11 := m11 * m01
        some (m11, m01)
    else none

/-- `Impl::eig1`: unit eigenvector for `ev1` orthogonal to the unit eigenvector `e0`, from the 2x2 system
`M = Jᵀ (A - ev1 I) J`, `J = [u, v]` -/
def eig1 (sqrt : K → K) (A : M3 K) (e0 : V3 K) (ev1 : K) : V3 K :=
  let uv := orthoComp sqrt e0
  let u := uv.1
  let v := uv.2
  let Au := mv3 A u
  let Av := mv3 A v
  let m00 := dotv3 u Au - ev1
  let m01 := dotv3 u Av
  let m11 := dotv3 v Av - ev1
  match eig1Coeffs sqrt m00 m01 m11 with
  | none => u
  | some (a, b) => comb3 a u b v

/-- stable insertion sort of three (value, vector) pairs by value (`std::sort` with `x.first < y.first` on a
3-element range is libstdc++'s insertion sort) -/
def sortPairs3 (a b c : K × V3 K) : (K × V3 K) × (K × V3 K) × (K × V3 K) :=
  let pq : (K × V3 K) × (K × V3 K) := if b.1 < a.1 then (b, a) else (a, b)
  let p := pq.1
  let q := pq.2
  if c.1 < q.1 then (if c.1 < p.1 then (c, p, q) else (p, c, q)) else (p, q, c)

/-- the trigonometric branch of the 3x3 eigenvector code: `eig0` for the better separated extreme eigenvalue
(`r >= 0`: the largest), `eig1` for the middle one, the cross product for the third, then the sort of the pairs -/
def trigVectors (sqrt : K → K) (S : M3 K) (l : K × K × K) (r : K) : (K × V3 K) × (K × V3 K) × (K × V3 K) :=
  if r < (zero : K) then
    let e0 := eig0 sqrt S l.1
    let e1 := eig1 sqrt S e0 l.2.1
    let e2 := cross e0 e1
    sortPairs3 (l.1, e0) (l.2.1, e1) (l.2.2, e2)
  else
    let e2 := eig0 sqrt S l.2.2
    let e1 := eig1 sqrt S e2 l.2.1
    let e0 := cross e1 e2
    sortPairs3 (l.1, e0) (l.2.1, e1) (l.2.2, e2)

/-- one compare-and-swap step of the joint bubble sort of the diagonal special case -/
def swapIf (c : Bool) (p : (K × V3 K) × (K × V3 K)) : (K × V3 K) × (K × V3 K) :=
  if c then (p.2, p.1) else p

/-- the test `offDiagNorm <= epsilon` of the eigenvector routine on the scaled matrix -/
def diagBranchVec (eps : K) (S : M3 K) : Bool := decide (norm2_3 ⟨S.a01, S.a02, S.a12⟩ ≤ Gen.ev3_vecThreshold eps)

/-- `FMatrixHelp::eigenValuesVectors` for 3x3: eigenvalues and eigenvectors (rows of `eigenVectors`) -/
def eigenValuesVectors3d (sqrt acos cos : K → K) (pi eps : K) (A : M3 K) : (K × K × K) × (V3 K × V3 K × V3 K) :=
  let m := maxAbsElement A
  let S := sdiv3 A m
  let lr := eigenValues3dImpl sqrt acos cos pi eps S
  if diagBranchVec eps S then
    let e0 : K × V3 K := (S.a00, ⟨one, zero, zero⟩)
    let e1 : K × V3 K := (S.a11, ⟨zero, one, zero⟩)
    let e2 : K × V3 K := (S.a22, ⟨zero, zero, one⟩)
    let (e0, e1) := swapIf (decide (e1.1 < e0.1)) (e0, e1)
    let (e1, e2) := swapIf (decide (e2.1 < e1.1)) (e1, e2)
    let (e0, e1) := swapIf (decide (e1.1 < e0.1)) (e0, e1)
    ((e0.1 * m, e1.1 * m, e2.1 * m), (e0.2, e1.2, e2.2))
  else
    let t := trigVectors sqrt S lr.1 lr.2
    ((t.1.1 * m, t.2.1.1 * m, t.2.2.1 * m), (t.1.2, t.2.1.2, t.2.2.2))

end

/-! ## LAPACK hand-over: flat arrays and their two readings -/
section
variable {K : Type}

/-- the copy loop `matrixVector[row++] = matrix[i][j]` (i outer, j inner): element `k` of the flat array -/
def packRowMajor (n : Nat) (A : Nat → Nat → K) : Nat → K := fun k => A (k / n) (k % n)

/-- the copy loop `matrixVector[row++] = matrix[j][i]` (i outer, j inner) of the repaired
`DynamicMatrixHelp::eigenValuesNonSym` -/
def packColMajor (n : Nat) (A : Nat → Nat → K) : Nat → K := fun k => A (k % n) (k / n)

/-- how Fortran reads a flat array with leading dimension `n`: element (r, c) -/
def fortranView (n : Nat) (flat : Nat → K) : Nat → Nat → K := fun r c => flat (r + n * c)

/-- how Fortran stores a matrix `Z` (eigenvector `c` = column `c`) into a flat array -/
def fortranStore (n : Nat) (Z : Nat → Nat → K) : Nat → K := fun k => Z (k % n) (k / n)

/-- the copy-back loop `eigenVectors[i][j] = matrixVector[row++]`, also `std::copy(vr + N*i, vr + N*(i+1), &v[0])` -/
def unpackRowMajor (n : Nat) (flat : Nat → K) : Nat → Nat → K := fun i j => flat (i * n + j)

/-- with `uplo = 'u'` ?syev only reads the upper triangle of what it sees -/
def upperCompletion (S : Nat → Nat → K) : Nat → Nat → K := fun r c => if r ≤ c then S r c else S c r

/-- the symmetric matrix ?syev works on when `FMatrixHelp` hands over `A` -/
def lapackSeesSym (n : Nat) (A : Nat → Nat → K) : Nat → Nat → K :=
  upperCompletion (fortranView n (packRowMajor n A))

/-- the matrix ?geev works on in `FMatrixHelp::eigenValuesNonSym` (eigenvalues only) -/
def lapackSeesNonSymF (n : Nat) (A : Nat → Nat → K) : Nat → Nat → K := fortranView n (packRowMajor n A)

/-- the matrix ?geev works on in the repaired `DynamicMatrixHelp::eigenValuesNonSym` -/
def lapackSeesNonSymD (n : Nat) (A : Nat → Nat → K) : Nat → Nat → K := fortranView n (packColMajor n A)

/-- eigenvectors as returned to the caller: row `i` = eigenvector `i` -/
def copyBack (n : Nat) (Z : Nat → Nat → K) : Nat → Nat → K := unpackRowMajor n (fortranStore n Z)

/-- `Σ_{k<n} f k` -/
def sumTo [Add K] [NatCast K] : Nat → (Nat → K) → K
  | 0, _ => (Nat.cast 0 : K)
  | n + 1, f => sumTo n f + f n

end

/-! ## The caller's output containers of `DynamicMatrixHelp::eigenValuesNonSym`

`eigenValues` is a `DynamicVector<C>` and `eigenVectors` a `std::vector<DynamicVector<K>>` that the caller owns; they
arrive in an arbitrary state (empty, left over from a previous call with a matrix of another size, pre-sized by the
caller) and the routine has to turn them into exactly `N` values and `N` vectors of `N` entries:

    eigenValues.resize(N);  for i < N: eigenValues[i] = (eigenR[i], eigenI[i]);
    eigenVectors->resize(N);
    for i < N: { auto& v = (*eigenVectors)[i];  v.resize(N);  std::copy(vr + N*i, vr + N*(i+1), &v[0]); }

`Option.none` stands for an access outside the container (undefined behaviour in the C++ code). -/
section
variable {α C K : Type}

/-- `std::vector<T>::resize(n, c)` and `DynamicVector<K>::resize(n, c)`: the first `min(size, n)` elements are kept,
`c` is used for appended elements only -/
def vresize (n : Nat) (c : α) (l : List α) : List α := l.take n ++ List.replicate (n - l.length) c

/-- `for (i = 0; i < n; ++i) v[i] = f(i)` resp. `std::copy(src, src + n, &v[0])` on a container that is not resized by
the statement: entries from `n` on are kept, a container shorter than `n` is written past its end -/
def storePrefix (n : Nat) (f : Nat → α) (l : List α) : Option (List α) :=
  if n ≤ l.length then some ((List.range n).map f ++ l.drop n) else none

/-- the loop over the eigenvector list, `fuel` iterations starting at index `i` -/
def nsVecLoop (n : Nat) (vr : Nat → K) (zero : K) : Nat → Nat → List (List K) → Option (List (List K))
  | 0, _, acc => some acc
  | fuel + 1, i, acc =>
    match acc[i]? with
    | none => none
    | some v =>
      match storePrefix n (fun j => vr (n * i + j)) (vresize n zero v) with
      | none => none
      | some v' => nsVecLoop n vr zero fuel (i + 1) (acc.set i v')

/-- the eigenvector part: outer `resize(N)` (appended vectors are empty), then the loop -/
def nsStoreVectors (n : Nat) (vr : Nat → K) (zero : K) (pre : List (List K)) : Option (List (List K)) :=
  nsVecLoop n vr zero n 0 (vresize n [] pre)

/-- the two output containers -/
structure NsOut (C K : Type) where
  vals : List C
  vecs : List (List K)
deriving DecidableEq, Repr

/-- one call: order `n`, whether the caller passed an eigenvector list, and what LAPACK delivered
(`w i` = i-th eigenvalue, `vr` = the flat column-major array of right eigenvectors) -/
structure NsCall (C K : Type) where
  n : Nat
  wantVec : Bool
  w : Nat → C
  vr : Nat → K

/-- effect of one call on the caller's containers -/
def nsStep (zc : C) (zk : K) (st : NsOut C K) (c : NsCall C K) : Option (NsOut C K) :=
  match storePrefix c.n c.w (vresize c.n zc st.vals) with
  | none => none
  | some vals =>
    if c.wantVec then
      match nsStoreVectors c.n c.vr zk st.vecs with
      | none => none
      | some vs => some ⟨vals, vs⟩
    else some ⟨vals, st.vecs⟩

/-- a history of calls that reuse the same two containers -/
def nsRun (zc : C) (zk : K) : NsOut C K → List (NsCall C K) → Option (NsOut C K)
  | st, [] => some st
  | st, c :: cs =>
    match nsStep zc zk st c with
    | none => none
    | some st' => nsRun zc zk st' cs

/-- what a call with fresh (empty) containers returns: `n` values -/
def nsFreshVals (c : NsCall C K) : List C := (List.range c.n).map c.w

/-- … and `n` vectors with `n` entries, vector `i` = column `i` of the Fortran array -/
def nsFreshVecs (c : NsCall C K) : List (List K) :=
  (List.range c.n).map fun i => (List.range c.n).map fun j => c.vr (c.n * i + j)

end

end DV.C08
