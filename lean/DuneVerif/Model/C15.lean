/-
C15 — executable model of the dune-common allocators
  (poolallocator.hh: Pool + PoolAllocator, mallocallocator.hh, alignedallocator.hh, debugallocator.hh, debugalign.hh).

The compile-time slot geometry, the request validation and the page arithmetic are NOT written here: they are the
definitions of `Gen/C15.lean`, regenerated from the headers on every run.  This file adds the state machines:

* `Pool`: the chunk list `chunks_`, the intrusive free list `head_` as a list of blocks `(chunk, slot)`, and — as ghost
  state the real pool does not keep — the list of blocks handed out and not yet given back (`live`).
  `allocate` pops the head or grows (`grow()` threads slots 0,1,…,elements-1 of a new chunk and the pop takes slot 0),
  `free` pushes.  A chunk is identified by its creation number, a block by `(chunk, slot)`; the byte address is
  `base chunk + slot * alignedSize` for the base address `base chunk` that `operator new` returned — the model is
  nondeterministic in these bases (they are universally quantified in the theorems), so the correspondence compares the
  `(chunk, slot)` names to which the harness maps the addresses the real pool returns.
  Histories contain, besides allocate/free of live blocks, the requests the pool refuses: `PoolAllocator::allocate(n)`
  with `n ≠ 1`, `free(nullptr)`, `free` of an address outside every chunk, and `allocate` while `operator new` fails.
* `MallocAllocator`/`AlignedAllocator`: request validation, byte size, alignment argument; the C library is a parameter
  `os : bytes → Bool` (serves / returns NULL).
* `DebugMemory::AllocationManager`: allocation list, page arithmetic, lookup and size check on deallocate, the
  `mmap`/`munmap` calls as a trace of OS events, the destructor; `mmap`'s answer is a parameter.
* `isAligned` of debugalign.hh.
Core Lean only.
-/
import DuneVerif.Gen.C15
import DuneVerif.Common.Proto

namespace DV.C15
open DV.C15.Gen

inductive Err where
  | alloc            -- std::bad_alloc
  deriving DecidableEq, Repr

/-! ## Pool<T,s> -/

/-- a block of the pool: (creation number of its chunk, slot index inside the chunk) -/
abbrev Block := Nat × Nat

/-- the three geometry numbers the state machine needs -/
structure Geo where
  alignedSize : Nat
  chunkSize : Nat
  elements : Nat
  deriving Repr, DecidableEq

/-- geometry of `Pool<T,s>` with `sz = sizeof(T)`, `al = alignof(T)` (generated formulas) -/
def geoOf (sz al s : Nat) : Geo := ⟨alignedSize sz al s, chunkSize sz al s, elements sz al s⟩

structure Pool where
  /-- `chunks_`: chunk list, newest first -/
  chunks : List Nat
  /-- `head_`: free list, head first -/
  free : List Block
  /-- ghost: blocks handed out and not yet freed, in allocation order -/
  live : List Block
  deriving Repr, DecidableEq

def Pool.empty : Pool := ⟨[], [], []⟩

/-- the slots `grow()` links behind slot 0:
    `for (element = start+alignedSize; element < last; element += alignedSize)` with `last = start+elements*alignedSize` -/
def growTail (E c : Nat) : List Block := (List.range' 1 (E - 1)).map fun i => (c, i)

/-- `Pool::allocate()`: `if (!head_) grow(); p = head_; head_ = p->next_; return p;` -/
def allocate (E : Nat) (p : Pool) : Block × Pool :=
  match p.free with
  | b :: rest => (b, { p with free := rest, live := p.live ++ [b] })
  | [] =>
    -- grow(): new chunk at the head of the chunk list, free list = slots 0 … elements-1, then slot 0 is popped
    let c := p.chunks.length
    ((c, 0), { chunks := c :: p.chunks, free := growTail E c, live := p.live ++ [(c, 0)] })

/-- what `Pool::free` can be called with -/
inductive Ptr where
  | null
  | foreign            -- an address outside every chunk of this pool
  | blk (b : Block)
  deriving DecidableEq, Repr

/-- the `#ifndef NDEBUG` search of `Pool::free`: some chunk contains the address -/
def inSomeChunk (g : Geo) (p : Pool) (b : Block) : Bool :=
  p.chunks.contains b.1 && b.2 * g.alignedSize < g.chunkSize

/-- `Pool::free(void*)`: null and (without NDEBUG) foreign addresses throw bad_alloc, everything else is pushed -/
def free (g : Geo) (p : Pool) : Ptr → Except Err Pool
  | .null => .error .alloc
  | .foreign => .error .alloc
  | .blk b =>
    if inSomeChunk g p b then .ok { p with free := b :: p.free, live := p.live.erase b }
    else .error .alloc

/-- `~Pool()`: the chunks deleted, in the order of the walk over `chunks_` -/
def destroy (p : Pool) : List Nat := p.chunks

/-- `PoolAllocator::allocate(n)`: `if (n==1) return pool.allocate(); else throw std::bad_alloc();` -/
def paAllocate (E n : Nat) (p : Pool) : Except Err (Block × Pool) :=
  if paAccepts n then .ok (allocate E p) else .error .alloc

/-- `PoolAllocator::deallocate(q, n)`: `for (i = 0; i < n; i++) pool.free(q++)`.  Modelled for the two counts that make
    sense for an allocator whose blocks hold one object: `n = 0` does nothing, `n = 1` is `Pool::free`; `none` otherwise -/
def paDeallocate (g : Geo) (p : Pool) (q : Ptr) (n : Nat) : Option (Except Err Pool) :=
  match paDeallocFrees n with
  | 0 => some (.ok p)
  | 1 => some (free g p q)
  | _ => none

/-- `Pool::allocate()` when `operator new` may fail: `grow()` starts with `new Chunk`, so with `newOk = false` an empty
    free list means bad_alloc before the pool is touched; a non-empty free list is popped without calling `new` -/
def allocateOS (E : Nat) (newOk : Bool) (p : Pool) : Except Err (Block × Pool) :=
  match p.free, newOk with
  | [], false => .error .alloc
  | _, _ => .ok (allocate E p)

/-- byte address of a block for base addresses `base : chunk → address` -/
def addr (g : Geo) (base : Nat → Nat) (b : Block) : Nat := base b.1 + b.2 * g.alignedSize

/-! ### histories -/

inductive Op where
  | alloc                 -- Pool::allocate() (= PoolAllocator::allocate(1))
  | allocN (n : Nat)      -- PoolAllocator::allocate(n)
  | allocOom              -- Pool::allocate() while operator new throws bad_alloc
  | free (q : Ptr)        -- Pool::free(q) (= PoolAllocator::deallocate(q, 1))
  deriving DecidableEq, Repr

inductive Ev where
  | ret (b : Block)       -- allocate returned b
  | freed (q : Ptr)       -- q was accepted by free
  | refused               -- the request threw bad_alloc
  deriving DecidableEq, Repr

def step (g : Geo) (p : Pool) : Op → Pool × Ev
  | .alloc => let r := allocate g.elements p; (r.2, .ret r.1)
  | .allocN n =>
    match paAllocate g.elements n p with
    | .ok r => (r.2, .ret r.1)
    | .error _ => (p, .refused)
  | .allocOom =>
    match allocateOS g.elements false p with
    | .ok r => (r.2, .ret r.1)
    | .error _ => (p, .refused)
  | .free q =>
    match free g p q with
    | .ok p' => (p', .freed q)
    | .error _ => (p, .refused)

def run (g : Geo) : Pool → List Op → Pool × List Ev
  | p, [] => (p, [])
  | p, o :: os =>
    let r := step g p o
    let rr := run g r.1 os
    (rr.1, r.2 :: rr.2)

/-- what the caller must respect: a block handed to `free` is one it obtained and has not given back yet.  Everything
    else (any `n`, null and foreign pointers, allocation while memory is exhausted) is allowed at any time. -/
def okOp (p : Pool) : Op → Prop
  | .free (.blk b) => b ∈ p.live
  | _ => True

instance (p : Pool) : (o : Op) → Decidable (okOp p o)
  | .free (.blk b) => inferInstanceAs (Decidable (b ∈ p.live))
  | .free .null => isTrue trivial
  | .free .foreign => isTrue trivial
  | .alloc => isTrue trivial
  | .allocN _ => isTrue trivial
  | .allocOom => isTrue trivial

/-- a history is valid when every operation respects `okOp` in the state it is issued in -/
def Valid (g : Geo) : Pool → List Op → Prop
  | _, [] => True
  | p, o :: os => okOp p o ∧ Valid g (step g p o).1 os

instance decValid (g : Geo) : ∀ (p : Pool) (ops : List Op), Decidable (Valid g p ops)
  | _, [] => isTrue trivial
  | p, o :: os => @instDecidableAnd _ _ inferInstance (decValid g (step g p o).1 os)

/-- the requests a pool refuses by design -/
def Op.isBad : Op → Bool
  | .allocN n => n != 1
  | .allocOom => true
  | .free .null => true
  | .free .foreign => true
  | _ => false

/-! ### the intrusive representation: what `Pool` really stores

The free list of the C++ pool is not a container: `head_` points to a free slot and the first word of every free slot
(`Reference::next_`) points to the next one.  Live blocks belong to their owner, who may write anything into them —
including over the word that was `next_` while the slot was free.  `IPool` transcribes this: `mem` holds the `next_`
word of every slot that has ever been written, by the pool (`grow`, `free`) or by the owner of a live block (`iwrite`).
`Proofs/C15Intr.lean` shows that for every valid history, with arbitrary writes to live blocks interleaved, the
intrusive pool never reads a word it has not written and returns exactly the blocks of the list model above. -/

/-- association list, newest binding first; `lookup b = none`: the word of slot `b` was never written (indeterminate) -/
abbrev Mem := List (Block × Option Block)

structure IPool where
  /-- `head_` -/
  head : Option Block
  /-- the `next_` words -/
  mem : Mem
  /-- `chunks_`, newest first -/
  chunks : List Nat
  /-- ghost: blocks handed out and not yet freed -/
  live : List Block
  deriving Repr, DecidableEq

def IPool.empty : IPool := ⟨none, [], [], []⟩

inductive IErr where
  | alloc          -- std::bad_alloc
  | ub             -- the pool used a word it never wrote: undefined behaviour
  deriving DecidableEq, Repr

/-- the loop of `grow()`: `for (element = start+alignedSize; element < last; element += alignedSize)
    { next = new (element) Reference; ref->next_ = next; ref = next; }` over the slot indices `is` of chunk `c` -/
def threadSlots (c : Nat) : List Nat → Block → Mem → Block × Mem
  | [], ref, m => (ref, m)
  | i :: is, ref, m => threadSlots c is (c, i) ((ref, some (c, i)) :: m)

/-- the byte offsets a loop `for (e = first; e < last; e += step)` visits (`step > 0`); with the regenerated bounds
    `growFirst/growStep/growEnd` of `Pool::grow` these are the offsets of the slots `1 … elements-1` that `threadSlots`
    is run on below (theorem `grow_threads_exactly_the_slots`) -/
def growLoopOffsets (first step last : Nat) : List Nat :=
  (List.range ((last - first + step - 1) / step)).map fun k => first + k * step

/-- `grow()`: `chunks_ = newChunk; ref = slot 0; head_ = ref; <loop>; ref->next_ = 0;` -/
def igrow (E : Nat) (p : IPool) : IPool :=
  let c := p.chunks.length
  let r := threadSlots c (List.range' 1 (E - 1)) (c, 0) p.mem
  { p with head := some (c, 0), mem := (r.1, none) :: r.2, chunks := c :: p.chunks }

/-- `allocate()`: `if (!head_) grow(); p = head_; head_ = p->next_; return p;` (`newOk = false`: `new Chunk` throws) -/
def iallocate (E : Nat) (newOk : Bool) (p : IPool) : Except IErr (Block × IPool) :=
  let grown : Option IPool :=
    match p.head with
    | none => if newOk then some (igrow E p) else none
    | some _ => some p
  match grown with
  | none => .error .alloc
  | some p1 =>
    match p1.head with
    | none => .error .ub
    | some b =>
      match p1.mem.lookup b with
      | none => .error .ub
      | some nx => .ok (b, { p1 with head := nx, live := p1.live ++ [b] })

/-- `free(b)`: the range test, then `freed->next_ = head_; head_ = freed;` -/
def ifree (g : Geo) (p : IPool) : Ptr → Except IErr IPool
  | .null => .error .alloc
  | .foreign => .error .alloc
  | .blk b =>
    if p.chunks.contains b.1 && b.2 * g.alignedSize < g.chunkSize then
      .ok { p with mem := (b, p.head) :: p.mem, head := some b, live := p.live.erase b }
    else .error .alloc

/-- the owner of a live block overwrites it: the word that served as `next_` becomes an arbitrary value -/
def iwrite (p : IPool) (b : Block) (v : Option Block) : IPool := { p with mem := (b, v) :: p.mem }

/-- histories of the intrusive pool: the operations of `Op` and writes of owners into their blocks -/
inductive IOp where
  | op (o : Op)
  | write (b : Block) (v : Option Block)
  deriving DecidableEq, Repr

/-- `none` = undefined behaviour; writes produce no event -/
def istep (g : Geo) (p : IPool) : IOp → Option (IPool × Option Ev)
  | .write b v => some (iwrite p b v, none)
  | .op .alloc =>
    match iallocate g.elements true p with
    | .ok r => some (r.2, some (.ret r.1))
    | .error .alloc => some (p, some .refused)
    | .error .ub => none
  | .op (.allocN n) =>
    if paAccepts n then
      match iallocate g.elements true p with
      | .ok r => some (r.2, some (.ret r.1))
      | .error .alloc => some (p, some .refused)
      | .error .ub => none
    else some (p, some .refused)
  | .op .allocOom =>
    match iallocate g.elements false p with
    | .ok r => some (r.2, some (.ret r.1))
    | .error .alloc => some (p, some .refused)
    | .error .ub => none
  | .op (.free q) =>
    match ifree g p q with
    | .ok p' => some (p', some (.freed q))
    | .error _ => some (p, some .refused)

def irun (g : Geo) : IPool → List IOp → Option (IPool × List Ev)
  | p, [] => some (p, [])
  | p, o :: os =>
    match istep g p o with
    | none => none
    | some (p1, e) =>
      match irun g p1 os with
      | none => none
      | some (p2, es) => some (p2, (match e with | some e => [e] | none => []) ++ es)

/-- the list-level history behind an intrusive one -/
def eraseWrites : List IOp → List Op
  | [] => []
  | .op o :: os => o :: eraseWrites os
  | .write _ _ :: os => eraseWrites os

/-- valid intrusive history (followed on the list model): as `Valid`, and only live blocks are written -/
def IValid (g : Geo) : Pool → List IOp → Prop
  | _, [] => True
  | p, .write b _ :: os => b ∈ p.live ∧ IValid g p os
  | p, .op o :: os => okOp p o ∧ IValid g (step g p o).1 os

/-- `PoolAllocator::allocate(n)` / `deallocate(q, n)` on the intrusive pool -/
def ipaAllocate (E n : Nat) (p : IPool) : Except IErr (Block × IPool) :=
  if paAccepts n then iallocate E true p else .error .alloc

def ipaDeallocate (g : Geo) (p : IPool) (q : Ptr) (n : Nat) : Option (Except IErr IPool) :=
  match paDeallocFrees n with
  | 0 => some (.ok p)
  | 1 => some (ifree g p q)
  | _ => none

/-! ## MallocAllocator<T>, AlignedAllocator<T,A> -/

/-- `allocate(n)`: the `n > max_size()` test (if the source has it), then `malloc(n*sizeof(T))` — or, for an over-aligned
    `T`, `aligned_alloc(alignof(T), n*sizeof(T))` — NULL → bad_alloc.
    Result: (alignment the C library guarantees for the call made, number of bytes of the block obtained). -/
def mallocAllocate (sz al n : Nat) (os : Nat → Bool) : Except Err (Nat × Nat) :=
  let serve : Except Err (Nat × Nat) :=
    if os (mallocBytesFor sz al n) then .ok (mallocAlignment al, mallocBytesFor sz al n) else .error .alloc
  match mallocLimit sz with
  | some m => if n > m then .error .alloc else serve
  | none => serve

/-- result: (alignment argument, bytes) of the `aligned_alloc` call that succeeded -/
def alignedAllocate (sz al A n : Nat) (os : Nat → Bool) : Except Err (Nat × Nat) :=
  let serve : Except Err (Nat × Nat) :=
    if os (alignedBytes sz n) then .ok (alignedAlignment al A, alignedBytes sz n) else .error .alloc
  match alignedLimit sz with
  | some m => if n > m then .error .alloc else serve
  | none => serve

/-! ## DebugMemory::AllocationManager -/

structure AInfo where
  pagePtr : Nat
  ptr : Nat
  pages : Nat
  cap : Nat
  size : Nat
  deriving DecidableEq, Repr

/-- what the manager asks of the operating system -/
inductive OsEv where
  | map (pp len : Nat)       -- mmap(NULL, len, …) returned pp
  | unmap (pp len : Nat)     -- munmap(pp, len)
  deriving DecidableEq, Repr

/-- `allocate<T>(n)`; `mmap len = some page_ptr` or `none` (MAP_FAILED → bad_alloc) -/
def dbgAllocate (sz page n : Nat) (mmap : Nat → Option Nat) (l : List AInfo) : Except Err (AInfo × List AInfo) :=
  let serve : Except Err (AInfo × List AInfo) :=
    let cap := dbgCapacity sz n
    match mmap (dbgMapLen cap page) with
    | none => .error .alloc
    | some pp =>
      let ai : AInfo := { pagePtr := pp, ptr := pp + dbgPtrOff cap page, pages := dbgPages cap page, cap := cap, size := n }
      .ok (ai, l ++ [ai])
  match dbgLimit sz page with
  | some m => if n > m then .error .alloc else serve
  | none => serve

/-- `deallocate(ptr, n)`: the first entry whose `page_ptr` equals the lookup key decides; `n == 0 || n == it->size` and
    `ptr == it->ptr` are asserted; the entry is unmapped and erased.  Result: the entry found and the remaining list;
    `none` = `allocation_error` (abort) -/
def dbgDeallocate (page : Nat) : List AInfo → Nat → Nat → Option (AInfo × List AInfo)
  | [], _, _ => none
  | it :: rest, ptr, n =>
    if it.pagePtr = dbgLookupKey ptr page then
      (if dbgSizeOk n it.size ∧ ptr = it.ptr then some (it, rest) else none)
    else (dbgDeallocate page rest ptr n).map (fun r => (r.1, it :: r.2))

/-- histories of the allocation manager; the answer of `mmap` is part of the operation (nondeterministic OS) -/
inductive DOp where
  | alloc (n : Nat) (mm : Option Nat)
  | free (ptr : Nat) (n : Nat)          -- deallocate(ptr, n); n = 0: size not checked
  deriving Repr

/-- one step: new allocation list and the OS calls made; `none` = the manager called `allocation_error` (abort) -/
def dbgStep (sz page : Nat) (l : List AInfo) : DOp → Option (List AInfo × List OsEv)
  | .alloc n mm => match dbgAllocate sz page n (fun _ => mm) l with
    | .ok r => some (r.2, [.map r.1.pagePtr (dbgMapLen r.1.cap page)])
    | .error _ => some (l, [])
  | .free ptr n => match dbgDeallocate page l ptr n with
    | some r => some (r.2, [.unmap r.1.pagePtr (dbgUnmapLen r.1.pages page)])
    | none => none

def dbgRun (sz page : Nat) : List AInfo → List DOp → Option (List AInfo × List OsEv)
  | l, [] => some (l, [])
  | l, o :: os => match dbgStep sz page l o with
    | none => none
    | some st => match dbgRun sz page st.1 os with
      | none => none
      | some st' => some (st'.1, st.2 ++ st'.2)

/-- `~AllocationManager()`: every entry still recorded is unmapped; `false` = blocks were still in use
    (`allocation_error("lost allocations")`) -/
def dbgDestroy (page : Nat) (l : List AInfo) : List OsEv × Bool :=
  (l.map fun it => .unmap it.pagePtr (dbgDtorUnmapLen it.pages page), l.isEmpty)

def maps : List OsEv → List (Nat × Nat)
  | [] => []
  | .map pp len :: es => (pp, len) :: maps es
  | .unmap _ _ :: es => maps es

def unmaps : List OsEv → List (Nat × Nat)
  | [] => []
  | .map _ _ :: es => unmaps es
  | .unmap pp len :: es => (pp, len) :: unmaps es

/-- the address range of the mapping that belongs to an entry -/
def AInfo.rng (page : Nat) (it : AInfo) : Nat × Nat := (it.pagePtr, it.pages * page)

/-- two mappings do not overlap -/
def apart (page : Nat) (a b : AInfo) : Prop :=
  a.pagePtr + a.pages * page ≤ b.pagePtr ∨ b.pagePtr + b.pages * page ≤ a.pagePtr

instance (page : Nat) (a b : AInfo) : Decidable (apart page a b) := by unfold apart; exact inferInstance

/-- valid history relative to what is assumed of `mmap` (`R old new` relates every recorded entry to a new mapping):
    `mmap` returns page-aligned addresses that satisfy `R`, and only pointers of live blocks are given back, with their
    size or with `n = 0` -/
def DValidG (sz page : Nat) (R : AInfo → AInfo → Prop) : List AInfo → List DOp → Prop
  | _, [] => True
  | l, .alloc n mm :: os =>
    (∀ ai l', dbgAllocate sz page n (fun _ => mm) l = .ok (ai, l') → page ∣ ai.pagePtr ∧ ∀ it ∈ l, R it ai) ∧
    ∀ st, dbgStep sz page l (.alloc n mm) = some st → DValidG sz page R st.1 os
  | l, .free ptr n :: os =>
    (∃ it ∈ l, it.ptr = ptr ∧ (n = 0 ∨ n = it.size)) ∧
    ∀ st, dbgStep sz page l (.free ptr n) = some st → DValidG sz page R st.1 os

/-- `mmap` never returns the start address of a mapping that is in use -/
abbrev DValid (sz page : Nat) := DValidG sz page (fun it ai => it.pagePtr ≠ ai.pagePtr)

/-- `mmap` returns address ranges disjoint from every mapping that is in use -/
abbrev DValidD (sz page : Nat) := DValidG sz page (apart page)

/-! ## DebugMemory::AllocationManager, compile-time configuration `DEBUG_ALLOCATOR_KEEP`

In this configuration `deallocate` keeps the entry (marked `not_free = false`) and makes the whole mapping inaccessible
instead of giving it back; only the destructor unmaps.  What the `#if DEBUG_ALLOCATOR_KEEP` branch does is regenerated
from the source (`dbgKeepFreeUnmaps`, `dbgKeepFreeErases`, `dbgKeepProtects`, `dbgChecksNotFree`). -/

/-- an entry of the allocation list together with its `not_free` flag -/
structure KInfo where
  info : AInfo
  notFree : Bool
  deriving DecidableEq, Repr

/-- `allocate<T>(n)` (the same code in both configurations): the new entry is appended with `not_free = true` -/
def kAllocate (sz page n : Nat) (mmap : Nat → Option Nat) (l : List KInfo) : Except Err (AInfo × List KInfo) :=
  match dbgAllocate sz page n mmap [] with
  | .ok r => .ok (r.1, l ++ [{ info := r.1, notFree := true }])
  | .error e => .error e

/-- `deallocate(ptr, n)` with `DEBUG_ALLOCATOR_KEEP`: the first entry whose `page_ptr` equals the lookup key decides —
    also an entry of a block released earlier; `n == 0 || n == it->size`, `ptr == it->ptr` and `it->not_free` are
    asserted (`none` = `allocation_error`, abort); the entry stays in the list with `not_free = false` (or is erased, if
    the source says so).  Result: the entry found and the new list -/
def kDeallocate (page : Nat) : List KInfo → Nat → Nat → Option (AInfo × List KInfo)
  | [], _, _ => none
  | it :: rest, ptr, n =>
    if it.info.pagePtr = dbgLookupKey ptr page then
      (if dbgSizeOk n it.info.size ∧ ptr = it.info.ptr ∧ (dbgChecksNotFree = true → it.notFree = true) then
        some (it.info, if dbgKeepFreeErases then rest else { it with notFree := false } :: rest)
      else none)
    else (kDeallocate page rest ptr n).map (fun r => (r.1, it :: r.2))

/-- one step in the KEEP configuration: new list and the mmap/munmap calls made (`mprotect` is not an OS event of the
    trace); `none` = abort -/
def kStep (sz page : Nat) (l : List KInfo) : DOp → Option (List KInfo × List OsEv)
  | .alloc n mm => match kAllocate sz page n (fun _ => mm) l with
    | .ok r => some (r.2, [.map r.1.pagePtr (dbgMapLen r.1.cap page)])
    | .error _ => some (l, [])
  | .free ptr n => match kDeallocate page l ptr n with
    | some r => some (r.2, if dbgKeepFreeUnmaps then [.unmap r.1.pagePtr (dbgUnmapLen r.1.pages page)] else [])
    | none => none

def kRun (sz page : Nat) : List KInfo → List DOp → Option (List KInfo × List OsEv)
  | l, [] => some (l, [])
  | l, o :: os => match kStep sz page l o with
    | none => none
    | some st => match kRun sz page st.1 os with
      | none => none
      | some st' => some (st'.1, st.2 ++ st'.2)

/-- `~AllocationManager()` in the KEEP configuration: every entry, released or not, is unmapped; `false` = some block
    was still in use (`allocation_error("lost allocations")`) -/
def kDestroy (page : Nat) (l : List KInfo) : List OsEv × Bool :=
  (l.map fun it => .unmap it.info.pagePtr (dbgDtorUnmapLen it.info.pages page), l.all fun it => !it.notFree)

/-- valid history in the KEEP configuration relative to what is assumed of `mmap`: `R` relates **every recorded entry,
    released or not** (all of them are still mapped) to a new mapping; only pointers of blocks in use are given back -/
def KValidG (sz page : Nat) (R : AInfo → AInfo → Prop) : List KInfo → List DOp → Prop
  | _, [] => True
  | l, .alloc n mm :: os =>
    (∀ ai l', kAllocate sz page n (fun _ => mm) l = .ok (ai, l') → page ∣ ai.pagePtr ∧ ∀ it ∈ l, R it.info ai) ∧
    ∀ st, kStep sz page l (.alloc n mm) = some st → KValidG sz page R st.1 os
  | l, .free ptr n :: os =>
    (∃ it ∈ l, it.notFree = true ∧ it.info.ptr = ptr ∧ (n = 0 ∨ n = it.info.size)) ∧
    ∀ st, kStep sz page l (.free ptr n) = some st → KValidG sz page R st.1 os

abbrev KValid (sz page : Nat) := KValidG sz page (fun it ai => it.pagePtr ≠ ai.pagePtr)
abbrev KValidD (sz page : Nat) := KValidG sz page (apart page)

/-! ## debugalign.hh -/

/-- `isAligned(p, align)` (via `std::align`): p is a multiple of align -/
def isAligned (p a : Nat) : Bool := p % a == 0

/-! ## line protocol interpreter (what the driver prints) -/

/-- address space assumption of the driver: a request is served iff it is below 2^47 bytes (the harness only issues
    requests that are either small or above that bound) -/
def osServes (bytes : Nat) : Bool := bytes < 2 ^ 47

def showBlock (b : Block) : String := toString b.1 ++ "." ++ toString b.2

/-- one op of a pool history: `a` | `ao` (allocate while operator new fails) | `n<k>` (PoolAllocator::allocate(k)) |
    `f<k>` (free the k-th live block) | `d<k>` (PoolAllocator::deallocate(k-th live block, 0)) | `fn` (free(nullptr)) | `fx` (free(foreign)) | `fe`/`fb` (free of the address just
    behind / just in front of the newest chunk's storage: outside every chunk) -/
def poolOp (g : Geo) (isPA : Bool) (p : Pool) (op : String) : Option (Pool × String) :=
  let cs := op.toList
  match cs with
  | ['a'] => let r := allocate g.elements p; some (r.2, showBlock r.1)
  | ['a', 'o'] => match allocateOS g.elements false p with
    | .ok r => some (r.2, showBlock r.1)
    | .error _ => some (p, "ERR:Alloc")
  | ['f', 'n'] => match free g p .null with
    | .ok p' => some (p', "ok")
    | .error _ => some (p, "ERR:Alloc")
  | ['f', 'x'] => match free g p .foreign with
    | .ok p' => some (p', "ok")
    | .error _ => some (p, "ERR:Alloc")
  | ['f', 'e'] => match free g p .foreign with
    | .ok p' => some (p', "ok")
    | .error _ => some (p, "ERR:Alloc")
  | ['f', 'b'] => match free g p .foreign with
    | .ok p' => some (p', "ok")
    | .error _ => some (p, "ERR:Alloc")
  | 'f' :: ds => match (String.ofList ds).toNat? with
    | none => none
    | some k => match p.live[k]? with
      | none => some (p, "-")
      | some b => match (if isPA then paDeallocate g p (.blk b) 1 else some (free g p (.blk b))) with
        | some (.ok p') => some (p', "ok")
        | some (.error _) => some (p, "ERR:Alloc")
        | none => none
  | 'd' :: ds => if !isPA then none else match (String.ofList ds).toNat? with
    | none => none
    | some k => match p.live[k]? with
      | none => some (p, "-")
      | some b => match paDeallocate g p (.blk b) 0 with
        | some (.ok p') => some (p', "ok")
        | some (.error _) => some (p, "ERR:Alloc")
        | none => none
  | 'n' :: ds => if !isPA then none else match (String.ofList ds).toNat? with
    | none => none
    | some n => match paAllocate g.elements n p with
      | .ok r => some (r.2, showBlock r.1)
      | .error _ => some (p, "ERR:Alloc")
  | _ => none

def poolOps (g : Geo) (isPA : Bool) : Pool → List String → Option (Pool × List String)
  | p, [] => some (p, [])
  | p, o :: os => match poolOp g isPA p o with
    | none => none
    | some (p', s) => match poolOps g isPA p' os with
      | none => none
      | some (p'', ss) => some (p'', s :: ss)

/-- what the harness writes into a block it owns: tag bytes after `allocate`, 0xDD before `free` -/
def junkAfterAlloc : Option Block := some (2863311530, 2863311530)
def junkBeforeFree : Option Block := some (3722304989, 3722304989)

def showAlloc (p : IPool) : Except IErr (Block × IPool) → IPool × String
  | .ok r => (iwrite r.2 r.1 junkAfterAlloc, showBlock r.1)
  | .error .alloc => (p, "ERR:Alloc")
  | .error .ub => (p, "UB")

def showFree (p : IPool) : Except IErr IPool → IPool × String
  | .ok p' => (p', "ok")
  | .error .alloc => (p, "ERR:Alloc")
  | .error .ub => (p, "UB")

/-- the same ops on the intrusive pool (this is what the driver prints; `poolOp` on the list model is run alongside) -/
def ipoolOp (g : Geo) (isPA : Bool) (p : IPool) (op : String) : Option (IPool × String) :=
  match op.toList with
  | ['a'] => some (showAlloc p (iallocate g.elements true p))
  | ['a', 'o'] => some (showAlloc p (iallocate g.elements false p))
  | ['f', 'n'] => some (showFree p (ifree g p .null))
  | ['f', 'x'] => some (showFree p (ifree g p .foreign))
  | ['f', 'e'] => some (showFree p (ifree g p .foreign))
  | ['f', 'b'] => some (showFree p (ifree g p .foreign))
  | 'f' :: ds => match (String.ofList ds).toNat? with
    | none => none
    | some k => match p.live[k]? with
      | none => some (p, "-")
      | some b =>
        let p0 := iwrite p b junkBeforeFree
        match (if isPA then ipaDeallocate g p0 (.blk b) 1 else some (ifree g p0 (.blk b))) with
        | some r => some (showFree p0 r)
        | none => none
  | 'd' :: ds => if !isPA then none else match (String.ofList ds).toNat? with
    | none => none
    | some k => match p.live[k]? with
      | none => some (p, "-")
      | some b => match ipaDeallocate g p (.blk b) 0 with
        | some r => some (showFree p r)
        | none => none
  | 'n' :: ds => if !isPA then none else match (String.ofList ds).toNat? with
    | none => none
    | some n => some (showAlloc p (ipaAllocate g.elements n p))
  | _ => none

def ipoolOps (g : Geo) (isPA : Bool) : IPool → List String → Option (IPool × List String)
  | p, [] => some (p, [])
  | p, o :: os => match ipoolOp g isPA p o with
    | none => none
    | some (p', s) => match ipoolOps g isPA p' os with
      | none => none
      | some (p'', ss) => some (p'', s :: ss)

def splitOps (s : String) : List String :=
  let t := s.trimAscii.toString
  if t.isEmpty then [] else (t.splitOn ";").map fun x => x.trimAscii.toString

def poolLine (sz al s : Nat) (isPA : Bool) (ops : String) : String :=
  let S := if isPA then paPoolSize sz s else s
  let g := geoOf sz al S
  match ipoolOps g isPA IPool.empty (splitOps ops), poolOps g isPA Pool.empty (splitOps ops) with
  | some (ip, outs), some (p, outs') =>
    -- the intrusive pool (printed) and the list model the theorems are about must agree (`intrusive_pool_refines`)
    if outs ≠ outs' ∨ ip.chunks ≠ p.chunks ∨ ip.live ≠ p.live then "model-divergence" else
    let d := ip.chunks
    (if isPA then "max=" ++ toString paMaxSize ++ " " else "") ++
    "geo=" ++ showList [unionSize sz al S, size sz al S, alignment sz al S, alignedSize sz al S, chunkSize sz al S,
      elements sz al S] ++ " : " ++ ";".intercalate outs ++ " : chunks=" ++ toString ip.chunks.length ++
      " released=" ++ toString d.length
  | _, _ => "bad-op"

/-- malloc/aligned histories: state = list of live block sizes; `a<n>` / `f<k>`; `r<n>` = allocate(n) through the
    allocator rebound to an element type of twice the size (`allocR`) -/
def rawOps (alloc allocR : Nat → Bool) : List Nat → List String → Option (List String)
  | _, [] => some []
  | live, o :: os =>
    match o.toList with
    | 'a' :: ds => match (String.ofList ds).toNat? with
      | none => none
      | some n =>
        if n ≥ 2 ^ 64 then none else
        if alloc n then (rawOps alloc allocR (live ++ [n]) os).map ("ok" :: ·)
        else (rawOps alloc allocR live os).map ("ERR:Alloc" :: ·)
    | 'r' :: ds => match (String.ofList ds).toNat? with
      | none => none
      | some n =>
        if n ≥ 2 ^ 64 then none else
        if allocR n then (rawOps alloc allocR (live ++ [n]) os).map ("ok" :: ·)
        else (rawOps alloc allocR live os).map ("ERR:Alloc" :: ·)
    | 'f' :: ds => match (String.ofList ds).toNat? with
      | none => none
      | some k =>
        if k < live.length then (rawOps alloc allocR (live.eraseIdx k) os).map ("ok" :: ·)
        else (rawOps alloc allocR live os).map ("-" :: ·)
    | _ => none

/-- `h<n>` (allocate with a hint) and `c<n>` (allocate through a copy of the allocator) are `a<n>`; `g<k>` / `G<k>`
    (deallocate through a copy / through an allocator converted from another element type) are `f<k>`: the allocators
    of one family are stateless and interchangeable -/
def normRaw (ops : List String) : List String :=
  ops.map fun o => match o.toList with
    | 'h' :: ds => String.ofList ('a' :: ds)
    | 'c' :: ds => String.ofList ('a' :: ds)
    | 'g' :: ds => String.ofList ('f' :: ds)
    | 'G' :: ds => String.ofList ('f' :: ds)
    | _ => o

def mallocLine (sz al : Nat) (ops : String) : String :=
  match rawOps (fun n => match mallocAllocate sz al n osServes with | .ok _ => true | .error _ => false)
      (fun n => match mallocAllocate (2 * sz) al n osServes with | .ok _ => true | .error _ => false) []
      (normRaw (splitOps ops)) with
  | none => "bad-op"
  | some outs => "max=" ++ toString (mallocMaxSize sz) ++ " : " ++ ";".intercalate outs

def alignedLine (sz al A : Nat) (ops : String) : String :=
  match rawOps (fun n => match alignedAllocate sz al A n osServes with | .ok _ => true | .error _ => false)
      (fun n => match alignedAllocate (2 * sz) al A n osServes with | .ok _ => true | .error _ => false) []
      (normRaw (splitOps ops)) with
  | none => "bad-op"
  | some outs => "max=" ++ toString (mallocMaxSize sz) ++ " align=" ++ toString (alignedAlignment al A) ++ " : " ++
      ";".intercalate outs

/-- debug histories: the driver plays `mmap` with a bump pointer (fresh, page aligned, never reused).
    `a<n>` allocate(n) | `f<k>` deallocate(k-th live block, its size) | `z<k>` deallocate(k-th live block, 0).
    Result: answers and the OS events -/
def dbgOps (sz page : Nat) : Nat → List AInfo → List String → Option (List String × List OsEv)
  | _, _, [] => some ([], [])
  | brk, l, o :: os =>
    let dealloc (k n? : Nat) : Option (List String × List OsEv) :=
      match l[k]? with
      | none => (dbgOps sz page brk l os).map fun r => ("-" :: r.1, r.2)
      | some it => match dbgStep sz page l (.free it.ptr (if n? = 0 then 0 else it.size)) with
        | some st => (dbgOps sz page brk st.1 os).map fun r => ("ok" :: r.1, st.2 ++ r.2)
        | none => (dbgOps sz page brk l os).map fun r => ("ABORT" :: r.1, r.2)
    match o.toList with
    | 'a' :: ds => match (String.ofList ds).toNat? with
      | none => none
      | some n =>
        if n ≥ 2 ^ 64 then none else
        let mm := if osServes (dbgMapLen (dbgCapacity sz n) page) then some brk else none
        match dbgAllocate sz page n (fun _ => mm) l, dbgStep sz page l (.alloc n mm) with
        | .ok (ai, _), some st =>
          (dbgOps sz page (brk + ai.pages * page + page) st.1 os).map fun r => ("ok" :: r.1, st.2 ++ r.2)
        | _, _ => (dbgOps sz page brk l os).map fun r => ("ERR:Alloc" :: r.1, r.2)
    | 'r' :: ds => match (String.ofList ds).toNat? with
      | none => none
      | some n =>
        -- the rebound allocator: the same manager, element size 2*sz
        if n ≥ 2 ^ 64 then none else
        let mm := if osServes (dbgMapLen (dbgCapacity (2 * sz) n) page) then some brk else none
        match dbgAllocate (2 * sz) page n (fun _ => mm) l, dbgStep (2 * sz) page l (.alloc n mm) with
        | .ok (ai, _), some st =>
          (dbgOps sz page (brk + ai.pages * page + page) st.1 os).map fun r => ("ok" :: r.1, st.2 ++ r.2)
        | _, _ => (dbgOps sz page brk l os).map fun r => ("ERR:Alloc" :: r.1, r.2)
    | 'f' :: ds => match (String.ofList ds).toNat? with
      | none => none
      | some k => dealloc k 1
    | 'z' :: ds => match (String.ofList ds).toNat? with
      | none => none
      | some k => dealloc k 0
    | _ => none

def debugLine (sz page : Nat) (ops : String) : String :=
  if page = 0 then "bad-op" else
  match dbgOps sz page (16 * page) [] (normRaw (splitOps ops)) with
  | none => "bad-op"
  | some (outs, evs) => "dbg : " ++ ";".intercalate outs ++ " : mapped=" ++ toString (maps evs).length ++
      " unmapped=" ++ toString (unmaps evs).length

/-- histories of a manager owned by the case, KEEP configuration: as `dbgOps`, on the list with `not_free` flags;
    `live` = the entries in use, in allocation order (what `f<k>` / `z<k>` index) -/
def kOps (sz page : Nat) : Nat → List KInfo → List AInfo → List String → Option (List String × List OsEv × List KInfo × List AInfo)
  | _, l, live, [] => some ([], [], l, live)
  | brk, l, live, o :: os =>
    let dealloc (k n? : Nat) : Option (List String × List OsEv × List KInfo × List AInfo) :=
      match live[k]? with
      | none => (kOps sz page brk l live os).map fun r => ("-" :: r.1, r.2)
      | some it => match kStep sz page l (.free it.ptr (if n? = 0 then 0 else it.size)) with
        | some st => (kOps sz page brk st.1 (live.eraseIdx k) os).map fun r => ("ok" :: r.1, st.2 ++ r.2.1, r.2.2)
        | none => (kOps sz page brk l live os).map fun r => ("ABORT" :: r.1, r.2)
    match o.toList with
    | 'a' :: ds => match (String.ofList ds).toNat? with
      | none => none
      | some n =>
        if n ≥ 2 ^ 64 then none else
        let mm := if osServes (dbgMapLen (dbgCapacity sz n) page) then some brk else none
        match kAllocate sz page n (fun _ => mm) l, kStep sz page l (.alloc n mm) with
        | .ok (ai, _), some st =>
          (kOps sz page (brk + ai.pages * page + page) st.1 (live ++ [ai]) os).map fun r => ("ok" :: r.1, st.2 ++ r.2.1, r.2.2)
        | _, _ => (kOps sz page brk l live os).map fun r => ("ERR:Alloc" :: r.1, r.2)
    | 'r' :: ds => match (String.ofList ds).toNat? with
      | none => none
      | some n =>
        -- blocks of a second element type (size 2*sz) in the same manager
        if n ≥ 2 ^ 64 then none else
        let mm := if osServes (dbgMapLen (dbgCapacity (2 * sz) n) page) then some brk else none
        match kAllocate (2 * sz) page n (fun _ => mm) l, kStep (2 * sz) page l (.alloc n mm) with
        | .ok (ai, _), some st =>
          (kOps sz page (brk + ai.pages * page + page) st.1 (live ++ [ai]) os).map fun r => ("ok" :: r.1, st.2 ++ r.2.1, r.2.2)
        | _, _ => (kOps sz page brk l live os).map fun r => ("ERR:Alloc" :: r.1, r.2)
    | 'f' :: ds => match (String.ofList ds).toNat? with
      | none => none
      | some k => dealloc k 1
    | 'z' :: ds => match (String.ofList ds).toNat? with
      | none => none
      | some k => dealloc k 0
    | _ => none

/-- giving back what is still in use (newest first, as the harness does at the end of a case) -/
def kDrain (sz page : Nat) : Nat → List KInfo → List AInfo → Option (List KInfo × List OsEv)
  | 0, l, _ => some (l, [])
  | fuel + 1, l, live => match live.getLast? with
    | none => some (l, [])
    | some it => match kStep sz page l (.free it.ptr it.size) with
      | none => none
      | some st => (kDrain sz page fuel st.1 live.dropLast).map fun r => (r.1, st.2 ++ r.2)

/-- `dbgmgr <sz> <al> <page> <keep>`: a manager owned by the case; after the history the blocks still in use are given
    back and the manager is destroyed; `end_unmapped` counts the `munmap` calls after the history -/
def mgrLine (sz page keep : Nat) (ops : String) : String :=
  if page = 0 then "bad-op" else
  if keep = 0 then
    match dbgOps sz page (16 * page) [] (normRaw (splitOps ops)) with
    | none => "bad-op"
    | some (outs, evs) =>
      -- every block still in use is unmapped by its deallocate; the destructor finds an empty list
      "mgr keep=0 : " ++ ";".intercalate outs ++ " : mapped=" ++ toString (maps evs).length ++
        " unmapped=" ++ toString (unmaps evs).length ++ " end_unmapped=" ++ toString ((maps evs).length - (unmaps evs).length)
  else
    match kOps sz page (16 * page) [] [] (normRaw (splitOps ops)) with
    | none => "bad-op"
    | some (outs, evs, l, live) =>
      match kDrain sz page (live.length + 1) l live with
      | none => "mgr keep=1 : " ++ ";".intercalate outs ++ " : ABORT"
      | some (l', evs') =>
        "mgr keep=1 : " ++ ";".intercalate outs ++ " : mapped=" ++ toString (maps evs).length ++
          " unmapped=" ++ toString (unmaps evs).length ++ " end_unmapped=" ++
          toString ((unmaps evs').length + (unmaps (kDestroy page l').1).length)

/-- the pool compiled with `NDEBUG` (`Pool::free` without the range test; `free(nullptr)` is still refused): the same
    state machine on the part of the op language that is defined there -/
def poolNdebugLine (sz al s : Nat) (isPA : Bool) (ops : String) : String :=
  if (splitOps ops).any (fun o => o = "fx" ∨ o = "fe" ∨ o = "fb") then "unsupported:op-ndebug"
  else poolLine sz al s isPA ops

/-- `align <A> : i<off>;p<off>;q<off>`: isAligned(buf+off, A) with a buffer aligned to 4096; `p` = placement new of an
    `AlignedNumber<double,A>`, `q` = array placement new of two of them (the violation handler is called iff not aligned) -/
def alignOps (A : Nat) : List String → Option (List String)
  | [] => some []
  | o :: os =>
    match o.toList with
    | 'i' :: ds => match (String.ofList ds).toNat? with
      | none => none
      | some off => (alignOps A os).map ((if isAligned off A then "true" else "false") :: ·)
    | 'p' :: ds => match (String.ofList ds).toNat? with
      | none => none
      | some off => (alignOps A os).map ((if isAligned off A then "ok" else "viol") :: ·)
    | 'q' :: ds => match (String.ofList ds).toNat? with
      | none => none
      | some off => (alignOps A os).map ((if isAligned off A then "ok" else "viol") :: ·)
    | _ => none

def alignLine (A : Nat) (ops : String) : String :=
  if A = 0 then "bad-op" else
  match alignOps A (splitOps ops) with
  | none => "bad-op"
  | some outs => ";".intercalate outs

/-- one request line: `<kind> <params…> : <op>;<op>;…` -/
def handle (line : String) : String :=
  match line.splitOn " : " with
  | [hd, ops] =>
    match tokens hd with
    | ["pool", sz, al, s] => match sz.toNat?, al.toNat?, s.toNat? with
      | some sz, some al, some s => if sz = 0 ∨ al = 0 then "bad-op" else poolLine sz al s false ops
      | _, _, _ => "bad-op"
    | ["pa", sz, al, s] => match sz.toNat?, al.toNat?, s.toNat? with
      | some sz, some al, some s => if sz = 0 ∨ al = 0 then "bad-op" else poolLine sz al s true ops
      | _, _, _ => "bad-op"
    | ["malloc", sz, al] => match sz.toNat?, al.toNat? with
      | some sz, some al => if sz = 0 ∨ al = 0 then "bad-op" else mallocLine sz al ops
      | _, _ => "bad-op"
    | ["aligned", sz, al, A] => match sz.toNat?, al.toNat?, A.toNat? with
      | some sz, some al, some A => if sz = 0 ∨ al = 0 then "bad-op" else alignedLine sz al A ops
      | _, _, _ => "bad-op"
    | ["debug", sz, _al, page] => match sz.toNat?, page.toNat? with
      | some sz, some page => if sz = 0 then "bad-op" else debugLine sz page ops
      | _, _ => "bad-op"
    | ["dbgmgr", sz, _al, page, keep] => match sz.toNat?, page.toNat?, keep.toNat? with
      | some sz, some page, some keep => if sz = 0 ∨ keep > 1 then "bad-op" else mgrLine sz page keep ops
      | _, _, _ => "bad-op"
    | ["poolnd", sz, al, s] => match sz.toNat?, al.toNat?, s.toNat? with
      | some sz, some al, some s => if sz = 0 ∨ al = 0 then "bad-op" else poolNdebugLine sz al s false ops
      | _, _, _ => "bad-op"
    | ["pand", sz, al, s] => match sz.toNat?, al.toNat?, s.toNat? with
      | some sz, some al, some s => if sz = 0 ∨ al = 0 then "bad-op" else poolNdebugLine sz al s true ops
      | _, _, _ => "bad-op"
    | ["align", A] => match A.toNat? with
      | some A => alignLine A ops
      | _ => "bad-op"
    | _ => "bad-op"
  | _ => "bad-op"

end DV.C15
