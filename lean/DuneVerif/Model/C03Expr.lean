/-
C03 — the little expression language in which tools/translators/tr_c03.py re-emits, on every run, the pieces of
dune/common/parallel/indexset.hh and plocalindex.hh that are data or straight-line arithmetic:
the state checks of the mutators, their scalar effects (`state_`, `deletedEntries_`, `seqNo_`), the comparison of
`IndexSetSortFunctor` / `merge()` / `LocalIndexComparator`, the branch conditions of `merge()`, and the skeleton
(initialisation, loop condition, probe, comparison, the two updates, the tests behind the loop) of each of the FIVE copies
of the binary search (`exists`, `at`, `at const`, `operator[]`, `operator[] const`).

lean/DuneVerif/Gen/C03.lean (generated) contains only values of these types.  Model/C03Src.lean gives them their
meaning, and Props/C03.lean proves that the hand-written model Model/C03.lean computes exactly what the generated
pieces say (`*_matches_source`).  Core Lean only.
-/
namespace DV.C03

/-- `ParallelIndexSetState` -/
inductive St where
  | ground
  | resize
  deriving DecidableEq, Repr, Inhabited

namespace Src

/-- integer quantities the code fragments speak about -/
inductive IVar where
  | low | high | probe     -- the `int` variables of the binary search
  | size                   -- `localIndices_.size()`
  | elem                   -- `localIndices_[probe].global()` in the loop, `localIndices_[low].global()` behind it
  | glob                   -- the argument `global`
  | g1 | g2                -- the global indices of the two pairs handed to a comparison (i1/i2, old/added)
  | a1 | a2                -- the attributes of the two local indices handed to `LocalIndexComparator::compare`
  | nOld | nNew            -- `localIndices_.size()` / `newIndices_.size()` in `merge()`
  | index                  -- the counter of the loop of `renumberLocal()`
  | locNo                  -- `pair->local()` inside the constructors of `GlobalLookupIndexSet`
  | tsize                  -- the `size` argument of `GlobalLookupIndexSet(indexset, size)`
  deriving DecidableEq, Repr

/-- boolean quantities -/
inductive BVar where
  | del                    -- `deletedEntries_`
  | cmp12 | cmp21          -- `LocalIndexComparator<TL>::compare(first.local(), second.local())` and with swapped arguments
  | oldDeleted             -- `old->local().state()==DELETED`
  deriving DecidableEq, Repr

inductive IE where
  | num (n : Int)
  | var (v : IVar)
  | add (a b : IE)
  | sub (a b : IE)
  | mul (a b : IE)
  | div (a b : IE)         -- C++ `int` division (truncating)
  deriving DecidableEq, Repr

inductive BE where
  | tt
  | ff
  | var (v : BVar)
  | lt (a b : IE)
  | le (a b : IE)
  | gt (a b : IE)
  | ge (a b : IE)
  | eq (a b : IE)
  | ne (a b : IE)
  | not (a : BE)
  | and (a b : BE)
  | or (a b : BE)
  deriving DecidableEq, Repr

structure Env where
  i : IVar → Int
  b : BVar → Bool

def IE.eval (env : Env) : IE → Int
  | .num n => n
  | .var v => env.i v
  | .add a b => a.eval env + b.eval env
  | .sub a b => a.eval env - b.eval env
  | .mul a b => a.eval env * b.eval env
  | .div a b => Int.tdiv (a.eval env) (b.eval env)

/-- Bool-valued comparisons (kept as functions of two evaluated integers so that rewriting the operands never leaves a
`Decidable` instance behind that still mentions the unevaluated expressions) -/
def ilt (a b : Int) : Bool := decide (a < b)
def ile (a b : Int) : Bool := decide (a ≤ b)
def ieq (a b : Int) : Bool := decide (a = b)

def BE.eval (env : Env) : BE → Bool
  | .tt => true
  | .ff => false
  | .var v => env.b v
  | .lt a b => ilt (a.eval env) (b.eval env)
  | .le a b => ile (a.eval env) (b.eval env)
  | .gt a b => ilt (b.eval env) (a.eval env)
  | .ge a b => ile (b.eval env) (a.eval env)
  | .eq a b => ieq (a.eval env) (b.eval env)
  | .ne a b => !ieq (a.eval env) (b.eval env)
  | .not a => !a.eval env
  | .and a b => a.eval env && b.eval env
  | .or a b => a.eval env || b.eval env

/-- a state check `if(<condition on state_>) DUNE_THROW(<exc>, …)`: the condition as its truth table over the two
states (every condition on a two-valued state is determined by it), the exception type, and whether the check is the
first statement of the function (nothing is modified before it) -/
structure Check where
  inGround : Bool
  inResize : Bool
  exc : String
  first : Bool
  deriving DecidableEq, Repr

def Check.rejects (c : Check) : St → Bool
  | .ground => c.inGround
  | .resize => c.inResize

/-- the scalar assignments of a mutator behind its check: `state_ = …`, `deletedEntries_ = …`, `seqNo_++` -/
structure Effects where
  state : Option St
  del : Option Bool
  seqAdd : Nat
  deriving DecidableEq, Repr

/-- which variable an update inside the search loop assigns -/
inductive Target where
  | low
  | high
  deriving DecidableEq, Repr

/-- the loop of one copy of the binary search:
`int low=<lowInit>, high=<highInit>, probe=<probeInit>; while(<cond>){ probe=<probe>; if(<test>) <thenT>=<thenE>; else <elseT>=<elseE>; }` -/
structure Loop where
  lowInit : IE
  highInit : IE
  probeInit : IE
  cond : BE
  probe : IE
  test : BE
  thenT : Target
  thenE : IE
  elseT : Target
  elseE : IE
  deriving DecidableEq, Repr

/-- what a lookup does at one of its exits -/
inductive Act where
  | throwRange   -- DUNE_THROW(RangeError, …)
  | retFalse
  | retTrue
  | retElem      -- return localIndices_[low]
  deriving DecidableEq, Repr

/-- one copy of the binary search with the statements behind the loop:
`if(<emptyTest>) <emptyAct>; if(<missTest>) <missAct>; <foundAct>` (`operator[]` has no tests) -/
structure Search where
  loop : Loop
  emptyTest : Option BE
  emptyAct : Act
  missTest : Option BE
  missAct : Act
  foundAct : Act
  deriving DecidableEq, Repr

/-- a container statement of `endResize()` (the scalar assignments are in `Effects`) -/
inductive Call where
  | sortNew      -- `std::sort(newIndices_.begin(), newIndices_.end(), IndexSetSortFunctor<TG,TL>())`
  | merge        -- `merge()`
  | unknown      -- a statement the translator does not understand
  deriving DecidableEq, Repr

/-- the loop of `renumberLocal()`:
`uint32_t index=<start>; for(auto pair=begin(); pair!=end_; index += <step>, ++pair) pair->local()=<value over index>;` -/
structure Renum where
  start : Int
  step : Int
  value : IE
  deriving DecidableEq, Repr

/-- a constructor of `GlobalLookupIndexSet`:
`size_(<sizeInit over tsize>)`; optionally `for(pair : indexSet_) size_ = max(size_, <foldMax over locNo>)`;
`indices_` gets `<cells over size>` null cells (`size` = `size_` after that loop) and `size_` becomes `<sizeFinal over size>`;
then `for(pair : indexSet_) indices_[<slot over locNo>] = &*pair`. -/
structure TableCtor where
  sizeInit : IE
  foldMax : Option IE
  cells : IE
  sizeFinal : IE
  slot : IE
  deriving DecidableEq, Repr

/-- an elementary statement inside the loops of `merge()` -/
inductive MAct where
  | pushOld      -- tempPairs.push_back(*old)
  | pushAdded    -- tempPairs.push_back(*added)
  | eraseOld     -- old.eraseToHere()   (the iterator then points to the next old entry)
  | eraseAdded   -- added.eraseToHere()
  deriving DecidableEq, Repr

/-- the body of one loop as a decision tree (a statement behind an `if` is distributed into both branches, `continue`
cuts the rest off) -/
inductive MTree where
  | acts (l : List MAct)
  | ite (c : BE) (t e : MTree)
  | unknown
  deriving Repr

/-- `while(<old != endold if needOld> && <added != endadded if needAdded>) <body>` -/
structure MLoop where
  needOld : Bool
  needAdded : Bool
  body : MTree
  deriving Repr

/-- a statement of the first branch of `merge()` (old list empty) -/
inductive CopyAct where
  | assignNewToLocal   -- localIndices_ = newIndices_
  | clearNew           -- newIndices_.clear()
  | unknown
  deriving DecidableEq, Repr

/-- data members of `ParallelLocalIndex<T>` / `LocalIndex` -/
inductive Member where
  | loc | attr | pub | state     -- localIndex_, attribute_, public_, state_
  deriving DecidableEq, Repr

/-- what a member initialiser / an assignment stores: a literal or the i-th parameter (casts dropped) -/
inductive Init where
  | zero | falseV | trueV | valid | deleted
  | param (i : Nat)
  deriving DecidableEq, Repr

/-- a constructor of a local index class: its member initialisers (a member not mentioned is `zero`/`falseV`) -/
structure LIdxCtor where
  loc : Init
  attr : Init
  pub : Init
  state : Init
  deriving DecidableEq, Repr

/-- the member initialisers of `ParallelIndexSet()` (the two lists are default-constructed, i.e. empty) -/
structure SetCtor where
  state : St
  seq : Nat
  del : Bool
  deriving DecidableEq, Repr

end Src
end DV.C03
