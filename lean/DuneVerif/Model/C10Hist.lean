/-
C10 — operation histories, round four: the statement machine of `Model/C10Prog.lean` extended by everything a
caller can do with a `bigunsignedint<k>` variable and a built-in integer of *any* integral type, and by observations
that do not change the state.

  `d = d OP y`, `d = y OP d`   the twenty free mixed operators, evaluated THROUGH the table `Gen.mixedBody` that the
                               translator regenerates from their bodies; the built-in operand `y` has a type `t`
                               (i8 … i64, u8 … u64, bool): signed types select the checking overloads (a negative value
                               is rejected with `Dune::Exception`), unsigned ones the `std::uintmax_t` overloads
  `d OP= y`                    the eight compound operators with a built-in right operand, converted by the implicit
                               constructor (again rejecting negatives)
  `x CMP y`, `x CMP builtin`   the six comparisons between the variables (also of a variable with itself) or with a
                               converted built-in, observed as a boolean
  `x.touint()`                 observed as a number

and the specification machine on natural numbers modulo `W` for the same statements.  Core Lean only.
-/
import DuneVerif.Model.C10Prog

namespace DV.C10
open DV.C10.Gen

/-- what a statement lets the caller observe -/
inductive Obs where
  | val (v : List Nat)      -- the new value of the destination
  | mathError               -- `Dune::MathError` (zero divisor)
  | negative                -- `Dune::Exception` (negative built-in operand)
  | bool (b : Bool)
  | num (x : Nat)
  deriving Repr, BEq, DecidableEq

inductive SObs where
  | val (v : Nat)
  | mathError
  | negative
  | bool (b : Bool)
  | num (x : Nat)
  deriving Repr, BEq, DecidableEq

def Obs.ofRes : Res → Obs
  | .ok v => .val v
  | .mathError => .mathError

def SObs.ofOpt : Option Nat → SObs
  | some v => .val v
  | none => .mathError

def Obs.abs : Obs → SObs
  | .val v => .val (DV.C10.val v)
  | .mathError => .mathError
  | .negative => .negative
  | .bool b => .bool b
  | .num x => .num x

/-- the six comparisons as the class computes them (three loops, three derived through the generated definitions) -/
def cmpEval : Cmp → List Nat → List Nat → Bool
  | .lt, a, x => lt a x
  | .le, a, x => le a x
  | .gt, a, x => gt a x
  | .ge, a, x => ge a x
  | .eq, a, x => eq a x
  | .ne, a, x => ne a x

/-- the six comparisons of exact integers -/
def cmpSpec : Cmp → Nat → Nat → Bool
  | .lt, u, v => decide (u < v)
  | .le, u, v => decide (u ≤ v)
  | .gt, u, v => decide (u > v)
  | .ge, u, v => decide (u ≥ v)
  | .eq, u, v => decide (u = v)
  | .ne, u, v => decide (u ≠ v)

/-- the operators that have free mixed overloads -/
def isArith : BinOp → Bool
  | .add | .sub | .mul | .div | .mod => true
  | _ => false

/-- what the specification admits as the body of the free mixed operator `(signed?, bigLeft, o)`: no overload for the
    bitwise operators; for `+ - * / %` the same operator, the operands in the order of the call — or, for the commutative
    `+` and `*` only, in either order (an overload may forward to its mirror image) -/
def mixedOk (s bl : Bool) (o : BinOp) : Bool :=
  match mixedBody s bl o with
  | none => !isArith o
  | some b => isArith o && decide (b.op = o) && (b.bigLeft == bl || decide (o = .add) || decide (o = .mul))

inductive Stmt where
  | old (op : POp)
  | mixed (o : BinOp) (d : Reg) (t : IntTy) (y : Int) (bigLeft : Bool)
  | compound (o : BinOp) (d : Reg) (t : IntTy) (y : Int)
  | cmp (c : Cmp) (x y : Reg)
  | cmpB (c : Cmp) (x : Reg) (t : IntTy) (y : Int)
  | touint (x : Reg)
  deriving Repr, BEq, DecidableEq

/-- the built-in operand is a value of its type, and the type has at most 64 bits -/
def builtinOk (t : IntTy) (y : Int) : Bool := decide (t.width ≤ 64) && t.holds y

def Stmt.valid (n : Nat) : Stmt → Bool
  | .old op => op.valid n
  | .mixed _ _ t y _ => builtinOk t y
  | .compound _ _ t y => builtinOk t y
  | .cmp _ _ _ => true
  | .cmpB _ _ t y => builtinOk t y
  | .touint _ => true

/-- store a result and turn it into an observation -/
def commitObs (r : Regs) (d : Reg) (res : Res) : Regs × Obs :=
  ((commit r d res).1, Obs.ofRes (commit r d res).2)

/-- one statement on the digit-list model -/
def step4 (k : Nat) (r : Regs) (s : Stmt) : Option (Regs × Obs) :=
  let n := ndigits k
  if !s.valid n then none else
  match s with
  | .old op => (step k r op).map fun p => (p.1, Obs.ofRes p.2)
  | .mixed o d t y bl =>
    -- overload resolution picks the signed or the uintmax_t overload; its body is the generated table entry
    match mixedBody t.signed bl o with
    | none => none
    | some b =>
      match construct n t y with
      | .negative => some (r, .negative)
      | .ok c =>
        some (commitObs r d (if b.bigLeft then applyBin k b.op (r.get d) c else applyBin k b.op c (r.get d)))
  | .compound o d t y =>
    match construct n t y with
    | .negative => some (r, .negative)
    | .ok c => some (commitObs r d (applyBin k o (r.get d) c))
  | .cmp c x y => some (r, .bool (cmpEval c (r.get x) (r.get y)))
  | .cmpB c x t y =>
    match construct n t y with
    | .negative => some (r, .negative)
    | .ok v => some (r, .bool (cmpEval c (r.get x) v))
  | .touint x => some (r, .num (touint (r.get x)))

def run4 (k : Nat) : Regs → List Stmt → Option (List Obs × Regs)
  | r, [] => some ([], r)
  | r, s :: ss =>
    match step4 k r s with
    | none => none
    | some (r', o) =>
      match run4 k r' ss with
      | none => none
      | some (os, r'') => some (o :: os, r'')

/-! ### specification machine -/

def scommitObs (r : SRegs) (d : Reg) (res : Option Nat) : SRegs × SObs :=
  ((scommit r d res).1, SObs.ofOpt (scommit r d res).2)

/-- the same statements on exact integers modulo `W = 2^(bits·n)`; nothing here refers to the tables or loops -/
def specStep4 (n : Nat) (r : SRegs) (s : Stmt) : Option (SRegs × SObs) :=
  let W := 2 ^ (bits * n)
  if !s.valid n then none else
  match s with
  | .old op => (specStep n r op).map fun p => (p.1, SObs.ofOpt p.2)
  | .mixed o d _ y bl =>
    if !isArith o then none
    else if y < 0 then some (r, .negative)
    else some (scommitObs r d (if bl then specBin W o (r.get d) (y.toNat % W) else specBin W o (y.toNat % W) (r.get d)))
  | .compound o d _ y =>
    if y < 0 then some (r, .negative) else some (scommitObs r d (specBin W o (r.get d) (y.toNat % W)))
  | .cmp c x y => some (r, .bool (cmpSpec c (r.get x) (r.get y)))
  | .cmpB c x _ y =>
    if y < 0 then some (r, .negative) else some (r, .bool (cmpSpec c (r.get x) (y.toNat % W)))
  | .touint x => some (r, .num (r.get x % 2 ^ 32))

def specRun4 (n : Nat) : SRegs → List Stmt → Option (List SObs × SRegs)
  | r, [] => some ([], r)
  | r, s :: ss =>
    match specStep4 n r s with
    | none => none
    | some (r', o) =>
      match specRun4 n r' ss with
      | none => none
      | some (os, r'') => some (o :: os, r'')

end DV.C10
