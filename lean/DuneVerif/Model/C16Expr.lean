/-
C16 — the little expression language in which tools/translators/tr_c16.py writes down the one-line operator
bodies it reads from iteratorfacades.hh, genericiterator.hh, densevector.hh, arraylist.hh and rangeutilities.hh
(lean/DuneVerif/Gen/C16.lean).  Integer expressions over three variables, boolean expressions over comparisons
and three boolean atoms.  What a variable/atom stands for is fixed per generated definition (see its comment).
Core Lean only.
-/
namespace DV.C16

inductive Var where
  | a | b | c
  deriving DecidableEq, Repr

/-- integer expressions: `+`, binary and unary `-` over variables and literals; `wsub x y` is the MACHINE
difference `x - y` as an iterator's `difference_type` holds it: reduced modulo `2^bits` and read as a signed number
(`*this - other` of an IntegralRangeIterator, a value cast to `difference_type`); `bits` comes from the environment,
`bits = 0` stands for exact integers -/
inductive E where
  | var (v : Var)
  | lit (k : Int)
  | add (x y : E)
  | sub (x y : E)
  | neg (x : E)
  | wsub (x y : E)
  | mul (x y : E)
  deriving DecidableEq, Repr

inductive Cmp where
  | lt | le | gt | ge | eq | ne
  deriving DecidableEq, Repr

/-- boolean expressions: comparisons of integer expressions, atoms, `!`, `&&`, `||` -/
inductive B where
  | cmp (c : Cmp) (x y : E)
  | atom (v : Var)
  | not (x : B)
  | and (x y : B)
  | or (x y : B)
  | tt
  | ff
  deriving DecidableEq, Repr

/-- assignment of the three integer variables; `bits` = width of the integral type the iterator runs over
(`0`: exact integers; only `E.wsub` looks at it) -/
structure Env where
  a : Int := 0
  b : Int := 0
  c : Int := 0
  bits : Nat := 0

/-- a value reduced to the signed `bits` wide type (two's complement); the identity for `bits = 0` -/
def wrapS (bits : Nat) (v : Int) : Int :=
  if bits = 0 then v
  else if v % 2 ^ bits < 2 ^ (bits - 1) then v % 2 ^ bits else v % 2 ^ bits - 2 ^ bits

/-- assignment of the three boolean atoms -/
structure BEnv where
  a : Bool := false
  b : Bool := false
  c : Bool := false

def Env.get (ρ : Env) : Var → Int
  | .a => ρ.a
  | .b => ρ.b
  | .c => ρ.c

def BEnv.get (β : BEnv) : Var → Bool
  | .a => β.a
  | .b => β.b
  | .c => β.c

def E.eval (ρ : Env) : E → Int
  | .var v => ρ.get v
  | .lit k => k
  | .add x y => x.eval ρ + y.eval ρ
  | .sub x y => x.eval ρ - y.eval ρ
  | .neg x => -(x.eval ρ)
  | .wsub x y => wrapS ρ.bits (x.eval ρ - y.eval ρ)
  | .mul x y => x.eval ρ * y.eval ρ

def Cmp.eval (c : Cmp) (x y : Int) : Bool :=
  match c with
  | .lt => decide (x < y)
  | .le => decide (x ≤ y)
  | .gt => decide (x > y)
  | .ge => decide (x ≥ y)
  | .eq => decide (x = y)
  | .ne => decide (x ≠ y)

def B.eval (ρ : Env) (β : BEnv) : B → Bool
  | .cmp c x y => c.eval (x.eval ρ) (y.eval ρ)
  | .atom v => β.get v
  | .not x => !(x.eval ρ β)
  | .and x y => x.eval ρ β && y.eval ρ β
  | .or x y => x.eval ρ β || y.eval ρ β
  | .tt => true
  | .ff => false

/-- evaluation with one / two / three integer arguments and no atoms -/
def E.eval1 (e : E) (a : Int) : Int := e.eval { a := a }
def E.eval2 (e : E) (a b : Int) : Int := e.eval { a := a, b := b }
def E.eval3 (e : E) (a b c : Int) : Int := e.eval { a := a, b := b, c := c }
def B.eval2 (e : B) (a b : Int) : Bool := e.eval { a := a, b := b } {}
def B.eval3 (e : B) (a b c : Int) : Bool := e.eval { a := a, b := b, c := c } {}
/-- evaluation for a `bits` wide integral type -/
def B.evalW (e : B) (bits : Nat) (a b : Int) : Bool := e.eval { a := a, b := b, bits := bits } {}

end DV.C16
