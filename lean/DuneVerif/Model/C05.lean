import DuneVerif.Gen.C05
/-
C05 — model of Dune::Interface (dune/common/parallel/interface.hh) and of the communicators built on it
(dune/common/parallel/communicator.hh: BufferedCommunicator, DatatypeCommunicator) at the message level.

Layering.  The remote index lists are *defined* here by the set-theoretic specification that property C04 proves
for `RemoteIndices::rebuild` (`remoteSpec`: per neighbour the sorted intersection of the published index sets);
nothing of C04's Lean files is imported.  Everything above it mirrors the C++:

* `evalTest`, `passesCount`, `passesAdd`           the attribute tests of the two loops as REGENERATED from interface.hh
                                                   (`Gen/C05.lean`, tools/translators/tr_c05.py)
* `SetExpr`, `setTable`, `altTable`, `maskSet`     attribute sets written with the enumset.hh classes, evaluated with the
                                                   REGENERATED `contains` functions
* `passes`, `countPass`, `addPass`, `infoOf`      `InterfaceBuilder::buildInterface<…,send>`: the two passes
                                                   (count → `reserve`, then `add`) over one remote index list with
                                                   the two attribute tests
* `buildInterfaceRaw`, `strip`, `buildInterface`   `Interface::build` (send pass, receive pass, `strip`)
* `sizeCalc`, `layout`, `buildComm`                `BufferedCommunicator::build`: per neighbour, in rank order,
                                                   `MessageInformation(start (elements), size (bytes))` for the send
                                                   and the receive buffer; entry only if `noSend+noRecv>0`
* `slots`, `gatherBuf`                             `MessageGatherer` (concatenation over `interfaces_` in rank order;
                                                   `CommPolicy::getSize` components per index)
* `sliceOf`, `msgTo`, `postedSends/Recvs`          the `MPI_Issend` / `MPI_Irecv` loops of `sendRecv`
* `writeAt`, `recvBufAfter`                        what MPI does to the receive buffer (messages land in any order)
* `scatterCalls`, `roundCalls`, `applyCalls`       the `MPI_Waitany` loop + `MessageScatterer`, completion order as a
                                                   parameter
* `roundCallsAt`, `worldRound`, `runRounds`        one `forward` (`fwd = true`) / `backward` (`fwd = false`) seen from
                                                   one process / of all processes / repeated use
* `PState`, `worldStep`, `runSt`                   the same with `buffers_[0..1]` as persistent state (stale data of earlier
                                                   communications in the receive buffer)
* `insertKeep`, `Comm.free`, `Comm.build`          life cycle of one communicator object: `free()`, `build()` again
* `pick`, `stripG`, `interfaceOfG`, `layoutG`, `Comm.buildG`   (round four) `strip` and the loop of `build` with the condition /
                                                   arithmetic REGENERATED from the source; run by the driver
* `Phase`, `canFinish`, `CommStep`, `todoSum`      the processes' progress through one `sendRecv` (termination)
* `rawInterfaceOf`, `dtNeighbours`, `dtCalls`      DatatypeCommunicator: the same index lists used as MPI datatypes

Policies (`gather`, `scatter`) and the payload type are parameters.  Core Lean only.
-/
namespace DV.C05

/-! ### index sets and the remote index specification -/

/-- one `IndexPair<GlobalIndex, ParallelLocalIndex<Attribute>>` -/
structure Entry where
  /-- global index -/
  g : Int
  /-- local index -/
  l : Nat
  /-- attribute -/
  a : Nat
  /-- public flag -/
  pub : Bool
  deriving DecidableEq, Repr, Inhabited

/-- what one process passes to `RemoteIndices`: source index set, target index set (iteration order = ascending
    global index), and whether they are two distinct objects -/
structure RankData where
  src : List Entry
  tgt : List Entry
  two : Bool
  deriving Repr, Inhabited

/-- the target index set object: the source set itself when the process uses one index set -/
def RankData.tgtSet (r : RankData) : List Entry := if r.two then r.tgt else r.src

structure System where
  P : Nat
  rank : Nat → RankData

/-- a `RemoteIndex` together with the data of the local pair it points to:
    (global, attribute on the remote process, local index, local attribute) -/
structure RIdx where
  g : Int
  ra : Nat
  l : Nat
  a : Nat
  deriving DecidableEq, Repr, Inhabited

/-- the entries a process publishes (`rebuild<ignorePublic>`) -/
def published (ign : Bool) (s : List Entry) : List Entry := s.filter (fun e => ign || e.pub)

/-- sorted intersection: the entries of `A`, in `A`'s order, whose global index occurs in `B`, with `B`'s attribute -/
def joinSpec (A B : List Entry) : List RIdx :=
  A.filterMap fun a => (B.find? (fun b => b.g == a.g)).map fun b => ⟨a.g, b.a, a.l, a.a⟩

/-- send and receive list of `p` about `q` (C04 `rebuild_spec`) -/
def sendSpec (ign : Bool) (sys : System) (p q : Nat) : List RIdx :=
  joinSpec (published ign (sys.rank p).src) (published ign (sys.rank q).tgtSet)
def recvSpec (ign : Bool) (sys : System) (p q : Nat) : List RIdx :=
  joinSpec (published ign (sys.rank p).tgtSet) (published ign (sys.rank q).src)

/-- has rank `p` an entry for `q` in its remote index map?  (the process itself only with two index sets;
    no empty neighbours — C04 `self_entry_cases`, `no_empty_neighbour`) -/
def remoteEntry (ign : Bool) (sys : System) (p q : Nat) : Option (Nat × List RIdx × List RIdx) :=
  if q = p ∧ (sys.rank p).two = false then none
  else if (sendSpec ign sys p q).isEmpty ∧ (recvSpec ign sys p q).isEmpty then none
  else some (q, sendSpec ign sys p q, recvSpec ign sys p q)

/-- the remote index map of rank `p`: `(q, send list, receive list)` in ascending rank order -/
def remoteSpec (ign : Bool) (sys : System) (p : Nat) : List (Nat × List RIdx × List RIdx) :=
  (List.range sys.P).filterMap (remoteEntry ign sys p)

/-! ### Interface::build -/

/-- `InterfaceInformation`: reserved size and the local indices added so far -/
structure Info where
  maxSize : Nat
  idx : List Nat
  deriving DecidableEq, Repr, Inhabited

def Info.empty : Info := ⟨0, []⟩
/-- `reserve(size)` -/
def Info.reserve (n : Nat) : Info := ⟨n, []⟩
/-- `add(index)` (the C++ asserts `size_ < maxSize_`; theorem `add_within_reserved`) -/
def Info.add (i : Info) (x : Nat) : Info := { i with idx := i.idx ++ [x] }
def Info.size (i : Info) : Nat := i.idx.length

/-- the two attribute tests of `buildInterface<…,send>`:
    `send ? destFlags.contains(remote->attribute()) : sourceFlags.contains(remote->attribute())` and then
    `send ? sourceFlags.contains(local attribute) : destFlags.contains(local attribute)` -/
def passes (send : Bool) (S T : Nat → Bool) (x : RIdx) : Bool :=
  if (if send then T x.ra else S x.ra) then (if send then S x.a else T x.a) else false

/-- one attribute test as the translator read it from the source (`Gen.Test`):
    `send ? <sendSet>.contains(<sendAttr>) : <recvSet>.contains(<recvAttr>)` -/
def evalTest (t : Gen.Test) (send : Bool) (S T : Nat → Bool) (x : RIdx) : Bool :=
  let set := match (if send then t.sendSet else t.recvSet) with
    | Gen.FlagSet.source => S
    | Gen.FlagSet.dest => T
  match (if send then t.sendAttr else t.recvAttr) with
  | Gen.Attr.remote => set x.ra
  | Gen.Attr.loc => set x.a

/-- the nested tests of the first / second loop of `buildInterface`, REGENERATED from interface.hh
    (`Gen.countOuter` … `Gen.addInner`); `passesCount_eq`, `passesAdd_eq`: both are `passes` -/
def passesCount (send : Bool) (S T : Nat → Bool) (x : RIdx) : Bool :=
  if evalTest Gen.countOuter send S T x then evalTest Gen.countInner send S T x else false
def passesAdd (send : Bool) (S T : Nat → Bool) (x : RIdx) : Bool :=
  if evalTest Gen.addOuter send S T x then evalTest Gen.addInner send S T x else false

/-- first loop: `++size` -/
def countPass (send : Bool) (S T : Nat → Bool) : List RIdx → Nat
  | [] => 0
  | x :: xs => (if passesCount send S T x then 1 else 0) + countPass send S T xs

/-- second loop: `interfaceInformation.add(process, local index)` -/
def addPass (send : Bool) (S T : Nat → Bool) : List RIdx → Info → Info
  | [], inf => inf
  | x :: xs, inf => addPass send S T xs (if passesAdd send S T x then inf.add x.l else inf)

/-- both passes for one neighbour and one side -/
def infoOf (send : Bool) (S T : Nat → Bool) (l : List RIdx) : Info :=
  addPass send S T l (Info.reserve (countPass send S T l))

/-- `std::map<int, pair<InterfaceInformation,InterfaceInformation>>` in ascending rank order -/
abbrev IfMap := List (Nat × Info × Info)

/-- the send pass and the receive pass visit the same keys of the remote index map in the same order; the map
    entry of a process is created by its first `reserve` -/
def buildInterfaceRaw (S T : Nat → Bool) (rem : List (Nat × List RIdx × List RIdx)) : IfMap :=
  rem.map fun e => (e.1, infoOf true S T e.2.1, infoOf false S T e.2.2)

/-- `Interface::strip`: erase the neighbours with two empty lists -/
def strip (m : IfMap) : IfMap := m.filter fun e => !(e.2.1.size == 0 && e.2.2.size == 0)

def buildInterface (S T : Nat → Bool) (rem : List (Nat × List RIdx × List RIdx)) : IfMap :=
  strip (buildInterfaceRaw S T rem)

/-- the interface of rank `p` -/
def interfaceOf (ign : Bool) (S T : Nat → Bool) (sys : System) (p : Nat) : IfMap :=
  buildInterface S T (remoteSpec ign sys p)

/-- lookup in the map (`interfaces.find(proc)`); an absent neighbour has empty lists -/
def IfMap.get (m : IfMap) (q : Nat) : Info × Info :=
  match m.find? (fun e => e.1 == q) with
  | some e => e.2
  | none => (Info.empty, Info.empty)

/-- the side used for sending (`forward ? first : second`) resp. receiving -/
def sendSide (fwd : Bool) (e : Info × Info) : Info := if fwd then e.1 else e.2
def recvSide (fwd : Bool) (e : Info × Info) : Info := if fwd then e.2 else e.1

/-- `Selection<AttributeSet>(indexSet)`: the local indices of the entries whose attribute is in the set -/
def selection (S : Nat → Bool) (s : List Entry) : List Nat := (s.filter fun e => S e.a).map (·.l)

/-! ### attribute sets (enumset.hh) -/

/-- an attribute set written with the classes of enumset.hh; `contains` is evaluated with the functions REGENERATED
    from enumset.hh (`Gen.enumItemContains`, …) -/
inductive SetExpr where
  | empty
  | all
  | item (i : Int)
  | range (lo hi : Int)
  | neg (s : SetExpr)
  | comb (a b : SetExpr)
  deriving Repr

def SetExpr.contains : SetExpr → Int → Bool
  | .empty => Gen.emptySetContains
  | .all => Gen.allSetContains
  | .item i => Gen.enumItemContains i
  | .range lo hi => Gen.enumRangeContains lo hi
  | .neg s => Gen.negateSetContains s.contains
  | .comb a b => Gen.combineContains a.contains b.contains

/-- the sixteen sets over the attributes {0,1,2,3} as the harness writes them (`setTable` in harness/mpi_c05.cc:
    `M0` … `M15`), by bit mask -/
def setTable : List SetExpr :=
  [.empty, .item 0, .item 1, .range 0 1, .item 2, .comb (.item 0) (.item 2), .range 1 2, .neg (.item 3),
   .item 3, .comb (.item 3) (.item 0), .comb (.item 1) (.item 3), .neg (.item 2), .range 2 3,
   .comb (.range 2 3) (.item 0), .comb (.item 1) (.range 2 3), .all]

/-- the same sets written with nested `Combine`, `NegateSet<Combine<…>>` and `combine()` (`Alt` in the harness) -/
def altTable : List SetExpr :=
  [.neg .all, .neg (.comb (.range 1 2) (.item 3)), .neg (.comb (.comb (.item 0) (.item 2)) (.item 3)),
   .neg (.comb (.item 2) (.item 3)), .neg (.comb (.range 0 1) (.item 3)), .comb (.item 0) (.item 2),
   .neg (.comb (.item 0) (.item 3)), .comb (.comb (.item 0) (.item 1)) (.item 2),
   .neg (.comb (.comb (.item 0) (.item 1)) (.item 2)), .neg (.comb (.item 1) (.item 2)),
   .comb (.comb (.item 1) .empty) (.item 3), .comb (.comb (.item 0) (.item 1)) (.item 3),
   .neg (.comb (.item 0) (.item 1)), .comb (.comb (.item 2) (.item 3)) (.item 0), .neg (.comb (.item 0) .empty),
   .comb (.comb (.range 0 1) (.item 2)) (.item 3)]

/-- the attribute predicate of mask `m` (`alt`: alternative spelling) -/
def maskSet (alt : Bool) (m : Nat) (a : Nat) : Bool :=
  ((if alt then altTable else setTable).getD m .empty).contains (a : Int)

/-! ### BufferedCommunicator::build -/

/-- `MessageInformation`: `start_` counts elements of `IndexedType`, `size_` counts bytes -/
structure MsgInfo where
  start : Nat
  size : Nat
  deriving DecidableEq, Repr, Inhabited

/-- `MessageSizeCalculator`: `info.size()` for `SizeOne` (`cs = fun _ => 1`), `Σ getSize(data, info[i])` otherwise -/
def sizeCalc (cs : Nat → Nat) (info : Info) : Nat := (info.idx.map cs).sum

/-- the loop over `interfaces_`; `s0`, `s1` are `bufferSize_[0]`, `bufferSize_[1]` (still in elements) -/
def layout (sz : Nat) (csS csT : Nat → Nat) : IfMap → Nat → Nat → List (Nat × MsgInfo × MsgInfo)
  | [], _, _ => []
  | e :: es, s0, s1 =>
    let noSend := sizeCalc csS e.2.1
    let noRecv := sizeCalc csT e.2.2
    (if noSend + noRecv > 0 then [(e.1, (⟨s0, noSend * sz⟩ : MsgInfo), (⟨s1, noRecv * sz⟩ : MsgInfo))] else [])
      ++ layout sz csS csT es (s0 + noSend) (s1 + noRecv)

/-- the state of a built `BufferedCommunicator`: `interfaces_`, `messageInformation_`, and `sizeof(IndexedType)`.
    `csS`/`csT`: `CommPolicy::getSize` on the source / target container -/
structure Comm where
  ifs : IfMap
  msgs : List (Nat × MsgInfo × MsgInfo)
  sz : Nat
  csS : Nat → Nat
  csT : Nat → Nat

def buildComm (sz : Nat) (csS csT : Nat → Nat) (ifs : IfMap) : Comm :=
  { ifs := ifs, msgs := layout sz csS csT ifs 0 0, sz := sz, csS := csS, csT := csT }

/-- `bufferSize_[0]`, `bufferSize_[1]` in elements -/
def Comm.sendElems (c : Comm) (fwd : Bool) : Nat :=
  (c.ifs.map fun e => if fwd then sizeCalc c.csS e.2.1 else sizeCalc c.csT e.2.2).sum
def Comm.recvElems (c : Comm) (fwd : Bool) : Nat := c.sendElems (!fwd)

/-- component counts of the container that is gathered from / scattered to in this direction -/
def Comm.csSend (c : Comm) (fwd : Bool) : Nat → Nat := if fwd then c.csS else c.csT
def Comm.csRecv (c : Comm) (fwd : Bool) : Nat → Nat := if fwd then c.csT else c.csS

/-- `messageInformation_.find(proc)` -/
def Comm.msg (c : Comm) (q : Nat) : Option (MsgInfo × MsgInfo) :=
  (c.msgs.find? (fun e => e.1 == q)).map (·.2)

def sendMsgInfo (fwd : Bool) (m : MsgInfo × MsgInfo) : MsgInfo := if fwd then m.1 else m.2
def recvMsgInfo (fwd : Bool) (m : MsgInfo × MsgInfo) : MsgInfo := if fwd then m.2 else m.1

/-! ### sendRecv -/

/-- the (local index, component) slots of an index list, in buffer order -/
def slots (cs : Nat → Nat) (info : Info) : List (Nat × Nat) :=
  info.idx.flatMap fun l => (List.range (cs l)).map fun j => (l, j)

/-- `MessageGatherer`: the whole send buffer; `gat l j` = `GatherScatter::gather(data, l, j)` -/
def gatherBuf {Val} (gat : Nat → Nat → Val) (cs : Nat → Nat) (fwd : Bool) (ifs : IfMap) : List Val :=
  ifs.flatMap fun e => (slots cs (sendSide fwd e.2)).map fun s => gat s.1 s.2

/-- `buffer + start_`, `size_` bytes -/
def sliceOf {Val} (sz : Nat) (buf : List Val) (m : MsgInfo) : List Val := (buf.drop m.start).take (m.size / sz)

/-- the neighbours a send is posted to (`if(size_) MPI_Issend`), in rank order -/
def Comm.postedSends (c : Comm) (fwd : Bool) : List Nat :=
  (c.msgs.filter fun e => (sendMsgInfo fwd e.2).size != 0).map (·.1)
/-- the neighbours a receive is posted for (`if(size_) MPI_Irecv`), in rank order -/
def Comm.postedRecvs (c : Comm) (fwd : Bool) : List Nat :=
  (c.msgs.filter fun e => (recvMsgInfo fwd e.2).size != 0).map (·.1)

/-- the message `c`'s process sends to `q` (empty if none is posted) -/
def Comm.msgTo {Val} (c : Comm) (fwd : Bool) (sendBuf : List Val) (q : Nat) : List Val :=
  match c.msg q with
  | some m => sliceOf c.sz sendBuf (sendMsgInfo fwd m)
  | none => []

/-- a message lands in the receive buffer -/
def writeAt {Val} (buf : List Val) (start : Nat) (m : List Val) : List Val :=
  buf.take start ++ m ++ buf.drop (start + m.length)

/-- the receive buffer after the messages of the processes `arr` (arrival order) have landed;
    `inc p` = the message sent by `p` to this process -/
def Comm.recvBufAfter {Val} (c : Comm) (fwd : Bool) (inc : Nat → List Val) (init : List Val) (arr : List Nat) : List Val :=
  arr.foldl (fun buf p =>
    match c.msg p with
    | some m => writeAt buf (recvMsgInfo fwd m).start (inc p)
    | none => buf) init

/-- `MessageScatterer` for the message of `proc`: `scatter(data, buffer[index++], info[i], j)`; the calls as
    (value, local index, component) in call order -/
def scatterCalls {Val} (cs : Nat → Nat) (info : Info) (buf : List Val) : List (Val × Nat × Nat) :=
  buf.zip (slots cs info)

/-- the `MPI_Waitany` loop: for every completed receive (completion order `order`) scatter from
    `recvBuffer + start_` -/
def Comm.roundCalls {Val} (c : Comm) (fwd : Bool) (recvBuf : List Val) (order : List Nat) : List (Val × Nat × Nat) :=
  order.flatMap fun p =>
    match c.msg p with
    | some m => scatterCalls (c.csRecv fwd) (recvSide fwd (c.ifs.get p)) (recvBuf.drop (recvMsgInfo fwd m).start)
    | none => []

/-- the scatter policy applied call by call -/
def applyCalls {Val Data} (scatter : Data → Val → Nat → Nat → Data) (d : Data) (calls : List (Val × Nat × Nat)) : Data :=
  calls.foldl (fun d c => scatter d c.1 c.2.1 c.2.2) d

/-- the send buffer of a process in one communication -/
def Comm.sendBuf {Val} (c : Comm) (fwd : Bool) (gat : Nat → Nat → Val) : List Val :=
  gatherBuf gat (c.csSend fwd) fwd c.ifs

/-- one `sendRecv<GatherScatter,FORWARD>` seen from the receiving process `q`:
    `comm p` is the communicator of process `p`, `gat p` its gather function on the pre-state of the container it
    sends from, `init` what the receive buffer of `q` holds before the call (uninitialised memory after `build`, the
    messages of earlier communications later on), `arr` the order in which the messages land in `q`'s receive
    buffer, `order` the completion order reported by `MPI_Waitany`; result: the scatter calls made on `q` -/
def roundCallsFrom {Val} (comm : Nat → Comm) (fwd : Bool) (gat : Nat → Nat → Nat → Val) (init : List Val)
    (q : Nat) (arr order : List Nat) : List (Val × Nat × Nat) :=
  let c := comm q
  let inc := fun p => (comm p).msgTo fwd ((comm p).sendBuf fwd (gat p)) q
  c.roundCalls fwd (c.recvBufAfter fwd inc init arr) order

/-- the same with a receive buffer that holds `junk` everywhere -/
def roundCallsAt {Val} (comm : Nat → Comm) (fwd : Bool) (gat : Nat → Nat → Nat → Val) (junk : Val)
    (q : Nat) (arr order : List Nat) : List (Val × Nat × Nat) :=
  roundCallsFrom comm fwd gat (List.replicate ((comm q).recvElems fwd) junk) q arr order

/-! ### all processes together -/

/-- the containers of one process: `c0` is gathered from in a forward communication (source), `c1` scattered to
    (target); `one`: both are the same object (`forward<GS>(data)`), only `c0` is used -/
structure Cont (Data : Type) where
  c0 : Data
  c1 : Data
  one : Bool

/-- `tgt = true`: the target container -/
def Cont.get {Data} (c : Cont Data) (tgt : Bool) : Data := if tgt && !c.one then c.c1 else c.c0
def Cont.set {Data} (c : Cont Data) (tgt : Bool) (d : Data) : Cont Data :=
  if tgt && !c.one then { c with c1 := d } else { c with c0 := d }

/-- one collective `forward<GS>` (`fwd = true`: gather from the source containers, scatter into the target
    containers) or `backward<GS>` of all processes; `w p` are the containers of `p` before the call, `arr q`/`order q`
    the arrival and completion orders on `q`; result: the containers of `q` afterwards.  All gathers of a process
    happen before its first scatter (`MessageGatherer` runs before the receives are posted). -/
def worldRound {Val Data} (comm : Nat → Comm) (gather : Data → Nat → Nat → Val) (scatter : Data → Val → Nat → Nat → Data)
    (junk : Val) (fwd : Bool) (arr order : Nat → List Nat) (w : Nat → Cont Data) (q : Nat) : Cont Data :=
  (w q).set fwd (applyCalls scatter ((w q).get fwd)
    (roundCallsAt comm fwd (fun p => gather ((w p).get (!fwd))) junk q (arr q) (order q)))

/-- repeated use of one communicator: a sequence of `forward`/`backward` calls -/
def runRounds {Val Data} (comm : Nat → Comm) (gather : Data → Nat → Nat → Val) (scatter : Data → Val → Nat → Nat → Data)
    (junk : Val) (arr order : Bool → Nat → List Nat) : List Bool → (Nat → Cont Data) → (Nat → Cont Data)
  | [], w => w
  | fwd :: ds, w => runRounds comm gather scatter junk arr order ds
      (worldRound comm gather scatter junk fwd (arr fwd) (order fwd) w)

/-! ### the communicator as a stateful object: buffers that persist, `free`, `build` again -/

/-- one process: its containers and the contents of `buffers_[0]`, `buffers_[1]` of its communicator -/
structure PState (Val Data : Type) where
  cont : Cont Data
  b0 : List Val
  b1 : List Val

/-- the buffer gathered into (`FORWARD ? buffers_[0] : buffers_[1]`) resp. received into -/
def PState.sendB {Val Data} (st : PState Val Data) (fwd : Bool) : List Val := if fwd then st.b0 else st.b1
def PState.recvB {Val Data} (st : PState Val Data) (fwd : Bool) : List Val := if fwd then st.b1 else st.b0

/-- `MessageGatherer` writes `buffer[0] … buffer[n-1]`; what lies behind stays -/
def overwritePrefix {Val} (old new : List Val) : List Val := new ++ old.drop new.length

/-- one communication with its schedules (per process: arrival order, completion order) -/
structure Round where
  fwd : Bool
  arr : Nat → List Nat
  order : Nat → List Nat

/-- the send buffer of `p` after its `MessageGatherer` ran -/
def stepSendBuf {Val Data} (comm : Nat → Comm) (gather : Data → Nat → Nat → Val) (fwd : Bool)
    (st : Nat → PState Val Data) (p : Nat) : List Val :=
  overwritePrefix ((st p).sendB fwd) ((comm p).sendBuf fwd (gather ((st p).cont.get (!fwd))))

/-- the receive buffer of `q` after the messages of `arr` have landed on top of its previous contents -/
def stepRecvBuf {Val Data} (comm : Nat → Comm) (gather : Data → Nat → Nat → Val) (fwd : Bool)
    (st : Nat → PState Val Data) (q : Nat) (arr : List Nat) : List Val :=
  (comm q).recvBufAfter fwd (fun p => (comm p).msgTo fwd (stepSendBuf comm gather fwd st p) q) ((st q).recvB fwd) arr

/-- the scatter calls of `q` in this communication -/
def stepCalls {Val Data} (comm : Nat → Comm) (gather : Data → Nat → Nat → Val) (r : Round)
    (st : Nat → PState Val Data) (q : Nat) : List (Val × Nat × Nat) :=
  (comm q).roundCalls r.fwd (stepRecvBuf comm gather r.fwd st q (r.arr q)) (r.order q)

/-- one collective `forward`/`backward` on the stateful communicators -/
def worldStep {Val Data} (comm : Nat → Comm) (gather : Data → Nat → Nat → Val) (scatter : Data → Val → Nat → Nat → Data)
    (r : Round) (st : Nat → PState Val Data) (q : Nat) : PState Val Data :=
  let sb := stepSendBuf comm gather r.fwd st q
  let rb := stepRecvBuf comm gather r.fwd st q (r.arr q)
  { cont := (st q).cont.set r.fwd (applyCalls scatter ((st q).cont.get r.fwd) (stepCalls comm gather r st q)),
    b0 := if r.fwd then sb else rb,
    b1 := if r.fwd then rb else sb }

/-- a history of communications on one set of communicators -/
def runSt {Val Data} (comm : Nat → Comm) (gather : Data → Nat → Nat → Val) (scatter : Data → Val → Nat → Nat → Data) :
    List Round → (Nat → PState Val Data) → (Nat → PState Val Data)
  | [], st => st
  | r :: rs, st => runSt comm gather scatter rs (worldStep comm gather scatter r st)

/-- `messageInformation_.insert(std::make_pair(proc, …))`: a key that is present keeps its old value -/
def insertKeep (m : List (Nat × MsgInfo × MsgInfo)) (e : Nat × MsgInfo × MsgInfo) : List (Nat × MsgInfo × MsgInfo) :=
  match m with
  | [] => [e]
  | x :: xs => if e.1 < x.1 then e :: x :: xs else if e.1 == x.1 then x :: xs else x :: insertKeep xs e

/-- `BufferedCommunicator::free()`: `messageInformation_.clear()` (and the buffers are released) -/
def Comm.free (c : Comm) : Comm := { c with msgs := [] }

/-- `BufferedCommunicator::build` on an object in state `c`: `free()` first (fixes/C05_build_twice), then
    `interfaces_ = …` and one `insert` per neighbour of the new interface -/
def Comm.build (c : Comm) (sz : Nat) (csS csT : Nat → Nat) (ifs : IfMap) : Comm :=
  { ifs := ifs, msgs := (layout sz csS csT ifs 0 0).foldl insertKeep c.free.msgs, sz := sz, csS := csS, csT := csT }

/-! ### round four: `strip` and the loop of `build` evaluated with what the translator read from the source

`Gen.stripErase`, `Gen.layoutCond` … `Gen.layoutSecondCont` are REGENERATED from interface.hh / communicator.hh; the driver
runs `interfaceOfG` and `Comm.buildG`; `strip_regenerated`, `layout_regenerated` (Props): they are `interfaceOf`, `Comm.build`. -/

/-- the member of a pair that the source selects -/
def pick {α : Type} (s : Gen.Side) (e : α × α) : α :=
  match s with
  | .first => e.1
  | .second => e.2

/-- `Interface::strip` with the erase condition as read from interface.hh -/
def stripG (m : IfMap) : IfMap := m.filter fun e => !(Gen.stripErase e.2.1.size e.2.2.size)

def interfaceOfG (ign : Bool) (S T : Nat → Bool) (sys : System) (p : Nat) : IfMap :=
  stripG (buildInterfaceRaw S T (remoteSpec ign sys p))

/-- the loop over `interfaces_` of `BufferedCommunicator::build` (`two = false`: `build<Data>(interface)`, `two = true`:
    `build(source, dest, interface)`) with the sizes, the insert condition, the four `MessageInformation` arguments and the
    two increments as read from communicator.hh -/
def layoutG (two : Bool) (sz : Nat) (csS csT : Nat → Nat) : IfMap → Nat → Nat → List (Nat × MsgInfo × MsgInfo)
  | [], _, _ => []
  | e :: es, s0, s1 =>
    let nF := sizeCalc (pick (Gen.layoutFirstCont two) (csS, csT)) e.2.1
    let nS := sizeCalc (pick (Gen.layoutSecondCont two) (csS, csT)) e.2.2
    (if Gen.layoutCond two nF nS s0 s1 sz then
        [(e.1, (⟨Gen.layoutFirstStart two nF nS s0 s1 sz, Gen.layoutFirstSize two nF nS s0 s1 sz⟩ : MsgInfo),
               (⟨Gen.layoutSecondStart two nF nS s0 s1 sz, Gen.layoutSecondSize two nF nS s0 s1 sz⟩ : MsgInfo))]
      else [])
      ++ layoutG two sz csS csT es (s0 + Gen.layoutInc0 two nF nS s0 s1 sz) (s1 + Gen.layoutInc1 two nF nS s0 s1 sz)

/-- `BufferedCommunicator::build` (overload `two`) on an object in state `c`, loop as regenerated -/
def Comm.buildG (c : Comm) (two : Bool) (sz : Nat) (csS csT : Nat → Nat) (ifs : IfMap) : Comm :=
  { ifs := ifs, msgs := (layoutG two sz csS csT ifs 0 0).foldl insertKeep c.free.msgs, sz := sz, csS := csS, csT := csT }

/-! ### termination at the message level -/

/-- where a process is inside one `sendRecv`: not yet entered / all `MPI_Irecv` and `MPI_Issend` posted, waiting /
    returned -/
inductive Phase where
  | idle
  | posted
  | done
  deriving DecidableEq, Repr

/-- all requests of `q` can complete: every receive it posted is matched by a send that its peer posts in this
    communication and has posted already; every (synchronous) send it posted is matched by a receive its peer has
    posted -/
def canFinish (comm : Nat → Comm) (fwd : Bool) (ph : Nat → Phase) (q : Nat) : Prop :=
  (∀ p ∈ (comm q).postedRecvs fwd, ph p ≠ Phase.idle ∧ q ∈ (comm p).postedSends fwd) ∧
  (∀ r ∈ (comm q).postedSends fwd, ph r ≠ Phase.idle ∧ q ∈ (comm r).postedRecvs fwd)

/-- the moves of the `P` processes during one collective communication -/
inductive CommStep (comm : Nat → Comm) (fwd : Bool) (P : Nat) : (Nat → Phase) → (Nat → Phase) → Prop where
  | post (ph : Nat → Phase) (q : Nat) : q < P → ph q = Phase.idle →
      CommStep comm fwd P ph (fun x => if x = q then Phase.posted else ph x)
  | finish (ph : Nat → Phase) (q : Nat) : q < P → ph q = Phase.posted → canFinish comm fwd ph q →
      CommStep comm fwd P ph (fun x => if x = q then Phase.done else ph x)

/-- what is still to do: 2 per process that has not entered, 1 per waiting process -/
def Phase.todo : Phase → Nat
  | Phase.idle => 2
  | Phase.posted => 1
  | Phase.done => 0

def todoSum (P : Nat) (ph : Nat → Phase) : Nat := ((List.range P).map fun q => (ph q).todo).sum

/-! ### DatatypeCommunicator -/

/-- the index lists behind the derived datatypes: the same two passes, for *every* neighbour of the remote index
    map (`createDataTypes` does not `strip`) -/
def rawInterfaceOf (ign : Bool) (S T : Nat → Bool) (sys : System) (p : Nat) : IfMap :=
  buildInterfaceRaw S T (remoteSpec ign sys p)

/-- the entries of `q`'s `messageTypes` map seen from the receiving side of a forward (`fwd`) or backward
    communication: neighbour, the index list behind the neighbour's send type for `q`, the index list behind the own
    receive type for the neighbour -/
def dtNeighbours (raw : Nat → IfMap) (fwd : Bool) (q : Nat) : List (Nat × Info × Info) :=
  (raw q).map fun e => (e.1, sendSide fwd ((raw e.1).get q), recvSide fwd e.2)

/-- one `DatatypeCommunicator::forward()/backward()` seen from the receiving process: MPI moves, for every
    neighbour `p`, the entries of `p`'s send type into the entries of the own receive type, in order (copy).
    `cs`: component counts of the receiving container, `csSend p`: of `p`'s sending container. -/
def dtCalls {Val} (cs : Nat → Nat) (gat : Nat → Nat → Nat → Val) (csSend : Nat → Nat → Nat)
    (nbs : List (Nat × Info × Info)) : List (Val × Nat × Nat) :=
  nbs.flatMap fun e =>
    ((slots (csSend e.1) e.2.1).map fun s => gat e.1 s.1 s.2).zip (slots cs e.2.2)

end DV.C05
