import DuneVerif.Model.C04
import DuneVerif.Gen.C04
import DuneVerif.Gen.C04L
/-!
C04 — how an index pair comes into being (namespace `DV.C04.L`).

The constructors, `operator=(size_t)`, `setAttribute` and the getters of `ParallelLocalIndex` are *regenerated* from
plocalindex.hh (`Gen/C04L.lean`, `DV.C04.GenL.*`: member-initialiser lists, delegating constructors resolved with the
default arguments of the declaration, straight-line bodies).  `build how` composes them the way the harness does for the
construction variant `how` of an `a` segment (see harness/mpi_c04.cc); the driver makes every pair of the model's index
sets with `mkPair`, so a constructor that stores something else changes what the model computes, and
`localindex_variants_agree` (Props) has to be re-proved against the source as it is now.

`Chunked` is the storage of `ArrayList<T,N>` underneath `ParallelIndexSet`: separately allocated chunks of `N` elements.
`packWalk` is `packEntries`' loop: the iterator walks the chunks, every published pair is packed by one `MPI_Pack` call
of `count` elements starting at the pair's address — contiguous memory ends with the chunk (`none` = the call reads past
the end of the chunk: undefined behaviour).  `Gen.packCount` is the count argument read from the source.

Core Lean only.
-/
namespace DV.C04.L
open DV.C04 DV.C04.GenL

/-- the local index the harness makes for construction variant `how` (0…4; see the header of harness/mpi_c04.cc) -/
def build (how l a : Nat) (pub : Bool) : LI :=
  match how with
  | 0 => ctorLAP l a pub
  | 1 => assignLocal (ctorAP a pub) l
  | 2 => if pub then ctorLAP l a (ctorLAPDefaultIsPublic.getD false)
         else assignLocal (setAttribute ctorDefault a) l
  | 3 => if a == 0 && !pub then assignLocal ctorDefault l      -- `add(global)`: `IndexPair(global)`, `local_()`
         else assignLocal (ctorAP a pub) l
  | _ => assignLocal (ctorLAP (l + 1) a pub) l                 -- `setLocal(l)` afterwards

/-- what the rest of the model sees of an index pair: the getters -/
def toPair (g : Int) (x : LI) : Pair := { g := g, l := getLocal x, a := getAttribute x, pub := isPublic x }

/-- the pair an `a` segment with variant `how` adds -/
def mkPair (how : Nat) (g : Int) (l a : Nat) (pub : Bool) : Pair := toPair g (build how l a pub)

/-- the facts about `IndexPair` / `add` read from indexset.hh that the variants 3 and 4 rest on; `some false` = the
    source says otherwise -/
def pairFacts : List (Option Bool) :=
  [pairCtorCopiesBoth, pairCtorGlobalDefaultLocal, setLocalAssigns, addGlobalPushesPair, addPairPushesPair]

/-! ### chunked storage -/

/-- `ArrayList<T,N>` holding `l`: chunks of `N` elements, the last one possibly shorter (`N = 0` is `N = 1` in
    the C++: `arraySize = (N>0) ? N : 1`) -/
def chunked (N : Nat) (l : List α) : List (List α) :=
  go l.length l
where
  go : Nat → List α → List (List α)
  | 0, _ => []
  | _, [] => []
  | fuel + 1, x :: xs => ((x :: xs).take (max N 1)) :: go fuel ((x :: xs).drop (max N 1))

/-- one `MPI_Pack(&*it, count, type, …)` with `it` at offset `off` of a chunk: the `count` elements that lie there,
    `none` if the chunk ends before -/
def packAt (chunk : List α) (off count : Nat) : Option (List α) :=
  if off + count ≤ chunk.length then some ((chunk.drop off).take count) else none

/-- `packEntries`' walk over one chunk from offset `off` on: every element with `pub` is packed by one call -/
def packChunk (pub : α → Bool) (count : Nat) (chunk : List α) : Nat → Nat → Option (List α)
  | 0, _ => some []
  | fuel + 1, off =>
    if off ≥ chunk.length then some [] else
    match chunk[off]? with
    | none => some []
    | some x =>
      if pub x then
        match packAt chunk off count, packChunk pub count chunk fuel (off + 1) with
        | some a, some b => some (a ++ b)
        | _, _ => none
      else packChunk pub count chunk fuel (off + 1)

/-- the whole walk: chunk after chunk (`operator++` of the ArrayList iterator) -/
def packWalk (pub : α → Bool) (count : Nat) : List (List α) → Option (List α)
  | [] => some []
  | c :: cs =>
    match packChunk pub count c c.length 0, packWalk pub count cs with
    | some a, some b => some (a ++ b)
    | _, _ => none

end DV.C04.L
