import DuneVerif.Model.C02
import DuneVerif.Gen.C02
/-
C02 — the public member functions `DenseMatrix::determinant / solve / invert (doPivoting)` as a whole:
the dispatch on `rows()` between the closed forms (generated from the source, `DV.C02.Gen`) and the LU path
(`DV.C02.detLU / solveLU / invertLU`), the default arguments, and the `DiagonalMatrix` members.

Core Lean only.  The driver executes exactly these functions; Props/C02.lean states the property about them.

`rows() != cols()` (→ FMatrixError) is not represented: `Mat n K` is square by construction and the property
speaks about square matrices only.  The `#ifdef DUNE_FMatrix_WITH_CHECKING` tests are not compiled by the harness
(the macro is not defined in the default configuration) and are not modelled.
-/
namespace DV.C02

section Top
variable {K Q : Type} [Add K] [Sub K] [Mul K] [Div K] [Neg K] [OfNat K 0] [OfNat K 1]
variable [LT Q] [DecidableLT Q] [BEq Q] [OfNat Q 0]

/-! ### the generated result records as `Vec` / `Mat` -/

def vecOf1 (r : Gen.V1 K) : Vec 1 K := Vec.ofFn fun _ => r.x0
def vecOf2 (r : Gen.V2 K) : Vec 2 K := Vec.ofFn fun i => if i.1 = 0 then r.x0 else r.x1
def vecOf3 (r : Gen.V3 K) : Vec 3 K := Vec.ofFn fun i => if i.1 = 0 then r.x0 else if i.1 = 1 then r.x1 else r.x2
def matOf1 (r : Gen.M1 K) : Mat 1 K := Mat.ofFn fun _ _ => r.m00
def matOf2 (r : Gen.M2 K) : Mat 2 K := Mat.ofFn fun i j =>
  if i.1 = 0 then (if j.1 = 0 then r.m00 else r.m01) else (if j.1 = 0 then r.m10 else r.m11)
def matOf3 (r : Gen.M3 K) : Mat 3 K := Mat.ofFn fun i j =>
  if i.1 = 0 then (if j.1 = 0 then r.m00 else if j.1 = 1 then r.m01 else r.m02)
  else if i.1 = 1 then (if j.1 = 0 then r.m10 else if j.1 = 1 then r.m11 else r.m12)
  else (if j.1 = 0 then r.m20 else if j.1 = 1 then r.m21 else r.m22)

/-! ### `DenseMatrix::determinant / solve / invert` -/

/-- `DenseMatrix::determinant(doPivoting)`: `rows()==1,2,3` closed forms, otherwise the LU path -/
def determinant (doPivoting : Bool) (absval : K → Q) : {n : Nat} → Mat n K → K
  | 1, A => Gen.det1 (A.f 0 0)
  | 2, A => Gen.det2 (A.f 0 0) (A.f 0 1) (A.f 1 0) (A.f 1 1)
  | 3, A => Gen.det3 (A.f 0 0) (A.f 0 1) (A.f 0 2) (A.f 1 0) (A.f 1 1) (A.f 1 2) (A.f 2 0) (A.f 2 1) (A.f 2 2)
  | _, A => detLU doPivoting absval A

/-- `DenseMatrix::solve(x, b, doPivoting)` (the closed forms never throw; the LU path throws FMatrixError) -/
def solve (doPivoting : Bool) (absval : K → Q) : {n : Nat} → Mat n K → Vec n K → Res (Vec n K)
  | 1, A, b => .ok (vecOf1 (Gen.solve1 (A.f 0 0) (b.f 0)))
  | 2, A, b => .ok (vecOf2 (Gen.solve2 (A.f 0 0) (A.f 0 1) (A.f 1 0) (A.f 1 1) (b.f 0) (b.f 1)))
  | 3, A, b => .ok (vecOf3 (Gen.solve3 (A.f 0 0) (A.f 0 1) (A.f 0 2) (A.f 1 0) (A.f 1 1) (A.f 1 2)
      (A.f 2 0) (A.f 2 1) (A.f 2 2) (b.f 0) (b.f 1) (b.f 2)))
  | _, A, b => solveLU doPivoting absval A b

/-- `DenseMatrix::invert(doPivoting)` -/
def invert (doPivoting : Bool) (absval : K → Q) : {n : Nat} → Mat n K → Res (Mat n K)
  | 1, A => .ok (matOf1 (Gen.invert1 (A.f 0 0)))
  | 2, A => .ok (matOf2 (Gen.invert2 (A.f 0 0) (A.f 0 1) (A.f 1 0) (A.f 1 1)))
  | 3, A => .ok (matOf3 (Gen.invert3 (A.f 0 0) (A.f 0 1) (A.f 0 2) (A.f 1 0) (A.f 1 1) (A.f 1 2)
      (A.f 2 0) (A.f 2 1) (A.f 2 2)))
  | _, A => invertLU doPivoting absval A

/-- the calls without the optional argument: `A.determinant()`, `A.solve(x, b)`, `A.invert()` -/
def determinantDefault (absval : K → Q) {n : Nat} (A : Mat n K) : K :=
  determinant Gen.determinantDefaultPivoting absval A
def solveDefault (absval : K → Q) {n : Nat} (A : Mat n K) (b : Vec n K) : Res (Vec n K) :=
  solve Gen.solveDefaultPivoting absval A b
def invertDefault (absval : K → Q) {n : Nat} (A : Mat n K) : Res (Mat n K) :=
  invert Gen.invertDefaultPivoting absval A

/-! ### `FMatrixHelp::invertMatrix` (`tr = false`) / `invertMatrix_retTransposed` (`tr = true`), sizes 1..3 only -/

def fmhInvert (tr : Bool) : {n : Nat} → Mat n K → Option (K × Mat n K)
  | 1, A => let r := (if tr then Gen.fmhInvertT1 (A.f 0 0) else Gen.fmhInvert1 (A.f 0 0)); some (r.1, matOf1 r.2)
  | 2, A =>
    let r := (if tr then Gen.fmhInvertT2 (A.f 0 0) (A.f 0 1) (A.f 1 0) (A.f 1 1)
              else Gen.fmhInvert2 (A.f 0 0) (A.f 0 1) (A.f 1 0) (A.f 1 1))
    some (r.1, matOf2 r.2)
  | 3, A =>
    let r := (if tr then Gen.fmhInvertT3 (A.f 0 0) (A.f 0 1) (A.f 0 2) (A.f 1 0) (A.f 1 1) (A.f 1 2)
                (A.f 2 0) (A.f 2 1) (A.f 2 2)
              else Gen.fmhInvert3 (A.f 0 0) (A.f 0 1) (A.f 0 2) (A.f 1 0) (A.f 1 1) (A.f 1 2)
                (A.f 2 0) (A.f 2 1) (A.f 2 2))
    some (r.1, matOf3 r.2)
  | _, _ => none

end Top
end DV.C02
