import DuneVerif.Model.C09LU
/-!
# C09 (round 4) — `luDecomposition`, its functors and its three callers with the CONTROL DECISIONS EXECUTED FROM THE TABLE
# `Gen.luCtl` that the translator reads off densematrix.hh on every run

`Model/C09LU.lean` has the decisions built in (pivot search `k = i+1 … n-1` with `abs > pivmax`, `cond(mask, abs, pivmax)`,
`cond(mask, k, imax)`; `nonsingularLanes && (pivmax != 0)`; `!allTrue → throw`, `!anyTrue → return`; elimination below and right of the
pivot; `ElimDet::swap`, `ElimPivot::swap`; `throwEarly` of the three callers; masking of the singular lanes of the determinant).
Here the same algorithms take a `Gen.LUCtl` and do what *it* says — the driver runs these, so on a tree where a decision was
changed the model follows the code (model = impl) while `lu_control_shape` (`Gen.luCtl = luCtlCanonical`) and with it every
theorem about the translated algorithms breaks.  `Proofs/C09LUT.lean` shows that for the canonical table they are the
hand-written ones.
-/
namespace DV.C09
open Gen

/-- the decisions `Model/C09LU.lean` has built in -/
def luCtlCanonical : LUCtl :=
  { pivLo := 1, pivHiMinus := 0, elimKLo := 1, elimKHiMinus := 0, elimJLo := 1, elimJHiMinus := 0,
    pivCmp := .gt, nsCmp := .ne, detCmp := .eq, pvtCmp := .eq, nsOp := .land, throwRed := .allTrue, retRed := .anyTrue,
    pivmaxTAbs := true, pivmaxFAbs := false, imaxTK := true, imaxFK := false, throwNot := true, retNot := true,
    detTPos := true, detFPos := false, pvtTOld := true, pvtFOld := false,
    solveThrowEarly := true, invertThrowEarly := true, detThrowEarly := false, detMaskTDet := true, detMaskFDet := false }

/-- `x CMP y` on the scalars (`<=`, `>=` as `<` or `==`: IEEE comparisons are false on NaN) -/
def cmpK {K : Type} (R : Arith K) (c : CmpOpName) (x y : K) : Bool :=
  match c with
  | .lt => R.lt x y
  | .gt => R.lt y x
  | .le => R.lt x y || R.beq x y
  | .ge => R.lt y x || R.beq x y
  | .eq => R.beq x y
  | .ne => !(R.beq x y)

/-- `a CMP b` on row indices -/
def cmpIdx {n : Nat} (c : CmpOpName) (a b : Fin n) : Bool :=
  match c with
  | .lt => decide (a < b)
  | .gt => decide (b < a)
  | .le => decide (a ≤ b)
  | .ge => decide (b ≤ a)
  | .eq => decide (a = b)
  | .ne => !decide (a = b)

def boolOpB (o : BoolOpName) (x y : Bool) : Bool :=
  match o with
  | .land => x && y
  | .lor => x || y

/-- `k ∈ [i + lo, n - hiMinus)`: the range of `for (k = i + lo; k < rows - hiMinus; k++)` -/
def inRange {n : Nat} (lo hiMinus : Nat) (i k : Fin n) : Bool := decide (i.val + lo ≤ k.val ∧ k.val + hiMinus < n)

section Generic
variable {V : Type → Type} {L : Nat} (X : SimdLike V L) {K : Type} (R : Arith K) {n : Nat} (c : LUCtl)

/-- `[!] Simd::RED(mask)` -/
def redTest (neg : Bool) (k : RedKind) (m : V Bool) : Bool :=
  if neg then !reduceMask X k m else reduceMask X k m

/-- the per-lane pivot search as the table describes it -/
def pivotSearchT (A : Mat (V K) n) (i : Fin n) : V K × V (Fin n) :=
  (List.finRange n).foldl (fun (p : V K × V (Fin n)) k =>
    if inRange c.pivLo c.pivHiMinus i k = true then
      let abs := vabs X R (A.get k i)
      let mask := X.map2 (cmpK R c.pivCmp) abs p.1
      (X.cond mask (if c.pivmaxTAbs then abs else p.1) (if c.pivmaxFAbs then abs else p.1),
       X.cond mask (if c.imaxTK then X.bcast k else p.2) (if c.imaxFK then X.bcast k else p.2))
    else p) (vabs X R (A.get i i), X.bcast i)

/-- the elimination with the translated loop bounds -/
def eliminateT {Aux : Type} (F : ElimFunc (V := V) (K := K) (n := n) Aux) (A : Mat (V K) n) (aux : Aux) (i : Fin n) :
    Mat (V K) n × Aux :=
  (List.finRange n).foldl (fun (st : Mat (V K) n × Aux) k =>
    if inRange c.elimKLo c.elimKHiMinus i k = true then
      let A := st.1
      let factor := vdiv X R (A.get k i) (A.get i i)
      let A := A.set k i factor
      let A := (List.finRange n).foldl (fun A j =>
        if inRange c.elimJLo c.elimJHiMinus i j = true then A.set k j (vsub X R (A.get k j) (vmul X R factor (A.get i j))) else A) A
      (A, F.elim factor k i st.2)
    else st) (A, aux)

def luPreT {Aux : Type} (F : ElimFunc (V := V) (K := K) (n := n) Aux) (pivoting : Bool)
    (st : LUState (V := V) (K := K) (n := n) Aux) (i : Fin n) : LUState (V := V) (K := K) (n := n) Aux :=
  let pv := if pivoting then pivotSearchT X R c st.A i else (vabs X R (st.A.get i i), X.bcast i)
  { A := if pivoting then swapRows X st.A i pv.2 else st.A
    aux := if pivoting then F.swap i pv.2 st.aux else st.aux
    ns := X.map2 (boolOpB c.nsOp) st.ns (X.map2 (cmpK R c.nsCmp) pv.1 (X.bcast R.zero)) }

def luElimT {Aux : Type} (F : ElimFunc (V := V) (K := K) (n := n) Aux)
    (st : LUState (V := V) (K := K) (n := n) Aux) (i : Fin n) : LUState (V := V) (K := K) (n := n) Aux :=
  let e := eliminateT X R c F st.A st.aux i
  { A := e.1, aux := e.2, ns := st.ns }

/-- `luDecomposition` with the two exits as the table describes them:
    `if (throwEarly) { if ([!]throwRed(ns)) throw } else { if ([!]retRed(ns)) return }` -/
def luLoopT {Aux : Type} (F : ElimFunc (V := V) (K := K) (n := n) Aux) (throwEarly pivoting : Bool) :
    List (Fin n) → LUState (V := V) (K := K) (n := n) Aux → Option (LUState (V := V) (K := K) (n := n) Aux)
  | [], st => some st
  | i :: is, st =>
    let s := luPreT X R c F pivoting st i
    if throwEarly && redTest X c.throwNot c.throwRed s.ns then none
    else if !throwEarly && redTest X c.retNot c.retRed s.ns then some s
    else luLoopT F throwEarly pivoting is (luElimT X R c F s i)

def luDecompT {Aux : Type} (F : ElimFunc (V := V) (K := K) (n := n) Aux) (throwEarly pivoting : Bool)
    (A : Mat (V K) n) (aux : Aux) : Option (LUState (V := V) (K := K) (n := n) Aux) :=
  luLoopT X R c F throwEarly pivoting (List.finRange n) { A := A, aux := aux, ns := X.bcast true }

/-- `field_type(1)` / `field_type(-1)` -/
def signK (pos : Bool) : K := if pos then R.one else R.neg R.one

/-- `ElimDet::swap`: `sign_ *= Simd::cond(simd_index_type(i) CMP j, field_type(±1), field_type(±1))` -/
def elimDetT : ElimFunc (V := V) (K := K) (n := n) (V K) where
  swap := fun i j sign => vmul X R sign
    (X.cond (X.map2 (cmpIdx c.detCmp) (X.bcast i) j) (X.bcast (signK R c.detTPos)) (X.bcast (signK R c.detFPos)))
  elim := fun _ _ _ s => s

/-- `ElimPivot::swap`: `pivot_[i] = Simd::cond(Scalar(i) CMP j, T, F)` with `T`, `F` ∈ {`pivot_[i]`, `j`} -/
def elimPivotT : ElimFunc (V := V) (K := K) (n := n) (Vector (V (Fin n)) n) where
  swap := fun i j pivot =>
    pivot.set i (X.cond (X.map2 (cmpIdx c.pvtCmp) (X.bcast i) j) (if c.pvtTOld then pivot[i] else j) (if c.pvtFOld then pivot[i] else j))
  elim := fun _ _ _ p => p

/-- `DenseMatrix::determinant`: closed forms for `n ≤ 3`; beyond, `luDecomposition(A, ElimDet(det), ns, detThrowEarly, piv)`,
    the product of the diagonal and `det = cond(ns, T, F)`; `none` = `FMatrixError` (only if the call passes `throwEarly`) -/
def determinantT (pivoting : Bool) (A : Mat (V K) n) : Option (V K) :=
  if n ≤ 3 then some (determinant X R pivoting A)
  else
    match luDecompT X R c (elimDetT X R c) c.detThrowEarly pivoting A (X.bcast R.one) with
    | none => none
    | some st =>
      let d := (List.finRange n).foldl (fun d i => vmul X R d (st.A.get i i)) st.aux
      some (X.cond st.ns (if c.detMaskTDet then d else X.bcast R.zero) (if c.detMaskFDet then d else X.bcast R.zero))

/-- `DenseMatrix::solve`: closed forms for `n ≤ 3`, beyond `luDecomposition(A, Elim<V>(rhs), ns, solveThrowEarly, piv)` + backsolve -/
def solveT (pivoting : Bool) (A : Mat (V K) n) (b : Vector (V K) n) : Option (Vector (V K) n) :=
  if n ≤ 3 then solve X R pivoting A b
  else
    match luDecompT X R c (elimRhs X R) c.solveThrowEarly pivoting A b with
    | none => none
    | some st => some (backsolve X R st.A st.aux)

/-- `DenseMatrix::invert`: closed forms for `n ≤ 3`, beyond `luDecomposition(A, ElimPivot(pivot), ns, invertThrowEarly, piv)`,
    two triangular solves with the identity and the lane-wise un-permutation -/
def invertT (pivoting : Bool) (A : Mat (V K) n) : Option (Mat (V K) n) :=
  if n ≤ 3 then invert X R pivoting A
  else
    match luDecompT X R c (elimPivotT X (K := K) c) c.invertThrowEarly pivoting A (Vector.ofFn fun i => X.bcast i) with
    | none => none
    | some st => some (invUnpermute X st.aux (invBackward X R st.A (invForward X R st.A (identity X R))))

/-- the checked configuration in front of the translated-control algorithms (the tests exist for `n ≤ 3` only, where
    `determinant` is a closed form) -/
def solveCT (chk : Option (CmpOpName → K → Bool)) (pivoting : Bool) (A : Mat (V K) n) (b : Vector (V K) n) :
    Option (Vector (V K) n) :=
  if singularChecked X chkSolve chk n (determinant X R pivoting A) = true then none else solveT X R c pivoting A b

def invertCT (chk : Option (CmpOpName → K → Bool)) (pivoting : Bool) (A : Mat (V K) n) : Option (Mat (V K) n) :=
  if singularChecked X chkInvert chk n (determinant X R pivoting A) = true then none else invertT X R c pivoting A

end Generic
end DV.C09
