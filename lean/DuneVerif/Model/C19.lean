/-
C19 — model of Dune::MPIGuard (dune/common/parallel/mpiguard.hh) and of the futures returned by the
non-blocking operations (dune/common/parallel/mpifuture.hh, future.hh).  Core Lean only.

Part 1 (guard).  The code of one rank is a *program* that may issue the collective `comm_->sum(i)`
(`Prog.sum contribution continuation`); `finalize`, `reactivate` and the destructor are transcribed
statement by statement.  `runJoint` executes the programs of all ranks of one communicator in lock step:
the k-th collective of a rank can only complete together with the k-th collective of every other rank
(MPI semantics of collectives on one communicator); a rank that has returned while another one waits in a
collective is a deadlock.

Part 2 (futures).  Four state machines, one per class in the code:
`MPIFuture<T>`, `MPIFuture<void>` (impl::Buffer<void>), `PseudoFuture<T>`, `PseudoFuture<void>`.
The MPI request is `pending` (operation not complete), `done` (operation complete, request still active)
or `null` (MPI_REQUEST_NULL after a successful MPI_Wait/MPI_Test).  The environment step `complete` is the
only nondeterminism (the operation finishes); MPI_Wait blocks until it has happened.

`Dune::Future<T>` (future.hh), the type-erasing wrapper, is `erasedStep` on `Option σ`: the `unique_ptr` is null after
default construction and after a move.  `Future<void>` around a future with a payload is `voidCastStep`.

The model describes the tree with fixes/C19_mpifuture_void_get.patch (Buffer<void>::get clears valid_),
fixes/C19_future_null_invalid.patch (Future<T>::wait/get/ready test the pointer and throw InvalidFutureException) and
fixes/C19_mpifuture_bool_payload.patch (a bool payload is a payload, not the validity flag) applied.
-/
import DuneVerif.Common.Proto

namespace DV.C19

/-! ## Part 1 — MPIGuard -/

/-- code of one rank, as far as the communicator is concerned -/
inductive Prog (α : Type) where
  | ret : α → Prog α
  /-- `comm_->sum(c)`; the continuation receives the global sum -/
  | sum : Nat → (Nat → Prog α) → Prog α

def Prog.bind {α β : Type} : Prog α → (α → Prog β) → Prog β
  | .ret a, f => f a
  | .sum c k, f => .sum c (fun r => (k r).bind f)

/-- `MPIGuard`: the only data member besides the communicator is `active_` -/
structure Guard where
  active : Bool
  deriving DecidableEq, Repr

/--
```
void finalize(bool success = true) {
  int result = success ? 0 : 1;
  bool was_active = active_;
  active_ = false;
  result = comm_->sum(result);
  if (result>0 && was_active) DUNE_THROW(MPIGuardError, …);
}
```
returns the guard afterwards and whether MPIGuardError was thrown -/
def finalize (g : Guard) (success : Bool) : Prog (Guard × Bool) :=
  let result := if success then 0 else 1
  let wasActive := g.active
  .sum result fun total => .ret ({ active := false }, decide (total > 0) && wasActive)

/-- `finalize()` with the default argument `success = true` -/
def finalizeDefault (g : Guard) : Prog (Guard × Bool) := finalize g true

/--
```
void reactivate() {
  if (active_ == true) finalize();
  active_ = true;
}
```
(an exception from `finalize()` leaves before `active_ = true`) -/
def reactivate (g : Guard) : Prog (Guard × Bool) :=
  if g.active then
    (finalizeDefault g).bind fun r =>
      if r.2 then .ret (r.1, true) else .ret ({ active := true }, false)
  else .ret ({ active := true }, false)

/--
```
~MPIGuard() {
  if (active_) { active_ = false; finalize(false); }
  delete comm_;
}
```
result: an exception escaped the destructor (would be std::terminate) -/
def destroy (g : Guard) : Prog Bool :=
  if g.active then
    (finalize { active := false } false).bind fun r => .ret r.2
  else .ret false

/-- how a rank obtains an armed guard for the next section -/
inductive Arm where
  /-- `n`: (delete the old guard,) `MPIGuard guard(comm)` -/
  | fresh
  /-- `m`: (delete the old guard,) `MPIGuard guard(comm, false); guard.reactivate();` -/
  | freshInactive
  /-- `a`: `guard.reactivate()` on the guard of the previous section (a new one if there is none) -/
  | rearm
  deriving DecidableEq, Repr

/-- what a rank does in the guarded section -/
inductive Act where
  /-- `t`: `guard.finalize(true)` -/
  | finTrue
  /-- `d`: `guard.finalize()` -/
  | finDefault
  /-- `f`: `guard.finalize(false)` -/
  | finFalse
  /-- `r`: `guard.reactivate()` used as the checkpoint (finalize + re-arm) -/
  | react
  /-- `x`: an exception is thrown inside the section, the guard is destroyed by unwinding -/
  | throwUser
  /-- `q`: the scope is left without finalize (destructor of an armed guard) -/
  | leave
  deriving DecidableEq, Repr

/-- what the rank observes at the end of the section -/
inductive Obs where
  /-- `-` nothing thrown -/
  | none
  /-- `E` MPIGuardError -/
  | guardError
  /-- `X` the user's own exception arrives unchanged -/
  | userExc
  /-- `!` an exception escaped a destructor -/
  | terminated
  deriving DecidableEq, Repr

/-- arming.  A guard that is still armed (successful `reactivate()` checkpoint) is used as it is. -/
def armProg (st : Option Guard) (m : Arm) : Prog (Option Guard) :=
  match st with
  | some g =>
    if g.active then .ret (some g)
    else match m with
      | .fresh => (destroy g).bind fun term => .ret (if term then none else some { active := true })
      | .freshInactive => (destroy g).bind fun term =>
          if term then .ret none else (reactivate { active := false }).bind fun r => .ret (some r.1)
      | .rearm => (reactivate g).bind fun r => .ret (some r.1)
  | none =>
    match m with
    | .fresh => .ret (some { active := true })
    | .rearm => .ret (some { active := true })
    | .freshInactive => (reactivate { active := false }).bind fun r => .ret (some r.1)

def obsOfThrow (threw : Bool) : Obs := if threw then .guardError else .none

def actProg (g : Guard) : Act → Prog (Option Guard × Obs)
  | .finTrue => (finalize g true).bind fun r => .ret (some r.1, obsOfThrow r.2)
  | .finDefault => (finalizeDefault g).bind fun r => .ret (some r.1, obsOfThrow r.2)
  | .finFalse => (finalize g false).bind fun r => .ret (some r.1, obsOfThrow r.2)
  | .react => (reactivate g).bind fun r => .ret (some r.1, obsOfThrow r.2)
  | .throwUser => (destroy g).bind fun term => .ret (none, if term then .terminated else .userExc)
  | .leave => (destroy g).bind fun term => .ret (none, if term then .terminated else .none)

/-- one guarded section of one rank: arm, then act -/
def sectionProg (st : Option Guard) (s : Arm × Act) : Prog (Option Guard × Obs) :=
  (armProg st s.1).bind fun og =>
    match og with
    | none => .ret (none, .terminated)
    | some g => actProg g s.2

/-- end of the case: the guard object (if any) is deleted -/
def endProg (st : Option Guard) : Prog Bool :=
  match st with
  | some g => destroy g
  | none => .ret false

/-- all sections of one rank; observations are accumulated in reverse -/
def scriptProg : Option Guard → List (Arm × Act) → List Obs → Prog (List Obs)
  | st, [], acc => (endProg st).bind fun term => .ret (if term then (Obs.terminated :: acc).reverse else acc.reverse)
  | st, s :: ss, acc => (sectionProg st s).bind fun r => scriptProg r.1 ss (r.2 :: acc)

/-- the whole program of rank `i` in a case with `n` sections; the rank starts without a guard object -/
def rankProg (script : Nat → Arm × Act) (n : Nat) : Prog (List Obs) :=
  scriptProg none ((List.range n).map script) []

inductive Outcome (α : Type) where
  | done : List α → Outcome α
  /-- some rank waits in a collective that another rank will never enter -/
  | deadlock
  | outOfFuel
  deriving DecidableEq, Repr

def allRet {α : Type} : List (Prog α) → Option (List α)
  | [] => some []
  | .ret a :: ps => (allRet ps).map (a :: ·)
  | .sum _ _ :: _ => none

def allSum {α : Type} : List (Prog α) → Option (List (Nat × (Nat → Prog α)))
  | [] => some []
  | .sum c k :: ps => (allSum ps).map ((c, k) :: ·)
  | .ret _ :: _ => none

/-- lock-step execution of the ranks of one communicator -/
def runJoint {α : Type} : Nat → List (Prog α) → Outcome α
  | 0, _ => .outOfFuel
  | fuel + 1, ps =>
    match allRet ps with
    | some vs => .done vs
    | none =>
      match allSum ps with
      | some cks =>
        let total := (cks.map (·.1)).sum
        runJoint fuel (cks.map fun ck => ck.2 total)
      | none => .deadlock

/-! ### the property's own vocabulary -/

/-- the section fails on this rank -/
def fails : Act → Bool
  | .finFalse => true
  | .throwUser => true
  | .leave => true
  | _ => false

/-- the rank reaches the guard's checkpoint (finalize) -/
def reaches : Act → Bool
  | .finTrue => true
  | .finDefault => true
  | .finFalse => true
  | .react => true
  | _ => false

/-- what the property demands of a rank, given whether the section failed somewhere in its communicator -/
def expectedObs (failed : Bool) : Act → Obs
  | .throwUser => .userExc
  | .leave => .none
  | _ => if failed then .guardError else .none

/-- rank `i` still holds an armed guard after `n` sections: its last call was the `reactivate()` checkpoint and the
last section failed nowhere (otherwise `reactivate()` threw before re-arming) -/
def endsArmed (members : List Nat) (script : Nat → Nat → Arm × Act) : Nat → Nat → Bool
  | 0, _ => false
  | n + 1, i => decide ((script i n).2 = Act.react) && !(members.any fun j => fails (script j n).2)

/-- the case is well formed for this communicator: no member, or every member, still owes a section at the end
(executable form of `EndsMatched`; the driver and the harness reject the other lines) -/
def endsMatchedB (members : List Nat) (script : Nat → Nat → Arm × Act) (n : Nat) : Bool :=
  (members.all fun i => !endsArmed members script n i) || (members.all fun i => endsArmed members script n i)

/-! ## Part 2 — futures -/

inductive Req where
  | pending
  | done
  | null
  deriving DecidableEq, Repr

/-- calls on a future (`complete` is the environment: the operation finishes; `spin` = `while(!f.ready());`) -/
inductive FOp where
  | valid
  | ready
  | wait
  | get
  | complete
  | spin
  deriving DecidableEq, Repr

inductive FObs where
  | bool (b : Bool)
  | ok
  | data (d : List Int)
  /-- InvalidFutureException -/
  | errInvalid
  /-- environment step, nothing observed -/
  | env
  deriving DecidableEq, Repr

/-- the operation completes: MPI fills the receive buffer -/
def completeReq (r : Req) : Req := if r = .pending then .done else r

/-- `MPI_Wait(&req_, &status_)`: returns when the operation is complete, request becomes MPI_REQUEST_NULL -/
def mpiWaitReq (_ : Req) : Req := .null

/-- `MPI_Test(&req_, &flag, &status_)` -/
def mpiTest (r : Req) : Bool × Req :=
  match r with
  | .pending => (false, .pending)
  | .done => (true, .null)
  | .null => (true, .null)

/-- `MPIFuture<T>` : `data_` (impl::Buffer<T>, a unique_ptr: non-null = valid) and `req_` -/
structure MpiFut where
  valid : Bool
  req : Req
  /-- current contents of the buffer `*data_.value` -/
  buf : List Int
  /-- what the operation writes into the buffer when it completes -/
  incoming : List Int
  deriving DecidableEq, Repr

namespace MpiFut

def envComplete (f : MpiFut) : MpiFut :=
  if f.req = .pending then { f with req := .done, buf := f.incoming } else f

/-- the MPI_Wait call inside `wait()` -/
def mpiWait (f : MpiFut) : MpiFut :=
  let f' := envComplete f
  { f' with req := mpiWaitReq f'.req }

/-- `void wait(){ if(!valid()) DUNE_THROW(InvalidFutureException,…); MPI_Wait(&req_, &status_); }` -/
def wait (f : MpiFut) : FObs × MpiFut :=
  if !f.valid then (.errInvalid, f) else (.ok, mpiWait f)

/-- `bool ready() const { int flag=-1; MPI_Test(&req_,&flag,&status_); return flag; }` -/
def ready (f : MpiFut) : FObs × MpiFut :=
  let t := mpiTest f.req
  (.bool t.1, { f with req := t.2 })

/-- `R get(){ wait(); return data_.get(); }` with `Buffer<T>::get(){ T tmp = std::move(*value); value.reset(); return tmp; }` -/
def get (f : MpiFut) : FObs × MpiFut :=
  match wait f with
  | (.errInvalid, f') => (.errInvalid, f')
  | (_, f') => (.data f'.buf, { f' with valid := false })

def step (f : MpiFut) : FOp → FObs × MpiFut
  | .valid => (.bool f.valid, f)
  | .ready => ready f
  | .wait => wait f
  | .get => get f
  | .complete => (.env, envComplete f)
  | .spin => ready (envComplete f)

/-- the future returned by a non-blocking operation -/
def start (initial incoming : List Int) : MpiFut :=
  { valid := true, req := .pending, buf := initial, incoming := incoming }

/-- `MPIFuture<T>()` -/
def invalid : MpiFut := { valid := false, req := .null, buf := [], incoming := [] }

end MpiFut

/-- `MPIFuture<void>` : `data_` is `impl::Buffer<void>{ bool valid_; }` -/
structure MpiVoid where
  valid : Bool
  req : Req
  deriving DecidableEq, Repr

namespace MpiVoid

def envComplete (f : MpiVoid) : MpiVoid := { f with req := completeReq f.req }

def mpiWait (f : MpiVoid) : MpiVoid := { f with req := mpiWaitReq (completeReq f.req) }

def wait (f : MpiVoid) : FObs × MpiVoid :=
  if !f.valid then (.errInvalid, f) else (.ok, mpiWait f)

def ready (f : MpiVoid) : FObs × MpiVoid :=
  let t := mpiTest f.req
  (.bool t.1, { f with req := t.2 })

/-- `void get(){ wait(); return data_.get(); }` with (patched) `Buffer<void>::get(){ valid_ = false; }` -/
def get (f : MpiVoid) : FObs × MpiVoid :=
  match wait f with
  | (.errInvalid, f') => (.errInvalid, f')
  | (_, f') => (.ok, { f' with valid := false })

def step (f : MpiVoid) : FOp → FObs × MpiVoid
  | .valid => (.bool f.valid, f)
  | .ready => ready f
  | .wait => wait f
  | .get => get f
  | .complete => (.env, envComplete f)
  | .spin => ready (envComplete f)

def start : MpiVoid := { valid := true, req := .pending }
def invalid : MpiVoid := { valid := false, req := .null }

end MpiVoid

/-- `PseudoFuture<T>{ bool valid_; T data_; }` -/
structure PseudoFut where
  valid : Bool
  data : List Int
  deriving DecidableEq, Repr

namespace PseudoFut

def wait (f : PseudoFut) : FObs × PseudoFut :=
  if !f.valid then (.errInvalid, f) else (.ok, f)

def ready (f : PseudoFut) : FObs × PseudoFut :=
  if !f.valid then (.errInvalid, f) else (.bool true, f)

/-- `T get(){ if(!valid_) DUNE_THROW(…); valid_ = false; return std::forward<T>(data_); }` -/
def get (f : PseudoFut) : FObs × PseudoFut :=
  if !f.valid then (.errInvalid, f) else (.data f.data, { f with valid := false })

def step (f : PseudoFut) : FOp → FObs × PseudoFut
  | .valid => (.bool f.valid, f)
  | .ready => ready f
  | .wait => wait f
  | .get => get f
  | .complete => (.env, f)
  | .spin => ready f

def start (d : List Int) : PseudoFut := { valid := true, data := d }
def invalid : PseudoFut := { valid := false, data := [] }

end PseudoFut

/-- `PseudoFuture<void>{ bool valid_; }` -/
structure PseudoVoid where
  valid : Bool
  deriving DecidableEq, Repr

namespace PseudoVoid

def wait (f : PseudoVoid) : FObs × PseudoVoid :=
  if !f.valid then (.errInvalid, f) else (.ok, f)

def ready (f : PseudoVoid) : FObs × PseudoVoid :=
  if !f.valid then (.errInvalid, f) else (.bool true, f)

def get (f : PseudoVoid) : FObs × PseudoVoid :=
  if !f.valid then (.errInvalid, f) else (.ok, { f with valid := false })

def step (f : PseudoVoid) : FOp → FObs × PseudoVoid
  | .valid => (.bool f.valid, f)
  | .ready => ready f
  | .wait => wait f
  | .get => get f
  | .complete => (.env, f)
  | .spin => ready f

def start : PseudoVoid := { valid := true }
def invalid : PseudoVoid := { valid := false }

end PseudoVoid

/-- void futures carry no payload: a successful `get` shows `ok` instead of the data -/
def eraseObs : FObs → FObs
  | .data _ => .ok
  | o => o

/-! ### `Dune::Future<T>` : type erasure (future.hh) -/

/--
```
template<class T> class Future{
  std::unique_ptr<FutureBase> _future;          // FutureModel<F> forwards wait/ready/valid/get to the F it holds
  Future() = default;                            // null
  void wait(){ if(!_future) DUNE_THROW(InvalidFutureException,…); _future->wait(); }      (get, ready alike)
  bool valid() const { if(_future) return _future->valid(); return false; }
};
```
`none` = null pointer (default constructed, or moved from); `some f` = holds the future `f`. -/
def erasedStep {σ : Type} (inner : σ → FOp → FObs × σ) : Option σ → FOp → FObs × Option σ
  | none, .valid => (.bool false, none)
  | none, .complete => (.env, none)
  | none, _ => (.errInvalid, none)
  | some f, o => ((inner f o).1, some (inner f o).2)

/-- `Future<void>` around a future with a payload: `virtual T get() override { return (T)_future.get(); }` with
`T = void` discards the value -/
def voidCastStep {σ : Type} (inner : σ → FOp → FObs × σ) : σ → FOp → FObs × σ :=
  fun s o => (eraseObs (inner s o).1, (inner s o).2)

/-- run a call history; returns the observations and the final state -/
def runFut {σ : Type} (step : σ → FOp → FObs × σ) : σ → List FOp → List FObs × σ
  | s, [] => ([], s)
  | s, o :: os =>
    let r := step s o
    let rest := runFut step r.2 os
    (r.1 :: rest.1, rest.2)

def trace {σ : Type} (step : σ → FOp → FObs × σ) (s : σ) (h : List FOp) : List FObs := (runFut step s h).1
def final {σ : Type} (step : σ → FOp → FObs × σ) (s : σ) (h : List FOp) : σ := (runFut step s h).2

/-! ### round three: the second buffer `send_data_`, `get_send_data()`, move construction and move assignment

`MPIFuture<R,S>` (returned by `igather`, `iscatter`, `iallgather` and the two-argument `iallreduce` of
`Communication<MPI_Comm>`) owns, besides request and receive buffer, the object that is being sent.  The class is
modelled field by field — `req_` (with the operation in flight it stands for), `data_`, `send_data_` — so that the move
operations can be transcribed statement by statement instead of being taken for the identity (as rounds one and two
did). -/

/-- calls on a two-buffer future: the calls of every future, and `get_send_data()` -/
inductive FOp2 where
  | call (o : FOp)
  | sendData
  deriving DecidableEq, Repr

/-- `MPIFuture<R,S>`, `S ≠ void`: `base` = `req_` + `data_` (as in `MPIFuture<R>`), `send` = `send_data_`
(`impl::Buffer<S>`; `none` = the buffer has been emptied by `get_send_data()`) -/
structure MpiFut2 where
  base : MpiFut
  send : Option (List Int)
  deriving DecidableEq, Repr

namespace MpiFut

/-- `MPIFuture& operator=(MPIFuture&& f){ std::swap(req_, f.req_); std::swap(status_, f.status_);
std::swap(data_, f.data_); std::swap(send_data_, f.send_data_); return *this; }` for `S = void` (`send_data_` is an
empty `Buffer<void>`).  One swap per statement; the operation in flight (`incoming`, a ghost of MPI's state) belongs to
the request.  Result: (`*this`, `f`) — `f` is the temporary that is destroyed at the end of the full expression. -/
def moveAssign (tgt src : MpiFut) : MpiFut × MpiFut :=
  -- std::swap(req_, f.req_); std::swap(status_, f.status_);
  let t1 : MpiFut := { tgt with req := src.req, incoming := src.incoming }
  let s1 : MpiFut := { src with req := tgt.req, incoming := tgt.incoming }
  -- std::swap(data_, f.data_);
  let t2 : MpiFut := { t1 with valid := s1.valid, buf := s1.buf }
  let s2 : MpiFut := { s1 with valid := t1.valid, buf := t1.buf }
  (t2, s2)

/-- the target of `MPIFuture(MPIFuture&& f) : req_(MPI_REQUEST_NULL), data_(std::move(f.data_)),
send_data_(std::move(f.send_data_)) { std::swap(req_, f.req_); std::swap(status_, f.status_); }` (the state of the
moved-from source is not modelled: design notes section 4) -/
def moveConstruct (src : MpiFut) : MpiFut :=
  let t0 : MpiFut := { valid := src.valid, req := .null, buf := src.buf, incoming := [] }
  { t0 with req := src.req, incoming := src.incoming }

end MpiFut

namespace MpiVoid

def moveAssign (tgt src : MpiVoid) : MpiVoid × MpiVoid :=
  let t1 : MpiVoid := { tgt with req := src.req }
  let s1 : MpiVoid := { src with req := tgt.req }
  ({ t1 with valid := s1.valid }, { s1 with valid := t1.valid })

def moveConstruct (src : MpiVoid) : MpiVoid :=
  let t0 : MpiVoid := { valid := src.valid, req := .null }
  { t0 with req := src.req }

end MpiVoid

namespace MpiFut2

/-- `S get_send_data(){ wait(); return send_data_.get(); }` with `Buffer<S>::get(){ S tmp = std::move(*value);
value.reset(); return tmp; }`.  `wait()` throws on an invalid future (result taken); otherwise the operation is
complete before the send object is released.  A second call dereferences the emptied buffer: undefined behaviour,
`none`. -/
def sendData (f : MpiFut2) : Option (FObs × MpiFut2) :=
  match MpiFut.wait f.base with
  | (.errInvalid, _) => some (.errInvalid, f)
  | (_, b) =>
    match f.send with
    | some s => some (.data s, { base := b, send := none })
    | none => none

/-- the calls of every future act on request and receive buffer only -/
def step (f : MpiFut2) : FOp2 → Option (FObs × MpiFut2)
  | .call o => some ((f.base.step o).1, { f with base := (f.base.step o).2 })
  | .sendData => sendData f

/-- the future returned by a two-buffer operation -/
def start (initial incoming send : List Int) : MpiFut2 :=
  { base := MpiFut.start initial incoming, send := some send }

/-- move assignment, all four swaps -/
def moveAssign (tgt src : MpiFut2) : MpiFut2 × MpiFut2 :=
  let b := MpiFut.moveAssign tgt.base src.base
  -- std::swap(send_data_, f.send_data_);
  ({ base := b.1, send := src.send }, { base := b.2, send := tgt.send })

def moveConstruct (src : MpiFut2) : MpiFut2 :=
  { base := MpiFut.moveConstruct src.base, send := src.send }

end MpiFut2

/-- run a history of a two-buffer future; `none` = the history runs into undefined behaviour -/
def runFut2 : MpiFut2 → List FOp2 → Option (List FObs × MpiFut2)
  | s, [] => some ([], s)
  | s, o :: os =>
    match MpiFut2.step s o with
    | none => none
    | some r =>
      match runFut2 r.2 os with
      | none => none
      | some rest => some (r.1 :: rest.1, rest.2)

/-- `PseudoFuture<T>` has the implicit move assignment (member-wise): the target takes over `valid_` and `data_` -/
def PseudoFut.moveAssign (_tgt src : PseudoFut) : PseudoFut := { valid := src.valid, data := src.data }
def PseudoVoid.moveAssign (_tgt src : PseudoVoid) : PseudoVoid := { valid := src.valid }

/-- `Dune::Future<T>` has the implicit move assignment of its `unique_ptr`: the target takes over the pointer, the
object it held is deleted, the source becomes null.  Result: (target, source). -/
def erasedAssign {σ : Type} (_tgt src : Option σ) : Option σ × Option σ := (src, none)

/-! ## Round four — interpreters for what the translator reads from the source

`tools/translators/tr_c19.py` regenerates `Gen/C19.lean` on every run: the guard's three member functions as `Prog`
terms (no interpreter needed), and the straight-line members of the future classes as lists of micro operations
(`Micro`), the move operations as lists of members (`Field`).  The functions below give these lists their meaning on the
states of this model; `Props/C19.lean` proves that the generated lists, so interpreted, are the hand-written step
functions above — for every state. -/

/-- one statement of a member function of a future class (the translator's statement patterns) -/
inductive Micro where
  /-- `if(!valid()) DUNE_THROW(InvalidFutureException, …);` -/
  | throwIfInvalidCall
  /-- `if(!valid_) DUNE_THROW(InvalidFutureException, …);` -/
  | throwIfInvalidFlag
  /-- `if(!_future) DUNE_THROW(InvalidFutureException, …);` -/
  | throwIfNull
  /-- `MPI_Wait(&req_, &status_);` -/
  | mpiWait
  /-- `MPI_Test(&req_, &flag, &status_);` (`int flag = -1;` before it) -/
  | mpiTest
  /-- `return <local>;` -/
  | retLocal
  /-- `wait();` -/
  | callWait
  /-- `return data_.get();` -/
  | retTakeData
  /-- `return send_data_.get();` -/
  | retTakeSend
  /-- `return (bool)data_;` -/
  | retDataValid
  /-- `return valid_;` -/
  | retFlagValid
  | retTrue
  | retFalse
  /-- `valid_ = false;` -/
  | clearFlag
  /-- `return std::forward<T>(data_);` -/
  | retData
  /-- `T tmp = std::move(*value);` / `T& tmp = *value;` -/
  | moveOut
  /-- `value.reset();` -/
  | reset
  /-- `return (bool)value;` -/
  | retHasValue
  /-- `_future.wait();` as the last statement (FutureModel) -/
  | fwdWait
  | fwdReady
  | fwdValid
  /-- `return (T)_future.get();` -/
  | fwdGet
  /-- `_future->wait();` as the last statement (Future) -/
  | ptrWait
  | ptrGet
  | ptrReady
  /-- `if(_future) return _future->valid();` -/
  | ifPtrRetValid
  deriving DecidableEq, Repr

/-- the data members of `MPIFuture<R,S>` -/
inductive Field where
  | req | status | data | sendData
  deriving DecidableEq, Repr

namespace Interp

/-- `impl::Buffer<T>::get()` / `impl::Buffer<T&>::get()` on the buffer `value` (`none` = empty): `tmp` is the local.
Result: (returned object, buffer afterwards); `none` = undefined behaviour (empty buffer dereferenced, nothing
returned, unknown statement). -/
def bufGet : List Micro → Option (List Int) → Option (List Int) → Option (List Int × Option (List Int))
  | .moveOut :: r, value, _ => match value with
      | some v => bufGet r value (some v)
      | none => none
  | .reset :: r, _, tmp => bufGet r none tmp
  | [.retLocal], value, some t => some (t, value)
  | _, _, _ => none

/-- `impl::Buffer<void>::get()` on `valid_` -/
def bufVoidGet : List Micro → Bool → Option Bool
  | [], v => some v
  | .clearFlag :: r, _ => bufVoidGet r false
  | _, _ => none

/-- `operator bool` of the value/reference buffers -/
def bufBool : List Micro → Option (List Int) → Option Bool
  | [.retHasValue], value => some value.isSome
  | _, _ => none

def bufVoidBool : List Micro → Bool → Option Bool
  | [.retFlagValid], v => some v
  | _, _ => none

/-- `data_` of `MPIFuture<R,S>` seen as a buffer object -/
def dataBuf (f : MpiFut) : Option (List Int) := if f.valid then some f.buf else none

/-- members of `MPIFuture<R,S>` that call no other member function of the future.  `bget` = body of `Buffer::get`,
`bbool` = body of its `operator bool`.  `flag` is the local of `ready()`.  Falling off the end of a void function
answers `ok`. -/
def futBasic (bget bbool : List Micro) : List Micro → MpiFut2 → Option Bool → Option (FObs × MpiFut2)
  | [], f, _ => some (.ok, f)
  | .mpiWait :: r, f, fl => futBasic bget bbool r { f with base := MpiFut.mpiWait f.base } fl
  | .mpiTest :: r, f, _ =>
      futBasic bget bbool r { f with base := { f.base with req := (mpiTest f.base.req).2 } } (some (mpiTest f.base.req).1)
  | [.retLocal], f, some b => some (.bool b, f)
  | [.retDataValid], f, _ => (bufBool bbool (dataBuf f.base)).map fun b => (.bool b, f)
  | [.retTakeData], f, _ =>
      (bufGet bget (dataBuf f.base) none).map fun r => (.data r.1, { f with base := { f.base with valid := r.2.isSome } })
  | [.retTakeSend], f, _ =>
      (bufGet bget f.send none).map fun r => (.data r.1, { f with send := r.2 })
  | _, _, _ => none

/-- all members: `valid()` and `wait()` may be called (`if(!valid()) DUNE_THROW`, `wait();`); an exception thrown by
`wait()` leaves the caller -/
def futRun (bget bbool vbody wbody : List Micro) : List Micro → MpiFut2 → Option (FObs × MpiFut2)
  | .throwIfInvalidCall :: r, f =>
      match futBasic bget bbool vbody f none with
      | some (.bool true, f') => futBasic bget bbool r f' none
      | some (.bool false, f') => some (.errInvalid, f')
      | _ => none
  | .callWait :: r, f =>
      match wbody with
      | .throwIfInvalidCall :: w =>
        (match futBasic bget bbool vbody f none with
         | some (.bool true, f') =>
           (match futBasic bget bbool w f' none with
            | some (.ok, f'') => futBasic bget bbool r f'' none
            | _ => none)
         | some (.bool false, f') => some (.errInvalid, f')
         | _ => none)
      | w =>
        (match futBasic bget bbool w f none with
         | some (.ok, f') => futBasic bget bbool r f' none
         | _ => none)
  | ops, f => futBasic bget bbool ops f none

/-- `MPIFuture<void>`: the same member functions on `impl::Buffer<void>` -/
def voidBasic (bget bbool : List Micro) : List Micro → MpiVoid → Option Bool → Option (FObs × MpiVoid)
  | [], f, _ => some (.ok, f)
  | .mpiWait :: r, f, fl => voidBasic bget bbool r (MpiVoid.mpiWait f) fl
  | .mpiTest :: r, f, _ => voidBasic bget bbool r { f with req := (mpiTest f.req).2 } (some (mpiTest f.req).1)
  | [.retLocal], f, some b => some (.bool b, f)
  | [.retDataValid], f, _ => (bufVoidBool bbool f.valid).map fun b => (.bool b, f)
  | [.retTakeData], f, _ => (bufVoidGet bget f.valid).map fun v => (.ok, { f with valid := v })
  | _, _, _ => none

def voidRun (bget bbool vbody wbody : List Micro) : List Micro → MpiVoid → Option (FObs × MpiVoid)
  | .throwIfInvalidCall :: r, f =>
      match voidBasic bget bbool vbody f none with
      | some (.bool true, f') => voidBasic bget bbool r f' none
      | some (.bool false, f') => some (.errInvalid, f')
      | _ => none
  | .callWait :: r, f =>
      match wbody with
      | .throwIfInvalidCall :: w =>
        (match voidBasic bget bbool vbody f none with
         | some (.bool true, f') =>
           (match voidBasic bget bbool w f' none with
            | some (.ok, f'') => voidBasic bget bbool r f'' none
            | _ => none)
         | some (.bool false, f') => some (.errInvalid, f')
         | _ => none)
      | w =>
        (match voidBasic bget bbool w f none with
         | some (.ok, f') => voidBasic bget bbool r f' none
         | _ => none)
  | ops, f => voidBasic bget bbool ops f none

/-- `std::swap(member, f.member)` on (`*this`, `f`); `status_` is not part of the model -/
def swapField : Field → MpiFut2 × MpiFut2 → MpiFut2 × MpiFut2
  | .req, (t, s) => ({ t with base := { t.base with req := s.base.req, incoming := s.base.incoming } },
                     { s with base := { s.base with req := t.base.req, incoming := t.base.incoming } })
  | .status, p => p
  | .data, (t, s) => ({ t with base := { t.base with valid := s.base.valid, buf := s.base.buf } },
                      { s with base := { s.base with valid := t.base.valid, buf := t.base.buf } })
  | .sendData, (t, s) => ({ t with send := s.send }, { s with send := t.send })

/-- `operator=(MPIFuture&&)` as the list of its swaps -/
def moveAssignBy (swaps : List Field) (t s : MpiFut2) : MpiFut2 × MpiFut2 :=
  swaps.foldl (fun p fld => swapField fld p) (t, s)

/-- member initialiser `member(std::move(f.member))` -/
def initMoved : Field → MpiFut2 → MpiFut2 → MpiFut2
  | .req, t, s => { t with base := { t.base with req := s.base.req, incoming := s.base.incoming } }
  | .status, t, _ => t
  | .data, t, s => { t with base := { t.base with valid := s.base.valid, buf := s.base.buf } }
  | .sendData, t, s => { t with send := s.send }

/-- an object none of whose members has been initialised from the source (what default initialisation leaves) -/
def blank : MpiFut2 := { base := { valid := false, req := .null, buf := [], incoming := [] }, send := none }

/-- the move constructor: initialisers, then swaps with the source; the new object -/
def moveConstructBy (moved nulled swaps : List Field) (s : MpiFut2) : MpiFut2 :=
  let t0 := moved.foldl (fun t fld => initMoved fld t s) blank
  let t1 := if nulled.contains .req then { t0 with base := { t0.base with req := .null, incoming := [] } } else t0
  (moveAssignBy swaps t1 s).1

/-- `PseudoFuture<T>` -/
def pseudoRun : List Micro → PseudoFut → Option (FObs × PseudoFut)
  | [], f => some (.ok, f)
  | .throwIfInvalidFlag :: r, f => if !f.valid then some (.errInvalid, f) else pseudoRun r f
  | .clearFlag :: r, f => pseudoRun r { f with valid := false }
  | [.retData], f => some (.data f.data, f)
  | [.retTrue], f => some (.bool true, f)
  | [.retFlagValid], f => some (.bool f.valid, f)
  | _, _ => none

/-- `PseudoFuture<void>` -/
def pseudoVoidRun : List Micro → PseudoVoid → Option (FObs × PseudoVoid)
  | [], f => some (.ok, f)
  | .throwIfInvalidFlag :: r, f => if !f.valid then some (.errInvalid, f) else pseudoVoidRun r f
  | .clearFlag :: r, f => pseudoVoidRun r { f with valid := false }
  | [.retTrue], f => some (.bool true, f)
  | [.retFlagValid], f => some (.bool f.valid, f)
  | _, _ => none

/-- `Future<T>::FutureModel<F>`: each member is one forwarding statement -/
def modelRun {σ : Type} (inner : σ → FOp → FObs × σ) : List Micro → σ → Option (FObs × σ)
  | [.fwdWait], s => some (inner s .wait)
  | [.fwdReady], s => some (inner s .ready)
  | [.fwdValid], s => some (inner s .valid)
  | [.fwdGet], s => some (inner s .get)
  | _, _ => none

/-- `Future<T>`: null test, then the virtual call (`mw`, `mg`, `mr`, `mv` = bodies of the FutureModel members) -/
def erasedRun {σ : Type} (inner : σ → FOp → FObs × σ) (mw mg mr mv : List Micro) :
    List Micro → Option σ → Option (FObs × Option σ)
  | .throwIfNull :: r, s => match s with
      | none => some (.errInvalid, none)
      | some _ => erasedRun inner mw mg mr mv r s
  | .ifPtrRetValid :: r, s => match s with
      | some f => (modelRun inner mv f).map fun x => (x.1, some x.2)
      | none => erasedRun inner mw mg mr mv r s
  | [.retFalse], s => some (.bool false, s)
  | [.ptrWait], some f => (modelRun inner mw f).map fun x => (x.1, some x.2)
  | [.ptrGet], some f => (modelRun inner mg f).map fun x => (x.1, some x.2)
  | [.ptrReady], some f => (modelRun inner mr f).map fun x => (x.1, some x.2)
  | _, _ => none

end Interp

/-! ### round four: the non-blocking members of the communication classes, as far as the future they return goes -/

/-- which buffer of the future an `MPI_I*` call is given -/
inductive BufArg where
  /-- `future.get_mpidata()` : `data_` -/
  | data
  /-- `future.get_send_mpidata()` : `send_data_` -/
  | sendData
  | inPlace
  deriving DecidableEq, Repr

/-- what the future is constructed from: a validity flag (`MPIFuture<void> future(true)`, `return {true}`), one forwarded
parameter (the payload), or two forwarded parameters (`data_`, `send_data_`) -/
inductive FutInit where
  | flag (b : Bool)
  | one (param : Nat)
  | two (dataParam sendParam : Nat)
  deriving DecidableEq, Repr

/-- a non-blocking member of `Communication<MPI_Comm>` as the translator reads it -/
structure MpiOp where
  name : String
  arity : Nat
  ctor : FutInit
  /-- the `MPI_I*` function that posts the operation -/
  call : String
  bufs : List BufArg
  /-- the last argument of the call is `&future.req_` -/
  reqInFuture : Bool
  /-- the member ends with `return future;` -/
  returnsFuture : Bool
  deriving DecidableEq, Repr

/-- `dst = src`, `*(dst.begin()) = src`, `dst = *(src.begin())` between parameters (sequential members) -/
structure SeqCopy where
  dst : Nat
  dstFirst : Bool
  src : Nat
  srcFirst : Bool
  deriving DecidableEq, Repr

structure SeqOp where
  name : String
  arity : Nat
  copies : List SeqCopy
  ret : FutInit
  deriving DecidableEq, Repr

/-- the future a member hands to its caller -/
inductive StartFut where
  | mpiVoid (f : MpiVoid)
  | mpiOne (f : MpiFut)
  | mpiTwo (f : MpiFut2)
  | pseudoVoid (f : PseudoVoid)
  | pseudoOne (f : PseudoFut)
  deriving DecidableEq, Repr

namespace Interp

/-- the future returned by a member of `Communication<MPI_Comm>` called with the parameter values `args`; `incoming` is
what the posted operation will deliver.  The request the caller can wait for is the posted one only if the call stored
it in the future; a member that does not return its future returns nothing we know. -/
def mpiOpStart (op : MpiOp) (args : List (List Int)) (incoming : List Int) : Option StartFut :=
  if !op.returnsFuture then none else
  let req := if op.reqInFuture then Req.pending else Req.null
  match op.ctor with
  | .flag b => some (.mpiVoid { valid := b, req := req })
  | .one i => (args[i]?).map fun d => .mpiOne { valid := true, req := req, buf := d, incoming := incoming }
  | .two i j =>
    match args[i]?, args[j]? with
    | some d, some sd => some (.mpiTwo { base := { valid := true, req := req, buf := d, incoming := incoming }, send := some sd })
    | _, _ => none

def applyCopy (args : List (List Int)) (c : SeqCopy) : Option (List (List Int)) :=
  match args[c.src]?, args[c.dst]? with
  | some sv, some dv =>
    let v : Option (List Int) := if c.srcFirst then sv.head?.map fun x => [x] else some sv
    match v with
    | none => none
    | some v =>
      if c.dstFirst then
        match v, dv with
        | [x], _ :: rest => some (args.set c.dst (x :: rest))
        | _, _ => none
      else some (args.set c.dst v)
  | _, _ => none

def applyCopies : List SeqCopy → List (List Int) → Option (List (List Int))
  | [], args => some args
  | c :: cs, args => (applyCopy args c).bind (applyCopies cs)

/-- the future returned by a member of the sequential `Communication` -/
def seqOpStart (op : SeqOp) (args : List (List Int)) : Option StartFut :=
  match applyCopies op.copies args with
  | none => none
  | some a =>
    match op.ret with
    | .flag b => some (.pseudoVoid { valid := b })
    | .one i => (a[i]?).map fun d => .pseudoOne { valid := true, data := d }
    | .two _ _ => none

end Interp

/-! ### the collectives whose results the futures deliver (specification level, rank order) -/

inductive Red where
  | sum | min | max
  deriving DecidableEq, Repr

def redOp : Red → Int → Int → Int
  | .sum, a, b => a + b
  | .min, a, b => if b < a then b else a
  | .max, a, b => if a < b then b else a

/-- element-wise reduction of the contributions (all of the same length as the first) -/
def reduceAll (r : Red) : List (List Int) → List Int
  | [] => []
  | v :: vs => vs.foldl (fun acc w => List.zipWith (redOp r) acc w) v

def firsts (vals : List (List Int)) : List Int := vals.map fun v => v.headD 0

end DV.C19
