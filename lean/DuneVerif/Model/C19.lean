/-
C19 — model of Dune::MPIGuard (dune/common/parallel/mpiguard.hh) and of the futures returned by the
non-blocking operations (dune/common/parallel/mpifuture.hh, future.hh).  Core Lean only.

Part 1 (guard).  The code of one rank is a *program* that may issue the collective `comm_->sum(i)`
(`Prog.sum contribution continuation`); `finalize`, `reactivate` and the destructor are transcribed
statement by statement.  `runJoint` executes the programs of all ranks of one communicator in lock step:
the k-th collective of a rank can only complete together with the k-th collective of every other rank
(MPI semantics of collectives on one communicator); a rank that has returned while another one waits in a
collective is a deadlock.

Part 2 (futures).  Four state machines, one per class in the code:
`MPIFuture<T>`, `MPIFuture<void>` (impl::Buffer<void>), `PseudoFuture<T>`, `PseudoFuture<void>`.
The MPI request is `pending` (operation not complete), `done` (operation complete, request still active)
or `null` (MPI_REQUEST_NULL after a successful MPI_Wait/MPI_Test).  The environment step `complete` is the
only nondeterminism (the operation finishes); MPI_Wait blocks until it has happened.

`Dune::Future<T>` (future.hh), the type-erasing wrapper, is `erasedStep` on `Option σ`: the `unique_ptr` is null after
default construction and after a move.  `Future<void>` around a future with a payload is `voidCastStep`.

The model describes the tree with fixes/C19_mpifuture_void_get.patch (Buffer<void>::get clears valid_),
fixes/C19_future_null_invalid.patch (Future<T>::wait/get/ready test the pointer and throw InvalidFutureException) and
fixes/C19_mpifuture_bool_payload.patch (a bool payload is a payload, not the validity flag) applied.
-/
import DuneVerif.Common.Proto

namespace DV.C19

/-! ## Part 1 — MPIGuard -/

/-- code of one rank, as far as the communicator is concerned -/
inductive Prog (α : Type) where
  | ret : α → Prog α
  /-- `comm_->sum(c)`; the continuation receives the global sum -/
  | sum : Nat → (Nat → Prog α) → Prog α

def Prog.bind {α β : Type} : Prog α → (α → Prog β) → Prog β
  | .ret a, f => f a
  | .sum c k, f => .sum c (fun r => (k r).bind f)

/-- `MPIGuard`: the only data member besides the communicator is `active_` -/
structure Guard where
  active : Bool
  deriving DecidableEq, Repr

/--
```
void finalize(bool success = true) {
  int result = success ? 0 : 1;
  bool was_active = active_;
  active_ = false;
  result = comm_->sum(result);
  if (result>0 && was_active) DUNE_THROW(MPIGuardError, …);
}
```
returns the guard afterwards and whether MPIGuardError was thrown -/
def finalize (g : Guard) (success : Bool) : Prog (Guard × Bool) :=
  let result := if success then 0 else 1
  let wasActive := g.active
  .sum result fun total => .ret ({ active := false }, decide (total > 0) && wasActive)

/-- `finalize()` with the default argument `success = true` -/
def finalizeDefault (g : Guard) : Prog (Guard × Bool) := finalize g true

/--
```
void reactivate() {
  if (active_ == true) finalize();
  active_ = true;
}
```
(an exception from `finalize()` leaves before `active_ = true`) -/
def reactivate (g : Guard) : Prog (Guard × Bool) :=
  if g.active then
    (finalizeDefault g).bind fun r =>
      if r.2 then .ret (r.1, true) else .ret ({ active := true }, false)
  else .ret ({ active := true }, false)

/--
```
~MPIGuard() {
  if (active_) { active_ = false; finalize(false); }
  delete comm_;
}
```
result: an exception escaped the destructor (would be std::terminate) -/
def destroy (g : Guard) : Prog Bool :=
  if g.active then
    (finalize { active := false } false).bind fun r => .ret r.2
  else .ret false

/-- how a rank obtains an armed guard for the next section -/
inductive Arm where
  /-- `n`: (delete the old guard,) `MPIGuard guard(comm)` -/
  | fresh
  /-- `m`: (delete the old guard,) `MPIGuard guard(comm, false); guard.reactivate();` -/
  | freshInactive
  /-- `a`: `guard.reactivate()` on the guard of the previous section (a new one if there is none) -/
  | rearm
  deriving DecidableEq, Repr

/-- what a rank does in the guarded section -/
inductive Act where
  /-- `t`: `guard.finalize(true)` -/
  | finTrue
  /-- `d`: `guard.finalize()` -/
  | finDefault
  /-- `f`: `guard.finalize(false)` -/
  | finFalse
  /-- `r`: `guard.reactivate()` used as the checkpoint (finalize + re-arm) -/
  | react
  /-- `x`: an exception is thrown inside the section, the guard is destroyed by unwinding -/
  | throwUser
  /-- `q`: the scope is left without finalize (destructor of an armed guard) -/
  | leave
  deriving DecidableEq, Repr

/-- what the rank observes at the end of the section -/
inductive Obs where
  /-- `-` nothing thrown -/
  | none
  /-- `E` MPIGuardError -/
  | guardError
  /-- `X` the user's own exception arrives unchanged -/
  | userExc
  /-- `!` an exception escaped a destructor -/
  | terminated
  deriving DecidableEq, Repr

/-- arming.  A guard that is still armed (successful `reactivate()` checkpoint) is used as it is. -/
def armProg (st : Option Guard) (m : Arm) : Prog (Option Guard) :=
  match st with
  | some g =>
    if g.active then .ret (some g)
    else match m with
      | .fresh => (destroy g).bind fun term => .ret (if term then none else some { active := true })
      | .freshInactive => (destroy g).bind fun term =>
          if term then .ret none else (reactivate { active := false }).bind fun r => .ret (some r.1)
      | .rearm => (reactivate g).bind fun r => .ret (some r.1)
  | none =>
    match m with
    | .fresh => .ret (some { active := true })
    | .rearm => .ret (some { active := true })
    | .freshInactive => (reactivate { active := false }).bind fun r => .ret (some r.1)

def obsOfThrow (threw : Bool) : Obs := if threw then .guardError else .none

def actProg (g : Guard) : Act → Prog (Option Guard × Obs)
  | .finTrue => (finalize g true).bind fun r => .ret (some r.1, obsOfThrow r.2)
  | .finDefault => (finalizeDefault g).bind fun r => .ret (some r.1, obsOfThrow r.2)
  | .finFalse => (finalize g false).bind fun r => .ret (some r.1, obsOfThrow r.2)
  | .react => (reactivate g).bind fun r => .ret (some r.1, obsOfThrow r.2)
  | .throwUser => (destroy g).bind fun term => .ret (none, if term then .terminated else .userExc)
  | .leave => (destroy g).bind fun term => .ret (none, if term then .terminated else .none)

/-- one guarded section of one rank: arm, then act -/
def sectionProg (st : Option Guard) (s : Arm × Act) : Prog (Option Guard × Obs) :=
  (armProg st s.1).bind fun og =>
    match og with
    | none => .ret (none, .terminated)
    | some g => actProg g s.2

/-- end of the case: the guard object (if any) is deleted -/
def endProg (st : Option Guard) : Prog Bool :=
  match st with
  | some g => destroy g
  | none => .ret false

/-- all sections of one rank; observations are accumulated in reverse -/
def scriptProg : Option Guard → List (Arm × Act) → List Obs → Prog (List Obs)
  | st, [], acc => (endProg st).bind fun term => .ret (if term then (Obs.terminated :: acc).reverse else acc.reverse)
  | st, s :: ss, acc => (sectionProg st s).bind fun r => scriptProg r.1 ss (r.2 :: acc)

/-- the whole program of rank `i` in a case with `n` sections; the rank starts without a guard object -/
def rankProg (script : Nat → Arm × Act) (n : Nat) : Prog (List Obs) :=
  scriptProg none ((List.range n).map script) []

inductive Outcome (α : Type) where
  | done : List α → Outcome α
  /-- some rank waits in a collective that another rank will never enter -/
  | deadlock
  | outOfFuel
  deriving DecidableEq, Repr

def allRet {α : Type} : List (Prog α) → Option (List α)
  | [] => some []
  | .ret a :: ps => (allRet ps).map (a :: ·)
  | .sum _ _ :: _ => none

def allSum {α : Type} : List (Prog α) → Option (List (Nat × (Nat → Prog α)))
  | [] => some []
  | .sum c k :: ps => (allSum ps).map ((c, k) :: ·)
  | .ret _ :: _ => none

/-- lock-step execution of the ranks of one communicator -/
def runJoint {α : Type} : Nat → List (Prog α) → Outcome α
  | 0, _ => .outOfFuel
  | fuel + 1, ps =>
    match allRet ps with
    | some vs => .done vs
    | none =>
      match allSum ps with
      | some cks =>
        let total := (cks.map (·.1)).sum
        runJoint fuel (cks.map fun ck => ck.2 total)
      | none => .deadlock

/-! ### the property's own vocabulary -/

/-- the section fails on this rank -/
def fails : Act → Bool
  | .finFalse => true
  | .throwUser => true
  | .leave => true
  | _ => false

/-- the rank reaches the guard's checkpoint (finalize) -/
def reaches : Act → Bool
  | .finTrue => true
  | .finDefault => true
  | .finFalse => true
  | .react => true
  | _ => false

/-- what the property demands of a rank, given whether the section failed somewhere in its communicator -/
def expectedObs (failed : Bool) : Act → Obs
  | .throwUser => .userExc
  | .leave => .none
  | _ => if failed then .guardError else .none

/-- rank `i` still holds an armed guard after `n` sections: its last call was the `reactivate()` checkpoint and the
last section failed nowhere (otherwise `reactivate()` threw before re-arming) -/
def endsArmed (members : List Nat) (script : Nat → Nat → Arm × Act) : Nat → Nat → Bool
  | 0, _ => false
  | n + 1, i => decide ((script i n).2 = Act.react) && !(members.any fun j => fails (script j n).2)

/-- the case is well formed for this communicator: no member, or every member, still owes a section at the end
(executable form of `EndsMatched`; the driver and the harness reject the other lines) -/
def endsMatchedB (members : List Nat) (script : Nat → Nat → Arm × Act) (n : Nat) : Bool :=
  (members.all fun i => !endsArmed members script n i) || (members.all fun i => endsArmed members script n i)

/-! ## Part 2 — futures -/

inductive Req where
  | pending
  | done
  | null
  deriving DecidableEq, Repr

/-- calls on a future (`complete` is the environment: the operation finishes; `spin` = `while(!f.ready());`) -/
inductive FOp where
  | valid
  | ready
  | wait
  | get
  | complete
  | spin
  deriving DecidableEq, Repr

inductive FObs where
  | bool (b : Bool)
  | ok
  | data (d : List Int)
  /-- InvalidFutureException -/
  | errInvalid
  /-- environment step, nothing observed -/
  | env
  deriving DecidableEq, Repr

/-- the operation completes: MPI fills the receive buffer -/
def completeReq (r : Req) : Req := if r = .pending then .done else r

/-- `MPI_Wait(&req_, &status_)`: returns when the operation is complete, request becomes MPI_REQUEST_NULL -/
def mpiWaitReq (_ : Req) : Req := .null

/-- `MPI_Test(&req_, &flag, &status_)` -/
def mpiTest (r : Req) : Bool × Req :=
  match r with
  | .pending => (false, .pending)
  | .done => (true, .null)
  | .null => (true, .null)

/-- `MPIFuture<T>` : `data_` (impl::Buffer<T>, a unique_ptr: non-null = valid) and `req_` -/
structure MpiFut where
  valid : Bool
  req : Req
  /-- current contents of the buffer `*data_.value` -/
  buf : List Int
  /-- what the operation writes into the buffer when it completes -/
  incoming : List Int
  deriving DecidableEq, Repr

namespace MpiFut

def envComplete (f : MpiFut) : MpiFut :=
  if f.req = .pending then { f with req := .done, buf := f.incoming } else f

/-- the MPI_Wait call inside `wait()` -/
def mpiWait (f : MpiFut) : MpiFut :=
  let f' := envComplete f
  { f' with req := mpiWaitReq f'.req }

/-- `void wait(){ if(!valid()) DUNE_THROW(InvalidFutureException,…); MPI_Wait(&req_, &status_); }` -/
def wait (f : MpiFut) : FObs × MpiFut :=
  if !f.valid then (.errInvalid, f) else (.ok, mpiWait f)

/-- `bool ready() const { int flag=-1; MPI_Test(&req_,&flag,&status_); return flag; }` -/
def ready (f : MpiFut) : FObs × MpiFut :=
  let t := mpiTest f.req
  (.bool t.1, { f with req := t.2 })

/-- `R get(){ wait(); return data_.get(); }` with `Buffer<T>::get(){ T tmp = std::move(*value); value.reset(); return tmp; }` -/
def get (f : MpiFut) : FObs × MpiFut :=
  match wait f with
  | (.errInvalid, f') => (.errInvalid, f')
  | (_, f') => (.data f'.buf, { f' with valid := false })

def step (f : MpiFut) : FOp → FObs × MpiFut
  | .valid => (.bool f.valid, f)
  | .ready => ready f
  | .wait => wait f
  | .get => get f
  | .complete => (.env, envComplete f)
  | .spin => ready (envComplete f)

/-- the future returned by a non-blocking operation -/
def start (initial incoming : List Int) : MpiFut :=
  { valid := true, req := .pending, buf := initial, incoming := incoming }

/-- `MPIFuture<T>()` -/
def invalid : MpiFut := { valid := false, req := .null, buf := [], incoming := [] }

end MpiFut

/-- `MPIFuture<void>` : `data_` is `impl::Buffer<void>{ bool valid_; }` -/
structure MpiVoid where
  valid : Bool
  req : Req
  deriving DecidableEq, Repr

namespace MpiVoid

def envComplete (f : MpiVoid) : MpiVoid := { f with req := completeReq f.req }

def mpiWait (f : MpiVoid) : MpiVoid := { f with req := mpiWaitReq (completeReq f.req) }

def wait (f : MpiVoid) : FObs × MpiVoid :=
  if !f.valid then (.errInvalid, f) else (.ok, mpiWait f)

def ready (f : MpiVoid) : FObs × MpiVoid :=
  let t := mpiTest f.req
  (.bool t.1, { f with req := t.2 })

/-- `void get(){ wait(); return data_.get(); }` with (patched) `Buffer<void>::get(){ valid_ = false; }` -/
def get (f : MpiVoid) : FObs × MpiVoid :=
  match wait f with
  | (.errInvalid, f') => (.errInvalid, f')
  | (_, f') => (.ok, { f' with valid := false })

def step (f : MpiVoid) : FOp → FObs × MpiVoid
  | .valid => (.bool f.valid, f)
  | .ready => ready f
  | .wait => wait f
  | .get => get f
  | .complete => (.env, envComplete f)
  | .spin => ready (envComplete f)

def start : MpiVoid := { valid := true, req := .pending }
def invalid : MpiVoid := { valid := false, req := .null }

end MpiVoid

/-- `PseudoFuture<T>{ bool valid_; T data_; }` -/
structure PseudoFut where
  valid : Bool
  data : List Int
  deriving DecidableEq, Repr

namespace PseudoFut

def wait (f : PseudoFut) : FObs × PseudoFut :=
  if !f.valid then (.errInvalid, f) else (.ok, f)

def ready (f : PseudoFut) : FObs × PseudoFut :=
  if !f.valid then (.errInvalid, f) else (.bool true, f)

/-- `T get(){ if(!valid_) DUNE_THROW(…); valid_ = false; return std::forward<T>(data_); }` -/
def get (f : PseudoFut) : FObs × PseudoFut :=
  if !f.valid then (.errInvalid, f) else (.data f.data, { f with valid := false })

def step (f : PseudoFut) : FOp → FObs × PseudoFut
  | .valid => (.bool f.valid, f)
  | .ready => ready f
  | .wait => wait f
  | .get => get f
  | .complete => (.env, f)
  | .spin => ready f

def start (d : List Int) : PseudoFut := { valid := true, data := d }
def invalid : PseudoFut := { valid := false, data := [] }

end PseudoFut

/-- `PseudoFuture<void>{ bool valid_; }` -/
structure PseudoVoid where
  valid : Bool
  deriving DecidableEq, Repr

namespace PseudoVoid

def wait (f : PseudoVoid) : FObs × PseudoVoid :=
  if !f.valid then (.errInvalid, f) else (.ok, f)

def ready (f : PseudoVoid) : FObs × PseudoVoid :=
  if !f.valid then (.errInvalid, f) else (.bool true, f)

def get (f : PseudoVoid) : FObs × PseudoVoid :=
  if !f.valid then (.errInvalid, f) else (.ok, { f with valid := false })

def step (f : PseudoVoid) : FOp → FObs × PseudoVoid
  | .valid => (.bool f.valid, f)
  | .ready => ready f
  | .wait => wait f
  | .get => get f
  | .complete => (.env, f)
  | .spin => ready f

def start : PseudoVoid := { valid := true }
def invalid : PseudoVoid := { valid := false }

end PseudoVoid

/-- void futures carry no payload: a successful `get` shows `ok` instead of the data -/
def eraseObs : FObs → FObs
  | .data _ => .ok
  | o => o

/-! ### `Dune::Future<T>` : type erasure (future.hh) -/

/--
```
template<class T> class Future{
  std::unique_ptr<FutureBase> _future;          // FutureModel<F> forwards wait/ready/valid/get to the F it holds
  Future() = default;                            // null
  void wait(){ if(!_future) DUNE_THROW(InvalidFutureException,…); _future->wait(); }      (get, ready alike)
  bool valid() const { if(_future) return _future->valid(); return false; }
};
```
`none` = null pointer (default constructed, or moved from); `some f` = holds the future `f`. -/
def erasedStep {σ : Type} (inner : σ → FOp → FObs × σ) : Option σ → FOp → FObs × Option σ
  | none, .valid => (.bool false, none)
  | none, .complete => (.env, none)
  | none, _ => (.errInvalid, none)
  | some f, o => ((inner f o).1, some (inner f o).2)

/-- `Future<void>` around a future with a payload: `virtual T get() override { return (T)_future.get(); }` with
`T = void` discards the value -/
def voidCastStep {σ : Type} (inner : σ → FOp → FObs × σ) : σ → FOp → FObs × σ :=
  fun s o => (eraseObs (inner s o).1, (inner s o).2)

/-- run a call history; returns the observations and the final state -/
def runFut {σ : Type} (step : σ → FOp → FObs × σ) : σ → List FOp → List FObs × σ
  | s, [] => ([], s)
  | s, o :: os =>
    let r := step s o
    let rest := runFut step r.2 os
    (r.1 :: rest.1, rest.2)

def trace {σ : Type} (step : σ → FOp → FObs × σ) (s : σ) (h : List FOp) : List FObs := (runFut step s h).1
def final {σ : Type} (step : σ → FOp → FObs × σ) (s : σ) (h : List FOp) : σ := (runFut step s h).2

/-! ### the collectives whose results the futures deliver (specification level, rank order) -/

inductive Red where
  | sum | min | max
  deriving DecidableEq, Repr

def redOp : Red → Int → Int → Int
  | .sum, a, b => a + b
  | .min, a, b => if b < a then b else a
  | .max, a, b => if a < b then b else a

/-- element-wise reduction of the contributions (all of the same length as the first) -/
def reduceAll (r : Red) : List (List Int) → List Int
  | [] => []
  | v :: vs => vs.foldl (fun acc w => List.zipWith (redOp r) acc w) v

def firsts (vals : List (List Int)) : List Int := vals.map fun v => v.headD 0

end DV.C19
