/-
C03 — faithful model of Dune::ParallelIndexSet / GlobalLookupIndexSet
(dune/common/parallel/indexset.hh, plocalindex.hh, localindex.hh), after fixes/C03_lookup_single_entry.patch.

The two chunked lists `localIndices_` / `newIndices_` are abstract sequences (`List Pair`); that the chunked
ArrayList behaves as its sequence is property C11.  Everything else follows the C++ control flow:
the GROUND/RESIZE state machine with its `#ifndef NDEBUG` checks, `endResize` = sort of the new entries with
`IndexSetSortFunctor` followed by the three-way `merge` that drops DELETED entries, the binary search of
`exists` / `at` / `operator[]` with `int low, high, probe` (here `Int`, with fuel), `renumberLocal`, `seqNo`,
and the reverse table of `GlobalLookupIndexSet`.  Core Lean only.
-/
import DuneVerif.Common.Proto
import DuneVerif.Model.C03Expr

namespace DV.C03

/-- `ParallelLocalIndex<T>`: local number, attribute (stored as char), public flag, state VALID/DELETED -/
structure LIdx where
  loc : Nat
  attr : Nat
  pub : Bool
  valid : Bool
  deriving DecidableEq, Repr, Inhabited

/-- `IndexPair<TG,TL>` -/
structure Pair where
  g : Int
  l : LIdx
  deriving DecidableEq, Repr, Inhabited

-- `ParallelIndexSetState` is `St` (Model/C03Expr.lean, shared with the generated file Gen/C03.lean)

/-- the members of `ParallelIndexSet` -/
structure ISet where
  loc : List Pair      -- localIndices_
  fresh : List Pair    -- newIndices_
  st : St              -- state_
  seq : Nat            -- seqNo_
  del : Bool           -- deletedEntries_
  deriving DecidableEq, Repr, Inhabited

/-- `ParallelIndexSet()` : `state_(GROUND), seqNo_(0), deletedEntries_()` -/
def init : ISet := { loc := [], fresh := [], st := .ground, seq := 0, del := false }

inductive Err where
  | invalidState   -- InvalidIndexSetState
  | range          -- RangeError
  deriving DecidableEq, Repr

/-- the comparison used by `IndexSetSortFunctor` and (with old = a, added = b) by `merge`:
`a.global < b.global || (a.global == b.global && LocalIndexComparator::compare(a.local, b.local))`,
where `compare` of two `ParallelLocalIndex` is `attribute() < attribute()` -/
def before (a b : Pair) : Bool := a.g < b.g || (a.g == b.g && a.l.attr < b.l.attr)

/-- `std::sort(newIndices_.begin(), newIndices_.end(), IndexSetSortFunctor())` as a (stable) insertion sort.
Theorem `sort_unique` shows that every sorting algorithm yields this list when the keys are pairwise distinct. -/
def insertSorted (p : Pair) : List Pair → List Pair
  | [] => [p]
  | q :: qs => if before q p then q :: insertSorted p qs else p :: q :: qs

def sortFresh : List Pair → List Pair
  | [] => []
  | p :: ps => insertSorted p (sortFresh ps)

/-- the three loops of `merge()`; the result is `tempPairs`.
`old`/`added` are what is left of `localIndices_`/`newIndices_` behind the two iterators
(`eraseToHere` drops everything up to and including the iterator position).  Written with structural recursion
(outer: `old`, inner: `added`) so that the kernel can evaluate it; the loop-shaped equations
  mergeLoop [] added            = added                                   -- third loop: copy the rest of `added`
  mergeLoop (o :: os) []        = if o.valid then o :: mergeLoop os [] else mergeLoop os []          -- second loop
  mergeLoop (o :: os) (a :: as) = if !o.valid then mergeLoop os (a :: as)           -- DELETED: old.eraseToHere()
                                  else if before o a then o :: mergeLoop os (a :: as) -- push_back(*old)
                                  else a :: mergeLoop (o :: os) as                    -- push_back(*added)
are the theorems `mergeLoop_nil`, `mergeLoop_cons_nil`, `mergeLoop_cons_cons` (Proofs/C03Sort.lean). -/
def mergeInner (o : Pair) (rest : List Pair → List Pair) : List Pair → List Pair
  | [] => o :: rest []
  | a :: as => if before o a then o :: rest (a :: as) else a :: mergeInner o rest as

def mergeLoop : List Pair → List Pair → List Pair
  | [], added => added
  | o :: os, added => if !o.l.valid then mergeLoop os added else mergeInner o (mergeLoop os) added

/-- `merge()` -/
def merge (s : ISet) : ISet :=
  if s.loc.length = 0 then
    { s with loc := s.fresh, fresh := [] }              -- localIndices_=newIndices_; newIndices_.clear()
  else if s.fresh.length > 0 || s.del then
    { s with loc := mergeLoop s.loc s.fresh, fresh := [] }
  else s

def beginResize (s : ISet) : Except Err ISet :=
  if s.st ≠ .ground then .error .invalidState
  else .ok { s with st := .resize, del := false }

/-- `add(global, local)` and `add(global)` (the latter with `ParallelLocalIndex()` = `(0, T(), false)`, VALID) -/
def add (s : ISet) (p : Pair) : Except Err ISet :=
  if s.st ≠ .resize then .error .invalidState
  else .ok { s with fresh := s.fresh ++ [p] }

def defaultLocal : LIdx := { loc := 0, attr := 0, pub := false, valid := true }

def setDeleted (p : Pair) : Pair := { p with l := { p.l with valid := false } }

/-- apply `f` to the element at position `i` -/
def modifyAt (f : Pair → Pair) : Nat → List Pair → List Pair
  | _, [] => []
  | 0, p :: ps => f p :: ps
  | i+1, p :: ps => p :: modifyAt f i ps

/-- `markAsDeleted(iterator)` for the iterator at position `i < size` -/
def markAsDeleted (s : ISet) (i : Nat) : Except Err ISet :=
  if s.st ≠ .resize then .error .invalidState
  else .ok { s with del := true, loc := modifyAt setDeleted i s.loc }

def endResize (s : ISet) : Except Err ISet :=
  if s.st ≠ .resize then .error .invalidState
  else
    let s1 := merge { s with fresh := sortFresh s.fresh }
    .ok { s1 with seq := s1.seq + 1, st := .ground }

/-- `pair.local() = k` (`ParallelLocalIndex::operator=(size_t)` only overwrites the local number) -/
def setLoc (p : Pair) (k : Nat) : Pair := { p with l := { p.l with loc := k } }

/-- `for(pair=begin(); pair!=end; index++, ++pair) pair->local()=index;` -/
def renumFrom : Nat → List Pair → List Pair
  | _, [] => []
  | i, p :: ps => setLoc p i :: renumFrom (i + 1) ps

def renumberLocal (s : ISet) : Except Err ISet :=
  if s.st = .resize then .error .invalidState
  else .ok { s with loc := renumFrom 0 s.loc }

/-! ### binary search -/

/-- `localIndices_[i].global()` for an `int i`; `none` = access outside the list -/
def gAt (xs : List Pair) (i : Int) : Option Int :=
  if i < 0 then none else (xs[i.toNat]?).map (·.g)

def pAt (xs : List Pair) (i : Int) : Option Pair :=
  if i < 0 then none else xs[i.toNat]?

/-- `while(low<high){ probe=(high+low)/2; if(localIndices_[probe].global() >= global) high=probe; else low=probe+1; }`
returns the final `low`; `none` = out-of-range access or fuel exhausted (theorem `search_terminates`: never). -/
def searchLoop (xs : List Pair) (g : Int) : Nat → Int → Int → Option Int
  | 0, low, high => if low < high then none else some low
  | fuel + 1, low, high =>
    if low < high then
      let probe := Int.tdiv (high + low) 2
      match gAt xs probe with
      | none => none
      | some gp => if gp ≥ g then searchLoop xs g fuel low probe else searchLoop xs g fuel (probe + 1) high
    else some low

/-- `int low=0, high=localIndices_.size()-1, probe=-1; while …` -/
def search (xs : List Pair) (g : Int) : Option Int :=
  searchLoop xs g xs.length 0 ((xs.length : Int) - 1)

/-! The C++ variables are `int`.  The same loop with the 32-bit range made explicit: `none` as soon as `size()-1`,
`high + low` or `probe + 1` is not representable (signed overflow = undefined behaviour).  Theorem
`search_int32_safe`: for every list of at most 2^30 entries this never happens and the result is that of `search`. -/
def fitsI32 (i : Int) : Bool := -2147483648 ≤ i && i ≤ 2147483647

def searchLoopI32 (xs : List Pair) (g : Int) : Nat → Int → Int → Option Int
  | 0, low, high => if low < high then none else some low
  | fuel + 1, low, high =>
    if low < high then
      if !fitsI32 (high + low) then none else
      let probe := Int.tdiv (high + low) 2
      match gAt xs probe with
      | none => none
      | some gp =>
        if gp ≥ g then searchLoopI32 xs g fuel low probe
        else if !fitsI32 (probe + 1) then none else searchLoopI32 xs g fuel (probe + 1) high
    else some low

def searchI32 (xs : List Pair) (g : Int) : Option Int :=
  if !fitsI32 ((xs.length : Int) - 1) then none else searchLoopI32 xs g xs.length 0 ((xs.length : Int) - 1)

/-- `exists(global)`; `none` = undefined behaviour (never, theorem `lookups_total`) -/
def existsL (xs : List Pair) (g : Int) : Option Bool :=
  match search xs g with
  | none => none
  | some low =>
    if xs.length = 0 then some false
    else match gAt xs low with
      | none => none
      | some gl => if gl ≠ g then some false else some true

/-- `at(global)` (both overloads) -/
def atL (xs : List Pair) (g : Int) : Option (Except Err Pair) :=
  match search xs g with
  | none => none
  | some low =>
    if xs.length = 0 then some (.error .range)
    else match pAt xs low with
      | none => none
      | some p => if p.g ≠ g then some (.error .range) else some (.ok p)

/-- `operator[](global)` (both overloads): position and pair; `none` = undefined behaviour (empty set) -/
def getL (xs : List Pair) (g : Int) : Option (Nat × Pair) :=
  match search xs g with
  | none => none
  | some low => (pAt xs low).map fun p => (low.toNat, p)

/-- `set[global].local() = l` through the reference returned by the non-const `operator[]` -/
def setLocalVia (s : ISet) (g : Int) (l : Nat) : Option ISet :=
  (getL s.loc g).map fun (i, _) => { s with loc := modifyAt (fun p => setLoc p l) i s.loc }

/-! ### GlobalLookupIndexSet -/

def setAt (v : Pair) : Nat → List (Option Pair) → Option (List (Option Pair))
  | _, [] => none                              -- write outside `indices_`
  | 0, _ :: ts => some (some v :: ts)
  | i+1, t :: ts => (setAt v i ts).map (t :: ·)

/-- `for(pair : indexSet_) indices_[pair->local()] = &(*pair);`  (`none` = out-of-range write) -/
def fillTable : List Pair → List (Option Pair) → Option (List (Option Pair))
  | [], t => some t
  | p :: ps, t => (setAt p p.l.loc t).bind (fillTable ps)

/-- `size_=std::max(size_, pair->local())` over all pairs, starting from 0 -/
def maxLocal : List Pair → Nat → Nat
  | [], m => m
  | p :: ps, m => maxLocal ps (max m p.l.loc)

/-- `GlobalLookupIndexSet(indexset)` : `indices_.resize(++size_, 0)` then fill -/
def lookupAuto (xs : List Pair) : Option (List (Option Pair)) :=
  fillTable xs (List.replicate (maxLocal xs 0 + 1) none)

/-- `GlobalLookupIndexSet(indexset, size)`; with `assert(pair->local()<size_)` -/
def lookupSized (xs : List Pair) (n : Nat) : Option (List (Option Pair)) :=
  fillTable xs (List.replicate n none)

/-- `pair(local)` -/
def tablePair (t : List (Option Pair)) (i : Nat) : Option Pair := (t[i]?).bind id

/-! ### operations and observations (what harness/cxx_c03.cc does and prints per op) -/

inductive Op where
  | beginResize
  | add (g : Int) (loc attr : Nat) (pub : Bool)
  | addG (g : Int)
  | markDel (g : Int) (attr : Nat)
  | endResize
  | renumber
  | exists_ (g : Int)
  | at_ (g : Int)
  | get (g : Int)
  | setLocal (g : Int) (l : Nat)
  | seqNo
  | size
  | state
  | dump
  | lookup
  | lookupN (n : Nat)
  deriving DecidableEq, Repr

inductive Obs where
  | ok
  | none_
  | skip
  | ub
  | err (e : Err)
  | bool (b : Bool)
  | pair (p : Pair)
  | nat (n : Nat)
  | state (s : St)
  | dump (l : List Pair)
  | table (t : List (Option Pair))
  deriving DecidableEq, Repr

/-- position of the first entry with this global index and attribute (the harness iterates to it) -/
def findKey (g : Int) (a : Nat) : List Pair → Option Nat
  | [] => none
  | p :: ps => if p.g = g ∧ p.l.attr = a then some 0 else (findKey g a ps).map (· + 1)

def hasGlobal (xs : List Pair) (g : Int) : Bool := xs.any (·.g == g)

def lift (s : ISet) : Except Err ISet → ISet × Obs
  | .ok s' => (s', .ok)
  | .error e => (s, .err e)

def step (s : ISet) : Op → ISet × Obs
  | .beginResize => lift s (beginResize s)
  | .add g l a p => lift s (add s ⟨g, { loc := l, attr := a, pub := p, valid := true }⟩)
  | .addG g => lift s (add s ⟨g, defaultLocal⟩)
  | .markDel g a =>
    match findKey g a s.loc with
    | none => (s, .none_)
    | some i => lift s (markAsDeleted s i)
  | .endResize => lift s (endResize s)
  | .renumber => lift s (renumberLocal s)
  | .exists_ g => (s, match existsL s.loc g with | none => .ub | some b => .bool b)
  | .at_ g => (s, match atL s.loc g with | none => .ub | some (.ok p) => .pair p | some (.error e) => .err e)
  | .get g =>
    if hasGlobal s.loc g then (s, match getL s.loc g with | none => .ub | some (_, p) => .pair p)
    else (s, .skip)
  | .setLocal g l =>
    if hasGlobal s.loc g then (match setLocalVia s g l with | none => (s, .ub) | some s' => (s', .ok))
    else (s, .skip)
  | .seqNo => (s, .nat s.seq)
  | .size => (s, .nat s.loc.length)
  | .state => (s, .state s.st)
  | .dump => (s, .dump s.loc)
  | .lookup => (s, match lookupAuto s.loc with | none => .ub | some t => .table t)
  | .lookupN n =>
    if s.loc.all (·.l.loc < n) then (s, match lookupSized s.loc n with | none => .ub | some t => .table t)
    else (s, .skip)

/-- a whole history from a given state, with the observation after each op -/
def runFrom (s : ISet) : List Op → ISet × List Obs
  | [] => (s, [])
  | op :: ops =>
    let (s1, o) := step s op
    let (s2, os) := runFrom s1 ops
    (s2, o :: os)

def run (h : List Op) : ISet := (runFrom init h).1
def observations (h : List Op) : List Obs := (runFrom init h).2

/-- the property's quantifier: when a resize phase is closed, the surviving old entries and the added ones have
pairwise distinct (global, attribute) -/
def keysDistinct : List Pair → Bool
  | [] => true
  | p :: ps => !(ps.any fun q => q.g == p.g && q.l.attr == p.l.attr) && keysDistinct ps

def closesOutside (s : ISet) : Bool :=
  s.st == .resize && !keysDistinct (s.loc.filter (·.l.valid) ++ s.fresh)

end DV.C03
