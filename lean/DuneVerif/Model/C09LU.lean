import DuneVerif.Model.C09
/-!
# C09 — the dense-matrix algorithms of densematrix.hh written ONCE over a `SimdLike` structure

`SimdLike V` is what densematrix.hh uses of the SIMD abstraction layer: `Simd::lanes`, `Simd::lane` (read and
assign), broadcast, lane-wise application of scalar operations (the overloaded operators), `Simd::cond`,
`Simd::anyTrue`/`Simd::allTrue`.  Two instances: `SimdLike.scalar` (the built-in number: one lane, standard.hh)
and `SimdLike.loop S` (`LoopSIMD<·,S>`).  `luDecomp` follows `DenseMatrix::luDecomposition` statement by
statement (per-lane pivot search with `cond`, lane-wise scattered row swap, `func.swap`, the singularity mask,
`throwEarly`/early return through the mask reductions, elimination storing the factor); `determinant`, `solve`
and `invert` are the three callers including the closed forms for `n ≤ 3`; `determinant` masks singular lanes
*after* the product of the diagonal (the repaired order, fixes/C09_simd_det_singular_lane.patch) and `invert`
starts from `field_type(0)` (fixes/C09_simd_invert_uninit.patch).
-/
namespace DV.C09
open Gen

/-- scalar arithmetic used by the dense algorithms; no laws are required: lane-wise transparency holds for
    every interpretation (exact fields and IEEE floating point alike) -/
structure Arith (K : Type) where
  zero : K
  one : K
  add : K → K → K
  sub : K → K → K
  mul : K → K → K
  div : K → K → K
  neg : K → K
  abs : K → K
  /-- `a < b` -/
  lt : K → K → Bool
  /-- `a == b` -/
  beq : K → K → Bool

/-- `V α`: a SIMD value with `L` lanes of type `α` (`L` = `Simd::lanes`) -/
structure SimdLike (V : Type → Type) (L : Nat) where
  lane : {α : Type} → Fin L → V α → α
  /-- `Simd::lane(l, v) = x` -/
  setLane : {α : Type} → Fin L → α → V α → V α
  bcast : {α : Type} → α → V α
  map : {α β : Type} → (α → β) → V α → V β
  map2 : {α β γ : Type} → (α → β → γ) → V α → V β → V γ
  cond : {α : Type} → V Bool → V α → V α → V α
  anyTrue : V Bool → Bool
  allTrue : V Bool → Bool

/-- the built-in scalar as a one-lane vector (standard.hh, interface.hh) -/
def SimdLike.scalar : SimdLike (fun α => α) 1 where
  lane := fun _ v => v
  setLane := fun _ x _ => x
  bcast := fun x => x
  map := fun f v => f v
  map2 := fun f a b => f a b
  cond := fun m a b => scalarCond m a b
  anyTrue := fun m => scalarReduce .anyTrue m
  allTrue := fun m => scalarReduce .allTrue m

/-- `LoopSIMD<·,S>`: operators are `Vector.map`/`zipWith` (justified for the translated loops by
    `Proofs/C09.lean`), `cond` selects per lane with `?:` (the reachable overload of loop.hh), the reductions fold over the entries -/
def SimdLike.loop (S : Nat) : SimdLike (fun α => Vec α S) S where
  lane := fun l v => v[l]
  setLane := fun l x v => v.set l x
  bcast := fun x => Vector.replicate S x
  map := fun f v => v.map f
  map2 := fun f a b => Vector.zipWith f a b
  cond := fun m a b => Vector.ofFn fun i => if m[i] then a[i] else b[i]
  anyTrue := fun m => m.toList.foldl (fun out e => out || scalarReduce .anyTrue e) false
  allTrue := fun m => m.toList.foldl (fun out e => out && scalarReduce .allTrue e) true

abbrev Mat (α : Type) (n : Nat) := Vector (Vector α n) n

namespace Mat
variable {α β : Type} {n : Nat}
def get (A : Mat α n) (i j : Fin n) : α := (A[i])[j]
def set (A : Mat α n) (i j : Fin n) (x : α) : Mat α n := Vector.set A i (Vector.set A[i] j x)
def map (f : α → β) (A : Mat α n) : Mat β n := Vector.map (fun r => Vector.map f r) A
end Mat

section Generic
variable {V : Type → Type} {L : Nat} (X : SimdLike V L) {K : Type} (R : Arith K) {n : Nat}

-- lane-wise arithmetic on vectors of K
def vsub (a b : V K) : V K := X.map2 R.sub a b
def vmul (a b : V K) : V K := X.map2 R.mul a b
def vdiv (a b : V K) : V K := X.map2 R.div a b
def vadd (a b : V K) : V K := X.map2 R.add a b
def vneg (a : V K) : V K := X.map R.neg a
def vabs (a : V K) : V K := X.map R.abs a
/-- `a > b` -/
def vgt (a b : V K) : V Bool := X.map2 (fun x y => R.lt y x) a b
/-- `a != b` -/
def vne (a b : V K) : V Bool := X.map2 (fun x y => !(R.beq x y)) a b
def vand (a b : V Bool) : V Bool := X.map2 (fun x y => x && y) a b
/-- `std::max(a, b)` lane-wise -/
def vmax (a b : V K) : V K := X.map2 (fun x y => if R.lt x y then y else x) a b

/-- `std::swap(Simd::lane(l, a), Simd::lane(l, b))` on two (possibly identical) entries addressed by `i`, `r`
    of a vector of SIMD values -/
def swapLaneVec {m : Nat} (v : Vector (V K) m) (i r : Fin m) (l : Fin L) : Vector (V K) m :=
  let x := X.lane l v[i]
  let y := X.lane l v[r]
  let v1 := v.set i (X.setLane l y v[i])
  v1.set r (X.setLane l x v1[r])

/-- `std::swap(Simd::lane(l, A[i₁][j₁]), Simd::lane(l, A[i₂][j₂]))` (the two entries may coincide) -/
def swapLaneEntries (A : Mat (V K) n) (i₁ j₁ i₂ j₂ : Fin n) (l : Fin L) : Mat (V K) n :=
  let x := X.lane l (A.get i₁ j₁)
  let y := X.lane l (A.get i₂ j₂)
  let A1 := A.set i₁ j₁ (X.setLane l y (A.get i₁ j₁))
  A1.set i₂ j₂ (X.setLane l x (A1.get i₂ j₂))

/-- the row swap of `luDecomposition` in lane `l`: entries `(i, j)` and `(r, j)` -/
def swapLaneMat (A : Mat (V K) n) (i r j : Fin n) (l : Fin L) : Mat (V K) n := swapLaneEntries X A i j r j l

/-- the functor `func` of `luDecomposition` (ElimDet, Elim<V>, ElimPivot) with its state `Aux` -/
structure ElimFunc (Aux : Type) where
  swap : Fin n → V (Fin n) → Aux → Aux
  elim : V K → Fin n → Fin n → Aux → Aux

structure LUState (Aux : Type) where
  A : Mat (V K) n
  aux : Aux
  ns : V Bool

/-- `pivmax`, `imax` after the pivot search of column `i` -/
def pivotSearch (A : Mat (V K) n) (i : Fin n) : V K × V (Fin n) :=
  (List.finRange n).foldl (fun (p : V K × V (Fin n)) k =>
    if i < k then
      let abs := vabs X R (A.get k i)
      let mask := vgt X R abs p.1
      (X.cond mask abs p.1, X.cond mask (X.bcast k) p.2)
    else p) (vabs X R (A.get i i), X.bcast i)

/-- the row swap: for every column `j` and lane `l` swap lane `l` of `A[i][j]` and `A[lane(l, imax)][j]` -/
def swapRows (A : Mat (V K) n) (i : Fin n) (imax : V (Fin n)) : Mat (V K) n :=
  (List.finRange n).foldl (fun A j =>
    (List.finRange L).foldl (fun A l => swapLaneMat X A i (X.lane l imax) j l) A) A

/-- the elimination below row `i` -/
def eliminate {Aux : Type} (F : ElimFunc (V := V) (K := K) (n := n) Aux) (A : Mat (V K) n) (aux : Aux) (i : Fin n) :
    Mat (V K) n × Aux :=
  (List.finRange n).foldl (fun (st : Mat (V K) n × Aux) k =>
    if i < k then
      let A := st.1
      let factor := vdiv X R (A.get k i) (A.get i i)
      let A := A.set k i factor
      let A := (List.finRange n).foldl (fun A j =>
        if i < j then A.set k j (vsub X R (A.get k j) (vmul X R factor (A.get i j))) else A) A
      (A, F.elim factor k i st.2)
    else st) (A, aux)

/-- one pass of the outer loop up to the singularity test: pivot search, row swap, `func.swap`,
    `nonsingularLanes = nonsingularLanes && (pivmax != 0)` -/
def luPre {Aux : Type} (F : ElimFunc (V := V) (K := K) (n := n) Aux) (pivoting : Bool)
    (st : LUState (V := V) (K := K) (n := n) Aux) (i : Fin n) : LUState (V := V) (K := K) (n := n) Aux :=
  let pv := if pivoting then pivotSearch X R st.A i else (vabs X R (st.A.get i i), X.bcast i)
  { A := if pivoting then swapRows X st.A i pv.2 else st.A
    aux := if pivoting then F.swap i pv.2 st.aux else st.aux
    ns := vand X st.ns (vne X R pv.1 (X.bcast R.zero)) }

/-- the elimination part of the pass -/
def luElim {Aux : Type} (F : ElimFunc (V := V) (K := K) (n := n) Aux)
    (st : LUState (V := V) (K := K) (n := n) Aux) (i : Fin n) : LUState (V := V) (K := K) (n := n) Aux :=
  let e := eliminate X R F st.A st.aux i
  { A := e.1, aux := e.2, ns := st.ns }

/-- `luDecomposition(A, func, nonsingularLanes, throwEarly, doPivoting)`; `none` = `FMatrixError`.
    With `throwEarly` the first singular lane aborts; without, the loop returns early only when *no* lane is
    nonsingular any more (`!Simd::anyTrue(nonsingularLanes)`), otherwise it keeps eliminating in all lanes. -/
def luLoop {Aux : Type} (F : ElimFunc (V := V) (K := K) (n := n) Aux) (throwEarly pivoting : Bool) :
    List (Fin n) → LUState (V := V) (K := K) (n := n) Aux → Option (LUState (V := V) (K := K) (n := n) Aux)
  | [], st => some st
  | i :: is, st =>
    let s := luPre X R F pivoting st i
    if throwEarly && !X.allTrue s.ns then none
    else if !throwEarly && !X.anyTrue s.ns then some s
    else luLoop F throwEarly pivoting is (luElim X R F s i)

def luDecomp {Aux : Type} (F : ElimFunc (V := V) (K := K) (n := n) Aux) (throwEarly pivoting : Bool)
    (A : Mat (V K) n) (aux : Aux) : Option (LUState (V := V) (K := K) (n := n) Aux) :=
  luLoop X R F throwEarly pivoting (List.finRange n) { A := A, aux := aux, ns := X.bcast true }

/-- `ElimDet`: the sign of the permutation, lane-wise -/
def elimDet : ElimFunc (V := V) (K := K) (n := n) (V K) where
  swap := fun i j sign => vmul X R sign
    (X.cond (X.map2 (fun a b => decide (a = b)) (X.bcast i) j) (X.bcast R.one) (X.bcast (R.neg R.one)))
  elim := fun _ _ _ s => s

/-- `Elim<V>`: carries the right-hand side -/
def elimRhs : ElimFunc (V := V) (K := K) (n := n) (Vector (V K) n) where
  swap := fun i j rhs => (List.finRange L).foldl (fun rhs l => swapLaneVec X rhs i (X.lane l j) l) rhs
  elim := fun factor k i rhs => rhs.set k (vsub X R rhs[k] (vmul X R factor rhs[i]))

/-- `ElimPivot`: records the pivot rows, lane-wise -/
def elimPivot : ElimFunc (V := V) (K := K) (n := n) (Vector (V (Fin n)) n) where
  swap := fun i j pivot =>
    pivot.set i (X.cond (X.map2 (fun a b => decide (a = b)) (X.bcast i) j) pivot[i] j)
  elim := fun _ _ _ p => p

-- closed forms ------------------------------------------------------------------------------------------

/-- the 3×3 determinant ("code generated by maple") -/
def det3 (a : Fin 3 → Fin 3 → V K) : V K :=
  let m := vmul X R; let s := vsub X R; let p := vadd X R
  let t4 := m (a 0 0) (a 1 1)
  let t6 := m (a 0 0) (a 1 2)
  let t8 := m (a 0 1) (a 1 0)
  let t10 := m (a 0 2) (a 1 0)
  let t12 := m (a 0 1) (a 2 0)
  let t14 := m (a 0 2) (a 2 0)
  s (p (p (s (s (m t4 (a 2 2)) (m t6 (a 2 1))) (m t8 (a 2 2))) (m t10 (a 2 1))) (m t12 (a 1 2))) (m t14 (a 1 1))

/-- `DenseMatrix::determinant(doPivoting)` -/
def determinant (pivoting : Bool) (A : Mat (V K) n) : V K :=
  if h1 : n = 1 then A.get ⟨0, by omega⟩ ⟨0, by omega⟩
  else if h2 : n = 2 then
    let a := fun (i j : Fin 2) => A.get ⟨i.val, by omega⟩ ⟨j.val, by omega⟩
    vsub X R (vmul X R (a 0 0) (a 1 1)) (vmul X R (a 0 1) (a 1 0))
  else if h3 : n = 3 then
    det3 X R fun (i j : Fin 3) => A.get ⟨i.val, by omega⟩ ⟨j.val, by omega⟩
  else
    match luDecomp X R (elimDet X R) false pivoting A (X.bcast R.one) with
    | none => X.bcast R.zero   -- unreachable: without throwEarly luDecomposition only returns
    | some st =>
      let d := (List.finRange n).foldl (fun d i => vmul X R d (st.A.get i i)) st.aux
      X.cond st.ns d (X.bcast R.zero)

/-- backsolve: `for i = n-1 … 0: rhs[i] -= A[i][j]*x[j] (j > i); x[i] = rhs[i]/A[i][i]` (`x` and `rhs` share storage) -/
def backsolve (A : Mat (V K) n) (rhs : Vector (V K) n) : Vector (V K) n :=
  (List.finRange n).reverse.foldl (fun x i =>
    let xi := (List.finRange n).foldl (fun acc j => if i < j then vsub X R acc (vmul X R (A.get i j) x[j]) else acc) x[i]
    x.set i (vdiv X R xi (A.get i i))) rhs

/-- `*this = field_type(0); (*this)[i][i] = 1` -/
def identity : Mat (V K) n :=
  Vector.ofFn fun i => Vector.ofFn fun j => if i = j then X.bcast R.one else X.bcast R.zero

/-- `L Y = I`: `for i, for j < i, for k: Y[i][k] -= L[i][j]*Y[j][k]` -/
def invForward (LU Y : Mat (V K) n) : Mat (V K) n :=
  (List.finRange n).foldl (fun Y i => (List.finRange n).foldl (fun Y j =>
    if j < i then (List.finRange n).foldl (fun Y k => Y.set i k (vsub X R (Y.get i k) (vmul X R (LU.get i j) (Y.get j k)))) Y
    else Y) Y) Y

/-- `U A⁻¹ = Y`: `for i = n-1 … 0, for k: { for j > i: Z[i][k] -= U[i][j]*Z[j][k]; Z[i][k] /= U[i][i] }` -/
def invBackward (LU Z : Mat (V K) n) : Mat (V K) n :=
  (List.finRange n).reverse.foldl (fun Z i => (List.finRange n).foldl (fun Z k =>
    let z := (List.finRange n).foldl (fun Z j =>
      if i < j then Z.set i k (vsub X R (Z.get i k) (vmul X R (LU.get i j) (Z.get j k))) else Z) Z
    z.set i k (vdiv X R (z.get i k) (LU.get i i))) Z) Z

/-- undo the row permutation as a column permutation, lane by lane, from the last pivot to the first:
    `pi = lane(l, pivot[i]); if (i != pi) for j: swap(lane(l, Z[j][pi]), lane(l, Z[j][i]))` -/
def invUnpermute (pivot : Vector (V (Fin n)) n) (Z : Mat (V K) n) : Mat (V K) n :=
  (List.finRange n).reverse.foldl (fun Z i => (List.finRange L).foldl (fun Z l =>
    let pi := X.lane l pivot[i]
    if i ≠ pi then (List.finRange n).foldl (fun Z j => swapLaneEntries X Z j pi j i l) Z else Z) Z) Z

/-- `DenseMatrix::solve(x, b, doPivoting)`; `none` = `FMatrixError` -/
def solve (pivoting : Bool) (A : Mat (V K) n) (b : Vector (V K) n) : Option (Vector (V K) n) :=
  let m := vmul X R; let s := vsub X R; let p := vadd X R; let d := vdiv X R
  if h1 : n = 1 then
    let i0 : Fin n := ⟨0, by omega⟩
    some (b.set i0 (d b[i0] (A.get i0 i0)))
  else if h2 : n = 2 then
    let a := fun (i j : Fin 2) => A.get ⟨i.val, by omega⟩ ⟨j.val, by omega⟩
    let bb := fun (i : Fin 2) => b[(⟨i.val, by omega⟩ : Fin n)]
    let detinv := d (X.bcast R.one) (s (m (a 0 0) (a 1 1)) (m (a 0 1) (a 1 0)))
    let x0 := m detinv (s (m (a 1 1) (bb 0)) (m (a 0 1) (bb 1)))
    let x1 := m detinv (s (m (a 0 0) (bb 1)) (m (a 1 0) (bb 0)))
    let i0 : Fin n := ⟨0, by omega⟩
    let i1 : Fin n := ⟨1, by omega⟩
    some ((b.set i0 x0).set i1 x1)
  else if h3 : n = 3 then
    let a := fun (i j : Fin 3) => A.get ⟨i.val, by omega⟩ ⟨j.val, by omega⟩
    let bb := fun (i : Fin 3) => b[(⟨i.val, by omega⟩ : Fin n)]
    let dt := det3 X R a
    -- t1 - t2 - t3 + t4 + t5 - t6, evaluated from the left; every product from the left
    let comb := fun (t1 t2 t3 t4 t5 t6 : V K) => d (s (p (p (s (s t1 t2) t3) t4) t5) t6) dt
    let x0 := comb (m (m (bb 0) (a 1 1)) (a 2 2)) (m (m (bb 0) (a 2 1)) (a 1 2)) (m (m (bb 1) (a 0 1)) (a 2 2))
                   (m (m (bb 1) (a 2 1)) (a 0 2)) (m (m (bb 2) (a 0 1)) (a 1 2)) (m (m (bb 2) (a 1 1)) (a 0 2))
    let x1 := comb (m (m (a 0 0) (bb 1)) (a 2 2)) (m (m (a 0 0) (bb 2)) (a 1 2)) (m (m (a 1 0) (bb 0)) (a 2 2))
                   (m (m (a 1 0) (bb 2)) (a 0 2)) (m (m (a 2 0) (bb 0)) (a 1 2)) (m (m (a 2 0) (bb 1)) (a 0 2))
    let x2 := comb (m (m (a 0 0) (a 1 1)) (bb 2)) (m (m (a 0 0) (a 2 1)) (bb 1)) (m (m (a 1 0) (a 0 1)) (bb 2))
                   (m (m (a 1 0) (a 2 1)) (bb 0)) (m (m (a 2 0) (a 0 1)) (bb 1)) (m (m (a 2 0) (a 1 1)) (bb 0))
    let i0 : Fin n := ⟨0, by omega⟩
    let i1 : Fin n := ⟨1, by omega⟩
    let i2 : Fin n := ⟨2, by omega⟩
    some (((b.set i0 x0).set i1 x1).set i2 x2)
  else
    match luDecomp X R (elimRhs X R) true pivoting A b with
    | none => none
    | some st => some (backsolve X R st.A st.aux)

/-- `DenseMatrix::invert(doPivoting)`; `none` = `FMatrixError` -/
def invert (pivoting : Bool) (A : Mat (V K) n) : Option (Mat (V K) n) :=
  let m := vmul X R; let s := vsub X R; let d := vdiv X R; let ng := vneg X R
  if h1 : n = 1 then
    some (A.set ⟨0, by omega⟩ ⟨0, by omega⟩ (d (X.bcast R.one) (A.get ⟨0, by omega⟩ ⟨0, by omega⟩)))
  else if h2 : n = 2 then
    let i0 : Fin n := ⟨0, by omega⟩
    let i1 : Fin n := ⟨1, by omega⟩
    let detinv := d (X.bcast R.one) (s (m (A.get i0 i0) (A.get i1 i1)) (m (A.get i0 i1) (A.get i1 i0)))
    let temp := A.get i0 i0
    let A := A.set i0 i0 (m (A.get i1 i1) detinv)
    let A := A.set i0 i1 (m (ng (A.get i0 i1)) detinv)
    let A := A.set i1 i0 (m (ng (A.get i1 i0)) detinv)
    some (A.set i1 i1 (m temp detinv))
  else if h3 : n = 3 then
    let i0 : Fin n := ⟨0, by omega⟩
    let i1 : Fin n := ⟨1, by omega⟩
    let i2 : Fin n := ⟨2, by omega⟩
    let t4 := m (A.get i0 i0) (A.get i1 i1)
    let t6 := m (A.get i0 i0) (A.get i1 i2)
    let t8 := m (A.get i0 i1) (A.get i1 i0)
    let t10 := m (A.get i0 i2) (A.get i1 i0)
    let t12 := m (A.get i0 i1) (A.get i2 i0)
    let t14 := m (A.get i0 i2) (A.get i2 i0)
    let det := s (vadd X R (vadd X R (s (s (m t4 (A.get i2 i2)) (m t6 (A.get i2 i1))) (m t8 (A.get i2 i2)))
                  (m t10 (A.get i2 i1))) (m t12 (A.get i1 i2))) (m t14 (A.get i1 i1))
    let t17 := d (X.bcast R.one) det
    let matrix01 := A.get i0 i1
    let matrix00 := A.get i0 i0
    let matrix10 := A.get i1 i0
    let matrix11 := A.get i1 i1
    let A := A.set i0 i0 (m (s (m (A.get i1 i1) (A.get i2 i2)) (m (A.get i1 i2) (A.get i2 i1))) t17)
    let A := A.set i0 i1 (m (ng (s (m (A.get i0 i1) (A.get i2 i2)) (m (A.get i0 i2) (A.get i2 i1)))) t17)
    let A := A.set i0 i2 (m (s (m matrix01 (A.get i1 i2)) (m (A.get i0 i2) (A.get i1 i1))) t17)
    let A := A.set i1 i0 (m (ng (s (m (A.get i1 i0) (A.get i2 i2)) (m (A.get i1 i2) (A.get i2 i0)))) t17)
    let A := A.set i1 i1 (m (s (m matrix00 (A.get i2 i2)) t14) t17)
    let A := A.set i1 i2 (m (ng (s t6 t10)) t17)
    let A := A.set i2 i0 (m (s (m matrix10 (A.get i2 i1)) (m matrix11 (A.get i2 i0))) t17)
    let A := A.set i2 i1 (m (ng (s (m matrix00 (A.get i2 i1)) t12)) t17)
    some (A.set i2 i2 (m (s t4 t8) t17))
  else
    match luDecomp X R (elimPivot X (K := K)) true pivoting A (Vector.ofFn fun i => X.bcast i) with
    | none => none
    | some st => some (invUnpermute X st.aux (invBackward X R st.A (invForward X R st.A (identity X R))))

-- the configuration DUNE_FMatrix_WITH_CHECKING ----------------------------------------------------------------

/-- a mask reduction of the abstraction layer, by kind (`anyTrue` / `allTrue` are what densematrix.hh uses of it; the other
    two through the lane-wise `!`, as defaults.hh defines them) -/
def reduceMask (k : RedKind) (m : V Bool) : Bool :=
  match k with
  | .anyTrue => X.anyTrue m
  | .allTrue => X.allTrue m
  | .anyFalse => X.anyTrue (X.map (!·) m)
  | .allFalse => X.allTrue (X.map (!·) m)

/-- `Simd::RED(fvmeta::absreal(d) CMP FMatrixPrecision<>::absolute_limit())`: the test the checked configuration puts in
    front of the closed form for size `n`, *executed from the table the translator reads off densematrix.hh* (`tests`:
    size ↦ reduction, comparison).  `chk = none`: the macro is not defined; `chk = some below` with `below c x` the scalar
    test `absreal(x) c absolute_limit()` (a `vector CMP scalar` comparison: lane-wise by `lane_op_compare_mixed`) -/
def singularChecked (tests : List (Nat × RedKind × CmpOpName)) (chk : Option (CmpOpName → K → Bool)) (n : Nat) (d : V K) : Bool :=
  match chk, tests.lookup n with
  | some below, some (k, c) => reduceMask X k (X.map (below c) d)
  | _, _ => false

/-- `DenseMatrix::solve` in either configuration: with `DUNE_FMatrix_WITH_CHECKING` the closed forms `n = 1, 2, 3` first test
    `(*this)[0][0]`, `a00*a11 - a01*a10`, `determinant(doPivoting)` (in every case the value `determinant` returns; the
    translator insists on these expressions) and throw `FMatrixError`; `n ≥ 4` is unchanged (`luDecomposition` throws early) -/
def solveC (chk : Option (CmpOpName → K → Bool)) (pivoting : Bool) (A : Mat (V K) n) (b : Vector (V K) n) :
    Option (Vector (V K) n) :=
  if singularChecked X chkSolve chk n (determinant X R pivoting A) = true then none else solve X R pivoting A b

/-- `DenseMatrix::invert` in either configuration: the test exists for `n = 1, 2` only (the `n = 3` closed form and the LU
    path have none) -/
def invertC (chk : Option (CmpOpName → K → Bool)) (pivoting : Bool) (A : Mat (V K) n) : Option (Mat (V K) n) :=
  if singularChecked X chkInvert chk n (determinant X R pivoting A) = true then none else invert X R pivoting A

-- products and norms -----------------------------------------------------------------------------------

/-- `mv`: `y[i] = 0; y[i] += A[i][j]*x[j]` -/
def mv (A : Mat (V K) n) (x : Vector (V K) n) : Vector (V K) n :=
  Vector.ofFn fun i => (List.finRange n).foldl (fun acc j => vadd X R acc (vmul X R (A.get i j) x[j])) (X.bcast R.zero)

/-- `FieldMatrix::rightmultiply`: `C = *this; (*this)[i][j] = 0; (*this)[i][j] += C[i][k]*M[k][j]`
    (the 1×1 specialisation multiplies in place) -/
def rightmultiply (A M : Mat (V K) n) : Mat (V K) n :=
  if h1 : n = 1 then
    A.set ⟨0, by omega⟩ ⟨0, by omega⟩ (vmul X R (A.get ⟨0, by omega⟩ ⟨0, by omega⟩) (M.get ⟨0, by omega⟩ ⟨0, by omega⟩))
  else
    Vector.ofFn fun i => Vector.ofFn fun j =>
      (List.finRange n).foldl (fun acc k => vadd X R acc (vmul X R (A.get i k) (M.get k j))) (X.bcast R.zero)

/-- `frobenius_norm2`: `sum += row.two_norm2()`, `two_norm2`: `result += x*x` -/
def frobeniusNorm2 (A : Mat (V K) n) : V K :=
  (List.finRange n).foldl (fun sum i =>
    vadd X R sum ((List.finRange n).foldl (fun r j => vadd X R r (vmul X R (A.get i j) (A.get i j))) (X.bcast R.zero)))
    (X.bcast R.zero)

/-- `infinity_norm` (the NaN-propagating variant, selected for SIMD types by fixes/C09_simd_hasnan.patch):
    `norm = max(a, norm); isNaN += a; return norm * (isNaN / isNaN)` with `a` the one-norm of the row -/
def infinityNorm (A : Mat (V K) n) : V K :=
  let r := (List.finRange n).foldl (fun (p : V K × V K) i =>
    let a := (List.finRange n).foldl (fun r j => vadd X R r (vabs X R (A.get i j))) (X.bcast R.zero)
    (vmax X R a p.1, vadd X R p.2 a)) (X.bcast R.zero, X.bcast R.one)
  vmul X R r.1 (vdiv X R r.2 r.2)

end Generic

/-- lane `l` of a matrix / vector of SIMD values -/
def laneMat {V : Type → Type} {L : Nat} (X : SimdLike V L) {K : Type} {n : Nat} (l : Fin L) (A : Mat (V K) n) : Mat K n :=
  Mat.map (X.lane l) A
def laneVec {V : Type → Type} {L : Nat} (X : SimdLike V L) {K : Type} {n : Nat} (l : Fin L) (v : Vector (V K) n) : Vector K n :=
  v.map (X.lane l)

end DV.C09
