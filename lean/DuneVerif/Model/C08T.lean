import DuneVerif.Model.C08
import DuneVerif.Gen.C08T
/-!
# C08 — the table-driven part of the model (round four)

`Gen/C08T.lean` is regenerated from `fmatrixev.hh` / `dynmatrixev.hh` on every run and holds *control tables*: which
rows enter which cross product in `eig0` and how the running maximum selects the result, which eigenvalue goes to
`eig0` / `eig1` and where their results and the cross product are stored in the two branches of the 3x3 eigenvector
assembly, the initial values / vectors and the compare-and-swap network of the diagonal special case, and the LAPACK
call sites (job characters, `uplo`, `lwork`, buffer sizes, orientation of the copy loops).

This file interprets these tables (core Lean, generic scalar type).  The line-protocol driver runs *these*
definitions, so the differential run follows what the source says now; `Proofs/C08Tie.lean` proves that for the tables
of the current source they coincide with the hand-written control flow of `Model/C08.lean`, about which the property
theorems are stated (`Props/C08.lean` transfers them).
-/
namespace DV.C08

section
variable {α : Type}

def get3 (i : Nat) (t : α × α × α) : α := if i = 0 then t.1 else if i = 1 then t.2.1 else t.2.2

def set3 (i : Nat) (x : α) (t : α × α × α) : α × α × α :=
  if i = 0 then (x, t.2.1, t.2.2) else if i = 1 then (t.1, x, t.2.2) else (t.1, t.2.1, x)

/-- `std::swap(t[i], t[j])` -/
def swap3 (i j : Nat) (t : α × α × α) : α × α × α := set3 i (get3 j t) (set3 j (get3 i t) t)

end

section
variable {K : Type} [Add K] [Sub K] [Mul K] [Div K] [Neg K] [NatCast K] [LT K] [LE K]
  [DecidableLT K] [DecidableLE K]

def ofTriple (t : K × K × K) : V3 K := ⟨t.1, t.2.1, t.2.2⟩

/-- evaluation of a translated selection tree (`Gen.Sel`): `lt a b` tests `d a < d b`, `le a b` tests `d a ≤ d b`
(the translator canonicalises `x > y` to `y < x` and `x >= y` to `y <= x` and never negates a comparison, so the
tree decides NaN lengths as the source does); a leaf `(c, k)` is candidate `c` divided by length `k` -/
def evalSel {β : Type} (d : Nat → K) (leaf : Nat → Nat → β) : Gen.Sel → β
  | .leaf c k => leaf c k
  | .lt a b t f => if d a < d b then evalSel d leaf t else evalSel d leaf f
  | .le a b t f => if d a ≤ d b then evalSel d leaf t else evalSel d leaf f

/-- the maximum search of the hand-written `eig0` (`Model/C08.lean`) as a decision tree: the longest cross product,
the earlier one on ties -/
def eig0_handTree : Gen.Sel := .lt 0 1 (.lt 1 2 (.leaf 2 2) (.leaf 1 1)) (.lt 0 2 (.leaf 2 2) (.leaf 0 0))

/-- `Impl::eig0` driven by the translated tables: rows, cross products, lengths, and the decision tree that the
symbolic execution of the function body yields for the choice of the result (round five: any spelling of the search —
running maximum with an index, nested `if`s, `?:` — gives a tree; `Proofs/C08Tie` proves it equivalent over ℝ to
`eig0_handTree`) -/
def eig0T (sqrt : K → K) (A : M3 K) (ev : K) : V3 K :=
  let rows : V3 K × V3 K × V3 K :=
    (ofTriple (Gen.eig0_row0 A.a00 A.a01 A.a02 A.a10 A.a11 A.a12 A.a20 A.a21 A.a22 ev),
     ofTriple (Gen.eig0_row1 A.a00 A.a01 A.a02 A.a10 A.a11 A.a12 A.a20 A.a21 A.a22 ev),
     ofTriple (Gen.eig0_row2 A.a00 A.a01 A.a02 A.a10 A.a11 A.a12 A.a20 A.a21 A.a22 ev))
  let cr : Nat → V3 K := fun k =>
    let p := Gen.eig0_crossPairs.getD k (0, 0)
    cross (get3 p.1 rows) (get3 p.2 rows)
  let d : Nat → K := fun k => sqrt (norm2_3 (cr (Gen.eig0_normOf.getD k 0)))
  evalSel d (fun c k => (⟨(cr c).x / d k, (cr c).y / d k, (cr c).z / d k⟩ : V3 K)) Gen.eig0_select

/-- `Impl::orthoComp` with the translated branch condition, normalising 2-vector and components of `u` -/
def orthoCompT (sqrt : K → K) (e : V3 K) : V3 K × V3 K :=
  let u : V3 K :=
    if absK (get3 Gen.orthoComp_cond.2 (e.x, e.y, e.z)) < absK (get3 Gen.orthoComp_cond.1 (e.x, e.y, e.z)) then
      let t := Gen.orthoComp_tempA e.x e.y e.z
      let L := (one : K) / sqrt (((zero : K) + t.1 * t.1) + t.2 * t.2)
      let c := Gen.orthoComp_uA e.x e.y e.z
      ⟨L * c.1, L * c.2.1, L * c.2.2⟩
    else
      let t := Gen.orthoComp_tempB e.x e.y e.z
      let L := (one : K) / sqrt (((zero : K) + t.1 * t.1) + t.2 * t.2)
      let c := Gen.orthoComp_uB e.x e.y e.z
      ⟨L * c.1, L * c.2.1, L * c.2.2⟩
  (u, cross e u)

/-- the branch structure of `Impl::eig1` with the four translated normalisation sequences -/
def eig1CoeffsT (sqrt : K → K) (m00 m01 m11 : K) : Option (K × K) :=
  let a00 := absK m00
  let a01 := absK m01
  let a11 := absK m11
  if a11 ≤ a00 then
    if (zero : K) < maxK a00 a01 then
      if a01 ≤ a00 then some (Gen.eig1_leaf0a sqrt m00 m01 m11) else some (Gen.eig1_leaf0b sqrt m00 m01 m11)
    else none
  else
    if (zero : K) < maxK a11 a01 then
      if a01 ≤ a11 then some (Gen.eig1_leaf1a sqrt m00 m01 m11) else some (Gen.eig1_leaf1b sqrt m00 m01 m11)
    else none

/-- `Impl::eig1` from the translated pieces -/
def eig1T (sqrt : K → K) (A : M3 K) (e0 : V3 K) (ev1 : K) : V3 K :=
  let uv := orthoCompT sqrt e0
  let u := uv.1
  let v := uv.2
  let Au := mv3 A u
  let Av := mv3 A v
  let m00 := Gen.eig1_m00 (dotv3 u Au) (dotv3 u Av) (dotv3 v Av) ev1
  let m01 := Gen.eig1_m01 (dotv3 u Au) (dotv3 u Av) (dotv3 v Av) ev1
  let m11 := Gen.eig1_m11 (dotv3 u Au) (dotv3 u Av) (dotv3 v Av) ev1
  match eig1CoeffsT sqrt m00 m01 m11 with
  | none => u
  | some (a, b) => comb3 a u b v

/-- one branch of the assembly: `eig0(S, eval[a], evec[b]); eig1(S, evec[c], evec[d], eval[e]); evec[f] = cross(evec[g], evec[h])`
on `Matrix evec(0.0)` -/
def assemble3 (sqrt : K → K) (S : M3 K) (l : K × K × K) (t : Nat × Nat × Nat × Nat × Nat × Nat × Nat × Nat) :
    V3 K × V3 K × V3 K :=
  let z : V3 K := ⟨zero, zero, zero⟩
  let E0 : V3 K × V3 K × V3 K := (z, z, z)
  let E1 := set3 t.2.1 (eig0T sqrt S (get3 t.1 l)) E0
  let E2 := set3 t.2.2.2.1 (eig1T sqrt S (get3 t.2.2.1 E1) (get3 t.2.2.2.2.1 l)) E1
  set3 t.2.2.2.2.2.1 (cross (get3 t.2.2.2.2.2.2.1 E2) (get3 t.2.2.2.2.2.2.2 E2)) E2

/-- the trigonometric branch of the 3x3 eigenvector code with the translated assembly tables
(`if (r >= 0) {…} else {…}`), then the sort of the (value, vector) pairs -/
def trigVectorsT (sqrt : K → K) (S : M3 K) (l : K × K × K) (r : K) : (K × V3 K) × (K × V3 K) × (K × V3 K) :=
  let E := assemble3 sqrt S l (if r < (zero : K) then Gen.ev3_asmNeg else Gen.ev3_asmPos)
  sortPairs3 (l.1, E.1) (l.2.1, E.2.1) (l.2.2, E.2.2)

def entry3 (S : M3 K) (ij : Nat × Nat) : K :=
  get3 ij.2 (get3 ij.1 ((S.a00, S.a01, S.a02), (S.a10, S.a11, S.a12), (S.a20, S.a21, S.a22)))

def natK (n : Nat) : K := if n = 0 then zero else one

/-- the diagonal special case with the translated initial values / vectors and compare-and-swap network -/
def diagVectorsT (S : M3 K) : (K × K × K) × (V3 K × V3 K × V3 K) :=
  let v0 : K × K × K :=
    (entry3 S (Gen.ev3_diagInit.getD 0 (0, 0)), entry3 S (Gen.ev3_diagInit.getD 1 (0, 0)), entry3 S (Gen.ev3_diagInit.getD 2 (0, 0)))
  let row : Nat → V3 K := fun i =>
    let r := Gen.ev3_diagVecs.getD i []
    ⟨natK (r.getD 0 0), natK (r.getD 1 0), natK (r.getD 2 0)⟩
  let e0 : V3 K × V3 K × V3 K := (row 0, row 1, row 2)
  Gen.ev3_diagSwaps.foldl
    (fun s w => if get3 w.2.1 s.1 < get3 w.1 s.1 then (swap3 w.2.2.1 w.2.2.2.1 s.1, swap3 w.2.2.2.2.1 w.2.2.2.2.2 s.2) else s)
    (v0, e0)

/-- `FMatrixHelp::eigenValuesVectors` for 3x3 with every translated table in place -/
def eigenValuesVectors3dT (sqrt acos cos : K → K) (pi eps : K) (A : M3 K) : (K × K × K) × (V3 K × V3 K × V3 K) :=
  let m := maxAbsElement A
  let S := sdiv3 A m
  let lr := eigenValues3dImpl sqrt acos cos pi eps S
  if diagBranchVec eps S then
    -- the hand-written network; `ev3_diag_tables` (Proofs/C08Tie) ties it to the translated tables, and the driver runs
    -- `eigenValuesVectors3dD` below, which interprets them
    let e0 : K × V3 K := (S.a00, ⟨one, zero, zero⟩)
    let e1 : K × V3 K := (S.a11, ⟨zero, one, zero⟩)
    let e2 : K × V3 K := (S.a22, ⟨zero, zero, one⟩)
    let (e0, e1) := swapIf (decide (e1.1 < e0.1)) (e0, e1)
    let (e1, e2) := swapIf (decide (e2.1 < e1.1)) (e1, e2)
    let (e0, e1) := swapIf (decide (e1.1 < e0.1)) (e0, e1)
    ((e0.1 * m, e1.1 * m, e2.1 * m), (e0.2, e1.2, e2.2))
  else
    let t := trigVectorsT sqrt S lr.1 lr.2
    ((t.1.1 * m, t.2.1.1 * m, t.2.2.1 * m), (t.1.2, t.2.1.2, t.2.2.2))

/-- what the line-protocol driver runs: as `eigenValuesVectors3dT`, the diagonal special case interpreted from the
translated tables as well -/
def eigenValuesVectors3dD (sqrt acos cos : K → K) (pi eps : K) (A : M3 K) : (K × K × K) × (V3 K × V3 K × V3 K) :=
  let m := maxAbsElement A
  let S := sdiv3 A m
  if diagBranchVec eps S then
    let d := diagVectorsT S
    ((d.1.1 * m, d.1.2.1 * m, d.1.2.2 * m), d.2)
  else eigenValuesVectors3dT sqrt acos cos pi eps A

end

/-! ## LAPACK call sites -/
section
variable {K : Type}

/-- the copy loop into the flat array with the translated orientation -/
def packT (transposed : Bool) (n : Nat) (A : Nat → Nat → K) : Nat → K :=
  if transposed then packColMajor n A else packRowMajor n A

/-- `uplo = 'u'`: only the upper triangle of what ?syev sees is referenced; `'l'`: only the lower one -/
def triCompletion (uplo : Char) (S : Nat → Nat → K) : Nat → Nat → K :=
  if uplo = 'u' ∨ uplo = 'U' then upperCompletion S else fun r c => if c ≤ r then S r c else S c r

def lapackSeesSymT (n : Nat) (A : Nat → Nat → K) : Nat → Nat → K :=
  triCompletion Gen.lapSym_uplo (fortranView n (packT Gen.lapSym_packTransposed n A))

def lapackSeesNonSymFT (n : Nat) (A : Nat → Nat → K) : Nat → Nat → K :=
  fortranView n (packT Gen.lapNsF_packTransposed n A)

def lapackSeesNonSymDT (n : Nat) (A : Nat → Nat → K) : Nat → Nat → K :=
  fortranView n (packT Gen.lapNsD_packTransposed n A)

/-- the copy-back of the symmetric routine with the translated orientation -/
def copyBackSymT (n : Nat) (Z : Nat → Nat → K) : Nat → Nat → K :=
  if Gen.lapSym_copyBackTransposed then fun i j => copyBack n Z j i else copyBack n Z

end

/-- what the code hands to LAPACK besides the matrix: job characters, `lwork`, and whether every buffer is as large as
LAPACK's interface requires (`work` at least `lwork` entries, `a` and `vr` `n*n`, `wr`/`wi` `n`) -/
def symCallLine (n : Nat) (wantVec : Bool) : String :=
  "jobz=" ++ String.singleton (if wantVec then Gen.lapSym_jobz.2 else Gen.lapSym_jobz.1) ++
  " uplo=" ++ String.singleton Gen.lapSym_uplo ++ " lwork=" ++ toString (Gen.lapSym_lwork n)

def nsDCallLine (n : Nat) (vec : Bool) : String :=
  "jobvl=" ++ String.singleton (if vec then Gen.lapNsD_jobvl.1 else Gen.lapNsD_jobvl.2) ++
  " jobvr=" ++ String.singleton (if vec then Gen.lapNsD_jobvr.1 else Gen.lapNsD_jobvr.2) ++
  " lwork=" ++ toString (Gen.lapNsD_lwork n vec)

def nsFCallLine (n : Nat) : String :=
  "jobvl=" ++ String.singleton Gen.lapNsF_jobs.1 ++ " jobvr=" ++ String.singleton Gen.lapNsF_jobs.2 ++
  " lwork=" ++ toString (Gen.lapNsF_lwork n)

end DV.C08
