/-
C04 — model of Dune::RemoteIndices (dune/common/parallel/remoteindices.hh) at the message level.

Objects (shared with C05 / C13, which build on the result of `buildRemote`):

* `Pair`       one entry of a `ParallelIndexSet`: global index, local index, attribute, public flag.
               An index set is the list of its pairs in iteration order (ascending global index; the
               theorems assume *strictly* ascending, i.e. every global index at most once per set).
* `Wire`       what `MPITraits<IndexPair<TG,ParallelLocalIndex<TA>>>` transmits: global index and attribute.
* `RIdx`       a `RemoteIndex`: the attribute on the remote process and (the pointer to) the local pair.
* `RankData`   what one process passes to `RemoteIndices`: source set, target set, whether they are two
               distinct objects (`two`), `includeSelf`, neighbour hints.
* `System`     number of processes `P` and the data of every rank.
* `RMap`       `std::map<int, pair<RemoteIndexList*,RemoteIndexList*>>`: list of `(rank, send, receive)`
               in ascending rank order.

Functions mirror the C++ (after the repairs fixes/C04_*.patch):
`published`/`mkMsg` = `packEntries` + the message header, `unpackLoop` = single-list `unpackIndices`
(merge-join with the rewind on repeated remote globals and the `fromOurSelf` rule), `unpackBoth` = two-list
`unpackIndices`, `unpackCreateRemote` (four `(twoIndexSets, sendTwo)` cases), `buildRemote`
(self message, then ring rounds or hinted neighbours in arrival order), `RIState` (sequence numbers,
`rebuild`, `isSynced`).  Core Lean only.
-/
namespace DV.C04

/-- one `IndexPair<GlobalIndex, ParallelLocalIndex<Attribute>>` -/
structure Pair where
  /-- global index -/
  g : Int
  /-- local index -/
  l : Nat
  /-- attribute (stored as a char in the C++) -/
  a : Nat
  /-- public flag -/
  pub : Bool
  deriving DecidableEq, Repr, Inhabited

/-- the part of a pair that is transmitted (global index, attribute) -/
structure Wire where
  g : Int
  a : Nat
  deriving DecidableEq, Repr, Inhabited

/-- `RemoteIndex`: attribute on the remote process + the local index pair it points to -/
structure RIdx where
  ra : Nat
  loc : Pair
  deriving DecidableEq, Repr, Inhabited

/-- the pairs a process publishes: all (`ignorePublic`) or the public ones, in set order (`packEntries`) -/
def published (ign : Bool) (s : List Pair) : List Pair := s.filter (fun p => ign || p.pub)

def Pair.wire (p : Pair) : Wire := ⟨p.g, p.a⟩

/-- the packed form of a list of pairs -/
def wire (s : List Pair) : List Wire := s.map Pair.wire

/-! ### single-list `unpackIndices` -/

/-- inner `while(localIndex<localEntries && local[localIndex]->global()==index.global())`:
    the remote indices created for the remote entry `r` and the local suffix after the run of equal globals.
    `fromSelf`: entries whose attribute equals the remote one are skipped. -/
def takeSame (fromSelf : Bool) (r : Wire) : List Pair → List RIdx × List Pair
  | [] => ([], [])
  | p :: ps =>
    if p.g = r.g then
      let rest := takeSame fromSelf r ps
      (if !fromSelf || r.a != p.a then ⟨r.a, p⟩ :: rest.1 else rest.1, rest.2)
    else ([], p :: ps)

/-- does the next remote entry repeat the global index of `r`?  (`index.global()==oldGlobal` after the next
    `MPI_Unpack`; `oldGlobal` always equals the global of the entry unpacked before) -/
def rewinds (r : Wire) : List Wire → Bool
  | [] => false
  | r' :: _ => r'.g == r.g

/-- outer loop of `unpackIndices(remote, remoteEntries, local, …, fromOurSelf)`; first argument: the remote
    entries still to be unpacked including the current one, second: `local[localIndex..]`.
    One step = everything done while `index` is the current remote entry:
    skip local entries with smaller global (`++localIndex`), stop when the local entries are exhausted,
    on equality collect the run and either rewind (`localIndex=oldLocalIndex`) or go on behind the run,
    on a larger local global just unpack the next remote entry. -/
def unpackLoop (fromSelf : Bool) : List Wire → List Pair → List RIdx
  | [], _ => []
  | r :: rs, loc =>
    let loc1 := loc.dropWhile (fun p => p.g < r.g)
    match loc1 with
    | [] => []
    | p :: _ =>
      if p.g = r.g then
        let t := takeSame fromSelf r loc1
        t.1 ++ unpackLoop fromSelf rs (if rewinds r rs then loc1 else t.2)
      else unpackLoop fromSelf rs loc1

/-- `unpackIndices(remote, remoteEntries, local, localEntries, p_in, …, position, …, fromOurSelf)`:
    result list and the rest of the buffer (the trailing `while(++n_in < remoteEntries) MPI_Unpack` consumes
    whatever the loop left, so exactly `n` entries are consumed; nothing is read when `n = 0`). -/
def unpackIndices (fromSelf : Bool) (buf : List Wire) (n : Nat) (loc : List Pair) : List RIdx × List Wire :=
  if n = 0 then ([], buf) else (unpackLoop fromSelf (buf.take n) loc, buf.drop n)

/-! ### two-list `unpackIndices` (remote has one set, we have two) -/

/-- `if(i<entries && local[i]->global()==index.global()) list.push_back(RemoteIndex(attribute, local[i]))` -/
def headMatch (r : Wire) : List Pair → List RIdx
  | [] => []
  | p :: _ => if p.g = r.g then [⟨r.a, p⟩] else []

/-- `unpackIndices(send, receive, remoteEntries, localSource, …, localDest, …)`; returns (send, receive).
    (With fixes/C04_localdest_index.patch: the receive entry points to `localDest[destIndex]`.) -/
def unpackBoth : List Wire → List Pair → List Pair → List RIdx × List RIdx
  | [], _, _ => ([], [])
  | r :: rs, ls, ld =>
    if ls.isEmpty && ld.isEmpty then ([], [])
    else
      let ls1 := ls.dropWhile (fun p => p.g < r.g)
      let ld1 := ld.dropWhile (fun p => p.g < r.g)
      let rest := unpackBoth rs ls1 ld1
      (headMatch r ls1 ++ rest.1, headMatch r ld1 ++ rest.2)

/-! ### messages and `unpackCreateRemote` -/

/-- the packed buffer: `sendTwo`, `sourcePublish`, `destPublish`, then the entries -/
structure Msg where
  two : Bool
  nS : Nat
  nT : Nat
  ents : List Wire
  deriving Repr

/-- what one process hands to `RemoteIndices` -/
structure RankData where
  /-- source index set -/
  src : List Pair := []
  /-- target index set (only meaningful when `two`) -/
  tgt : List Pair := []
  /-- `source_ != target_`: two distinct index set objects -/
  two : Bool := false
  /-- `includeSelf` -/
  incl : Bool := false
  /-- neighbour hints (`setNeighbours`); empty = ring -/
  hints : List Nat := []
  deriving Repr, Inhabited

/-- the target index set the process really uses -/
def RankData.tgtOf (d : RankData) : List Pair := if d.two then d.tgt else d.src

/-- published source pairs (`sourcePairs`) -/
def RankData.srcPairs (ign : Bool) (d : RankData) : List Pair := published ign d.src

/-- published target pairs (`destPairs`; aliases `sourcePairs` for one index set) -/
def RankData.dstPairs (ign : Bool) (d : RankData) : List Pair := published ign d.tgtOf

/-- the message a process packs in `buildRemote` -/
def mkMsg (ign : Bool) (d : RankData) : Msg :=
  let s := published ign d.src
  let t := if d.two then published ign d.tgt else []
  { two := d.two, nS := s.length, nT := t.length, ents := wire s ++ wire t }

/-- `unpackCreateRemote`: the (send, receive) lists created from a message, `none` when both are empty
    (nothing is inserted into the map).  `srcP`/`dstP` are the local published pairs, `sendTwo` the local
    `source_ != target_`.  When the remote sent one set and we have one, send and receive are the same list. -/
def unpackCreateRemote (m : Msg) (srcP dstP : List Pair) (sendTwo fromSelf : Bool) :
    Option (List RIdx × List RIdx) :=
  let sr : List RIdx × List RIdx :=
    if !m.two then
      if sendTwo then unpackBoth (m.ents.take m.nS) srcP dstP
      else
        let r := (unpackIndices fromSelf m.ents m.nS srcP).1
        (r, r)
    else
      let rcv := unpackIndices fromSelf m.ents m.nS dstP
      let snd := unpackIndices fromSelf rcv.2 m.nT srcP
      (snd.1, rcv.1)
  if sr.2.isEmpty && sr.1.isEmpty then none else some sr

/-! ### the map rank → lists -/

abbrev Lists := List RIdx × List RIdx
abbrev RMap := List (Nat × Lists)

/-- `std::map::insert`: ascending keys, an existing key is kept -/
def RMap.insert : RMap → Nat → Lists → RMap
  | [], k, v => [(k, v)]
  | (k', v') :: rest, k, v =>
    if k < k' then (k, v) :: (k', v') :: rest
    else if k = k' then (k', v') :: rest
    else (k', v') :: RMap.insert rest k v

def RMap.add (m : RMap) (k : Nat) : Option Lists → RMap
  | none => m
  | some v => m.insert k v

def RMap.find : RMap → Nat → Option Lists
  | [], _ => none
  | (k', v') :: rest, k => if k = k' then some v' else RMap.find rest k

/-- send list for process `q` (empty when `q` has no entry) -/
def RMap.sendList (m : RMap) (q : Nat) : List RIdx := ((m.find q).map (·.1)).getD []
/-- receive list for process `q` -/
def RMap.recvList (m : RMap) (q : Nat) : List RIdx := ((m.find q).map (·.2)).getD []

/-! ### `buildRemote` -/

structure System where
  /-- number of processes -/
  P : Nat
  /-- data of rank `p` (only `p < P` matters) -/
  rank : Nat → RankData

/-- sorted insertion without duplicates (`std::set<int>::insert`) -/
def insertSet (k : Nat) : List Nat → List Nat
  | [] => [k]
  | x :: xs => if k < x then k :: x :: xs else if k = x then x :: xs else x :: insertSet k xs

/-- `neighbourIds` after `neighbourIds.erase(rank)`, ascending -/
def nbIds (d : RankData) (p : Nat) : List Nat :=
  (d.hints.filter (· != p)).foldl (fun s k => insertSet k s) []

/-- what rank `p` creates from the message of rank `q` -/
def fromRank (ign : Bool) (sys : System) (p q : Nat) (fromSelf : Bool) : Option Lists :=
  let me := sys.rank p
  unpackCreateRemote (mkMsg ign (sys.rank q)) (me.srcPairs ign) (me.dstPairs ign) me.two fromSelf

/-- the ranks whose message arrives in ring round 1, 2, …, P-1: `(rank+procs-proc)%procs` -/
def ringOrder (P p : Nat) : List Nat := (List.range' 1 (P - 1)).map (fun k => (p + P - k) % P)

/-- process the messages of the ranks in `qs` one after the other -/
def receiveAll (ign : Bool) (sys : System) (p : Nat) (m : RMap) (qs : List Nat) : RMap :=
  qs.foldl (fun m q => m.add q (fromRank ign sys p q false)) m

/-- the map after the own message has been handled -/
def selfPart (ign : Bool) (sys : System) (p : Nat) : RMap :=
  let me := sys.rank p
  if me.two || me.incl then RMap.add [] p (fromRank ign sys p p me.incl) else []

/-- `buildRemote<ignorePublic>(includeSelf)` on rank `p`.  `order`: the order in which
    `MPI_Probe(MPI_ANY_SOURCE)` delivers the messages of the hinted neighbours (neighbour mode only). -/
def buildRemote (ign : Bool) (sys : System) (p : Nat) (order : List Nat) : RMap :=
  let me := sys.rank p
  if sys.P == 1 && !(me.two || me.incl) then []
  else
    let m0 := selfPart ign sys p
    if (nbIds me p).isEmpty then receiveAll ign sys p m0 (ringOrder sys.P p)
    else receiveAll ign sys p m0 order

/-- the deterministic instance used by the driver: neighbours in ascending order -/
def buildRemoteStd (ign : Bool) (sys : System) (p : Nat) : RMap :=
  buildRemote ign sys p (nbIds (sys.rank p) p)

/-! ### staleness: `rebuild`, `isSynced` -/

structure RIState where
  sourceSeqNo : Int := -1
  destSeqNo : Int := -1
  publicIgnored : Bool := false
  firstBuild : Bool := true
  remote : RMap := []
  deriving Repr

/-- `isSynced()`; `srcSeq`/`dstSeq` are the current `seqNo()` of the source and target index set objects -/
def RIState.isSynced (st : RIState) (srcSeq dstSeq : Nat) : Bool :=
  st.sourceSeqNo == (srcSeq : Int) && st.destSeqNo == (dstSeq : Int)

/-- `rebuild<ignorePublic>()`; `build ()` is the collective `buildRemote` -/
def RIState.rebuild (st : RIState) (ign : Bool) (srcSeq dstSeq : Nat) (build : Unit → RMap) : RIState :=
  if st.firstBuild || ign != st.publicIgnored || !st.isSynced srcSeq dstSeq then
    { sourceSeqNo := srcSeq, destSeqNo := dstSeq, publicIgnored := ign, firstBuild := false, remote := build () }
  else st

/-- the sequence numbers of the two index set objects a `RemoteIndices` refers to -/
structure Seqs where
  src : Nat
  dst : Nat
  deriving Repr, DecidableEq

/-- things that can happen to index sets between two observations -/
inductive Resize where
  /-- `beginResize … endResize` on the source index set -/
  | source
  /-- … on the target index set -/
  | target
  /-- … on an index set the object does not refer to -/
  | other
  deriving Repr, DecidableEq

/-- `endResize` increments `seqNo_` of the resized object; for one index set source and target are the same
    object -/
def Seqs.apply (two : Bool) (s : Seqs) : Resize → Seqs
  | .source => if two then { s with src := s.src + 1 } else { src := s.src + 1, dst := s.dst + 1 }
  | .target => if two then { s with dst := s.dst + 1 } else { src := s.src + 1, dst := s.dst + 1 }
  | .other => s

/-! ### specification vocabulary (used by the theorems in Props/C04.lean and by C05 / C13) -/

/-- strictly ascending global indices: every global index at most once (`NoDupGlobals`) -/
def StrictG (l : List Pair) : Prop := l.Pairwise (fun x y => x.g < y.g)

/-- ascending global indices, repetitions allowed -/
def SortedG (l : List Pair) : Prop := l.Pairwise (fun x y => x.g ≤ y.g)

def StrictW (l : List Wire) : Prop := l.Pairwise (fun x y => x.g < y.g)
def SortedW (l : List Wire) : Prop := l.Pairwise (fun x y => x.g ≤ y.g)

instance : DecidablePred StrictG := fun l => by unfold StrictG; infer_instance
instance : DecidablePred SortedG := fun l => by unfold SortedG; infer_instance
instance : DecidablePred StrictW := fun l => by unfold StrictW; infer_instance
instance : DecidablePred SortedW := fun l => by unfold SortedW; infer_instance

/-- the remote index the local pair `p` gets: the attribute of the remote entry with the same global index
    (`fromSelf`: unless the attributes are equal) -/
def joinOne (fromSelf : Bool) (rem : List Wire) (p : Pair) : Option RIdx :=
  match rem.find? (fun r => r.g == p.g) with
  | some r => if fromSelf && r.a == p.a then none else some ⟨r.a, p⟩
  | none => none

/-- set-theoretic definition for index sets without repeated globals: one entry per local pair whose global
    index also occurs remotely, in local (= ascending global) order, carrying the remote attribute -/
def join (fromSelf : Bool) (loc : List Pair) (rem : List Wire) : List RIdx := loc.filterMap (joinOne fromSelf rem)

/-- `spec A B`: the remote indices between the own published set `A` and the published set `B` of the other
    process (doc/comm/communication.tex, eqs. ri_s_set / ri_t_set) -/
def spec (A B : List Pair) : List RIdx := join false A (wire B)

/-- general definition (repeated globals allowed): all pairs (remote entry, local pair) with equal global
    index, ordered by remote entry first -/
def joinAll (fromSelf : Bool) (loc : List Pair) (rem : List Wire) : List RIdx :=
  rem.flatMap fun r => loc.filterMap fun p =>
    if p.g = r.g ∧ (!fromSelf || r.a != p.a) then some ⟨r.a, p⟩ else none

/-- every index set of every rank below `P` has each global index at most once -/
def System.Strict (sys : System) : Prop :=
  ∀ p, p < sys.P → StrictG (sys.rank p).src ∧ StrictG (sys.rank p).tgt

/-- keys of the map strictly ascending -/
def RMap.SortedKeys (m : RMap) : Prop := m.Pairwise (fun a b => a.1 < b.1)
instance : DecidablePred RMap.SortedKeys := fun m => by unfold RMap.SortedKeys; infer_instance

/-- the hints of rank `p` name every other rank it shares a published index with -/
def HintsCover (ign : Bool) (sys : System) (p : Nat) : Prop :=
  ∀ q, q < sys.P → q ≠ p → q ∉ nbIds (sys.rank p) p →
    spec ((sys.rank p).srcPairs ign) ((sys.rank q).dstPairs ign) = [] ∧
    spec ((sys.rank p).dstPairs ign) ((sys.rank q).srcPairs ign) = []

/-- the state of the index-set sequence numbers after a list of resizes -/
def Seqs.applyAll (two : Bool) (s : Seqs) (evs : List Resize) : Seqs := evs.foldl (Seqs.apply two) s

/-! ### vocabulary for the system-level theorems -/

/-- the lists `unpackCreateRemote` builds, before the emptiness test -/
def specLists (fs ign : Bool) (me other : RankData) : Lists :=
  (join fs (me.srcPairs ign) (wire (other.dstPairs ign)), join fs (me.dstPairs ign) (wire (other.srcPairs ign)))

def optLists (l : Lists) : Option Lists := if l.2.isEmpty && l.1.isEmpty then none else some l

/-- the ranks whose messages rank `p` processes after its own -/
def sources (sys : System) (p : Nat) (order : List Nat) : List Nat :=
  if (nbIds (sys.rank p) p).isEmpty then ringOrder sys.P p else order

/-- the processed ranks are other ranks of the communicator -/
def ValidSources (sys : System) (p : Nat) (order : List Nat) : Prop :=
  ∀ q ∈ sources sys p order, q < sys.P ∧ q ≠ p

/-- the arrival order is a permutation of the hinted neighbours, which are ranks of the communicator -/
def ValidOrder (sys : System) (p : Nat) (order : List Nat) : Prop :=
  order.Perm (nbIds (sys.rank p) p) ∧ ∀ q ∈ nbIds (sys.rank p) p, q < sys.P

/-- ring mode, or neighbour mode with hints that name every rank sharing a published index -/
def GoodMode (ign : Bool) (sys : System) (p : Nat) (order : List Nat) : Prop :=
  nbIds (sys.rank p) p = [] ∨ (ValidOrder sys p order ∧ HintsCover ign sys p)


/-- remote index list strictly ascending in the global index of the local pair -/
def StrictR (l : List RIdx) : Prop := l.Pairwise (fun x y => x.loc.g < y.loc.g)
instance : DecidablePred StrictR := fun l => by unfold StrictR; infer_instance

/-- the same system without neighbour hints (every rank in ring mode) -/
def System.ring (sys : System) : System :=
  { P := sys.P, rank := fun q => { sys.rank q with hints := [] } }

end DV.C04
