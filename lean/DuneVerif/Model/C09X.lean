import DuneVerif.Model.C09LU
/-!
# C09 — second part of the executable model (core Lean only)

* the remaining functions of the abstraction layer, executed from what the translator reads in `defaults.hh`:
  `mask`, `maskOr`, `maskAnd`, the default reductions (`allTrue`/`anyFalse`/`allFalse` through the mandatory
  `anyTrue`), the horizontal `max`/`min` loops, `implCast`, nested broadcast;
* `SimdLike.nested S₁ S₂`: `LoopSIMD<LoopSIMD<·,S₂>,S₁>` as an instance of the structure the dense algorithms are
  written over (so every dense theorem also speaks about SIMD-of-SIMD numbers);
* the remaining dense kernels, for *rectangular* matrices: `mv mtv umv umtv mmv mmtv usmv usmtv`, `leftmultiply`,
  the Frobenius / infinity norms of a matrix and the norms / dot product / axpy of a vector of SIMD numbers.
-/
namespace DV.C09
open Gen

-- ------------------------------------------------------------------------------------------------
-- operator names used by defaults.hh -> the operators loop.hh defines
-- ------------------------------------------------------------------------------------------------

def Gen.CmpOpName.symbol : CmpOpName → String
  | .lt => "<" | .gt => ">" | .le => "<=" | .ge => ">=" | .eq => "==" | .ne => "!="
def Gen.BoolOpName.symbol : BoolOpName → String
  | .land => "&&" | .lor => "||"
/-- the comparison operator of that name among those loop.hh defines (`none`: loop.hh has no such operator) -/
def Gen.CmpOp.ofName (n : CmpOpName) : Option CmpOp := CmpOp.all.find? fun o => o.symbol == n.symbol
def Gen.BoolOp.ofName (n : BoolOpName) : Option BoolOp := BoolOp.all.find? fun o => o.symbol == n.symbol

namespace Simd
variable {α : Type} {S S₂ : Nat}

-- compound assignment whose scalar operand is a lane of the destination itself ------------------------------

/-- `v OP= Simd::lane(k, v)`: `lane(k, v)` is a reference into `v`.  If the operator takes its scalar **by value**
    (`scalarByRef = false`) the loop combines every lane with the value lane `k` had before the call; if it takes it
    **by reference** the loop re-reads lane `k` of the object it is modifying in every iteration. -/
def ipVA (L : Loop) (f : α → α → Option α) (self : Vec α S) (k : Nat) : Option (Vec α S) :=
  match L.args with
  | [.vec 0 ia, .scalar] =>
    (self[k]?).bind fun s0 =>
      loopIP S L (fun i cur => (rd cur ia i).bind fun x =>
        (if L.scalarByRef then cur[k]? else some s0).bind fun s => f x s) self
  | _ => none

def assignVA (sem : AssignOp → α → α → Option α) (op : AssignOp) (a : Vec α S) (k : Nat) :=
  ipVA loop_ASSIGNMENT_OP_vs (sem op) a k

/-- the same for a vector of vectors: the outer loop applies the inner operator to every entry with the same scalar
    parameter; by reference, the entry that holds lane `k` aliases inside the inner loop as well -/
def ipVANested (L : Loop) (f : α → α → Option α) (self : Vec (Vec α S₂) S) (k : Nat) : Option (Vec (Vec α S₂) S) :=
  match L.args with
  | [.vec 0 ia, .scalar] =>
    (laneNested k self).bind fun s0 =>
      loopIP S L (fun i cur => (rd cur ia i).bind fun e =>
        if L.scalarByRef then
          (ixEval S i ia).bind fun idx =>
            if idx = laneOuter k S₂ then ipVA L f e (laneInner k S₂)
            else (laneNested k cur).bind fun s => ipVS L f e s
        else ipVS L f e s0) self
  | _ => none

def assignVANested (sem : AssignOp → α → α → Option α) (op : AssignOp) (a : Vec (Vec α S₂) S) (k : Nat) :=
  ipVANested loop_ASSIGNMENT_OP_vs (sem op) a k

-- mask / maskOr / maskAnd (defaults.hh) ------------------------------------------------------------------

/-- `Simd::mask(v)` for a vector that is not a mask: `v OP Copy(Scalar<Copy>(0))`, a vector-vector comparison with
    the broadcast zero -/
def mask (sem : CmpOp → α → α → Option Bool) (zero : α) (v : Vec α S) : Option (Vec Bool S) :=
  (CmpOp.ofName maskCmp).bind fun op => compareVV sem op v (broadcast zero)

def maskNested (sem : CmpOp → α → α → Option Bool) (zero : α) (v : Vec (Vec α S₂) S) : Option (Vec (Vec Bool S₂) S) :=
  (CmpOp.ofName maskCmp).bind fun op => binVV loop_COMPARISON_OP_vv (compareVV sem op) v (broadcast (broadcast zero))

/-- `maskOr` (`orOp := maskOrOp`) / `maskAnd` (`orOp := maskAndOp`): `mask(v1) OP mask(v2)`; `ma`, `mb` are the two
    masks (`Simd::mask` of a mask is the mask itself) -/
def maskCombine (name : BoolOpName) (lsem : BoolOp → Bool → Bool → Option Bool) (ma mb : Option (Vec Bool S)) :
    Option (Vec Bool S) :=
  ma.bind fun ma => mb.bind fun mb => (BoolOp.ofName name).bind fun op => logicVV lsem op ma mb

def maskCombineNested (name : BoolOpName) (lsem : BoolOp → Bool → Bool → Option Bool)
    (ma mb : Option (Vec (Vec Bool S₂) S)) : Option (Vec (Vec Bool S₂) S) :=
  ma.bind fun ma => mb.bind fun mb => (BoolOp.ofName name).bind fun op =>
    binVV loop_BOOLEAN_OP_vv (logicVV lsem op) ma mb

/-- the scalar meaning of `&&` / `||` on `bool` -/
def boolSem : BoolOp → Bool → Bool → Option Bool := fun op a b =>
  if op.symbol == "&&" then some (a && b) else if op.symbol == "||" then some (a || b) else none

-- default reductions (defaults.hh) ----------------------------------------------------------------------

/-- `[!] anyTrue([!] mask)` for a mask type `M` given by its mandatory `anyTrue` and its `operator!` -/
def defaultReduce {M : Type} (D : DefRed) (anyTrue : M → Option Bool) (lnot : M → Option M) (m : M) : Option Bool :=
  (if D.innerNot then lnot m else some m).bind fun m' => (anyTrue m').map fun r => if D.outerNot then !r else r

def defaultOf : RedKind → Option DefRed
  | .anyTrue => none   -- `= delete`: every SIMD type must provide it
  | .allTrue => some defred_allTrue
  | .anyFalse => some defred_anyFalse
  | .allFalse => some defred_allFalse

/-- reduction `k` of a flat mask type that provides only `anyTrue` and `operator!` (both the LoopSIMD ones) -/
def reduceDefault (k : RedKind) (m : Vec Bool S) : Option Bool :=
  match defaultOf k with
  | none => reduceFlat .anyTrue m
  | some D => defaultReduce D (reduceFlat .anyTrue) (lnot (fun b => some b)) m

-- horizontal max / min (defaults.hh), executed from the translated loop ------------------------------------

/-- `m = lane(init, v); for (l = lo; l < n - hiMinus; ++l) if (TEST) m = lane(l, v); return m;` -/
def hreduce (H : HLoop) (lt : α → α → Bool) (n : Nat) (get : Nat → Option α) : Option α :=
  (get H.init).bind fun m0 =>
    (List.range' H.lo (n - H.hiMinus - H.lo)).foldl (fun m l => m.bind fun m => (get l).map fun x =>
      if (if H.accLeft then lt m x else lt x m) then x else m) (some m0)

def hmaxFlat (lt : α → α → Bool) (v : Vec α S) : Option α := hreduce hloop_max lt (laneCount S 1) (lane · v)
def hminFlat (lt : α → α → Bool) (v : Vec α S) : Option α := hreduce hloop_min lt (laneCount S 1) (lane · v)
def hmaxNested (lt : α → α → Bool) (v : Vec (Vec α S₂) S) : Option α :=
  hreduce hloop_max lt (laneCount S S₂) (laneNested · v)
def hminNested (lt : α → α → Bool) (v : Vec (Vec α S₂) S) : Option α :=
  hreduce hloop_min lt (laneCount S S₂) (laneNested · v)

-- implCast (defaults.hh) -----------------------------------------------------------------------------------

/-- the result of `implCast` indexed by lane number: `V result(Scalar<V>(0)); for (l : range(n))
    lane(DST l, result) = lane(SRC l, u)` -/
def implCastLanes (n : Nat) (zero : α) (getU : Nat → Option α) : Option (Vec α n) :=
  (List.range n).foldl (fun r l => r.bind fun r => ((ixEval n l implCastSrc).bind getU).bind fun x =>
    (ixEval n l implCastDst).bind fun d => if h : d < n then some (r.set d x h) else none) (some (Vector.replicate n zero))

/-- the flat vector whose `lane(l, ·)` is entry `l` of `r` -/
def ofLanesFlat (r : Vec α (laneCount S 1)) : Option (Vec α S) :=
  allSome (Vector.ofFn fun i : Fin S => if laneOuter i.val 1 = i.val ∧ laneInner i.val 1 = 0 then r[i.val]? else none)

/-- the nested vector whose `lane(l, ·)` is entry `l` of `r` -/
def ofLanesNested (r : Vec α (laneCount S S₂)) : Option (Vec (Vec α S₂) S) :=
  allSome (Vector.ofFn fun i : Fin S => allSome (Vector.ofFn fun j : Fin S₂ =>
    let l := i.val * S₂ + j.val
    if laneOuter l S₂ = i.val ∧ laneInner l S₂ = j.val then r[l]? else none))

/-- `implCast<LoopSIMD<T,S*S₂>>(nested)` -/
def implCastToFlat (zero : α) (u : Vec (Vec α S₂) S) : Option (Vec α (S * S₂)) :=
  (implCastLanes (laneCount (S * S₂) 1) zero (laneNested · u)).bind ofLanesFlat

/-- `implCast<LoopSIMD<LoopSIMD<T,S₂>,S>>(flat)` -/
def implCastToNested (zero : α) (u : Vec α (S * S₂)) : Option (Vec (Vec α S₂) S) :=
  (implCastLanes (laneCount S S₂) zero (lane · u)).bind ofLanesNested

/-- `real` / `imag` of a vector of complex numbers: the second overload of `DUNE_SIMD_LOOP_STD_UNARY_OP` -/
def stdUn2 {β : Type} (sem : StdUnOp → α → Option β) (op : StdUnOp) (a : Vec α S) := un loop_STD_UNARY_OP_v2 (sem op) a

/-- the broadcasting constructor of a vector of vectors: `fill(i)` converts the scalar to the entry type -/
def broadcastNested (x : α) : Vec (Vec α S₂) S := broadcast (broadcast x)

end Simd

-- ------------------------------------------------------------------------------------------------
-- type-level functions: the `Ty` of a shape
-- ------------------------------------------------------------------------------------------------

def Gen.Ty.flat (name : String) (S : Nat) : Ty := .loop (.scalar name) S
def Gen.Ty.nested (name : String) (S₁ S₂ : Nat) : Ty := .loop (.loop (.scalar name) S₂) S₁
def Gen.Ty.scalarName : Ty → String
  | .scalar s => s
  | .loop _ _ => "vector"

-- ------------------------------------------------------------------------------------------------
-- LoopSIMD<LoopSIMD<·,S₂>,S₁> as a SimdLike
-- ------------------------------------------------------------------------------------------------

theorem nested_div_lt {S₁ S₂ : Nat} (l : Fin (S₁ * S₂)) : l.val / S₂ < S₁ :=
  Nat.div_lt_of_lt_mul (Nat.lt_of_lt_of_eq l.isLt (Nat.mul_comm _ _))
theorem nested_mod_lt {S₁ S₂ : Nat} (l : Fin (S₁ * S₂)) : l.val % S₂ < S₂ := by
  have h : l.val < S₁ * S₂ := l.isLt
  cases S₂ with
  | zero => simp at h
  | succ k => exact Nat.mod_lt _ (Nat.succ_pos k)

/-- lanes are numbered outer-major: lane `l` is lane `l % S₂` of entry `l / S₂` (loop.hh `lane`); operators apply
    the inner operator in every entry; `cond` selects per lane; the reductions fold the inner reductions -/
def SimdLike.nested (S₁ S₂ : Nat) : SimdLike (fun α => Vec (Vec α S₂) S₁) (S₁ * S₂) where
  lane := fun l v => ((v[l.val / S₂]'(nested_div_lt l))[l.val % S₂]'(nested_mod_lt l))
  setLane := fun l x v =>
    v.set (l.val / S₂) (((v[l.val / S₂]'(nested_div_lt l)).set (l.val % S₂) x (nested_mod_lt l))) (nested_div_lt l)
  bcast := fun x => Vector.replicate S₁ (Vector.replicate S₂ x)
  map := fun f v => v.map fun e => e.map f
  map2 := fun f a b => Vector.zipWith (fun x y => Vector.zipWith f x y) a b
  cond := fun m a b => Vector.ofFn fun i => Vector.ofFn fun j => if (m[i])[j] then (a[i])[j] else (b[i])[j]
  anyTrue := fun m => m.toList.foldl (fun out e => out || (SimdLike.loop S₂).anyTrue e) false
  allTrue := fun m => m.toList.foldl (fun out e => out && (SimdLike.loop S₂).allTrue e) true

-- ------------------------------------------------------------------------------------------------
-- rectangular dense kernels and norms
-- ------------------------------------------------------------------------------------------------

abbrev RMat (α : Type) (r c : Nat) := Vector (Vector α c) r
def RMat.get {α : Type} {r c : Nat} (A : RMat α r c) (i : Fin r) (j : Fin c) : α := (A[i])[j]

section Rect
variable {V : Type → Type} {L : Nat} (X : SimdLike V L) {K : Type} (R : Arith K) {r c n : Nat}

/-- `for i < rows: [y[i] = pre;] for j < cols: y[i] = upd y[i] (term A[i][j] x[j])` (`mv`, `umv`, `mmv`, `usmv`) -/
def kernelN (pre : Option (V K)) (upd term : V K → V K → V K) (A : RMat (V K) r c) (x : Vector (V K) c)
    (y : Vector (V K) r) : Vector (V K) r :=
  (List.finRange r).foldl (fun (y : Vector (V K) r) (i : Fin r) =>
    let y := match pre with | some z => y.set i z | none => y
    (List.finRange c).foldl (fun (y : Vector (V K) r) (j : Fin c) => y.set i (upd y[i] (term (A.get i j) x[j]))) y) y

/-- `for i < rows: for j < cols: y[j] = upd y[j] (term A[i][j] x[i])` (`umtv`, `mmtv`, `usmtv`) -/
def kernelT (upd term : V K → V K → V K) (A : RMat (V K) r c) (x : Vector (V K) r) (y : Vector (V K) c) :
    Vector (V K) c :=
  (List.finRange r).foldl (fun (y : Vector (V K) c) (i : Fin r) =>
    (List.finRange c).foldl (fun (y : Vector (V K) c) (j : Fin c) => y.set j (upd y[j] (term (A.get i j) x[i]))) y) y

/-- `y = A x` (`y` is overwritten entry by entry: `y[i] = 0; y[i] += A[i][j]*x[j]`) -/
def mvR (A : RMat (V K) r c) (x : Vector (V K) c) (y : Vector (V K) r) : Vector (V K) r :=
  kernelN (some (X.bcast R.zero)) (vadd X R) (vmul X R) A x y
/-- `y = Aᵀ x`: `for i < cols: y[i] = 0; for j < rows: y[i] += A[j][i]*x[j]` -/
def mtvR (A : RMat (V K) r c) (x : Vector (V K) r) (y : Vector (V K) c) : Vector (V K) c :=
  (List.finRange c).foldl (fun (y : Vector (V K) c) (i : Fin c) =>
    let y := y.set i (X.bcast R.zero)
    (List.finRange r).foldl (fun (y : Vector (V K) c) (j : Fin r) => y.set i (vadd X R y[i] (vmul X R (A.get j i) x[j]))) y) y
def umvR (A : RMat (V K) r c) (x : Vector (V K) c) (y : Vector (V K) r) := kernelN none (vadd X R) (vmul X R) A x y
def mmvR (A : RMat (V K) r c) (x : Vector (V K) c) (y : Vector (V K) r) := kernelN none (vsub X R) (vmul X R) A x y
/-- `y[i] += alpha * A[i][j] * x[j]`, i.e. `(alpha * A[i][j]) * x[j]` -/
def usmvR (alpha : V K) (A : RMat (V K) r c) (x : Vector (V K) c) (y : Vector (V K) r) :=
  kernelN none (vadd X R) (fun a xj => vmul X R (vmul X R alpha a) xj) A x y
def umtvR (A : RMat (V K) r c) (x : Vector (V K) r) (y : Vector (V K) c) := kernelT (vadd X R) (vmul X R) A x y
def mmtvR (A : RMat (V K) r c) (x : Vector (V K) r) (y : Vector (V K) c) := kernelT (vsub X R) (vmul X R) A x y
def usmtvR (alpha : V K) (A : RMat (V K) r c) (x : Vector (V K) r) (y : Vector (V K) c) :=
  kernelT (vadd X R) (fun a xi => vmul X R (vmul X R alpha a) xi) A x y

/-- `DenseMatrix::leftmultiply`: `C = *this; (*this)[i][j] = 0; (*this)[i][j] += M[i][k]*C[k][j]` (`M` square) -/
def leftmultiply (A : RMat (V K) n c) (M : Mat (V K) n) : RMat (V K) n c :=
  Vector.ofFn fun i => Vector.ofFn fun j =>
    (List.finRange n).foldl (fun (acc : V K) (k : Fin n) => vadd X R acc (vmul X R (M.get i k) (RMat.get A k j))) (X.bcast R.zero)

-- vectors of SIMD numbers
/-- `one_norm`: `result += abs(x[i])` -/
def oneNorm (v : Vector (V K) n) : V K :=
  (List.finRange n).foldl (fun (res : V K) (i : Fin n) => vadd X R res (vabs X R v[i])) (X.bcast R.zero)
/-- `two_norm2`: `result += x[i]*x[i]` -/
def twoNorm2 (v : Vector (V K) n) : V K :=
  (List.finRange n).foldl (fun (res : V K) (i : Fin n) => vadd X R res (vmul X R v[i] v[i])) (X.bcast R.zero)
/-- `two_norm = sqrt(two_norm2)`; `sq` is the scalar square root -/
def twoNorm (sq : K → K) (v : Vector (V K) n) : V K := X.map sq (twoNorm2 X R v)
/-- `infinity_norm` of a vector, NaN-propagating variant: `a = abs(x); norm = max(a, norm); isNaN += a` -/
def vecInfinityNorm (v : Vector (V K) n) : V K :=
  let p := (List.finRange n).foldl (fun (p : V K × V K) (i : Fin n) =>
    let a := vabs X R v[i]
    (vmax X R a p.1, vadd X R p.2 a)) (X.bcast R.zero, X.bcast R.one)
  vmul X R p.1 (vdiv X R p.2 p.2)
/-- `operator*` of two vectors: `result += x[i]*y[i]` -/
def dotT (a b : Vector (V K) n) : V K :=
  (List.finRange n).foldl (fun (res : V K) (i : Fin n) => vadd X R res (vmul X R a[i] b[i])) (X.bcast R.zero)
/-- `axpy`: `y[i] += a*x[i]` -/
def axpy (a : V K) (x y : Vector (V K) n) : Vector (V K) n :=
  (List.finRange n).foldl (fun (y : Vector (V K) n) (i : Fin n) => y.set i (vadd X R y[i] (vmul X R a x[i]))) y

-- rectangular matrix norms
/-- `frobenius_norm2`: `sum += row.two_norm2()` -/
def frobeniusNorm2R (A : RMat (V K) r c) : V K :=
  (List.finRange r).foldl (fun (sum : V K) (i : Fin r) => vadd X R sum (twoNorm2 X R A[i])) (X.bcast R.zero)
def frobeniusNormR (sq : K → K) (A : RMat (V K) r c) : V K := X.map sq (frobeniusNorm2R X R A)
/-- `infinity_norm` / `infinity_norm_real` (identical for real scalars), NaN-propagating variant -/
def infinityNormR (A : RMat (V K) r c) : V K :=
  let p := (List.finRange r).foldl (fun (p : V K × V K) (i : Fin r) =>
    let a := oneNorm X R A[i]
    (vmax X R a p.1, vadd X R p.2 a)) (X.bcast R.zero, X.bcast R.one)
  vmul X R p.1 (vdiv X R p.2 p.2)

end Rect

/-- lane `l` of a rectangular matrix of SIMD values -/
def laneRMat {V : Type → Type} {L : Nat} (X : SimdLike V L) {K : Type} {r c : Nat} (l : Fin L) (A : RMat (V K) r c) :
    RMat K r c :=
  A.map fun row => row.map (X.lane l)

end DV.C09
