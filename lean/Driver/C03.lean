import DuneVerif.Model.C03World
/-! line-protocol driver for C03:  `<CFG> : op;op;…`  (ops as documented in harness/cxx_c03.cc).
`CFG = N` is `ParallelIndexSet<long, ParallelLocalIndex<Flag>, N>`; the chunk size `N` of the underlying ArrayList does
not influence the abstract sequence (C11).  `CFG = NL` is `ParallelIndexSet<int, LocalIndex, N>`: the same model with
attribute 0 / public false throughout (the generic `LocalIndexComparator` returns false, which is what
`a.l.attr < b.l.attr` gives for equal attributes) and global indices restricted to the range of `int`. -/
open DV DV.C03

def showPair (p : Pair) : String :=
  s!"{p.g}:{p.l.loc}:{p.l.attr}:{if p.l.pub then 1 else 0}:{if p.l.valid then 1 else 0}"

/-- `s` = the set the observation was made on (needed to print `?` for table cells whose local number is carried by
several stored pairs: which of them the table keeps is not part of the property) -/
def showObs (s : ISet) : Obs → String
  | .ok => "ok"
  | .none_ => "none"
  | .skip => "skip"
  | .ub => "UB"
  | .err .invalidState => "ERR:InvalidState"
  | .err .range => "ERR:Range"
  | .bool b => if b then "true" else "false"
  | .pair p => showPair p
  | .nat n => toString n
  | .state .ground => "G"
  | .state .resize => "R"
  | .dump l => showList (l.map showPair)
  | .table t =>
    let cell (i : Nat) (c : Option Pair) : String :=
      match c with
      | none => "-"
      | some p => if (s.loc.filter fun q => q.l.loc == i).length > 1 then "?" else showPair p
    s!"{t.length}:" ++ showList ((List.range t.length).zipWith cell t)

/-- the value range of the global index type: `long` for the `N` configurations, `int` for the `NL` ones -/
def globalFits (plain : Bool) (g : Int) : Bool :=
  if plain then -2147483648 ≤ g ∧ g ≤ 2147483647 else -9223372036854775808 ≤ g ∧ g ≤ 9223372036854775807

def parseG (plain : Bool) (s : String) : Option Int :=
  s.toInt?.bind fun g => if globalFits plain g then some g else none

def parseOp (plain : Bool) (s : String) : Option Op :=
  match tokens s with
  | ["b"] => some .beginResize
  | ["a", g, l, a, p] =>
    match parseG plain g, l.toNat?, a.toNat?, p.toNat? with
    | some g, some l, some a, some p =>
      if a ≤ 3 ∧ p ≤ 1 ∧ (plain → a = 0 ∧ p = 0) ∧ l ≤ 9223372036854775807 then some (.add g l a (p == 1)) else none
    | _, _, _, _ => none
  | ["ag", g] => (parseG plain g).map .addG
  | ["aa", g, a, p] =>   -- add(G, ParallelLocalIndex(attribute, isPublic)): local number 0
    match parseG plain g, a.toNat?, p.toNat? with
    | some g, some a, some p => if a ≤ 3 ∧ p ≤ 1 ∧ !plain then some (.add g 0 a (p == 1)) else none
    | _, _, _ => none
  | ["d", g, a] =>
    match g.toInt?, a.toInt? with
    | some g, some a => if a < 0 then some (.markDel g 1000) else some (.markDel g a.toNat)
    | _, _ => none
  | ["e"] => some .endResize
  | ["r"] => some .renumber
  | ["x", g] => (parseG plain g).map .exists_
  | ["t", g] => (parseG plain g).map .at_
  | ["o", g] => (parseG plain g).map .get
  | ["w", g, l] =>
    match parseG plain g, l.toNat? with
    | some g, some l => if l ≤ 9223372036854775807 then some (.setLocal g l) else none
    | _, _ => none
  | ["w2", g, l] =>   -- IndexPair::setLocal(int): the same effect on the model
    match parseG plain g, l.toNat? with
    | some g, some l => if l ≤ 2147483647 then some (.setLocal g l) else none
    | _, _ => none
  | ["s"] => some .seqNo
  | ["z"] => some .size
  | ["q"] => some .state
  | ["p"] => some .dump
  | ["L"] => some .lookup
  | ["L", n] => n.toNat?.bind fun n => if n ≤ 100000 then some (.lookupN n) else none
  | _ => none

/-- protocol guard shared with the harness: no reverse table is built when a stored local number exceeds 100000 -/
def tableTooLarge (s : ISet) : Op → Bool
  | .lookup => s.loc.any (·.l.loc > 100000)
  | .lookupN _ => s.loc.any (·.l.loc > 100000)
  | _ => false

/-- ops on the second object: `c` copy-construct the snapshot, `y` assign it back, `v` look at it -/
def parseWOp (plain : Bool) (s : String) : Option WOp :=
  match tokens s with
  | ["c"] => some .snapshot
  | ["y"] => some .restore
  | ["v"] => some .view
  | _ => (parseOp plain s).map .op

def showWObs : WObs → String
  | .base s o => showObs s o
  | .ok => "ok"
  | .skip => "skip"
  | .view sn eq =>
    s!"{sn.seq}:{if sn.st == .resize then "R" else "G"}:{showList (sn.loc.map showPair)}:{if eq then "eq" else "ne"}"

/-- run the ops one by one; a history that closes a resize phase with two equal (global, attribute) keys is outside
the property's quantifier (the harness prints `outside` for it as well) -/
def runOps : World → List WOp → List String → Option (List String)
  | _, [], acc => some acc.reverse
  | w, op :: ops, acc =>
    if op = .op .endResize ∧ closesOutside w.cur then none
    else if (match op with | .op o => tableTooLarge w.cur o | _ => false) then runOps w ops ("skip" :: acc)
    else
      let (w', o) := stepW w op
      runOps w' ops (showWObs o :: acc)

def handle (line : String) : String :=
  match line.splitOn " :" with
  | [hdr, rest] =>
    match tokens hdr with
    | [n] =>
      if n ∉ ["0", "1", "2", "3", "4", "5", "8", "100", "1L", "15L", "25L"] then "bad-op" else
      let plain := n.toList.getLast? == some 'L'
      let segs := (rest.splitOn ";").filter fun s => tokens s ≠ []
      match segs.mapM (parseWOp plain) with
      | none => "bad-op"
      | some ops =>
        match runOps World.init ops [] with
        | none => "outside"
        | some obs => ";".intercalate obs
    | _ => "bad-op"
  | _ => "bad-op"

def main : IO Unit := runDriver handle
