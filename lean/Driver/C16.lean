import DuneVerif.Model.C16
/-! line-protocol driver for C16 (see harness/cxx_c16.cc for the op line grammar)

  it <kind> <vals|from:to> <op> <p> [<n|q>] <cv>
  it <kind> <vals|from:to> hist <p> <cv> : <step>;<step>;...     (i d I D a<n> s<n> p<n> m<n> n<n>)
  rg <kind> <spec> <op> [args]
  hy <ckind> <vals|from:to> <op> [args]
-/
open DV DV.C16

namespace C16Drv

def showB (b : Bool) : String := if b then "true" else "false"

/-- optional `-`, then digits; at most `maxLen` characters (the harness' `isInt` / `isLong`) -/
def parseIntN (maxLen : Nat) (s : String) : Option Int :=
  let cs := s.toList
  if cs.isEmpty || cs.length > maxLen then none else
  let ds := if cs.head? == some '-' then cs.drop 1 else cs
  if ds.isEmpty || !ds.all Char.isDigit then none else
  let v : Nat := ds.foldl (fun acc c => acc * 10 + (c.toNat - '0'.toNat)) 0
  some (if cs.head? == some '-' then -(v : Int) else (v : Int))

def parseInt12 := parseIntN 12

def longMin : Int := -(2 ^ 63)
def longMax : Int := 2 ^ 63 - 1

def parseLong (s : String) : Option Int :=
  match parseIntN 20 s with
  | some v => if longMin ≤ v ∧ v ≤ longMax then some v else none
  | none => none

/-- `[a,b,c]` with at most `maxLen` entries of absolute value at most `maxAbs` -/
def parseVals (s : String) (maxLen : Nat) (maxAbs : Int) : Option (List Int) :=
  let cs := s.toList
  if cs.length < 2 || cs.head? != some '[' || cs.getLast? != some ']' then none else
  let inner := String.ofList ((cs.drop 1).dropLast)
  if inner.isEmpty then some [] else
  match (inner.splitOn ",").mapM parseInt12 with
  | some l => if l.length ≤ maxLen ∧ l.all (fun v => decide (-maxAbs ≤ v ∧ v ≤ maxAbs)) then some l else none
  | none => none

def parseFromTo (s : String) : Option (Int × Int) :=
  match s.splitOn ":" with
  | [a, b] => match parseLong a, parseLong b with
    | some f, some t => some (f, t)
    | _, _ => none
  | _ => none

/-- kind token `name` or `name+k` (k ≤ 64) -/
def splitPlus (s : String) : Option (String × Option Nat) :=
  match s.splitOn "+" with
  | [n] => some (n, none)
  | [n, k] => match parseInt12 k with
    | some v => if 0 ≤ v ∧ v ≤ 64 ∧ !(k.toList.head? == some '-') then some (n, some v.toNat) else none
    | none => none
  | _ => none

/-- (bits, signed) of the integral types the harness instantiates -/
def irType : String → Option (Nat × Bool)
  | "ir_i8" => some (8, true) | "ir_u8" => some (8, false) | "ir_i16" => some (16, true)
  | "ir_i32" => some (32, true) | "ir_u32" => some (32, false)
  | "ir_i64" => some (64, true) | "ir_u64" => some (64, false)
  | "ir_u64h" => some (64, true)   -- IntegralRange<unsigned long> in coordinates relative to 2^63 (order preserving)
  | _ => none

def typeFits (bits : Nat) (sgn : Bool) (f t : Int) : Bool :=
  if f > t then false
  else if bits = 64 ∧ !sgn then decide (f ≥ 0)
  else if sgn then decide (-(2 ^ (bits - 1)) ≤ f ∧ t ≤ 2 ^ (bits - 1) - 1)
  else decide (0 ≤ f ∧ t ≤ 2 ^ bits - 1)

/-- operations of one iterator kind, as the facade (or the hand-written class) derives them -/
structure Ops (I : Type) where
  mkAt : Int → I
  showI : I → String
  inc : I → I
  dec : I → I
  postInc : I → I × I
  postDec : I → I × I
  addAssign : I → Int → I
  subAssign : I → Int → I
  plusPos : I → Int → Int
  minusPos : I → Int → Int
  nplusPos : I → Int → Int
  at_ : I → Int → Option Int
  deref : I → Option Int
  index : I → Int
  rel : String → Bool → I → I → Option Bool
  diff : Bool → I → I → Int
  plusI : Option (I → Int → I) := none
  minusI : Option (I → Int → I) := none
  nplusI : Option (I → Int → I) := none

structure KInfo where
  cat : Nat
  lo : Int
  n : Int
  mixedRel : Bool
  nplus : Bool
  hasIndex : Bool
  oneWay : Bool      -- only mutable → const converts (`is_convertible<const,mutable>` is false)
  hasConv : Bool := false       -- a mutable iterator converts to the const iterator
  hasBeforeEnd : Bool := false  -- container offers beforeEnd()
  hasFind : Bool := false       -- container offers find(i)

/-- legacy facade kinds: `fac` = 0 forward, 1 bidirectional, 2 random access facade; `al` = ArrayList iterators -/
def legacyOps (fac : Nat) (al : Bool) (c : List Int) : Ops It :=
  let k := if al then alCore else posCore
  { mkAt := fun p => ⟨0, p⟩
    showI := fun i => toString i.pos
    inc := Legacy.preInc k
    dec := Legacy.preDec k
    postInc := Legacy.postInc k
    postDec := Legacy.postDec k
    addAssign := Legacy.addAssign k
    subAssign := Legacy.subAssign k
    plusPos := fun i n => (Legacy.plus k i n).pos
    minusPos := fun i n => (Legacy.minus k i n).pos
    nplusPos := fun i n => (Legacy.plus k i n).pos
    at_ := fun i n => if al then alElementAt c i (Legacy.indexArg n) else elementAt c i (Legacy.indexArg n)
    deref := fun i => if al then alDereference c i else dereference c i
    index := fun i => i.pos
    rel := fun op conv l r => match op with
      | "eq" => some (if fac == 0 then Legacy.eqFw k conv l r else if fac == 1 then Legacy.eqBi k conv l r else Legacy.eq k conv l r)
      | "ne" => some (if fac == 0 then Legacy.neFw k conv l r else if fac == 1 then Legacy.neBi k conv l r else Legacy.ne k conv l r)
      | "lt" => some (Legacy.lt k conv l r)
      | "le" => some (Legacy.le k conv l r)
      | "gt" => some (Legacy.gt k conv l r)
      | "ge" => some (Legacy.ge k conv l r)
      | _ => none
    diff := Legacy.diff k
    plusI := some (Legacy.plus k)
    minusI := some (Legacy.minus k) }

/-- SLList iterators: pointer chasing over node addresses 1000, 1001, …; every iterator is carried as the
ModifyIterator pair (trailing iterator, iterator), comparisons look at the iterator only -/
def sllOps (c : List Int) : Ops (Option Nat × Option Nat) :=
  let n := c.length
  let nodes : List Nat := (List.range n).map (· + 1000)
  let core : Core (Option Nat × Option Nat) :=
    { equals := SL.mEquals, increment := SL.mNext 999 nodes, decrement := id, advance := fun i _ => i, distanceTo := fun _ _ => 0 }
  let posOf : Option Nat × Option Nat → Int := fun i => match i.2 with
    | some a => (a : Int) - 1000
    | none => (n : Int)
  { mkAt := fun p => stepsNat (SL.mNext 999 nodes) p.toNat (SL.mBegin 999 nodes)
    showI := fun i => toString (posOf i)
    inc := Legacy.preInc core
    dec := Legacy.preDec core
    postInc := Legacy.postInc core
    postDec := Legacy.postDec core
    addAssign := fun i _ => i
    subAssign := fun i _ => i
    plusPos := fun i _ => posOf i
    minusPos := fun i _ => posOf i
    nplusPos := fun i _ => posOf i
    at_ := fun _ _ => none
    deref := fun i => match i.2 with
      | some a => c[a - 1000]?
      | none => none
    index := fun _ => 0
    rel := fun op conv l r => match op with
      | "eq" => some (Legacy.eqFw core conv l r)
      | "ne" => some (Legacy.neFw core conv l r)
      | _ => none
    diff := fun _ _ _ => 0 }

def irOps (bits : Nat) (from_ : Int) : Ops IR where
  mkAt p := ⟨from_ + p⟩
  showI i := toString (i.value - from_)
  inc := IR.inc
  dec := IR.dec
  postInc := IR.postInc
  postDec := IR.postDec
  addAssign := IR.addAssign
  subAssign := IR.subAssign
  plusPos i n := (IR.plus i n).value - from_
  minusPos i n := (IR.minus i n).value - from_
  nplusPos i n := (IR.nplus n i).value - from_
  at_ i n := some (IR.index i n)
  deref i := some (IR.deref i)
  index _ := 0
  rel op _ l r := match op with
    | "eq" => some (IR.eqW bits l r) | "ne" => some (IR.neW bits l r)
    | "lt" => some (IR.ltW bits l r) | "le" => some (IR.leW bits l r)
    | "gt" => some (IR.gtW bits l r) | "ge" => some (IR.geW bits l r)
    | _ => none
  diff _ := IR.diffW bits
  plusI := some IR.plus
  minusI := some IR.minus
  nplusI := some (fun i n => IR.nplus n i)

/-- `IteratorFacade` over a base iterator `B`; `drf` is the derived class' `operator*`; `adv`: the derived class has
no incrementable base iterator, `++`/`--` take the `derived() += 1` / `derived() -= 1` branch -/
def newOps {B : Type} (adv : Bool) (b : Base B) (mk : Int → B) (pos : B → Int) (drf : B → Option Int) : Ops B where
  mkAt := mk
  showI i := toString (pos i)
  inc := if adv then NewF.preIncAdv b else NewF.preInc b
  dec := if adv then NewF.preDecAdv b else NewF.preDec b
  postInc := if adv then (NewF.stepOpsAdv b).postInc else NewF.postInc b
  postDec := if adv then (NewF.stepOpsAdv b).postDec else NewF.postDec b
  addAssign := NewF.addAssign b
  subAssign := NewF.subAssign b
  plusPos i n := pos (NewF.plus b i n)
  minusPos i n := pos (NewF.minus b i n)
  nplusPos i n := pos (NewF.plus b i n)
  at_ i n := NewF.index b drf i n
  deref := drf
  index _ := 0
  rel op _ l r := match op with
    | "eq" => some (NewF.eq b l r) | "ne" => some (NewF.ne b l r)
    -- a derived class without base iterators (`adv`) gets the sign of `it1 - it2`, one with base iterators the
    -- order of the base iterators
    | "lt" => some (if adv then NewF.lt b l r else NewF.ltB b l r) | "le" => some (if adv then NewF.le b l r else NewF.leB b l r)
    | "gt" => some (if adv then NewF.gt b l r else NewF.gtB b l r) | "ge" => some (if adv then NewF.ge b l r else NewF.geB b l r)
    | _ => none
  diff _ := NewF.diff b
  plusI := some (NewF.plus b)
  minusI := some (NewF.minus b)
  nplusI := some (NewF.plus b)

def fT (x : Int) : Int := 3 * x + 1

/-- IndexedIterator over a base iterator (std iterators or DenseIterator); comparisons, `it[n]`, `it±n`, `it1-it2`
are the wrapped iterator's -/
def indexedOps (b : Base It) (c : List Int) (start : Int) : Ops (Indexed It) where
  mkAt p := ⟨⟨0, p⟩, start + p⟩
  showI i := toString i.base.pos ++ "#" ++ toString i.index
  inc := Indexed.inc b
  dec := Indexed.dec b
  postInc := Indexed.postInc b
  postDec := Indexed.postDec b
  addAssign := Indexed.addAssign b
  subAssign := Indexed.subAssign b
  plusPos i n := (Indexed.plus b i n).pos
  minusPos i n := (Indexed.minus b i n).pos
  nplusPos i n := (Indexed.plus b i n).pos
  at_ i n := getAt c ((Indexed.plus b i n).pos)
  deref i := getAt c i.base.pos
  index i := i.index
  rel op _ l r := match op with
    | "eq" => some (Indexed.eq b l r) | "ne" => some (Indexed.ne b l r)
    | "lt" => some (Indexed.lt b l r) | "le" => some (Indexed.le b l r)
    | "gt" => some (Indexed.gt b l r) | "ge" => some (Indexed.ge b l r)
    | _ => none
  diff _ l r := Indexed.diff b l r

def showOpt : Option Int → String
  | some v => toString v
  | none => "bad-op"

/-- evaluate one iterator expression -/
def runIt {I : Type} (o : Ops I) (k : KInfo) (op : String) (args : List Int) (cv : String) : String :=
  let cvs := cv.toList
  if !cvs.all (fun ch => ch == 'm' || ch == 'c') then "bad-op" else
  let u1 := ["preinc", "postinc", "predec", "postdec", "incdec", "decinc", "deref", "index", "conv", "beforeend", "find"].contains op
  let u2 := ["addeq", "subeq", "plus", "minus", "nplus", "steps", "at"].contains op
  let bn := ["eq", "ne", "lt", "le", "gt", "ge", "diff"].contains op
  if !(u1 || u2 || bn) then "bad-op" else
  if args.length != (if u1 then 1 else 2) || cvs.length != (if bn then 2 else 1) then "bad-op" else
  let p := args.headD 0
  let n := k.n
  let lo := k.lo
  if op == "find" then
    -- `find(i)`: the iterator at `min(i,size)`
    if !k.hasFind ∨ p < 0 ∨ p > n + 4 then "bad-op" else o.showI (o.mkAt (findPos n.toNat p.toNat))
  else
  if p < lo ∨ p > n then "bad-op" else
  let it := o.mkAt p
  if u1 then
    match op with
    | "conv" => if !k.hasConv ∨ cv != "m" then "bad-op" else o.showI it   -- the converted iterator stands at the same position
    | "beforeend" => if !k.hasBeforeEnd ∨ p != n then "bad-op" else o.showI (o.mkAt (beforeEndPos n.toNat))
    | "preinc" => if p ≥ n then "bad-op" else let s := o.showI (o.inc it); s ++ " " ++ s
    | "postinc" => if p ≥ n then "bad-op" else let (r, a) := o.postInc it; o.showI r ++ " " ++ o.showI a
    | "incdec" => if p ≥ n ∨ k.cat < 1 then "bad-op" else o.showI (o.dec (o.inc it))
    | "predec" => if p ≤ lo ∨ k.cat < 1 then "bad-op" else let s := o.showI (o.dec it); s ++ " " ++ s
    | "postdec" => if p ≤ lo ∨ k.cat < 1 then "bad-op" else let (r, a) := o.postDec it; o.showI r ++ " " ++ o.showI a
    | "decinc" => if p ≤ lo ∨ k.cat < 1 then "bad-op" else o.showI (o.inc (o.dec it))
    | "deref" => if p < 0 ∨ p ≥ n then "bad-op" else showOpt (o.deref it)
    | "index" => if !k.hasIndex then "bad-op" else toString (o.index it)
    | _ => "bad-op"
  else if u2 then
    let s := args.getD 1 0
    if op == "steps" then
      if p + s < lo ∨ p + s > n ∨ (s < 0 ∧ k.cat < 1) then "bad-op"
      else o.showI (steps o.inc o.dec it s)
    else if k.cat < 2 then "bad-op" else
    let neg := op == "subeq" || op == "minus"
    let target := if neg then p - s else p + s
    if op == "at" then
      if target < 0 ∨ target ≥ n then "bad-op" else showOpt (o.at_ it s)
    else if target < lo ∨ target > n then "bad-op"
    else match op with
      | "addeq" => o.showI (o.addAssign it s)
      | "subeq" => o.showI (o.subAssign it s)
      | "plus" => toString (o.plusPos it s) ++ " " ++ o.showI it
      | "minus" => toString (o.minusPos it s) ++ " " ++ o.showI it
      | "nplus" => if !k.nplus then "bad-op" else toString (o.nplusPos it s) ++ " " ++ o.showI it
      | _ => "bad-op"
  else
    let q := args.getD 1 0
    if q < lo ∨ q > n then "bad-op" else
    let c0 := cvs.headD 'm'
    let c1 := cvs.getD 1 'm'
    -- `std::is_convertible<T2,T1>`: false only when a const iterator would have to become a mutable one
    let conv := !(k.oneWay && c0 == 'm' && c1 == 'c')
    let x := o.mkAt p
    let y := o.mkAt q
    let relOk := k.cat ≥ 2 ∧ (k.mixedRel ∨ c0 == c1)
    if op == "diff" then
      if relOk then toString (o.diff conv x y) else "bad-op"
    else if op == "eq" ∨ op == "ne" ∨ relOk then
      match o.rel op conv x y with
      | some b => showB b
      | none => "bad-op"
    else "bad-op"

structure Kind where
  name : String
  plus : Option Nat
  vals : List Int          -- container values (for from:to kinds the values from..to-1)
  fromTo : Option (Int × Int)

def rangeList (f t : Int) : List Int := (List.range (t - f).toNat).map (fun (i : Nat) => f + (i : Int))

/-- parse and validate kind token + container spec as the harness' `withKind` does -/
def parseKind (kindTok spec : String) : Option Kind :=
  match splitPlus kindTok with
  | none => none
  | some (name, plus) =>
    if (irType name).isSome || name == "trir" then
      if plus.isSome then none else
      match parseFromTo spec with
      | none => none
      | some (f, t) =>
        if f > t ∨ t - f > 64 then none else
        let ok := match irType name with
          | some (bits, sgn) => typeFits bits sgn f t
          | none => typeFits 32 true f t && decide (f ≥ -100000 ∧ t ≤ 100000)
        if ok then some ⟨name, none, rangeList f t, some (f, t)⟩ else none
    else
      match parseVals spec 12 1000000 with
      | none => none
      | some v =>
        let n := v.length
        let needPlus := ["al3", "al100", "al3p", "iiv", "iil", "iif", "iidv"].contains name
        let known := ["dynv", "fvec", "dmat", "fmat", "diag", "al3", "al100", "al3p", "sll", "sllmod", "sllmi", "gira", "gibi", "gifw",
                      "iiv", "iil", "iif", "iidv", "trv", "trl", "trf", "trfun", "nfadv", "spdv", "owra", "owbi"].contains name
        let sizeOk := match name with
          | "fvec" => [1, 3, 6].contains n
          | "fmat" => [2, 3].contains n
          | "diag" => [2, 3].contains n
          | _ => true
        if known && sizeOk && (needPlus == plus.isSome) then some ⟨name, plus, v, none⟩ else none

def kinfo (k : Kind) : KInfo :=
  let n : Int := k.vals.length
  let bb := ["dynv", "fvec", "dmat", "fmat", "diag", "gira", "gibi", "gifw", "owra", "owbi"].contains k.name
  let cat : Nat :=
    if ["diag", "gibi", "iil", "trl", "owbi"].contains k.name then 1
    else if ["sll", "sllmod", "sllmi", "gifw", "iif", "trf"].contains k.name then 0 else 2
  { cat := cat, lo := if bb then -1 else 0, n := n,
    mixedRel := !(["al3", "al100", "al3p"].contains k.name),
    nplus := (irType k.name).isSome || ["trv", "trfun", "nfadv", "spdv", "trir"].contains k.name,
    hasIndex := ["dynv", "fvec", "dmat", "fmat", "diag", "iiv", "iil", "iif", "iidv"].contains k.name,
    oneWay := ["al3", "al100", "al3p", "sll", "sllmod", "sllmi", "owra", "owbi"].contains k.name,
    hasConv := ["dynv", "fvec", "dmat", "fmat", "diag", "al3", "al100", "al3p", "sll", "sllmod", "sllmi", "gira", "gibi", "gifw",
                "owra", "owbi"].contains k.name,
    hasBeforeEnd := ["dynv", "fvec", "dmat", "fmat", "diag"].contains k.name,
    hasFind := ["dynv", "fvec"].contains k.name }

/-- facade of a legacy kind: 0 forward, 1 bidirectional, 2 random access -/
def facadeOf (name : String) : Nat :=
  if ["gifw"].contains name then 0 else if ["diag", "gibi", "owbi"].contains name then 1 else 2

/-! ### operation histories -/

inductive HStep where
  | inc | dec | pinc | pdec | add (n : Int) | sub (n : Int) | plus (n : Int) | minus (n : Int) | nplus (n : Int)

def parseStep (t : String) : Option HStep :=
  match t.toList with
  | ['i'] => some .inc | ['d'] => some .dec | ['I'] => some .pinc | ['D'] => some .pdec
  | c :: rest =>
    match parseInt12 (String.ofList rest) with
    | none => none
    | some n =>
      if c == 'a' then some (.add n) else if c == 's' then some (.sub n) else if c == 'p' then some (.plus n)
      else if c == 'm' then some (.minus n) else if c == 'n' then some (.nplus n) else none
  | [] => none

/-- run a history; `none` when a step is not offered by the kind or leaves `[lo, n]` -/
def runHist {I : Type} (o : Ops I) (k : KInfo) : I → Int → List HStep → List String → Option (List String)
  | _, _, [], acc => some acc.reverse
  | it, p, st :: rest, acc =>
    let ok (q : Int) := k.lo ≤ q ∧ q ≤ k.n
    let go (it' : I) (q : Int) := if ok q then runHist o k it' q rest (o.showI it' :: acc) else none
    match st with
    | .inc => go (o.inc it) (p + 1)
    | .pinc => go (o.postInc it).2 (p + 1)
    | .dec => if k.cat < 1 then none else go (o.dec it) (p - 1)
    | .pdec => if k.cat < 1 then none else go (o.postDec it).2 (p - 1)
    | .add m => if k.cat < 2 then none else go (o.addAssign it m) (p + m)
    | .sub m => if k.cat < 2 then none else go (o.subAssign it m) (p - m)
    | .plus m => match o.plusI with
      | some f => if k.cat < 2 then none else go (f it m) (p + m)
      | none => none
    | .minus m => match o.minusI with
      | some f => if k.cat < 2 then none else go (f it m) (p - m)
      | none => none
    | .nplus m => match o.nplusI with
      | some f => if k.cat < 2 ∨ !k.nplus then none else go (f it m) (p + m)
      | none => none

def handleHist {I : Type} (o : Ops I) (k : KInfo) (p : Int) (cv stepsTok : String) : String :=
  if cv != "m" ∧ cv != "c" then "bad-op" else
  if p < k.lo ∨ p > k.n then "bad-op" else
  let toks := stepsTok.splitOn ";"
  if toks.length > 40 then "bad-op" else
  match toks.mapM parseStep with
  | none => "bad-op"
  | some sts =>
    if sts.any (fun st => match st with
        | .add m | .sub m | .plus m | .minus m | .nplus m => decide (m < -64 ∨ m > 64)
        | _ => false) then "bad-op" else
    match runHist o k (o.mkAt p) p sts [] with
    | some out => "[" ++ ",".intercalate out ++ "]"
    | none => "bad-op"

/-- dispatch on the kind: `f` is applied to the kind's operations -/
def withOps (k : Kind) (f : {I : Type} → Ops I → String) : String :=
  match k.fromTo with
  | some (fr, _) =>
    if k.name == "trir" then
      f (newOps false (irBaseW 32) (fun p => (⟨fr + p⟩ : IR)) (fun i => i.value - fr) (fun i => some (fT (IR.deref i))))
    else f (irOps ((irType k.name).map (·.1) |>.getD 64) fr)
  | none =>
    let c := k.vals
    if ["iiv", "iil", "iif"].contains k.name then f (indexedOps stdBase c (k.plus.getD 0))
    else if k.name == "iidv" then f (indexedOps denseBase c (k.plus.getD 0))
    else if ["trv", "trl", "trf", "trfun"].contains k.name then
      f (newOps false stdBase (fun p => (⟨0, p⟩ : It)) (fun i => i.pos) (fun i => (getAt c i.pos).map fT))
    else if k.name == "nfadv" then
      f (newOps true stdBase (fun p => (⟨0, p⟩ : It)) (fun i => i.pos) (fun i => getAt c i.pos))
    else if k.name == "spdv" then
      f (newOps false denseBase (fun p => (⟨0, p⟩ : It)) (fun i => i.pos) (dereference c))
    else if ["sll", "sllmod", "sllmi"].contains k.name then f (sllOps c)
    else f (legacyOps (facadeOf k.name) (["al3", "al100", "al3p"].contains k.name) c)

def handleIt (kindTok spec op : String) (rest : List String) : String :=
  match parseKind kindTok spec with
  | none => "bad-op"
  | some k =>
    let ki := kinfo k
    if op == "hist" then
      match rest with
      | [p, cv, ":", stepsTok] =>
        match parseInt12 p with
        | some p => withOps k (fun o => handleHist o ki p cv stepsTok)
        | none => "bad-op"
      | _ => "bad-op"
    else
    match rest.reverse with
    | [] => "bad-op"
    | cv :: argsRev =>
      match argsRev.reverse.mapM parseInt12 with
      | none => "bad-op"
      | some args => withOps k (fun o => runIt o ki op args cv)

/-! ### ranges -/

def showPairs (l : List (Int × Int)) : String :=
  "[" ++ ",".intercalate (l.map fun (a, b) => toString a ++ ":" ++ toString b) ++ "]"

def sirCatalogue : List (String × Int × Int × Nat × Bool) :=
  [("sir_i32", 0, 0, 32, true), ("sir_i32", 0, 5, 32, true), ("sir_i32", 2, 7, 32, true), ("sir_i32", -3, 2, 32, true),
   ("sir_u64", 0, 4, 64, false), ("sir_u64", 3, 3, 64, false), ("sir_u64", 1, 9, 64, false),
   ("sir_u8", 250, 255, 8, false), ("sir_i8", -128, -125, 8, true), ("sir_i16", -7, -2, 16, true)]

/-- the six comparisons and the difference of two iterators, `lt le gt ge eq ne diff` -/
def showCmp7 (lt le gt ge eq ne : Bool) (d : Int) : String :=
  " ".intercalate [showB lt, showB le, showB gt, showB ge, showB eq, showB ne, toString d]

/-- does `n` fit the signed `bits` wide difference type -/
def fitsDiff (bits : Nat) (n : Int) : Bool := decide (-(2 ^ (bits - 1)) ≤ n ∧ n < 2 ^ (bits - 1))

def integralRangeOp (stat : Bool) (bits : Nat) (sgn : Bool) (f t : Int) (op : String) (arg : List Int) (enumLimit : Bool) : String :=
  let r : IntegralRange := ⟨f, t⟩
  match op, arg with
  -- iterators of the range at the VALUES x and y (any two positions of a range of any extent):
  -- the hand-written IntegralRangeIterator
  | "itcmp", [x, y] =>
    if stat ∨ x < f ∨ x > t ∨ y < f ∨ y > t then "bad-op" else
    let a : IR := ⟨x⟩; let b : IR := ⟨y⟩
    showCmp7 (IR.ltW bits a b) (IR.leW bits a b) (IR.gtW bits a b) (IR.geW bits a b) (IR.eqW bits a b) (IR.neW bits a b)
      (IR.diffW bits a b)
  -- the same two positions as iterators of a transformed range over the integral range (new IteratorFacade over
  -- the IntegralRangeIterator: comparisons forwarded to the base iterators, difference = their machine difference)
  | "tcmp", [x, y] =>
    if stat ∨ x < f ∨ x > t ∨ y < f ∨ y > t then "bad-op" else
    let bs := irBaseW bits
    let a : IR := ⟨x⟩; let b : IR := ⟨y⟩
    showCmp7 (NewF.ltB bs a b) (NewF.leB bs a b) (NewF.gtB bs a b) (NewF.geB bs a b) (NewF.eq bs a b) (NewF.ne bs a b)
      (NewF.diff bs a b)
  -- the iterator at value x moved by n (any n of the difference type that stays inside the range):
  -- it+n, n+it, it+=n, it[n], it-(-n), it-=(-n)
  | "tadv", [x, n] =>
    if stat ∨ x < f ∨ x > t ∨ x + n < f ∨ x + n > t ∨ !fitsDiff bits n ∨ !fitsDiff bits (-n) then "bad-op" else
    let bs := irBaseW bits
    let a : IR := ⟨x⟩
    showList [(NewF.plus bs a n).value, (NewF.plus bs a n).value, (NewF.addAssign bs a n).value,
              NewF.index bs IR.deref a n, (NewF.minus bs a (-n)).value, (NewF.subAssign bs a (-n)).value]
  | "itadv", [x, n] =>
    if stat ∨ x < f ∨ x > t ∨ x + n < f ∨ x + n > t ∨ !fitsDiff bits n ∨ !fitsDiff bits (-n) then "bad-op" else
    let a : IR := ⟨x⟩
    showList [(IR.plus a n).value, (IR.nplus n a).value, (IR.addAssign a n).value, IR.index a n,
              (IR.minus a (-n)).value, (IR.subAssign a (-n)).value]
  | "size", [] => toString (if stat then SR.size bits r else r.size bits)
  | "empty", [] => showB (if stat then SR.empty r else r.empty)
  | "contains", [x] => if typeFits bits sgn x x then showB (if stat then SR.contains r x else r.contains x) else "bad-op"
  | "at", [i] => if i < 0 ∨ i ≥ t - f then "bad-op" else toString (if stat then SR.get r i else r.get i)
  | "enum", [] => if enumLimit ∧ t - f > 4096 then "bad-op" else showList (if stat then SR.enumerate r else r.enumerate)
  -- `Dune::range(to)` / `IntegralRange<T>(to)`: starts at 0
  | "enum_to", [] => if stat ∨ f != 0 ∨ t - f > 4096 then "bad-op" else showList (IntegralRange.ofTo t).enumerate
  -- `IntegralRange<T>(std::pair(from, to))`
  | "enum_pair", [] => if stat ∨ t - f > 4096 then "bad-op" else showList (IntegralRange.ofPair (f, t)).enumerate
  | _, _ => "bad-op"

/-- range-based `for` through the kind's own `!=`, `++`, `*` -/
def opsLoop {I : Type} (o : Ops I) : Nat → I → I → List Int
  | 0, _, _ => []
  | fuel+1, it, e =>
    if o.rel "ne" true it e == some true then
      match o.deref it with
      | some x => x :: opsLoop o fuel (o.inc it) e
      | none => []
    else []

def handleRg (kind spec op : String) (rest : List String) : String :=
  if kind == "itr" || kind == "itrsl" then
    match op, rest with
    | "enum", [a, b] =>
      match parseVals spec 12 1000000, parseInt12 a, parseInt12 b with
      | some v, some a, some b =>
        if a < 0 ∨ a > b ∨ b > v.length then "bad-op"
        else showList (iteratorRangeEnumerate v a.toNat b.toNat)
      | _, _, _ => "bad-op"
    | _, _ => "bad-op"
  else if kind == "spdiag" then
    -- sparseRange over row `row` of a DiagonalMatrix<long,n>
    match op, rest with
    | "enum", [row] =>
      match parseVals spec 12 1000000, parseInt12 row with
      | some v, some row =>
        if !([2, 3].contains v.length) ∨ row < 0 ∨ row ≥ v.length then "bad-op" else showPairs (sparseDiagRow v row.toNat)
      | _, _ => "bad-op"
    | _, _ => "bad-op"
  else
  match rest.mapM parseLong with
  | none => "bad-op"
  | some arg =>
    if (if op == "contains" || op == "at" || op == "vat" then arg.length != 1
        else if op == "itcmp" || op == "tcmp" || op == "itadv" || op == "tadv" then arg.length != 2 else !arg.isEmpty) then "bad-op" else
    if kind.startsWith "sir_" then
      match parseFromTo spec with
      | none => "bad-op"
      | some (f, t) =>
        match sirCatalogue.find? (fun (k, f', t', _, _) => k == kind && f' == f && t' == t) with
        | some (_, _, _, bits, sgn) => integralRangeOp true bits sgn f t op arg false
        | none => "bad-op"
    else match irType kind with
    | some (bits, sgn) =>
      match parseFromTo spec with
      | none => "bad-op"
      | some (f, t) => if typeFits bits sgn f t then integralRangeOp false bits sgn f t op arg true else "bad-op"
    | none =>
      match parseKind kind spec with
      | none => "bad-op"
      | some k =>
        let c := k.vals
        if op == "vsize" ∨ op == "vempty" ∨ op == "vat" then
          -- TransformedRangeView::size(), empty(), operator[]
          if k.name != "trv" then "bad-op"
          else if op == "vsize" then toString (viewSize c)
          else if op == "vempty" then showB (viewEmpty c)
          else match arg with
            | [i] => if i < 0 ∨ i ≥ c.length then "bad-op" else showOpt (viewAt fT c i.toNat)
            | _ => "bad-op"
        else if op != "enum" then "bad-op" else
        match k.fromTo with
        | some (f, t) =>   -- trir
          let (vs, log) := transformedEnumerateIR fT ⟨f, t⟩
          showList vs ++ " calls=" ++ showList log
        | none =>
          if ["trv", "trl", "trf", "trfun"].contains k.name then
            let (vs, log) := transformedEnumerate fT c
            showList vs ++ " calls=" ++ showList log
          else if k.name == "spdv" then showPairs (sparseEnumerate c)
          else withOps k (fun o => showList (opsLoop o (c.length + 1) (o.mkAt 0) (o.mkAt c.length)))

/-! ### hybrid helpers -/

def seqCatalogue : List (List Int) :=
  [[], [5], [3, 1, 4, 1, 5], [0, 1, 2, 3, 4, 5, 6, 7], [-2, 7, -2, 9], [2, 4, 6], [7, 0]]

def staticRanges : List (Int × Int) := [(0, 0), (0, 1), (0, 4), (2, 5), (3, 3), (1, 8), (7, 8)]

def sd (s d : String) : String := "s=" ++ s ++ " d=" ++ d

def accF (acc e : Int) : Int := 3 * acc + e

def containerOp (c : List Int) (op : String) (arg : List Int) : String :=
  match op, arg with
  | "size", [] => sd (toString (Hybrid.sizeStatic c)) (toString (Hybrid.sizeDynamic c))
  | "elementAt", [i] =>
    if i < 0 ∨ i ≥ c.length ∨ i ≥ 8 then "bad-op" else
    match Hybrid.elementAtStatic c i.toNat, Hybrid.elementAtDynamic c i.toNat with
    | some s, some d => sd (toString s) (toString d)
    | _, _ => "bad-op"
  | "forEach", [] =>
    sd (showList (Hybrid.forEachStatic c (fun (l : List Int) e => l ++ [e]) []))
       (showList (Hybrid.forEachDynamic c (fun (l : List Int) e => l ++ [e]) []))
  | "accumulate", [init] =>
    if init > 1000 ∨ init < -1000 then "bad-op"
    else sd (toString (Hybrid.accumulateStatic c init accF)) (toString (Hybrid.accumulateDynamic c init accF))
  | _, _ => "bad-op"

def handleHy (ck vs op : String) (rest : List String) : String :=
  match rest.mapM parseInt12 with
  | none => "bad-op"
  | some arg =>
    if ck == "tuple" || ck == "tvec" || ck == "arr" then
      match parseVals vs 8 1000 with
      | none => "bad-op"
      | some v =>
        let lens : List Nat := if ck == "tuple" then [0, 1, 2, 3, 4, 5, 6] else if ck == "tvec" then [0, 1, 3, 6] else [0, 2, 5]
        if lens.contains v.length then containerOp v op arg else "bad-op"
    else if ck == "iseq" then
      match parseVals vs 16 1000 with
      | none => "bad-op"
      | some v =>
        if !seqCatalogue.contains v then "bad-op"
        else if op == "switchCases3" then
          -- three-argument form (no else branch): only defined when the value is among the cases
          match arg with
          | [x] =>
            if x < -1000 ∨ x > 1000 then "bad-op" else
            let shw (o : Option Int) := match o with | some r => toString r | none => "n/a"
            let d := Hybrid.switchSeqDynamic3 v x (fun i => 100 + i)
            let s := if 0 ≤ x ∧ x < 10 then d else none
            sd (shw s) (shw d)
          | _ => "bad-op"
        else if op == "get" then
          match arg with
          | [i] =>
            if i < 0 ∨ i ≥ v.length then "bad-op" else
            match Seq.getStatic v i.toNat, Seq.getDynamic v i.toNat with
            | some a, some b => sd (toString a) (toString b)
            | _, _ => "bad-op"
          | _ => "bad-op"
        else if op == "info" then
          if !arg.isEmpty then "bad-op" else
          let so (o : Option Int) := match o with | some r => toString r | none => "none"
          "front=" ++ so (Seq.front v) ++ " head=" ++ so (Seq.head v) ++ " back=" ++ so (Seq.back v) ++ " size=" ++ toString (Seq.size v)
            ++ " empty=" ++ showB (Seq.empty v) ++ " tail=" ++ (if v.isEmpty then "none" else showList (Seq.tail v))
            ++ " sorted=" ++ showList (Seq.sorted v)
            ++ " pf=" ++ showList (Seq.pushFront 42 v) ++ " pb=" ++ showList (Seq.pushBack 43 v)
        else if op == "contains" then
          match arg with
          | [x] => if x < 0 ∨ x ≥ 10 then "bad-op" else showB (Seq.contains v x)
          | _ => "bad-op"
        else if op == "difference" ∨ op == "equal" then
          match arg with
          | [j] =>
            if j < 0 then "bad-op" else
            match seqCatalogue[j.toNat]? with
            | some w => if op == "difference" then showList (Seq.difference v w) else showB (Seq.equal v w)
            | none => "bad-op"
          | _ => "bad-op"
        else if op == "switchCases" then
          match arg with
          | [x] =>
            if x < -1000 ∨ x > 1000 then "bad-op" else
            let d := Hybrid.switchSeqDynamic v x (fun i => 100 + i) (-1)
            let s := if 0 ≤ x ∧ x < 10 then toString (Hybrid.switchSeqStatic v x (fun i => 100 + i) (-1)) else "n/a"
            sd s (toString d)
          | _ => "bad-op"
        else containerOp v op arg
    else if ck == "irange" then
      match parseFromTo vs with
      | none => "bad-op"
      | some (f, t) =>
        if op == "switchCases" then
          match arg with
          | [x] =>
            if x < -1000 ∨ x > 1000 ∨ f < -1000 ∨ t > 1000 ∨ f > t then "bad-op" else
            let d := Hybrid.switchRangeDynamic ⟨f, t⟩ x (fun i => 100 + i) (-1)
            let s := if staticRanges.contains (f, t) then toString (Hybrid.switchRangeStatic ⟨f, t⟩ x (fun i => 100 + i) (-1)) else "n/a"
            sd s (toString d)
          | _ => "bad-op"
        else if op == "switchCases3" then
          match arg with
          | [x] =>
            if x < -1000 ∨ x > 1000 ∨ f < -1000 ∨ t > 1000 ∨ f > t then "bad-op" else
            let shw (o : Option Int) := match o with | some r => toString r | none => "n/a"
            let d := Hybrid.switchRangeDynamic3 ⟨f, t⟩ x (fun i => 100 + i)
            let s := if staticRanges.contains (f, t) then Hybrid.switchSeqDynamic3 (SR.toSequence ⟨f, t⟩) x (fun i => 100 + i) else none
            sd (shw s) (shw d)
          | _ => "bad-op"
        else if staticRanges.contains (f, t) then
          -- static side: the index walk through `range[integral_constant]`; dynamic side: the enumerated IntegralRange
          let r : IntegralRange := ⟨f, t⟩
          match op, arg with
          | "forEach", [] =>
            sd (showList (Hybrid.forEachStaticRange r (fun (l : List Int) e => l ++ [e]) []))
               (showList (Hybrid.forEachDynamic r.enumerate (fun (l : List Int) e => l ++ [e]) []))
          | "accumulate", [init] =>
            if init > 1000 ∨ init < -1000 then "bad-op"
            else sd (toString (Hybrid.forEachStaticRange r accF init)) (toString (Hybrid.accumulateDynamic r.enumerate init accF))
          | "elementAt", [i] =>
            if i < 0 ∨ i ≥ t - f ∨ i ≥ 8 then "bad-op" else sd (toString (SR.getStatic r i)) (toString (r.get i))
          | "size", [] => sd (toString (SR.size 64 r)) (toString (r.size 64))
          | _, _ => "bad-op"
        else "bad-op"
    else if ck == "none" then
      if vs != "[]" then "bad-op" else
      match op, arg with
      | "ifElse", [c] =>
        if c != 0 ∧ c != 1 then "bad-op"
        else sd (toString (Hybrid.ifElseStatic (c == 1) (111 : Int) 222)) (toString (Hybrid.ifElseDynamic (c == 1) (111 : Int) 222))
      | _, [x, y] =>
        if x < 0 ∨ x > 7 ∨ y < 0 ∨ y > 7 then "bad-op" else
        let num (f : Int → Int → Int) := sd (toString (Hybrid.functorStatic f x y)) (toString (Hybrid.functorDynamic f x y))
        match op with
        | "equal_to" =>
          let f : Int → Int → Int := fun a b => if a = b then 1 else 0
          sd (showB (Hybrid.functorStatic f x y == 1)) (showB (Hybrid.functorDynamic f x y == 1))
        | "plus" => num (· + ·)
        | "minus" => num (· - ·)
        | "max" => num max
        | "min" => num min
        | _ => "bad-op"
      | _, _ => "bad-op"
    else "bad-op"

def handle (line : String) : String :=
  match tokens line with
  | "it" :: kind :: spec :: op :: rest => if rest.length < 2 then "bad-op" else handleIt kind spec op rest
  | "rg" :: kind :: spec :: op :: rest => handleRg kind spec op rest
  | "hy" :: ck :: vs :: op :: rest => handleHy ck vs op rest
  | _ => "bad-op"

end C16Drv

def main : IO Unit := DV.runDriver C16Drv.handle
