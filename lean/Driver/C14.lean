import DuneVerif.Model.C14
/-! line-protocol driver for C14 (see harness/cxx_c14.cc for the op lines)

    map     IT PAT LAY CTOR EXTS [STRIDES]
    conv    IT PAT LAY KIND EXTS [STRIDES]
    mdspan  IT PAT LAY ACC  EXTS [STRIDES]    (ACC: access form call|arr|span|br, or constructor form acc|accil|vdyn|vfull|adyn|sdyn|sfull|def|swap)
    mdarray IT PAT LAY CTOR ACC EXTS [pad=K]  (CTOR incl. arrext|arrval|arrcont: std::array container; spanil|spanilal|stridedil: from a view
                                               with the accessor `access(p,i) = p[2i+1]`; pad: surplus elements of the container)
    bigmap  IT PAT LAY EXTS [STRIDES] : t;t;… (huge index spaces, observed at the listed index tuples)
    span    N EXT [VIA] : op;op;…             (VIA: how the initial span is constructed)
-/
open DV DV.C14

def showB (b : Bool) : String := if b then "true" else "false"

def parsePattern (s : String) : Option Pattern :=
  if s == "-" then some []
  else s.toList.mapM fun c =>
    if c == 'd' then some none
    else if '0' ≤ c ∧ c ≤ '9' then some (some (c.toNat - '0'.toNat))
    else none

def parseLayout : String → Option Layout
  | "left" => some .left
  | "right" => some .right
  | "stride" => some .stride
  | _ => none

/-- the extents types instantiated by the harness (`IT:PAT`); other types are answered `bad-op` on both sides -/
def typeTable : List String :=
  ["int:-", "size:-",
   "int:d", "int:0", "int:1", "int:3", "size:d", "short:d", "short:2",
   "int:dd", "int:d3", "int:2d", "int:23", "int:0d", "size:dd", "size:40", "short:d2", "short:14",
   "int:ddd", "int:2d3", "int:d3d", "int:dd0", "size:ddd", "size:31d", "short:ddd",
   "int:dddd", "int:2dd3", "int:d1d2", "int:2312", "size:dddd", "size:3d2d", "short:dddd", "short:ddd4",
   "long:dd", "long:d3d", "long:2ddd"]

/-- the types for which `bigmap` is instantiated -/
def bigTable : List String :=
  ["int:-", "int:d", "size:d", "short:d", "int:dd", "int:2d", "size:dd", "short:d2", "int:d3d", "size:ddd", "size:31d",
   "short:ddd", "int:dddd", "size:dddd", "size:3d2d", "long:dd", "long:d3d", "long:2ddd"]

/-- largest required span used with an index type in `bigmap` lines -/
def limitOf : String → Option Nat
  | "short" => some 32767
  | "int" => some 2147483647
  | "size" => some (2 ^ 61)
  | "long" => some (2 ^ 61)
  | _ => none

/-- the types for which mdspan/mdarray are instantiated as well -/
def fullTable : List String :=
  ["int:-", "int:d", "int:3", "short:d", "int:d3", "int:23", "size:dd", "int:2d3", "short:ddd",
   "int:dddd", "size:dddd", "short:dddd"]

def maxExt : Nat := 8
def maxStride : Nat := 1000

def buildExtents (p : Pattern) (ctor : String) (full : List Nat) : Option Extents :=
  if !compatible p full then none else
  match ctor with
  | "vfull" | "afull" | "sfull" => initDynamic p full
  | "vdyn" | "adyn" | "sdyn" => initDynamic p (dynPart p full)
  | _ => none

def mkMapping (lay : Layout) (e : Extents) (strides : List Nat) : Mapping :=
  { lay := lay, rank := e.rank, ext := e.extent, str := arr strides }

def extOf (m : Mapping) : List Nat := toList m.rank m.ext

def mapBlock (m : Mapping) : String :=
  let extL := extOf m
  let strs := if m.rank = 0 then [] else toList m.rank m.stride
  "ext=" ++ showList extL ++ " rss=" ++ toString m.requiredSpan ++ " str=" ++ showList strs ++
  " exh=" ++ showB m.isExhaustive ++ " offs=" ++ showList ((allTuples extL).map fun t => m.offset (arr t))

def showSext (p : Pattern) : String :=
  showList (p.map fun e => match e with | some s => (s : Int) | none => -1)

/-- common prefix of the mapping ops: `IT PAT LAY X EXTS [STRIDES]` → (pattern, layout, X, extents, mapping) -/
def parseMapping (ws : List String) (ctorOf : String → String) (big : Bool := false) :
    Option (Pattern × Layout × String × Extents × Mapping) :=
  match ws with
  | it :: pat :: lay :: x :: exts :: rest =>
    if !typeTable.contains (it ++ ":" ++ pat) then none else
    match parsePattern pat, parseLayout lay, parseNatList? exts with
    | some p, some l, some full =>
      if !big && full.any (· > maxExt) then none else
      match buildExtents p (ctorOf x) full with
      | none => none
      | some e =>
        match l, rest with
        | .stride, [ss] =>
          match parseNatList? ss with
          | some strides =>
            if strides.length = p.length && (big || !strides.any (· > maxStride)) then some (p, l, x, e, mkMapping l e strides) else none
          | none => none
        | .stride, _ => none
        | _, [] => some (p, l, x, e, mkMapping l e [])
        | _, _ => none
    | _, _, _ => none
  | _ => none

def showOpt (o : Option Int) : String := match o with | some v => toString v | none => "OOB"

def readAll (a : Md) : String :=
  "[" ++ ",".intercalate ((allTuples (extOf a.map)).map fun t => showOpt (a.get? (arr t))) ++ "]"

/-- the history `a(t₀) = 100; a(t₁) = 101; …` over all index tuples in row-major order (`Md.writes`, cf. `md_history`) -/
def writeAll (a : Md) : Md :=
  a.writes ((allTuples (extOf a.map)).zipIdx.map fun tk => (tk.1, (100 + tk.2 : Int)))

def iotaInt (n : Nat) (f : Nat → Int) : List Int := (List.range n).map f

def handleMap (ws : List String) : String :=
  match parseMapping ws id with
  | some (p, _, _, _, m) =>
    "rank=" ++ toString p.length ++ " rdyn=" ++ toString (rankDynamic p) ++ " sext=" ++ showSext p ++ " " ++ mapBlock m
  | none => "bad-op"

/-- the value a dynamic position gets when the partner type makes it static (harness: FLIPV) -/
def flipV : List Nat := [2, 3, 1, 2]

/-- pattern of the conversion partner: mode 1 flips every position (static ↔ dynamic), mode 2 only the first static and
    the first dynamic position -/
def flipPattern (mode : Nat) (p : Pattern) : Pattern :=
  let firstStatic := p.findIdx (·.isSome)
  let firstDyn := p.findIdx (·.isNone)
  (List.range p.length).map fun k =>
    let e := p.getD k none
    if mode == 1 || k == firstStatic || k == firstDyn then
      (match e with | none => some (flipV.getD k 0) | some _ => none)
    else e

/-- extents conversion to the pattern `q` and back (`mapping(const mapping<OtherExtents>&)` twice) -/
def convThere (p q : Pattern) (l : Layout) (e : Extents) (m : Mapping) : String :=
  match Extents.convert q e with
  | none => "bad-op"
  | some e2 =>
    let m2 : Mapping := { lay := l, rank := e2.rank, ext := e2.extent, str := fun r => m.stride r }
    match Extents.convert p e2 with
    | none => "bad-op"
    | some e3 =>
      let m3 : Mapping := { lay := l, rank := e3.rank, ext := e3.extent, str := fun r => m2.stride r }
      "eq=" ++ showB (e2.beq e && e.beq e3) ++ " mid=" ++ mapBlock m2 ++ " fin=" ++ mapBlock m3

def handleConv (ws : List String) : String :=
  match parseMapping ws (fun _ => "afull") with
  | some (p, l, kind, e, m) =>
    match kind with
    | "stride" =>
      let mid := m.toStride
      match mid.convertTo l with
      | some fin => "mid=" ++ mapBlock mid ++ " fin=" ++ mapBlock fin
      | none => "bad-op"
    | "dyn" => convThere p (p.map fun _ => none) l e m
    | "flip1" | "flip2" =>
      -- partner type with other dynamic positions; legal iff its static extents agree with the values
      let q := flipPattern (if kind == "flip1" then 1 else 2) p
      if !compatible q e.toList then "bad-op" else convThere p q l e m
    | "lr" =>
      let other : Option Layout := match l with | .left => some .right | .right => some .left | .stride => none
      match other with
      | none => "bad-op"
      | some o =>
        match m.convertTo o with
        | none => "bad-op"
        | some mid =>
          match mid.convertTo l with
          | some fin => "mid=" ++ mapBlock mid ++ " fin=" ++ mapBlock fin
          | none => "bad-op"
    | "toleft" | "toright" =>
      if l ≠ .stride then "bad-op" else
      match m.convertTo (if kind == "toleft" then .left else .right) with
      | some fin => "fin=" ++ mapBlock fin
      | none => "bad-op"
    | _ => "bad-op"
  | none => "bad-op"

def validAcc (acc : String) (rank : Nat) : Bool :=
  acc == "call" || acc == "arr" || acc == "span" || (acc == "br" && rank == 1)

/-- mdspan op: access forms plus the constructor forms (custom accessor, variadic / array / span extents of `rank` or
    `rank_dynamic` values, default construction + assignment, swap); `def` needs a dynamic extent -/
def validMdspanForm (acc : String) (p : Pattern) : Bool :=
  validAcc acc p.length || ["acc", "accil", "vdyn", "vfull", "adyn", "sdyn", "sfull", "swap"].contains acc ||
  (acc == "def" && rankDynamic p != 0)

def isFull (ws : List String) : Bool :=
  match ws with
  | it :: pat :: _ => fullTable.contains (it ++ ":" ++ pat)
  | _ => false

def handleMdspan (ws : List String) : String :=
  match parseMapping ws (fun _ => "afull") with
  | some (p, _, acc, _, m) =>
    if !validMdspanForm acc p || !isFull ws then "bad-op" else
    if acc == "accil" then
      -- a view through the accessor `access(p, i) = p[2 i + 1]` over 2 rss + 1 entries
      let a : AccView := ⟨m, fun i => 2 * i + 1, iotaInt (2 * m.requiredSpan + 1) fun k => (k : Int)⟩
      let tuples := allTuples (extOf m)
      let b := (tuples.foldl (fun (st : AccView × Nat) t => (st.1.set (arr t) (100 + st.2), st.2 + 1)) (a, 0)).1
      let rd (v : AccView) := "[" ++ ",".intercalate (tuples.map fun t => showOpt (v.get? (arr t))) ++ "]"
      "size=" ++ toString (mdSize m.rank m.ext) ++ " empty=" ++ showB (mdSize m.rank m.ext == 0) ++
      " ext=" ++ showList (extOf m) ++ " elems=" ++ rd a ++ " store=" ++ showList b.data ++ " conv=" ++ rd b
    else
    let a : Md := ⟨m, iotaInt m.requiredSpan fun k => (k : Int)⟩
    let b := writeAll a
    "size=" ++ toString (mdSize m.rank m.ext) ++ " empty=" ++ showB (mdSize m.rank m.ext == 0) ++
    " ext=" ++ showList (extOf m) ++ " elems=" ++ readAll a ++ " store=" ++ showList b.data ++ " conv=" ++ readAll b
  | none => "bad-op"

/-- the surplus of the container handed to a container-taking constructor: `pad=K`, K = 1..6 -/
def parsePad (s : String) : Option Nat :=
  match s.toList with
  | ['p', 'a', 'd', '=', c] => if '1' ≤ c ∧ c ≤ '6' then some (c.toNat - '0'.toNat) else none
  | _ => none

def takesContainer : List String :=
  ["cont", "contmv", "copy", "conv", "contmve", "contal", "contmval", "mapcontal", "mapcontmval", "copyal", "swap"]

/-- constructor forms instantiated for an array whose layout policy is strided (the harness' `PadLayout`, a policy over
    `layout_stride::mapping`): the forms that take a mapping, and the constructors from a view -/
def strideCtors : List String :=
  ["map", "mapval", "contmv", "copy", "mapcontal", "mapcontmval", "copyal", "allocval", "span", "spanal", "spanil", "spanilal"]

def handleMdarrayPad (ws : List String) (pad : Nat) : String :=
  match ws with
  | it :: pat :: lay :: ctor :: acc :: exts :: strs =>
    match parseMapping ([it, pat, lay, ctor, exts] ++ strs) (fun _ => "afull") with
    | some (p, l, _, _, m) =>
      if !validAcc acc p.length || !isFull ws then "bad-op" else
      -- a strided array: only the mapping-taking forms, and only stride vectors that make the mapping unique
      if l == .stride && (!strideCtors.contains ctor ||
          !(((allTuples (extOf m)).map fun t => m.offset (arr t)).Nodup)) then "bad-op" else
      let arrForm := ctor == "arrext" || ctor == "arrval" || ctor == "arrcont"
      if pad != 0 && !(takesContainer.contains ctor || (arrForm && pad == 2)) then "bad-op" else
      let rss := m.requiredSpan
      let cont := iotaInt (rss + pad) fun k => 10 + (k : Int)
      -- interleaved storage of the views with the accessor `access(p, i) = p[2 i + 1]`
      let il (mm : Mapping) : View := AccView.toView ⟨mm, fun i => 2 * i + 1, iotaInt (2 * rss + 1) fun k => 3 * (k : Int) + 1⟩
      let init : Option Md :=
        match ctor with
        | "ext" | "map" | "alloc" => some (Md.new m 0)
        | "variadic" => if p.length = 0 then none else some (Md.new m 0)
        | "extval" | "mapval" | "allocval" => some (Md.new m 7)
        -- std::array container (of rss + pad elements): only for fully static extents of rank > 0
        | "arrext" => if p.length = 0 || rankDynamic p ≠ 0 then none else Md.newArray m (rss + pad) 0
        | "arrval" => if p.length = 0 || rankDynamic p ≠ 0 then none else Md.newArray m (rss + pad) 7
        | "arrcont" => if p.length = 0 || rankDynamic p ≠ 0 then none else some (Md.fromContainer m cont)
        | "cont" | "contmv" | "copy" | "conv" | "contmve" | "contal" | "contmval" | "mapcontal" | "mapcontmval" | "copyal" =>
          some (Md.fromContainer m cont)
        | "extvalal" => some (Md.new m 7)
        -- swap(a, b) with a default-shaped (all dynamic extents 0) and b built from a container: a becomes b
        | "swap" => some (Md.swap (Md.new (mkMapping l (Extents.dflt p) []) 0) (Md.fromContainer m cont)).1
        -- mdarray(): needs a dynamic extent; all dynamic extents are 0
        | "default" =>
          if rankDynamic p = 0 || toList m.rank m.ext != (Extents.dflt p).toList then none
          else some (Md.new (mkMapping l (Extents.dflt p) []) 0)
        | "span" => some (Md.fromMdspan m ⟨m, iotaInt rss fun k => 3 * (k : Int) + 1⟩)
        | "spanal" => some (Md.fromViewAlloc m (Md.toView ⟨m, iotaInt rss fun k => 3 * (k : Int) + 1⟩))
        | "strided" => some (Md.fromMdspan m ⟨m.toStride, iotaInt rss fun k => 3 * (k : Int) + 1⟩)
        | "spanil" => some (Md.fromView m (il m))
        | "spanilal" => some (Md.fromViewAlloc m (il m))
        | "stridedil" => some (Md.fromView m (il m.toStride))
        | _ => none
      match init with
      | none => "bad-op"
      | some a =>
        let b := writeAll a
        "csize=" ++ toString a.containerSize ++ " size=" ++ toString a.size ++
        " vsize=" ++ toString (mdSize a.map.rank a.map.ext) ++ " ccsize=" ++ toString (Md.fromMdspan a.map b).containerSize ++
        " ext=" ++ showList (extOf a.map) ++
        " init=" ++ showList a.data ++ " cont=" ++ showList b.data ++ " view=" ++ readAll b
    | none => "bad-op"
  | _ => "bad-op"

def handleMdarray (ws : List String) : String :=
  match ws with
  | [it, pat, lay, ctor, acc, exts] => handleMdarrayPad [it, pat, lay, ctor, acc, exts] 0
  | [it, pat, lay, ctor, acc, exts, x] =>
    if lay == "stride" then handleMdarrayPad [it, pat, lay, ctor, acc, exts, x] 0 else
    match parsePad x with
    | some k => handleMdarrayPad [it, pat, lay, ctor, acc, exts] k
    | none => "bad-op"
  | [it, pat, lay, ctor, acc, exts, strs, padTok] =>
    if lay != "stride" then "bad-op" else
    match parsePad padTok with
    | some k => handleMdarrayPad [it, pat, lay, ctor, acc, exts, strs] k
    | none => "bad-op"
  | _ => "bad-op"

/-! ### bigmap -/

def bigBlock (m : Mapping) (tuples : List (List Nat)) : String :=
  let strs := if m.rank = 0 then [] else toList m.rank m.stride
  "ext=" ++ showList (extOf m) ++ " rss=" ++ toString m.requiredSpan ++ " str=" ++ showList strs ++
  " offs=" ++ showList (tuples.map fun t => m.offset (arr t)) ++ " msize=" ++ toString (mdSize m.rank m.ext)

def parseTuples (s : String) : Option (List (List Nat)) :=
  match tokens s with
  | ["-"] => some []
  | [t] => (t.splitOn ";").mapM parseNatList?
  | _ => none

def prodMax1 (l : List Nat) : Nat := l.foldl (fun acc e => acc * (if e = 0 then 1 else e)) 1

def handleBig (line : String) : String :=
  match line.splitOn " : " with
  | [hd, tl] =>
    match tokens hd, parseTuples tl with
    | "bigmap" :: it :: pat :: lay :: rest, some tuples =>
      if !bigTable.contains (it ++ ":" ++ pat) then "bad-op" else
      match limitOf it, parseMapping (it :: pat :: lay :: "afull" :: rest) id true with
      | some lim, some (p, l, _, e, m) =>
        let ext := extOf m
        let strs := toList m.rank m.str
        -- preconditions: span (extents 0 counted as 1) and strides fit the index type; valid index tuples
        let span1 := 1 + ((List.range p.length).map fun r => ((if ext.getD r 0 = 0 then 1 else ext.getD r 0) - 1) * strs.getD r 0).foldl (· + ·) 0
        if prodMax1 ext > lim || (l == .stride && (strs.any (· > lim) || span1 > lim)) || tuples.length > 64 ||
            tuples.any (fun t => t.length != p.length || (List.range p.length).any fun r => t.getD r 0 ≥ ext.getD r 0) then "bad-op" else
        let blk (mm : Mapping) := bigBlock mm tuples
        let smid := m.toStride
        match smid.convertTo l with
        | none => "bad-op"
        | some sfin =>
          -- extents conversion to an all-dynamic extents type of another index type, and back
          match Extents.convert (p.map fun _ => none) e with
          | none => "bad-op"
          | some e2 =>
            let m2 : Mapping := { lay := l, rank := e2.rank, ext := e2.extent, str := fun r => m.stride r }
            match Extents.convert p e2 with
            | none => "bad-op"
            | some e3 =>
              let m3 : Mapping := { lay := l, rank := e3.rank, ext := e3.extent, str := fun r => m2.stride r }
              "src{" ++ blk m ++ "} smid{" ++ blk smid ++ "} sfin{" ++ blk sfin ++ "} dmid{" ++ blk m2 ++ "} dfin{" ++ blk m3 ++ "}"
      | _, _ => "bad-op"
    | _, _ => "bad-op"
  | _ => "bad-op"

def showExt (e : Option Nat) : String := match e with | some n => toString n | none => "d"

def parseCount (s : String) : Option (Option Nat) :=
  if s == "d" then some none else s.toNat?.map some

/-- one span operation: new current span (with its static extent) and the observation -/
def spanOp (mem : List Int) (ext : Option Nat) (s : Span) (op : String) : Option (Option Nat × Span × String) :=
  let obs (e : Option Nat) (t : Span) : Option (Option Nat × Span × String) :=
    some (e, t, "ext=" ++ showExt e ++ " size=" ++ toString t.size ++ " elems=" ++ showList (t.elems mem))
  -- the six member functions as regenerated from span.hh (`Span.applyG`; `span_gen_refines` relates them to `Span.apply`)
  let g (op : SpanOpG) : Option (Option Nat × Span × String) := (s.applyG ext op).bind fun et => obs et.1 et.2
  match tokens op with
  | ["first", c] => c.toNat?.bind fun c => g (.first c)
  | ["last", c] => c.toNat?.bind fun c => g (.last c)
  | ["sub", o, c] => o.toNat?.bind fun o => (parseCount c).bind fun c => g (.sub o c)
  | ["tfirst", c] => c.toNat?.bind fun c => if c > 4 then none else g (.tfirst c)
  | ["tlast", c] => c.toNat?.bind fun c => if c > 4 then none else g (.tlast c)
  | ["tsub", o, c] => o.toNat?.bind fun o => (parseCount c).bind fun c =>
      if o > 4 || (match c with | some c => decide (c > 4) | none => false) then none
      else g (.tsub o c)
  | ["at", i] => i.toNat?.bind fun i =>
      some (ext, s, "at=" ++ (match s.at? mem i with | some v => toString v | none => "ERR:Range"))
  | ["fb"] =>
      if s.size = 0 then none
      else some (ext, s, "front=" ++ showOpt mem[s.off]? ++ " back=" ++ showOpt mem[s.off + (s.size - 1)]?)
  | ["iter"] =>
      some (ext, s, "fwd=" ++ showList (s.elems mem) ++ " rev=" ++ showList (s.elems mem).reverse ++
        " bytes=" ++ toString (4 * s.size) ++ " empty=" ++ showB (s.size == 0))
  | ["conv"] =>
      some (none, s, "ext=d size=" ++ toString s.size ++ " elems=" ++ showList (s.elems mem))
  | _ => none

/-- constructor forms of the initial span: pointer+size, iterator pair, range, C array / std::array (compile-time
    sizes: a static extent ≥ 1, or 8 elements for a dynamic extent), default constructor (empty spans only) -/
def validVia (via : String) (ext : Option Nat) (n : Nat) : Bool :=
  via == "ptr" || via == "iters" || via == "range" ||
  ((via == "carr" || via == "stdarr") && (match ext with | some e => e ≥ 1 | none => n == 8)) ||
  (via == "def" && n == 0)

def handleSpan (line : String) : String :=
  match line.splitOn " : " with
  | [hd, ops] =>
    let hdt := match tokens hd with
      | ["span", n, ext] => some (n, ext, "ptr")
      | ["span", n, ext, via] => some (n, ext, via)
      | _ => none
    match hdt with
    | some (n, ext, via) =>
      match n.toNat?, parseCount ext with
      | some n, some ext =>
        if (match ext with | some e => e != n || e > 4 | none => false) || n > 64 || !validVia via ext n then "bad-op" else
        let mem := iotaInt n fun k => 10 + (k : Int)
        let rec go (ops : List String) (ext : Option Nat) (s : Span) (acc : List String) (first : Bool) : Option (List String) :=
          match ops with
          | [] => some acc.reverse
          | op :: rest =>
            -- template versions exist only as the first operation (on the typed span)
            let isT := (tokens op).head? |>.map (fun t => t == "tfirst" || t == "tlast" || t == "tsub") |>.getD false
            if isT && !first then none else
            match spanOp mem ext s op with
            | some (e, t, o) => go rest e t (o :: acc) false
            | none => none
        match go (ops.splitOn ";") ext ⟨0, n⟩ [] true with
        | some obs => ";".intercalate obs
        | none => "bad-op"
      | _, _ => "bad-op"
    | none => "bad-op"
  | _ => "bad-op"

def handle (line : String) : String :=
  match tokens line with
  | "map" :: ws => handleMap ws
  | "conv" :: ws => handleConv ws
  | "mdspan" :: ws => handleMdspan ws
  | "mdarray" :: ws => handleMdarray ws
  | "span" :: _ => handleSpan line
  | "bigmap" :: _ => handleBig line
  | _ => "bad-op"

def main : IO Unit := runDriver handle
