import DuneVerif.Common.Proto
import DuneVerif.Model.C01
import DuneVerif.Model.C01.Store
/-! line-protocol driver for C01 (format: see the head of harness/cxx_c01.cc).
Runs the model over `Int` (fields Z and D), Gaussian integers (C) and the prime field with 32003 elements (P). -/
open DV DV.C01

namespace C01Drv

/-! ### the executable scalar types -/

structure GInt where
  re : Int
  im : Int
  deriving DecidableEq

instance : Zero GInt := ⟨⟨0, 0⟩⟩
instance : Add GInt := ⟨fun a b => ⟨a.re + b.re, a.im + b.im⟩⟩
instance : Sub GInt := ⟨fun a b => ⟨a.re - b.re, a.im - b.im⟩⟩
instance : Neg GInt := ⟨fun a => ⟨-a.re, -a.im⟩⟩
instance : Mul GInt := ⟨fun a b => ⟨a.re * b.re - a.im * b.im, a.re * b.im + a.im * b.re⟩⟩
/-- exact quotient of Gaussian integers (only used when the divisor divides) -/
instance : Div GInt := ⟨fun a k =>
  let den := k.re * k.re + k.im * k.im
  ⟨(a.re * k.re + a.im * k.im) / den, (a.im * k.re - a.re * k.im) / den⟩⟩

def P : Nat := 32003

structure Fp where
  v : Nat
  deriving DecidableEq

def powMod : Nat → Nat → Nat → Nat
  | 0, _, _ => 1
  | f+1, b, e =>
    if e = 0 then 1 else
    let h := powMod f (b * b % P) (e / 2)
    if e % 2 = 1 then b * h % P else h

instance : Zero Fp := ⟨⟨0⟩⟩
instance : Add Fp := ⟨fun a b => ⟨(a.v + b.v) % P⟩⟩
instance : Sub Fp := ⟨fun a b => ⟨(a.v + P - b.v % P) % P⟩⟩
instance : Neg Fp := ⟨fun a => ⟨(P - a.v % P) % P⟩⟩
instance : Mul Fp := ⟨fun a b => ⟨a.v * b.v % P⟩⟩
instance : Div Fp := ⟨fun a b => ⟨a.v * powMod 20 b.v (P - 2) % P⟩⟩

/-- how a scalar type travels over the line protocol -/
structure Codec (K : Type) where
  w : Nat
  dec : List Int → Option K
  enc : K → List Int
  conj : K → K
  /-- is `a / k` inside the exact-arithmetic domain of the check? -/
  divOk : K → K → Bool
  /-- `<` for the ordered scalar types (int, double), `none` for complex numbers and the prime field -/
  lt : Option (K → K → Bool)
  /-- is the field type different from its real type (selects the overload of the scalar `dot`)? -/
  cplx : Bool

def small (x : Int) : Bool := -100000 ≤ x && x ≤ 100000

def intCodec : Codec Int where
  w := 1
  dec := fun l => match l with | [x] => if small x then some x else none | _ => none
  enc := fun x => [x]
  conj := id
  divOk := fun a k => k != 0 && a % k == 0
  lt := some fun a b => decide (a < b)
  cplx := false

/-- see `smithExact` in the harness -/
def smithExact (c d : Int) : Bool :=
  let a := c.natAbs
  let b := d.natAbs
  let mx := max a b
  let mn := min a b
  mn == 0 || mn == mx || (mx &&& (mx - 1)) == 0

def gintCodec : Codec GInt where
  w := 2
  dec := fun l => match l with | [x, y] => if small x && small y then some ⟨x, y⟩ else none | _ => none
  enc := fun z => [z.re, z.im]
  conj := fun z => ⟨z.re, -z.im⟩
  divOk := fun a k =>
    let den := k.re * k.re + k.im * k.im
    den != 0 && smithExact k.re k.im && (a.re * k.re + a.im * k.im) % den == 0 && (a.im * k.re - a.re * k.im) % den == 0
  lt := none
  cplx := true

def fpCodec : Codec Fp where
  w := 1
  dec := fun l => match l with | [x] => if 0 ≤ x && x < P then some ⟨x.toNat⟩ else none | _ => none
  enc := fun x => [x.v]
  conj := id
  divOk := fun _ k => k.v != 0
  lt := none
  cplx := false

/-! ### parsing -/

def chunks {α} : Nat → Nat → List α → List (List α)
  | 0, _, _ => []
  | f+1, w, l => if l.isEmpty then [] else l.take w :: chunks f w (l.drop w)

def decList {K} (F : Codec K) (tok : String) : Option (List K) := do
  let raw ← parseIntList? tok
  if F.w = 0 || raw.length % F.w != 0 then none
  else (chunks (raw.length + 1) F.w raw).mapM F.dec

def encList {K} (F : Codec K) (l : List K) : String := showList (l.flatMap F.enc)

structure PMat (K : Type) where
  rep : String
  base : String
  tv : Bool
  tc : Bool
  t2 : Bool
  r : Nat
  c : Nat
  e : List K

structure PVec (K : Type) where
  kind : String
  n : Nat
  e : List K

def maxDim (base : String) : Nat := if base == "DM" then 6 else if base == "SV" then 1 else 4

def parseMat {K} (F : Codec K) : List String → Option (PMat K × List String)
  | rep :: rs :: cs :: l :: rest => do
    let (base, tv, tc, t2) :=
      if rep.length == 4 && rep.startsWith "TV" then ((rep.drop 2).toString, true, false, false)
      else if rep.length == 4 && rep.startsWith "TC" then ((rep.drop 2).toString, false, true, false)
      else if rep.length == 4 && rep.startsWith "T2" then ((rep.drop 2).toString, false, false, true)
      else (rep, false, false, false)
    if !(base == "FM" || base == "DM" || base == "DG" || base == "SV") then none
    if tc && base == "SV" then none
    let r ← rs.toNat?
    let c ← cs.toNat?
    let mx := maxDim base
    if r < 1 || c < 1 || r > mx || c > mx then none
    if base == "DG" && r != c then none
    let e ← decList F l
    if e.length != (if base == "DG" then r else r * c) then none
    some (⟨rep, base, tv, tc, t2, r, c, e⟩, rest)
  | _ => none

def parseVec {K} (F : Codec K) : List String → Option (PVec K × List String)
  | kind :: ns :: l :: rest => do
    if !(kind == "FV" || kind == "DV" || kind == "SC") then none
    let n ← ns.toNat?
    if n < 1 || n > (if kind == "DV" then 6 else if kind == "SC" then 1 else 4) then none
    let e ← decList F l
    if e.length != n then none
    some (⟨kind, n, e⟩, rest)
  | _ => none

def parseScalar {K} (F : Codec K) : List String → Option (K × List String)
  | l :: rest => do
    let e ← decList F l
    match e with
    | [s] => some (s, rest)
    | _ => none
  | _ => none

/-! ### from operands to the model's objects and back -/

section
variable {K : Type} [Zero K] [Add K] [Sub K] [Mul K] [Neg K] [Div K] [DecidableEq K]

def vecFn (e : List K) : Nat → K := fun i => e.getD i 0
def listOf (n : Nat) (f : Nat → K) : List K := (List.range n).map f

/-- the stored matrix as a full matrix (DG expanded) -/
def storedFull (m : PMat K) : Mat K :=
  if m.base == "DG" then ⟨m.r, m.r, fun i j => if i = j then m.e.getD i 0 else 0⟩
  else ⟨m.r, m.c, fun i j => m.e.getD (i * m.c + j) 0⟩

/-- the stored object as a representation of the model.  DiagonalMatrix<K,1> IS a FieldMatrix<K,1,1>. -/
def storedRep (m : PMat K) : Rep K :=
  if m.base == "DG" && m.r != 1 then .diag m.r (vecFn m.e)
  else if m.base == "SV" then .scalar (m.e.getD 0 0)
  else .full (storedFull m)

/-- the operand as it is meant: plain, transposed copy (`transposed()`), transposed view, or the transposed view of
a transposed view -/
def operandRep (m : PMat K) : Rep K :=
  if m.t2 then .transposed (.transposed (storedRep m))
  else if m.tv then .transposed (storedRep m)
  else if m.tc then
    (if m.base == "DG" then storedRep m          -- DiagonalMatrix::transposed returns *this
     else .full (transposed (storedFull m)))
  else storedRep m

def matList (A : Mat K) : List K :=
  (List.range A.rows).flatMap fun i => (List.range A.cols).map fun j => A.e i j

def showMat (F : Codec K) (A : Mat K) : String :=
  toString A.rows ++ " " ++ toString A.cols ++ " " ++ encList F (matList A)

def showB (b : Bool) : String := if b then "true" else "false"

def kname? : String → Option KName
  | "mv" => some .mv | "mtv" => some .mtv | "umv" => some .umv | "umtv" => some .umtv | "umhv" => some .umhv
  | "mmv" => some .mmv | "mmtv" => some .mmtv | "mmhv" => some .mmhv | "usmv" => some .usmv
  | "usmtv" => some .usmtv | "usmhv" => some .usmhv | _ => none

def isTransposedKernel : KName → Bool
  | .mv | .umv | .mmv | .usmv => false
  | _ => true

/-- is the operand's C++ type `FieldMatrix` (plain or transposed copy of one)? -/
def isFM (m : PMat K) : Bool := m.base == "FM" && !m.tv && !m.t2
def isView (m : PMat K) : Bool := m.tv || m.t2
def staticBase (m : PMat K) : Bool := m.base == "FM" || m.base == "DG" || m.base == "SV"
def is11 (m : PMat K) : Bool := m.r == 1 && m.c == 1

def handleKernel (F : Codec K) (k : KName) (toks : List String) : String :=
  match parseMat F toks with
  | none => "bad-op"
  | some (A, t1) =>
  match parseScalar F t1 with
  | none => "bad-op"
  | some (alpha, t2) =>
  match parseVec F t2 with
  | none => "bad-op"
  | some (x, t3) =>
  match parseVec F t3 with
  | none => "bad-op"
  | some (y, t4) =>
    if !t4.isEmpty then "bad-op" else
    let rep := operandRep A
    let tr := isTransposedKernel k
    if x.n != (if tr then rep.rows else rep.cols) || y.n != (if tr then rep.cols else rep.rows) then "bad-op"
    else if !offers k rep then "bad-op"
    else encList F (listOf y.n (repKernel F.conj k rep alpha (vecFn x.e) ⟨y.n, vecFn y.e⟩).get)

def handleMul (F : Codec K) (toks : List String) : String :=
  match parseMat F toks with
  | none => "bad-op"
  | some (A, t1) =>
  match parseMat F t1 with
  | none => "bad-op"
  | some (B, t2) =>
    if !t2.isEmpty then "bad-op" else
    let ra := operandRep A
    let rb := operandRep B
    if ra.cols != rb.rows then "bad-op" else
    if isView A && isView B then "bad-op"
    else if isView A then
      -- fmatrix.hh OtherMatrix * FieldMatrix with a (static-size) transposed view as OtherMatrix
      if A.tv && staticBase A && isFM B && !B.tc then
        showMat F (mulOtherFm F.conj (if rb.rows == 1 && rb.cols == 1 then Gen.otherMulFm11 else Gen.otherMulFm) ra rb.toFull)
      else "bad-op"
    else if B.t2 then
      -- fmatrix.hh FieldMatrix * OtherMatrix with the view of a view (static size) as OtherMatrix
      if isFM A && !A.tc && (B.base == "DG" || B.base == "SV") then
        showMat F (mulFmOther F.conj (if ra.rows == 1 && ra.cols == 1 then Gen.fm11MulOther else Gen.fmMulOther) ra.toFull rb)
      else "bad-op"
    else if B.tv then
      -- B is a TransposedMatrixWrapper around storedRep B
      if isFM A && B.base != "DM" then
        -- fmatrix.hh FieldMatrix * OtherMatrix (the wrapper of a static-size matrix has static size)
        showMat F (mulFmOther F.conj (if ra.rows == 1 && ra.cols == 1 then Gen.fm11MulOther else Gen.fmMulOther) ra.toFull rb)
      else if (isFM A || (A.base == "DM" && !A.tv)) then
        -- transpose.hh friend operator*, dynamic-size branch
        showMat F (mulTransposedView F.conj Gen.twMulDynamic ra.toFull (storedRep B))
      else "bad-op"
    else if isFM A && isFM B then
      showMat F (if ra.rows == 1 && ra.cols == 1 then matmul11 ra.toFull rb.toFull else matmul ra.toFull rb.toFull)
    else if isFM A && (B.base == "DG" || B.base == "SV") then
      showMat F (mulFmOther F.conj (if ra.rows == 1 && ra.cols == 1 then Gen.fm11MulOther else Gen.fmMulOther) ra.toFull rb)
    else if (A.base == "DG" || A.base == "SV") && isFM B then
      showMat F (mulOtherFm F.conj (if rb.rows == 1 && rb.cols == 1 then Gen.otherMulFm11 else Gen.otherMulFm) ra rb.toFull)
    else if A.base == "DG" && B.base == "DG" then
      showMat F (Rep.toFull (.diag A.r (mulDiag (vecFn A.e) (vecFn B.e))))
    else "bad-op"

def handleMulInPlace (F : Codec K) (op : String) (toks : List String) : String :=
  match parseMat F toks with
  | none => "bad-op"
  | some (A, t1) =>
  match parseMat F t1 with
  | none => "bad-op"
  | some (M, t2) =>
    if !t2.isEmpty || A.tv || A.tc || A.t2 || M.tv || M.tc || M.t2 || A.base == "DG" || M.base == "DG" then "bad-op" else
    let a := storedFull A
    let m := storedFull M
    let fm11 := A.base == "FM" && is11 A
    match op with
    | "leftmultiply" =>
      if m.rows != m.cols || m.cols != a.rows then "bad-op" else showMat F (leftmultiply a m)
    | "rightmultiply" =>
      if m.rows != m.cols || m.rows != a.cols then "bad-op"
      -- FieldMatrix<K,1,1> has its own rightmultiply(FieldMatrix<K,1,1>) (a 1x1 DynamicMatrix / scalar view converts to it
      -- through DenseMatrixAssigner); FieldMatrix has an overload for FieldMatrix arguments; otherwise DenseMatrix
      else showMat F (if fm11 then rightmultiply11 a m
                      else if A.base == "FM" && M.base == "FM" then rightmultiplyFM a m else rightmultiply a m)
    | "leftmultiplyany" =>
      if A.base != "FM" || M.base != "FM" || m.cols != a.rows then "bad-op"
      else showMat F (if fm11 then leftmultiplyany11 a m else leftmultiplyany a m)
    | "rightmultiplyany" =>
      if A.base != "FM" || M.base != "FM" || m.rows != a.cols then "bad-op"
      else showMat F (if fm11 then rightmultiplyany11 a m else rightmultiplyany a m)
    | "multmatrix" =>
      if A.base != "FM" || M.base != "FM" || m.rows != a.cols then "bad-op"
      else showMat F (multMatrix a m (zeroMat a.rows m.cols))
    | _ => "bad-op"

def handleUnaryMat (F : Codec K) (op : String) (toks : List String) : String :=
  match parseMat F toks with
  | none => "bad-op"
  | some (A, t1) =>
    if !t1.isEmpty then "bad-op" else
    if A.t2 then "bad-op" else
    match op with
    | "transposed" =>
      let rep := operandRep A
      match rep with
      | .full m => showMat F (if A.base == "DM" then transposedDyn m else transposed m)
      | .transposed r => showMat F (transposeMat (Rep.toFull (.transposed r)))   -- asDense() of the view, transposed back
      | r => showMat F r.transposedFull
    | "multtm" =>
      if A.base != "FM" || A.tv || A.tc then "bad-op"
      else showMat F (multTransposedMatrix (storedFull A) (zeroMat A.c A.c))
    | _ => "bad-op"

def allDivOk (F : Codec K) (l : List K) (k : K) : Bool := l.all fun a => F.divOk a k

def handleMatVS (F : Codec K) (op : String) (toks : List String) : String :=
  let two := ["madd", "msub", "mplus", "mminus", "maxpy", "meq", "mne"].contains op
  let sc := ["mscale", "mdiv", "mtimes", "mltimes", "mover", "maxpy"].contains op
  match parseMat F toks with
  | none => "bad-op"
  | some (A, t1) =>
  let sres := if sc then parseScalar F t1 else some (0, t1)
  match sres with
  | none => "bad-op"
  | some (s, t2) =>
  let bres : Option (Option (PMat K) × List String) :=
    if two then (parseMat F t2).map fun (b, t) => (some b, t) else some (none, t2)
  match bres with
  | none => "bad-op"
  | some (B?, t3) =>
    if !t3.isEmpty || A.tv || A.tc || A.t2 then "bad-op" else
    let a := storedFull A
    let diag := A.base == "DG"
    match B? with
    | some B =>
      if B.tv || B.tc || B.t2 || A.r != B.r || A.c != B.c || (diag != (B.base == "DG")) then "bad-op" else
      let b := storedFull B
      -- DiagonalMatrix works on its diagonal vector
      let dres (f : Vec K → (Nat → K) → Vec K) : String :=
        showMat F (Rep.toFull (.diag A.r (f ⟨A.r, vecFn A.e⟩ (vecFn B.e)).get))
      match op with
      | "madd" => if diag then dres vPlusAssign else showMat F (madd a b)
      | "msub" => if diag then dres vMinusAssign else showMat F (msub a b)
      | "mplus" => if isFM A && isFM B then showMat F (mplus a b) else "bad-op"
      | "mminus" => if isFM A && isFM B then showMat F (mminus a b) else "bad-op"
      | "maxpy" => if diag then "bad-op" else showMat F (maxpy a s b)
      | "meq" => showB (if diag then veq A.r (vecFn A.e) (vecFn B.e) else meq a b)
      | "mne" => showB (!(if diag then veq A.r (vecFn A.e) (vecFn B.e) else meq a b))
      | _ => "bad-op"
    | none =>
      let dres (f : Vec K → K → Vec K) : String :=
        showMat F (Rep.toFull (.diag A.r (f ⟨A.r, vecFn A.e⟩ s).get))
      match op with
      | "mscale" => if diag then dres vTimesAssign else showMat F (mscale a s)
      | "mdiv" =>
        if !allDivOk F A.e s then "inexact"
        else if diag then dres vDivAssign else showMat F (mdiv a s)
      | "mtimes" => if isFM A then showMat F (mtimes a s) else "bad-op"
      | "mltimes" => if isFM A then showMat F (mltimes s a) else "bad-op"
      | "mover" =>
        if !isFM A then "bad-op" else if !allDivOk F A.e s then "inexact" else showMat F (mover a s)
      | "mneg" =>
        if diag then "bad-op"
        else
          -- unary minus of a scalar view: the result and what the viewed scalar holds afterwards
          let r := negObj Gen.mnegResult (A.base == "SV") a
          if A.base == "SV" then showMat F r.1 ++ " stored=" ++ encList F [r.2.e 0 0] else showMat F r.1
      | _ => "bad-op"

def ordVV : List String := ["v1_lt_v1", "v1_le_v1", "v1_gt_v1", "v1_ge_v1"]
def ordVS : List String := ["v1_lt_s", "v1_le_s", "v1_gt_s", "v1_ge_s", "s_lt_v1", "s_le_v1", "s_gt_v1", "s_ge_v1"]
def twoVecOps : List String :=
  ["vadd", "vsub", "vplus", "vminus", "vaxpy", "veq", "vne", "vdotT", "vdot", "fdot", "fdotT"] ++ ordVV

def ordRel? : String → Option OrdRel
  | "lt" => some .lt | "le" => some .le | "gt" => some .gt | "ge" => some .ge | _ => none

def handleVec (F : Codec K) (op : String) (toks : List String) : String :=
  let two := twoVecOps.contains op
  let sc := (!two && op != "vneg" && op != "v1_conv") || op == "vaxpy"
  match parseVec F toks with
  | none => "bad-op"
  | some (a, t1) =>
  let sres := if sc then parseScalar F t1 else some (0, t1)
  match sres with
  | none => "bad-op"
  | some (s, t2) =>
  let bres : Option (Option (PVec K) × List String) :=
    if two then (parseVec F t2).map fun (b, t) => (some b, t) else some (none, t2)
  match bres with
  | none => "bad-op"
  | some (b?, t3) =>
    if !t3.isEmpty then "bad-op" else
    let n := a.n
    let x := vecFn a.e
    let xv : Vec K := ⟨n, x⟩
    let out (f : Nat → K) : String := encList F (listOf n f)
    match b? with
    | some b =>
      if b.n != n then "bad-op" else
      let y := vecFn b.e
      if a.kind == "SC" then
        (if b.kind != "SC" then
           -- asVector(s) + v, asVector(s) - v: the result and what the scalar holds afterwards
           (if n != 1 then "bad-op" else
            match op with
            | "vplus" => let r := binObj Gen.vplusResult true xv (vPlus xv y)
                         encList F [r.1.get 0] ++ " stored=" ++ encList F [r.2.get 0]
            | "vminus" => let r := binObj Gen.vminusResult true xv (vMinus xv y)
                          encList F [r.1.get 0] ++ " stored=" ++ encList F [r.2.get 0]
            | _ => "bad-op")
         else
         match op with
         -- free functions on plain scalars (dotproduct.hh)
         | "fdot" => encList F [scalarDot (if F.cplx then Gen.scalarDotComplex else Gen.scalarDotReal) F.conj (x 0) (y 0)]
         | "fdotT" => encList F [x 0 * y 0]
         | _ => "bad-op")
      else if b.kind == "SC" then "bad-op" else
      match op with
      | "vadd" => out (vPlusAssign xv y).get
      | "vsub" => out (vMinusAssign xv y).get
      | "vplus" => out (vPlus xv y).get
      | "vminus" => out (vMinus xv y).get
      | "vaxpy" => out (vAxpy xv s y).get
      | "veq" => showB (veq n x y)
      | "vne" => showB (!veq n x y)
      | "vdotT" | "fdotT" => encList F [vdotT n x y]
      | "vdot" | "fdot" => encList F [vdot F.cplx F.conj n x y]
      | _ =>
        if ordVV.contains op && a.kind == "FV" && b.kind == "FV" && n == 1 then
          match F.lt with
          | some lt =>
            match ordRel? ((op.drop 3).take 2).toString with
            | some r => showB (ordRel lt r (x 0) (y 0))
            | none => "bad-op"
          | none => "bad-op"
        else "bad-op"
    | none =>
      if a.kind == "SC" then
        -- unary minus of the view asVector(s): the result and what the scalar holds afterwards
        (if op != "vneg" || n != 1 then "bad-op" else
         let r := negObj Gen.vnegResult true (⟨1, 1, fun _ j => x j⟩ : Mat K)
         encList F [r.1.e 0 0] ++ " stored=" ++ encList F [r.2.e 0 0])
      else
      let fv := a.kind == "FV"
      let one := fv && n == 1
      match op with
      | "vneg" => out (vNeg xv).get
      | "vadds" => out (vPlusAssignScalar xv s).get
      | "vsubs" => out (vMinusAssignScalar xv s).get
      | "vscale" => out (vTimesAssign xv s).get
      | "vdiv" => if !allDivOk F a.e s then "inexact" else out (vDivAssign xv s).get
      | "vtimes" => if fv then out (vscale n x s) else "bad-op"
      | "vltimes" => if fv then out (vscaleL n s x) else "bad-op"
      | "vover" => if !allDivOk F a.e s then "inexact" else if fv then out (vdiv n x s) else "bad-op"
      -- fvector.hh, FieldVector<K,1> mixed with plain scalars: `a[0]+b`, `a+b[0]`, ...
      | "v1_plus_s" => if one then out (fun _ => x 0 + s) else "bad-op"
      | "s_plus_v1" => if one then out (fun _ => s + x 0) else "bad-op"
      | "v1_minus_s" => if one then out (fun _ => x 0 - s) else "bad-op"
      | "s_minus_v1" => if one then out (fun _ => s - x 0) else "bad-op"
      | "v1_times_s" => if one then out (fun i => x i * s) else "bad-op"
      | "s_times_v1" => if one then out (fun i => s * x i) else "bad-op"
      | "v1_over_s" => if !allDivOk F a.e s then "inexact" else if one then out (fun i => x i / s) else "bad-op"
      | "s_over_v1" =>
        if !(a.e.all fun v => F.divOk s v) then "inexact" else if one then out (fun i => s / x i) else "bad-op"
      | "v1_eq_s" => if one then showB (veq 1 x (fun _ => s)) else "bad-op"
      | "s_ne_v1" => if one then showB (!veq 1 (fun _ => s) x) else "bad-op"
      | "v1_ne_s" => if one then showB (!veq 1 x (fun _ => s)) else "bad-op"
      | "s_eq_v1" => if one then showB (veq 1 (fun _ => s) x) else "bad-op"
      | "v1_conv" => if one then encList F [x 0] else "bad-op"
      | _ =>
        if ordVS.contains op && one then
          match F.lt with
          | some lt =>
            let sFirst := op.startsWith "s_"
            let rel := if sFirst then ((op.drop 2).take 2).toString else ((op.drop 3).take 2).toString
            match ordRel? rel with
            | some r => showB (ordRel lt r (if sFirst then s else x 0) (if sFirst then x 0 else s))
            | none => "bad-op"
          | none => "bad-op"
        else "bad-op"

def m11Ops : List String := ["m11_plus_s", "s_plus_m11", "m11_minus_s", "s_minus_m11", "m11_adds", "m11_subs", "m11_conv"]

/-- FieldMatrix<K,1,1> mixed with plain scalars, and its conversion to the scalar -/
def handleM11 (F : Codec K) (op : String) (toks : List String) : String :=
  match parseMat F toks with
  | none => "bad-op"
  | some (A, t1) =>
    if A.rep != "FM" || !is11 A then "bad-op" else
    let a := (storedFull A).e 0 0
    if op == "m11_conv" then (if t1.isEmpty then encList F [a] else "bad-op") else
    match parseScalar F t1 with
    | none => "bad-op"
    | some (s, t2) =>
      if !t2.isEmpty then "bad-op" else
      let out (v : K) : String := showMat F ⟨1, 1, fun _ _ => v⟩
      match op with
      | "m11_plus_s" | "m11_adds" => out (a + s)
      | "s_plus_m11" => out (s + a)
      | "m11_minus_s" | "m11_subs" => out (a - s)
      | "s_minus_m11" => out (s - a)
      | _ => "bad-op"

def multOps : List String := ["multassign", "multassignT", "fmult", "fmultT"]

/-- DenseMatrixHelp::multAssign, FMatrixHelp::multAssignTransposed / mult / multTransposed -/
def handleMult (F : Codec K) (op : String) (toks : List String) : String :=
  match parseMat F toks with
  | none => "bad-op"
  | some (A, t1) =>
  match parseVec F t1 with
  | none => "bad-op"
  | some (x, t2) =>
    if !t2.isEmpty || A.tv || A.tc || A.t2 || !(A.base == "FM" || A.base == "DM") then "bad-op" else
    let tr := op == "multassignT" || op == "fmultT"
    if x.n != (if tr then A.r else A.c) then "bad-op" else
    if A.base == "DM" && (op != "multassign" || x.kind != "DV") then "bad-op" else
    if A.base == "FM" && x.kind != "FV" then "bad-op" else
    let a := storedFull A
    -- `ret` is the caller's vector (any content) for multAssign*, a fresh one for mult / multTransposed
    if tr then encList F (listOf A.c (multAssignT a (vecFn x.e) (zeroVec A.c)).get)
    else encList F (listOf A.r (multAssign a (vecFn x.e) (zeroVec A.r)).get)

/-- construction / assignment of a FieldMatrix or DynamicMatrix from another representation; of a vector from another -/
def handleAssign (F : Codec K) (op : String) (toks : List String) : String :=
  match toks with
  | tgt :: rest =>
    if op == "vassign" then
      match parseVec F rest with
      | none => "bad-op"
      | some (x, t) =>
        if !t.isEmpty || x.kind == "SC" || !(tgt == "FV" || tgt == "DV") then "bad-op"
        else if tgt == "FV" && x.n > 4 then "bad-op"
        else encList F (listOf x.n (vecFn x.e))
    else
      match parseMat F rest with
      | none => "bad-op"
      | some (A, t) =>
        if !t.isEmpty || A.tv || A.tc || A.t2 || !(tgt == "FM" || tgt == "DM") then "bad-op"
        else if tgt == "FM" && (A.r > 4 || A.c > 4 || (A.base == "DM" && A.r != A.c)) then "bad-op"
        else showMat F (assignFrom (storedRep A))
  | _ => "bad-op"

/-! ### object histories (`seq`): the store model of `Model/C01/Store.lean` -/

def rkind? : String → Option RKind
  | "FV" => some .fv | "DV" => some .dv | "SC" => some .sc | "SCC" => some .scc | "FM" => some .fm | "DM" => some .dm
  | "DG" => some .dg | "SV" => some .sv | "SVC" => some .svc | _ => none

/-- the shapes instantiated by the harness (`sq::declShape`) -/
def declShapeOk (k : RKind) (r c : Nat) : Bool :=
  match k with
  | .fv => r == 1 && 1 ≤ c && c ≤ 3
  | .dv => r == 1 && 1 ≤ c && c ≤ 4
  | .sc | .scc | .sv | .svc => r == 1 && c == 1
  | .fm => (r == 1 && c == 1) || (r == 2 && c == 2)
  | .dm => 1 ≤ r && r ≤ 3 && 1 ≤ c && c ≤ 3
  | .dg => r == 2 && c == 2
  | .tv => false

/-- declarations up to the `:` token; returns the declarations and the tokens after `:` -/
def parseDecls (F : Codec K) : Nat → List String → List (Decl K) → Option (List (Decl K) × List String)
  | 0, _, _ => none
  | _, [], _ => none
  | fuel+1, tok :: rest, acc =>
    if tok == ":" then some (acc.reverse, rest) else
    if tok == "TV" || tok == "TW" then
      match rest with
      | ws :: rest' => do
        let w ← ws.toNat?
        let ds := acc.reverse
        let b ← ds[w]?
        -- a view of a 2x2 FieldMatrix, a DynamicMatrix, a DiagonalMatrix or a scalar matrix view
        if !(b.kind == .dm || b.kind == .dg || b.kind == .sv || (b.kind == .fm && b.init.rows == 2)) then none
        parseDecls F fuel rest' (⟨.tv, zeroMat 0 0, w, tok == "TW"⟩ :: acc)
      | _ => none
    else do
      let k ← rkind? tok
      if isVecKind k then
        match rest with
        | ns :: l :: rest' => do
          let n ← ns.toNat?
          if !declShapeOk k 1 n then none
          let e ← decList F l
          if e.length != n then none
          parseDecls F fuel rest' (⟨k, (Mat.freeze ⟨1, n, fun _ j => e.getD j 0⟩), acc.length, false⟩ :: acc)
        | _ => none
      else
        match rest with
        | rs :: cs :: l :: rest' => do
          let r ← rs.toNat?
          let c ← cs.toNat?
          if !declShapeOk k r c then none
          let e ← decList F l
          if k == .dg then
            if e.length != r then none
            parseDecls F fuel rest' (⟨k, (Mat.freeze ⟨1, r, fun _ j => e.getD j 0⟩), acc.length, false⟩ :: acc)
          else
            if e.length != r * c then none
            parseDecls F fuel rest' (⟨k, (Mat.freeze ⟨r, c, fun i j => e.getD (i * c + j) 0⟩), acc.length, false⟩ :: acc)
        | _ => none

def parseSeqOp (F : Codec K) (toks : List String) : Option (SOp K) :=
  match toks with
  | [name, a, b] =>
    match name with
    | "asg" => do some (.asg (← a.toNat?) (← b.toNat?))
    | "add" => do some (.add (← a.toNat?) (← b.toNat?))
    | "sub" => do some (.sub (← a.toNat?) (← b.toNat?))
    | "lmul" => do some (.lmul (← a.toNat?) (← b.toNat?))
    | "rmul" => do some (.rmul (← a.toNat?) (← b.toNat?))
    | "fill" => do some (.fill (← a.toNat?) (← parseScalar F [b]).1)
    | "scale" => do some (.scale (← a.toNat?) (← parseScalar F [b]).1)
    | _ => none
  | ["axpy", t, k, s] => do some (.axpy (← t.toNat?) (← parseScalar F [k]).1 (← s.toNat?))
  | ["rasg", t, i, s, j] => do some (.rasg (← t.toNat?) (← i.toNat?) (← s.toNat?) (← j.toNat?))
  | ["raxpy", t, i, k, s, j] => do some (.raxpy (← t.toNat?) (← i.toNat?) (← parseScalar F [k]).1 (← s.toNat?) (← j.toNat?))
  | [name, a, al, x, y] => do some (.kern (← kname? name) (← a.toNat?) (← parseScalar F [al]).1 (← x.toNat?) (← y.toNat?))
  | _ => none

def showStore (F : Codec K) (st : SeqState K) : String :=
  "|".intercalate ((List.range st.size).map fun i =>
    if st.kind i == .tv then "-" else encList F (matList (st.buf i)))

def handleSeq (F : Codec K) (toks : List String) : String :=
  match parseDecls F (toks.length + 1) toks [] with
  | none => "bad-op"
  | some (ds, rest) =>
    if ds.isEmpty || ds.length > 8 then "bad-op" else
    let segs := (" ".intercalate rest).splitOn ";"
    if segs.length > 40 then "bad-op" else
    match segs.mapM (fun sg => parseSeqOp F (tokens sg)) with
    | none => "bad-op"
    | some ops =>
      if ops.isEmpty then "bad-op" else
      match seqTrace F.conj (initState ds) ops with
      | none => "bad-op"
      | some sts => ";".intercalate (sts.map (showStore F))

def matVSOps : List String :=
  ["madd", "msub", "mplus", "mminus", "mscale", "mdiv", "mtimes", "mltimes", "mover", "maxpy", "mneg", "meq", "mne"]

def handleK (F : Codec K) (op : String) (toks : List String) : String :=
  match kname? op with
  | some k => handleKernel F k toks
  | none =>
    if op == "seq" then handleSeq F toks
    else if op == "mul" then handleMul F toks
    else if ["leftmultiply", "rightmultiply", "leftmultiplyany", "rightmultiplyany", "multmatrix"].contains op then
      handleMulInPlace F op toks
    else if op == "transposed" || op == "multtm" then handleUnaryMat F op toks
    else if matVSOps.contains op then handleMatVS F op toks
    else if m11Ops.contains op then handleM11 F op toks
    else if multOps.contains op then handleMult F op toks
    else if op == "assign" || op == "vassign" then handleAssign F op toks
    else handleVec F op toks

end

def handle (line : String) : String :=
  match tokens line with
  | f :: op :: rest =>
    if rest.isEmpty then "bad-op" else
    match f with
    | "Z" | "D" => handleK intCodec op rest
    | "C" => handleK gintCodec op rest
    | "P" => handleK fpCodec op rest
    | _ => "bad-op"
  | _ => "bad-op"

end C01Drv

def main : IO Unit := DV.runDriver C01Drv.handle
