import DuneVerif.Common.Proto
def main : IO Unit := DV.runDriver fun _ => "bad-op"
