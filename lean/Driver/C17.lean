import DuneVerif.Model.C17
import DuneVerif.Gen.C17RT
import DuneVerif.Gen.C17Vec
import DuneVerif.Gen.C17EqVec
import DuneVerif.Common.Proto
/-! line-protocol driver for C17 (see harness/cxx_c17.cc for the op lines)

  cmp   <T> <style> <a> <b> <eps>                 six comparisons; numbers are exact dyadics `m:e` = m·2^e; evaluated over
                                                  the rationals on the domain where every C++ intermediate is exact
  cmpv  <T> std|fv <style> [a,..] [b,..] <eps>    vector overloads (rationals)
  round <T> <I> <style> <rstyle> <val> <eps>      trunc likewise (rationals; I as for mfri: the model reduces every value
                                                  stored in an I variable as the type does, see roundM / truncM)
  fcmp / fcmpv / fround / ftrunc                  the same with T = f32|f64|f80 on ARBITRARY finite values of the format,
                                                  evaluated in the rounding arithmetic `FP f`; eps may be `def` (argument omitted)
  fvround / fvtrunc <T> <I> std|fv <style> <rstyle> [v,..] <eps|def>
                                                  round / trunc of a std::vector / FieldVector (round four): the component loops
                                                  regenerated from float_cmp.cc (Gen/C17Vec.lean) around roundM / truncM in `FP f`
  static | static2                                integral_constant overloads, documented default styles
  laws  …                                         law-only run on arbitrary bit patterns: the model is silent (`n/a`)
  mf    <style> <a> <b> <eps|def>                 8-bit minifloat codes 0..255, operations round
  mfr   <style> <rstyle> <val> <eps|def>          round/trunc in the minifloat format (target type int)
  mfri  <fmt> <I> <style> <rstyle> <val> <eps>    the same in the format e4m3 (that of mf/mfr) or e5m2 with the target type I
                                                  (i8 u8 i16 u16 i32 u32 i64 u64); eps may be `def` for e4m3
  defeps <T> <style>
  pow <t> <te> <m> <p> | powf <T> <m:e> <p> | fact <t> <n> | binom <t> <n> <k> | sign <t|T> <x>
  cls fv|cx|fvcx|un <fmt> [hex,..]

`skip` is printed for inputs outside the domain on which the C++ computation is exact / defined (the harness
uses the same predicate); anything unparsable is `bad-op`. -/
open DV DV.C17

def showB (b : Bool) : String := if b then "true" else "false"

def parseStyle? : String → Option Style
  | "relativeWeak" => some .relativeWeak
  | "relativeStrong" => some .relativeStrong
  | "absolute" => some .absolute
  | _ => none

def parseRStyle? : String → Option RStyle
  | "towardZero" => some .towardZero
  | "towardInf" => some .towardInf
  | "downward" => some .downward
  | "upward" => some .upward
  | _ => none

def parseIType? : String → Option IType
  | "i32" => some int32
  | "i64" => some int64
  | "u32" => some uint32
  | "u64" => some uint64
  | _ => none

/-- integer target types of round / trunc (the narrow ones are promoted to `int` in `lower+1`) -/
def parseRTType? : String → Option IType
  | "i8" => some int8
  | "u8" => some uint8
  | "i16" => some int16
  | "u16" => some uint16
  | s => parseIType? s

/-- floating type: (mantissa bits of operands, mantissa bits of epsilon, exponent window, total precision) -/
structure FT where
  mb : Nat
  me : Nat
  ew : Int
  prec : Nat

def parseFT? : String → Option FT
  | "f32" => some ⟨12, 12, 11, 24⟩
  | "f64" => some ⟨26, 26, 26, 53⟩
  | _ => none

/-- operand domain: at most `mb` significant bits, all of them at positions in [-ew, ew) -/
def okVal (ft : FT) (x : Dy) : Bool :=
  let (m, e) := x.normal
  let bl : Int := Dy.bitlen m.natAbs
  m == 0 || (bl ≤ ft.mb && -ft.ew ≤ e && e + bl ≤ ft.ew)

/-- epsilon domain: non-negative, at most `me` significant bits, exponent moderate -/
def okEps (ft : FT) (x : Dy) : Bool :=
  let (m, e) := x.normal
  let bl : Int := Dy.bitlen m.natAbs
  m == 0 || (m > 0 && bl ≤ ft.me && -60 ≤ e && e + bl ≤ 20)

def parseDyList? (s : String) : Option (List Dy) :=
  let cs := s.toList
  if cs.length < 2 then none else
  if cs.head? ≠ some '[' || cs.getLast? ≠ some ']' then none else
  let inner := String.ofList ((cs.drop 1).dropLast)
  if inner.isEmpty then some [] else (inner.splitOn ",").mapM Dy.parse?

def parseHexList? (s : String) : Option (List Nat) :=
  let cs := s.toList
  if cs.length < 2 then none else
  if cs.head? ≠ some '[' || cs.getLast? ≠ some ']' then none else
  let inner := String.ofList ((cs.drop 1).dropLast)
  if inner.isEmpty then some [] else (inner.splitOn ",").mapM parseHex?



def parseFmt? : String → Option Fmt
  | "f32" => some Fmt.f32
  | "f64" => some Fmt.f64
  | "f80" => some Fmt.f80
  | _ => none

/-- `m:e` as a value of the format (none if it is not one) -/
def parseFP? (f : Fmt) (s : String) : Option (FP f) :=
  match s.splitOn ":" with
  | [m, e] => match m.toInt?, e.toInt? with
    | some m, some e => if e < -100000 ∨ e > 100000 then none else FP.ofDyadic? f m e
    | _, _ => none
  | _ => none

def parseFPList? (f : Fmt) (s : String) : Option (List (FP f)) :=
  let cs := s.toList
  if cs.length < 2 then none else
  if cs.head? ≠ some '[' || cs.getLast? ≠ some ']' then none else
  let inner := String.ofList ((cs.drop 1).dropLast)
  if inner.isEmpty then some [] else (inner.splitOn ",").mapM (parseFP? f)

def six (eq ne lt gt le ge : Bool) : String :=
  s!"eq={showB eq} ne={showB ne} lt={showB lt} gt={showB gt} le={showB le} ge={showB ge}"

def showOpt : Option Int → String
  | some v => toString v
  | none => "unrep"

def pairs {α} : List α → Option (List (α × α))
  | [] => some []
  | a :: b :: r => (pairs r).map ((a, b) :: ·)
  | _ => none

def defaultEps? : String → Style → Option Dy
  | "f32", .relativeWeak => some Gen.defaultEps_relativeWeak_f32
  | "f32", .relativeStrong => some Gen.defaultEps_relativeStrong_f32
  | "f32", .absolute => some Gen.defaultEps_absolute_f32
  | "f64", .relativeWeak => some Gen.defaultEps_relativeWeak_f64
  | "f64", .relativeStrong => some Gen.defaultEps_relativeStrong_f64
  | "f64", .absolute => some Gen.defaultEps_absolute_f64
  | "f80", .relativeWeak => some Gen.defaultEps_relativeWeak_f80
  | "f80", .relativeStrong => some Gen.defaultEps_relativeStrong_f80
  | "f80", .absolute => some Gen.defaultEps_absolute_f80
  | "mf8", .relativeWeak => some Gen.defaultEps_relativeWeak_mf8
  | "mf8", .relativeStrong => some Gen.defaultEps_relativeStrong_mf8
  | "mf8", .absolute => some Gen.defaultEps_absolute_mf8
  | _, _ => none

/-- the epsilon operand of an `f…` op: a non-negative finite value of the format, or `def` = the default epsilon -/
def parseEpsFP? (f : Fmt) (t : String) (s : Style) (tok : String) : Option (FP f) :=
  if tok == "def" then
    (defaultEps? t s).bind fun d => let (m, e) := d.normal; FP.ofDyadic? f m e
  else match parseFP? f tok with
    | some (.fin n) => if n < 0 then none else some (.fin n)
    | _ => none

def mfEps? (s : Style) (tok : String) : Option MF :=
  if tok == "def" then
    (defaultEps? "mf8" s).bind fun d => let (m, e) := d.normal; FP.ofDyadic? Fmt.mf8 m e
  else match tok.toNat? with
    | some e => if e < 120 then some (MF.decode e) else none
    | none => none

/-- domain of round / trunc in terms of `tr = I(val)`: it is a value of the target type (unsigned: the argument is above -1);
    `int` and wider signed types additionally keep `lower-1` and `upper+1` inside the type (overflow is undefined behaviour).
    Unsigned and narrow types reduce modulo `2^bits`, which `roundM` / `truncM` reproduce. -/
def rtDomain (ity : IType) (tr : Int) : Bool :=
  if ity.signed && decide (32 ≤ ity.bits) then decide (-(ity.hi - 2) ≤ tr) && decide (tr ≤ ity.hi - 2)
  else ity.fits tr

def rtInRange (ity : IType) (v : FP f) : Bool :=
  match v with
  | .fin n => if !ity.signed && decide (n ≤ -(2 ^ f.sh : Int)) then false else rtDomain ity (FP.trunc v)
  | _ => false

/-- the same for the exact ops: either nothing wraps around (`I(val)`, `lower-1`, `upper+1` inside the type), or the full
    domain; `trunc` converts a wrapped value back to `T` (`T(M) - val`, `M = 2^bits - 1`, …), which is exact in `T` only for
    `bits + ew ≤ prec` -/
def rtInRangeQ (ft : FT) (ity : IType) (isRound : Bool) (v : Dy) : Bool :=
  let t := v.trunc
  let noWrap := if ity.signed then decide (-(ity.hi - 2) ≤ t) && decide (t ≤ ity.hi - 2)
                else !(v < (0 : Dy)) && decide (t ≤ ity.hi - 2)
  let full := !(ity.signed && decide (32 ≤ ity.bits)) && ity.fits t && !(!ity.signed && !(Dy.ofInt (-1) < v)) &&
              (isRound || decide ((ity.bits : Int) + ft.ew ≤ ft.prec))
  noWrap || full

/-- `trunc`: the documented result — the one the mathematical-integer model `trunc` computes in the same arithmetic — is not
    a value of the target type (unsigned type and an argument in (-1,0) truncated downward or equal to -1 within epsilon; an
    argument beyond the largest value truncated upward; …).  What the code returns there is not compared: the harness
    evaluates the same predicate, in the same arithmetic, and prints `unrep`. -/
def truncUnrep {K : Type} [Zero K] [Neg K] [Sub K] [Mul K] [LT K] [LE K] [DecidableLT K] [DecidableLE K] [IntCast K] [Add K]
    (ity : IType) (s : Style) (r : RStyle) (tr : K → Int) (x e : K) : Bool :=
  !(ity.fits (trunc s (!ity.signed) r tr x e))

/-- … or (tiny formats only) the largest value of an unsigned type is not a finite number of the format -/
def truncUnrepFP (ity : IType) (s : Style) (r : RStyle) (x e : FP f) : Bool :=
  truncUnrep ity s r FP.trunc x e ||
    (!ity.signed && decide (x < ((0 : Int) : FP f)) && !(eqS s x ((0 : Int) : FP f) e) && !(((ity.hi : Int) : FP f).isFin))

def showTrunc (unrep : Bool) (v : Int) : String := if unrep then "unrep" else toString v

def mfFinite (c : Nat) : Bool := c < 256 && c / 8 % 16 != 15

def handle (line : String) : String :=
  match tokens line with
  | ["cmp", t, st, a, b, e] =>
    match parseFT? t, parseStyle? st, Dy.parse? a, Dy.parse? b, Dy.parse? e with
    | some ft, some s, some a, some b, some e =>
      if !(okVal ft a && okVal ft b && okEps ft e) then "skip" else
      let a := a.toRat; let b := b.toRat; let e := e.toRat
      six (eqRat s a b e) (neRat s a b e) (ltRat s a b e) (gtRat s a b e) (leRat s a b e) (geRat s a b e)
    | _, _, _, _, _ => "bad-op"
  | ["fcmp", t, st, a, b, e] =>
    match parseFmt? t, parseStyle? st with
    | some f, some s =>
      match parseFP? f a, parseFP? f b, parseEpsFP? f t s e with
      | some a, some b, some e => six (eqS s a b e) (neS s a b e) (ltS s a b e) (gtS s a b e) (leS s a b e) (geS s a b e)
      | _, _, _ => "bad-op"
    | _, _ => "bad-op"
  | ["fcmpv", t, kind, st, a, b, e] =>
    match parseFmt? t, parseStyle? st with
    | some f, some s =>
      match parseFPList? f a, parseFPList? f b, parseEpsFP? f t s e with
      | some a, some b, some e =>
        match kind with
        | "std" => six (GenEqVec.eq_std_vec eqS s a b e) (neVec s a b e) (ltVec s a b e) (gtVec s a b e) (leVec s a b e) (geVec s a b e)
        | "fv" => if a.length != b.length || a.length == 0 || a.length > 8 || a.length == 7 then "bad-op" else
                  s!"eq={showB (GenEqVec.eq_fvec eqS s a b e)} ne={showB (neFV s a b e)}"
        | _ => "bad-op"
      | _, _, _ => "bad-op"
    | _, _ => "bad-op"
  | ["cmpv", t, kind, st, a, b, e] =>
    match parseFT? t, parseStyle? st, parseDyList? a, parseDyList? b, Dy.parse? e with
    | some ft, some s, some a, some b, some e =>
      if !(a.all (okVal ft) && b.all (okVal ft) && okEps ft e) then "skip" else
      let a := a.map Dy.toRat; let b := b.map Dy.toRat; let e := e.toRat
      match kind with
      | "std" => six (GenEqVec.eq_std_vec eqS s a b e) (neVecRat s a b e) (ltVecRat s a b e) (gtVecRat s a b e) (leVecRat s a b e) (geVecRat s a b e)
      | "fv" => if a.length != b.length || a.length == 0 || a.length > 4 then "bad-op" else
                s!"eq={showB (GenEqVec.eq_fvec eqS s a b e)} ne={showB (neFVRat s a b e)}"
      | _ => "bad-op"
    | _, _, _, _, _ => "bad-op"
  | ["mfri", fmt, it, st, rs, v, e] =>
    match parseRTType? it, parseStyle? st, parseRStyle? rs, v.toNat? with
    | some ity, some s, some r, some v =>
      if fmt == "e4m3" then
        match mfEps? s e with
        | none => if e.toNat?.isSome then "skip" else "bad-op"
        | some e =>
        if !(mfFinite v) then "skip" else
        let v := MF.decode v
        if !(rtInRange ity v) then "skip" else
        s!"round={roundM ity s r FP.trunc v e} trunc={showTrunc (truncUnrepFP ity s r v e) (truncM ity s r FP.trunc v e)}"
      else if fmt == "e5m2" then
        match e.toNat? with
        | none => "bad-op"
        | some e =>
        let fin (c : Nat) : Bool := c < 256 && c / 4 % 32 != 31
        if !(fin v && fin e && e < 128) then "skip" else
        let v := MFB.decode v; let e := MFB.decode e
        if !(rtInRange ity v) then "skip" else
        s!"round={roundM ity s r FP.trunc v e} trunc={showTrunc (truncUnrepFP ity s r v e) (truncM ity s r FP.trunc v e)}"
      else "bad-op"
    | _, _, _, _ => "bad-op"
  | [op, t, it, kind, st, rs, vs, e] =>
    -- round / trunc of a std::vector / FieldVector: the regenerated component loops (Gen/C17Vec.lean) around roundM / truncM
    if op != "fvround" && op != "fvtrunc" then "bad-op" else
    match parseFmt? t, parseRTType? it, parseStyle? st, parseRStyle? rs with
    | some f, some ity, some s, some r =>
      match parseFPList? f vs, parseEpsFP? f t s e with
      | some vs, some e =>
        if kind != "std" && !(kind == "fv" && (vs.length == 1 || vs.length == 2 || vs.length == 3 || vs.length == 5)) then "bad-op" else
        if !(vs.all (rtInRange ity)) then "skip" else
        let rT : Style → RStyle → FP f → FP f → Int := fun s r x e => roundM ity s r FP.trunc x e
        let tT : Style → RStyle → FP f → FP f → Int := fun s r x e => truncM ity s r FP.trunc x e
        if op == "fvround" then
          showList ((if kind == "std" then GenVec.round_std_vec rT tT s r vs e else GenVec.round_fvec rT tT s r vs e).map toString)
        else
          let res := if kind == "std" then GenVec.trunc_std_vec rT tT s r vs e else GenVec.trunc_fvec rT tT s r vs e
          if res.length != vs.length then "size-mismatch" else
          showList (List.zipWith (fun x t => showTrunc (truncUnrep ity s r FP.trunc x e) t) vs res)
      | _, _ => "bad-op"
    | _, _, _, _ => "bad-op"
  | [op, t, it, st, rs, v, e] =>
    if op == "fround" || op == "ftrunc" then
      match parseFmt? t, parseRTType? it, parseStyle? st, parseRStyle? rs with
      | some f, some ity, some s, some r =>
        match parseFP? f v, parseEpsFP? f t s e with
        | some v, some e =>
          if !(rtInRange ity v) then "skip" else
          if op == "fround" then toString (roundM ity s r FP.trunc v e)
          else showTrunc (truncUnrep ity s r FP.trunc v e) (truncM ity s r FP.trunc v e)
        | _, _ => "bad-op"
      | _, _, _, _ => "bad-op"
    else
    if op != "round" && op != "trunc" then "bad-op" else
    match parseFT? t, parseRTType? it, parseStyle? st, parseRStyle? rs, Dy.parse? v, Dy.parse? e with
    | some ft, some ity, some s, some r, some v, some e =>
      if !(okVal ft v && okEps ft e) then "skip" else
      if !(rtInRangeQ ft ity (op == "round") v) then "skip" else
      let v := v.toRat; let e := e.toRat
      if op == "round" then toString (roundRatM ity s r v e) else showTrunc (truncUnrep ity s r trRat v e) (truncRatM ity s r v e)
    | _, _, _, _, _, _ => "bad-op"
  | ["laws", t, st, _, _, _] =>
    match parseFT? t, parseStyle? st with
    | some _, some _ => "n/a"
    | _, _ => "bad-op"
  | ["mf", st, a, b, e] =>
    match parseStyle? st, a.toNat?, b.toNat? with
    | some s, some a, some b =>
      match mfEps? s e with
      | some e =>
        if !(mfFinite a && mfFinite b) then "skip" else
        let a := MF.decode a; let b := MF.decode b
        six (eqS s a b e) (neS s a b e) (ltS s a b e) (gtS s a b e) (leS s a b e) (geS s a b e)
      | none => if e.toNat?.isSome then "skip" else "bad-op"
    | _, _, _ => "bad-op"
  | ["mfrow", st, a, e] =>
    match parseStyle? st, a.toNat? with
    | some s, some a =>
      match mfEps? s e with
      | none => if e.toNat?.isSome then "skip" else "bad-op"
      | some e =>
      if !(mfFinite a) then "skip" else
      let a := MF.decode a
      let cell (i : Nat) : List Char :=
        let b := MF.decode (if i < 120 then i else i + 8)
        let bit (x : Bool) (k : Nat) : Nat := if x then 2 ^ k else 0
        let byte := bit (eqS s a b e) 5 + bit (neS s a b e) 4 + bit (ltS s a b e) 3 + bit (gtS s a b e) 2
                    + bit (leS s a b e) 1 + bit (geS s a b e) 0
        [hexChar (byte / 16), hexChar (byte % 16)]
      String.ofList ((List.range 240).flatMap cell)
    | _, _ => "bad-op"
  | ["static"] =>
    s!"{showOpt (binomial int32 7 7)} {showOpt (binomial int32 (-1) (-1))} {showOpt (factorial uint32 5)} {showOpt (factorial uint64 20)} {showOpt (binomial uint32 6 2)} {showOpt (binomial uint64 40 20)} {showOpt (binomial uint32 5 9)} relativeWeak towardZero relativeWeak towardZero"
  | ["static2"] =>
    s!"{showOpt (binomial int32 0 0)} {showOpt (binomial int32 1 1)} {showOpt (binomial int64 0 0)} {showOpt (binomial uint32 0 0)} {showOpt (binomial int64 (-5) (-5))} {showOpt (binomial uint32 3 0)} {showOpt (binomial uint32 0 3)} {showOpt (factorial uint32 0)} {showOpt (factorial uint32 1)} {showOpt (factorial uint64 1)} {showOpt (binomial uint64 1 1)}"
  | ["mfr", st, rs, v, e] =>
    match parseStyle? st, parseRStyle? rs, v.toNat? with
    | some s, some r, some v =>
      match mfEps? s e with
      | none => if e.toNat?.isSome then "skip" else "bad-op"
      | some e =>
      if !(mfFinite v) then "skip" else
      let v := MF.decode v
      s!"round={roundM int32 s r FP.trunc v e} trunc={truncM int32 s r FP.trunc v e}"
    | _, _, _ => "bad-op"
  | ["defeps", t, st] =>
    match parseStyle? st with
    | some s => match defaultEps? t s with
      | some d => d.str
      | none => "bad-op"
    | none => "bad-op"
  | ["pow", t, te, m, p] =>
    match parseIType? t, parseIType? te, m.toInt?, p.toInt? with
    | some t, some te, some m, some p =>
      if !(t.fits m && te.fits p) then "bad-op" else
      if p.natAbs > 4096 || (p < 0 && m == 0) then "skip" else showOpt (powerI t te m p)
    | _, _, _, _ => "bad-op"
  | ["powf", t, m, p] =>
    match parseFT? t, Dy.parse? m, p.toInt? with
    | some ft, some m, some p =>
      let (mo, e) := m.normal
      let ap := p.natAbs
      if ap > 4096 then "skip" else
      if !(Dy.bitlen mo.natAbs * ap ≤ ft.prec && e.natAbs * ap ≤ 100) then "skip" else
      if p < 0 && mo.natAbs != 1 then "skip" else
      (powerK m p).str
    | _, _, _ => "bad-op"
  | ["fact", t, n] =>
    match parseIType? t, n.toInt? with
    | some t, some n => if !(t.fits n) then "bad-op" else showOpt (factorial t n)
    | _, _ => "bad-op"
  | ["binom", t, n, k] =>
    match parseIType? t, n.toInt?, k.toInt? with
    | some t, some n, some k => if !(t.fits n && t.fits k) then "bad-op" else showOpt (binomial t n k)
    | _, _, _ => "bad-op"
  | ["sign", t, x] =>
    match parseIType? t with
    | some ty => match x.toInt? with
      | some x => if !(ty.fits x) then "bad-op" else toString (signK x)
      | none => "bad-op"
    | none => match parseFT? t with
      | some _ => if x == "nz" then toString (signK (0 : Dy)) else
        match Dy.parse? x with
        | some x =>
          let (m, e) := x.normal
          let top : Int := (Dy.bitlen m.natAbs : Int) + e
          if m != 0 && (top < -100 || top > 100) then "bad-op" else toString (signK x)
        | none => "bad-op"
      | none => "bad-op"
  | ["cls", kind, fmt, l] =>
    let f? : Option (Nat → FpClass) := match fmt with
      | "f32" => some (classify 8 23)
      | "f64" => some (classify 11 52)
      | _ => none
    match f?, parseHexList? l with
    | some f, some l =>
      if l.any (fun b => b ≥ (if fmt == "f32" then 2 ^ 32 else 2 ^ 64)) then "bad-op" else
      let cs := l.map f
      let three (a b c : Bool) := s!"nan={showB a} inf={showB b} fin={showB c}"
      match kind with
      | "fv" => if cs.length == 0 || cs.length > 4 then "bad-op" else
                three (isNaNV isNaN1 cs) (isInfV isInf1 cs) (isFiniteV isFinite1 cs)
      | "cx" => match cs with
                | [re, im] => three (isNaNC (re, im)) (isInfC (re, im)) (isFiniteC (re, im))
                | _ => "bad-op"
      | "fvcx" => match pairs cs with
                | some ps => if ps.length == 0 || ps.length > 3 then "bad-op" else
                             three (isNaNV isNaNC ps) (isInfV isInfC ps) (isFiniteV isFiniteC ps)
                | none => "bad-op"
      | "un" => match cs with
                | [a, b] => s!"unordered={showB (isUnordered1 a b)}"
                | _ => "bad-op"
      | _ => "bad-op"
    | _, _ => "bad-op"
  | _ => "bad-op"

def main : IO Unit := runDriver handle
