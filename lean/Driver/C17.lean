import DuneVerif.Model.C17
import DuneVerif.Common.Proto
/-! line-protocol driver for C17 (see harness/cxx_c17.cc for the op lines)

  cmp   <T> <style> <a> <b> <eps>                 six comparisons; numbers are exact dyadics `m:e` = m·2^e
  cmpv  <T> std|fv <style> [a,..] [b,..] <eps>    vector overloads
  round <T> <I> <style> <rstyle> <val> <eps>      trunc likewise
  laws  …                                         law-only run on arbitrary bit patterns: the model is silent (`n/a`)
  mf    <style> <a> <b> <eps>                     8-bit minifloat codes 0..255, operations round
  mfr   <style> <rstyle> <val> <eps>              round/trunc in the minifloat format
  defeps <T> <style>
  pow <t> <te> <m> <p> | powf <T> <m:e> <p> | fact <t> <n> | binom <t> <n> <k> | sign <t|T> <x>
  cls fv|cx|fvcx|un <fmt> [hex,..]

`skip` is printed for inputs outside the domain on which the C++ computation is exact / defined (the harness
uses the same predicate); anything unparsable is `bad-op`. -/
open DV DV.C17

def showB (b : Bool) : String := if b then "true" else "false"

def parseStyle? : String → Option Style
  | "relativeWeak" => some .relativeWeak
  | "relativeStrong" => some .relativeStrong
  | "absolute" => some .absolute
  | _ => none

def parseRStyle? : String → Option RStyle
  | "towardZero" => some .towardZero
  | "towardInf" => some .towardInf
  | "downward" => some .downward
  | "upward" => some .upward
  | _ => none

def parseIType? : String → Option IType
  | "i32" => some int32
  | "i64" => some int64
  | "u32" => some uint32
  | "u64" => some uint64
  | _ => none

/-- floating type: (mantissa bits of operands, mantissa bits of epsilon, exponent window, total precision) -/
structure FT where
  mb : Nat
  me : Nat
  ew : Int
  prec : Nat

def parseFT? : String → Option FT
  | "f32" => some ⟨12, 12, 11, 24⟩
  | "f64" => some ⟨26, 26, 26, 53⟩
  | _ => none

/-- operand domain: at most `mb` significant bits, all of them at positions in [-ew, ew) -/
def okVal (ft : FT) (x : Dy) : Bool :=
  let (m, e) := x.normal
  let bl : Int := Dy.bitlen m.natAbs
  m == 0 || (bl ≤ ft.mb && -ft.ew ≤ e && e + bl ≤ ft.ew)

/-- epsilon domain: non-negative, at most `me` significant bits, exponent moderate -/
def okEps (ft : FT) (x : Dy) : Bool :=
  let (m, e) := x.normal
  let bl : Int := Dy.bitlen m.natAbs
  m == 0 || (m > 0 && bl ≤ ft.me && -60 ≤ e && e + bl ≤ 20)

def parseDyList? (s : String) : Option (List Dy) :=
  let cs := s.toList
  if cs.length < 2 then none else
  if cs.head? ≠ some '[' || cs.getLast? ≠ some ']' then none else
  let inner := String.ofList ((cs.drop 1).dropLast)
  if inner.isEmpty then some [] else (inner.splitOn ",").mapM Dy.parse?

def parseHexList? (s : String) : Option (List Nat) :=
  let cs := s.toList
  if cs.length < 2 then none else
  if cs.head? ≠ some '[' || cs.getLast? ≠ some ']' then none else
  let inner := String.ofList ((cs.drop 1).dropLast)
  if inner.isEmpty then some [] else (inner.splitOn ",").mapM parseHex?

def six (eq ne lt gt le ge : Bool) : String :=
  s!"eq={showB eq} ne={showB ne} lt={showB lt} gt={showB gt} le={showB le} ge={showB ge}"

def showOpt : Option Int → String
  | some v => toString v
  | none => "unrep"

def pairs {α} : List α → Option (List (α × α))
  | [] => some []
  | a :: b :: r => (pairs r).map ((a, b) :: ·)
  | _ => none

def defaultEps? : String → Style → Option Dy
  | "f32", .relativeWeak => some Gen.defaultEps_relativeWeak_f32
  | "f32", .relativeStrong => some Gen.defaultEps_relativeStrong_f32
  | "f32", .absolute => some Gen.defaultEps_absolute_f32
  | "f64", .relativeWeak => some Gen.defaultEps_relativeWeak_f64
  | "f64", .relativeStrong => some Gen.defaultEps_relativeStrong_f64
  | "f64", .absolute => some Gen.defaultEps_absolute_f64
  | _, _ => none

def mfFinite (c : Nat) : Bool := c < 256 && c / 8 % 16 != 15

def handle (line : String) : String :=
  match tokens line with
  | ["cmp", t, st, a, b, e] =>
    match parseFT? t, parseStyle? st, Dy.parse? a, Dy.parse? b, Dy.parse? e with
    | some ft, some s, some a, some b, some e =>
      if !(okVal ft a && okVal ft b && okEps ft e) then "skip" else
      six (eqS s a b e) (neS s a b e) (ltS s a b e) (gtS s a b e) (leS s a b e) (geS s a b e)
    | _, _, _, _, _ => "bad-op"
  | ["cmpv", t, kind, st, a, b, e] =>
    match parseFT? t, parseStyle? st, parseDyList? a, parseDyList? b, Dy.parse? e with
    | some ft, some s, some a, some b, some e =>
      if !(a.all (okVal ft) && b.all (okVal ft) && okEps ft e) then "skip" else
      match kind with
      | "std" => six (eqVec s a b e) (neVec s a b e) (ltVec s a b e) (gtVec s a b e) (leVec s a b e) (geVec s a b e)
      | "fv" => if a.length != b.length || a.length == 0 || a.length > 4 then "bad-op" else
                s!"eq={showB (eqFV s a b e)} ne={showB (neFV s a b e)}"
      | _ => "bad-op"
    | _, _, _, _, _ => "bad-op"
  | [op, t, it, st, rs, v, e] =>
    if op != "round" && op != "trunc" then "bad-op" else
    match parseFT? t, parseIType? it, parseStyle? st, parseRStyle? rs, Dy.parse? v, Dy.parse? e with
    | some ft, some ity, some s, some r, some v, some e =>
      if !(okVal ft v && okEps ft e) then "skip" else
      if !ity.signed && v < (0 : Dy) then "skip" else
      if op == "round" then toString (round s r Dy.trunc v e) else toString (trunc s (!ity.signed) r Dy.trunc v e)
    | _, _, _, _, _, _ => "bad-op"
  | ["laws", t, st, _, _, _] =>
    match parseFT? t, parseStyle? st with
    | some _, some _ => "n/a"
    | _, _ => "bad-op"
  | ["mf", st, a, b, e] =>
    match parseStyle? st, a.toNat?, b.toNat?, e.toNat? with
    | some s, some a, some b, some e =>
      if !(mfFinite a && mfFinite b && mfFinite e) || e ≥ 128 then "skip" else
      let a := MF.decode a; let b := MF.decode b; let e := MF.decode e
      six (eqS s a b e) (neS s a b e) (ltS s a b e) (gtS s a b e) (leS s a b e) (geS s a b e)
    | _, _, _, _ => "bad-op"
  | ["mfrow", st, a, e] =>
    match parseStyle? st, a.toNat?, e.toNat? with
    | some s, some a, some e =>
      if !(mfFinite a && mfFinite e) || e ≥ 128 then "skip" else
      let a := MF.decode a; let e := MF.decode e
      let cell (i : Nat) : List Char :=
        let b := MF.decode (if i < 120 then i else i + 8)
        let bit (x : Bool) (k : Nat) : Nat := if x then 2 ^ k else 0
        let byte := bit (eqS s a b e) 5 + bit (neS s a b e) 4 + bit (ltS s a b e) 3 + bit (gtS s a b e) 2
                    + bit (leS s a b e) 1 + bit (geS s a b e) 0
        [hexChar (byte / 16), hexChar (byte % 16)]
      String.ofList ((List.range 240).flatMap cell)
    | _, _, _ => "bad-op"
  | ["static"] =>
    s!"{showOpt (binomial int32 7 7)} {showOpt (binomial int32 (-1) (-1))}"
  | ["mfr", st, rs, v, e] =>
    match parseStyle? st, parseRStyle? rs, v.toNat?, e.toNat? with
    | some s, some r, some v, some e =>
      if !(mfFinite v && mfFinite e) || e ≥ 128 then "skip" else
      let v := MF.decode v; let e := MF.decode e
      s!"round={round s r MF.trunc v e} trunc={trunc s false r MF.trunc v e}"
    | _, _, _, _ => "bad-op"
  | ["defeps", t, st] =>
    match parseStyle? st with
    | some s => match defaultEps? t s with
      | some d => d.str
      | none => "bad-op"
    | none => "bad-op"
  | ["pow", t, te, m, p] =>
    match parseIType? t, parseIType? te, m.toInt?, p.toInt? with
    | some t, some te, some m, some p =>
      if !(t.fits m && te.fits p) then "bad-op" else
      if p.natAbs > 4096 || (p < 0 && m == 0) then "skip" else showOpt (powerI t te m p)
    | _, _, _, _ => "bad-op"
  | ["powf", t, m, p] =>
    match parseFT? t, Dy.parse? m, p.toInt? with
    | some ft, some m, some p =>
      let (mo, e) := m.normal
      let ap := p.natAbs
      if ap > 4096 then "skip" else
      if !(Dy.bitlen mo.natAbs * ap ≤ ft.prec && e.natAbs * ap ≤ 100) then "skip" else
      if p < 0 && mo.natAbs != 1 then "skip" else
      (powerK m p).str
    | _, _, _ => "bad-op"
  | ["fact", t, n] =>
    match parseIType? t, n.toInt? with
    | some t, some n => if !(t.fits n) then "bad-op" else showOpt (factorial t n)
    | _, _ => "bad-op"
  | ["binom", t, n, k] =>
    match parseIType? t, n.toInt?, k.toInt? with
    | some t, some n, some k => if !(t.fits n && t.fits k) then "bad-op" else showOpt (binomial t n k)
    | _, _, _ => "bad-op"
  | ["sign", t, x] =>
    match parseIType? t with
    | some ty => match x.toInt? with
      | some x => if !(ty.fits x) then "bad-op" else toString (signK x)
      | none => "bad-op"
    | none => match parseFT? t with
      | some _ => if x == "nz" then toString (signK (0 : Dy)) else
        match Dy.parse? x with
        | some x =>
          let (m, e) := x.normal
          let top : Int := (Dy.bitlen m.natAbs : Int) + e
          if m != 0 && (top < -100 || top > 100) then "bad-op" else toString (signK x)
        | none => "bad-op"
      | none => "bad-op"
  | ["cls", kind, fmt, l] =>
    let f? : Option (Nat → FpClass) := match fmt with
      | "f32" => some (classify 8 23)
      | "f64" => some (classify 11 52)
      | _ => none
    match f?, parseHexList? l with
    | some f, some l =>
      if l.any (fun b => b ≥ (if fmt == "f32" then 2 ^ 32 else 2 ^ 64)) then "bad-op" else
      let cs := l.map f
      let three (a b c : Bool) := s!"nan={showB a} inf={showB b} fin={showB c}"
      match kind with
      | "fv" => if cs.length == 0 || cs.length > 4 then "bad-op" else
                three (isNaNV isNaN1 cs) (isInfV isInf1 cs) (isFiniteV isFinite1 cs)
      | "cx" => match cs with
                | [re, im] => three (isNaNC (re, im)) (isInfC (re, im)) (isFiniteC (re, im))
                | _ => "bad-op"
      | "fvcx" => match pairs cs with
                | some ps => if ps.length == 0 || ps.length > 3 then "bad-op" else
                             three (isNaNV isNaNC ps) (isInfV isInfC ps) (isFiniteV isFiniteC ps)
                | none => "bad-op"
      | "un" => match cs with
                | [a, b] => s!"unordered={showB (isUnordered1 a b)}"
                | _ => "bad-op"
      | _ => "bad-op"
    | _, _ => "bad-op"
  | _ => "bad-op"

def main : IO Unit := runDriver handle
