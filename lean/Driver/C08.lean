import DuneVerif.Common.Proto
import DuneVerif.Model.C08T
/-! line-protocol driver for C08 (see harness/cxx_c08.cc for the op lines).

Exact ops (`ev2x`, `ev3x`) run the model over `Rat`; values travel as integers / dyadics `<m>p<e>` (= m·2^e, m odd).
Hand-over ops (`hand`, `handns`, `handnsf`) run the index model of the LAPACK hand-over against the recording fake
of the harness.  Floating-point ops (`sym`, `nsd`, `nsf`) are decided by the harness oracle; the model only states the
shape of the answer — except `sym d n cfq …` (double, closed form, n ≤ 3): there the *same generic model* is run over
`Float` (IEEE double, operation order of the source) and its eigenvalues and eigenvectors, quantised to 2^-24 relative
to the scale of the matrix and sign-normalised, must coincide with those of the C++ code.
History ops (`nsq T C : seg;…`, `handnsq T C : seg;…`) run `nsStep` over the caller's two output containers of
`DynamicMatrixHelp::eigenValuesNonSym`: shapes after every segment for real LAPACK, complete contents for the fake. -/
open DV DV.C08

namespace C08Drv

def pow2 (e : Int) : Rat :=
  if e ≥ 0 then ((2 ^ e.toNat : Nat) : Rat) else (1 : Rat) / ((2 ^ (-e).toNat : Nat) : Rat)

def isPow2 (n : Nat) : Bool := n != 0 && (n &&& (n - 1)) == 0

/-- exact dyadic `<m>p<e>` with m odd, `0` for zero; `none` if the value is not dyadic -/
def dyadic? (q : Rat) : Option String :=
  if q.num == 0 then some "0"
  else if !isPow2 q.den then none
  else
    let rec strip (fuel : Nat) (m : Int) (e : Int) : Int × Int :=
      match fuel with
      | 0 => (m, e)
      | fuel + 1 => if m % 2 == 0 then strip fuel (m / 2) (e + 1) else (m, e)
    let (m, e) := strip (q.num.natAbs.log2 + 1) q.num (-(q.den.log2 : Int))
    some (toString m ++ "p" ++ toString e)

def dyList? (l : List Rat) : Option String :=
  (l.mapM dyadic?).map fun ss => "[" ++ ",".intercalate ss ++ "]"

/-- exact square root of a rational if it has one -/
def ratSqrt? (q : Rat) : Option Rat :=
  if q.num < 0 then none
  else
    let n := q.num.toNat
    let sn := n.sqrt
    let sd := q.den.sqrt
    if sn * sn == n && sd * sd == q.den then some ((sn : Rat) / (sd : Rat)) else none

def epsOf (t : String) : Option Rat :=
  match t with
  | "f" => some (pow2 (-23))
  | "d" => some (pow2 (-52))
  | "l" => some (pow2 (-63))
  | _ => none

def sgn (q : Rat) : String := if q < 0 then "-1" else if 0 < q then "1" else "0"

/-- sign pattern canonical up to the sign of the vector (first non-zero component positive) -/
def signPattern (v : List Rat) : String :=
  let flip : Rat := match v.find? (· != 0) with
    | some x => if x < 0 then -1 else 1
    | none => 1
  "[" ++ ",".intercalate (v.map fun x => sgn (x * flip)) ++ "]"

def showV2 (v : V2 Rat) : String := signPattern [v.x, v.y]
def showV3 (v : V3 Rat) : String := signPattern [v.x, v.y, v.z]

def ev2x (t : String) (a b d e : Int) : String :=
  match epsOf t with
  | none => "bad-op"
  | some eps =>
    let s := pow2 e
    let A : M2 Rat := ⟨(a : Rat) * s, (b : Rat) * s, (b : Rat) * s, (d : Rat) * s⟩
    -- the closed form runs on the preconditioned matrix; the only square root taken is that of q: insist on exactness
    let m := preScale2 A
    let S := sdiv2 A m
    let p := Gen.ev2_p S.a00 S.a01 S.a10 S.a11
    let q := Gen.ev2_q S.a00 S.a01 S.a10 S.a11 p (Gen.ev2_p2 S.a00 S.a01 S.a10 S.a11 p)
    match ratSqrt? q with
    | none => "bad-op"
    | some _ =>
      let sqrt : Rat → Rat := fun x => (ratSqrt? x).getD 0
      match eigenValues2x2 sqrt A, eigenValues2d sqrt S with
      | .ok (l0, l1), .ok (s0, s1) =>
        let vecs := match eigenVectorChoice2d eps S s0 s1 with
          | none => "[[1,0],[0,1]]"
          | some (c0, c1) => "[" ++ showV2 c0 ++ "," ++ showV2 c1 ++ "]"
        match dyList? [l0, l1] with
        | none => "bad-op"
        | some vs => "vals=" ++ vs ++ " vvals=" ++ vs ++ " vecs=" ++ vecs
      | _, _ => "ERR:Math"

def ev3x (t : String) (v : List Int) (e : Int) : String :=
  match epsOf t, v with
  | some eps, [a00, a01, a02, a11, a12, a22] =>
    let s := pow2 e
    let r (x : Int) : Rat := (x : Rat) * s
    let A : M3 Rat := ⟨r a00, r a01, r a02, r a01, r a11, r a12, r a02, r a12, r a22⟩
    let dummy : Rat → Rat := fun _ => 0
    if !diagBranchVec eps (sdiv3 A (maxAbsElement A)) then "trig" else
    match eigenValuesVectors3dD dummy dummy dummy 0 eps A with
    | ((l0, l1, l2), (v0, v1, v2)) =>
      let (w0, w1, w2) := eigenValues3d dummy dummy dummy 0 eps A
      match dyList? [w0, w1, w2], dyList? [l0, l1, l2] with
      | some ws, some ls =>
        "vals=" ++ ws ++ " vvals=" ++ ls ++ " vecs=[" ++ showV3 v0 ++ "," ++ showV3 v1 ++ "," ++ showV3 v2 ++ "]"
      | _, _ => "bad-op"
  | _, _ => "bad-op"

/-! ### the model over IEEE double -/

instance : NatCast Float := ⟨Float.ofNat⟩

def hexDigit? (c : Char) : Option Nat :=
  if c.isDigit then some (c.toNat - '0'.toNat)
  else if 'a' ≤ c && c ≤ 'f' then some (c.toNat - 'a'.toNat + 10)
  else none

/-- exact value of a C99 hexadecimal floating literal (as printed by `%a`) as a double -/
def parseHexFloat? (s : String) : Option Float :=
  let cs := s.toList
  let (neg, cs) := match cs with | '-' :: r => (true, r) | r => (false, r)
  match cs with
  | '0' :: 'x' :: rest =>
    let mant := rest.takeWhile (· != 'p')
    let ex := (rest.dropWhile (· != 'p')).drop 1
    let ex := match ex with | '+' :: r => r | r => r
    let ip := mant.takeWhile (· != '.')
    let fp := (mant.dropWhile (· != '.')).drop 1
    match (ip ++ fp).mapM hexDigit?, (String.ofList ex).toInt? with
    | some ds, some e =>
      if ds.isEmpty || ds.length > 14 then none else
      let m := ds.foldl (fun acc d => acc * 16 + d) 0
      let v := Float.scaleB (Float.ofNat m) (e - 4 * (fp.length : Int))
      some (if neg then -v else v)
    | _, _ => none
  | _ => none

/-- `floor(ldexp(x, 24 - k) + 0.5)` as an integer string -/
def quant (k : Int) (x : Float) : Int :=
  (Float.floor (Float.scaleB x (24 - k) + 0.5)).toInt64.toInt

def showQ (x : Float) (q : Int) : String := if x.isNaN then "nan" else if x.isInf then "inf" else toString q

def qList (k : Int) (l : List Float) : String :=
  "[" ++ ",".intercalate (l.map fun x => showQ x (quant k x)) ++ "]"

/-- quantised vector, sign-normalised (first non-zero quantised component positive) -/
def qVec (v : List Float) : String :=
  let qs := v.map (quant 0)
  let flip : Int := match qs.find? (· != 0) with
    | some x => if x < 0 then -1 else 1
    | none => 1
  "[" ++ ",".intercalate ((v.zip qs).map fun (x, q) => showQ x (q * flip)) ++ "]"

def fSqrt : Float → Float := Float.sqrt
def fEps : Float := Float.scaleB 1.0 (-52)
def fPi : Float := Float.acos (-1.0)

def symq (n : Nat) (k : Int) (xs : List Float) : String :=
  let sc (x : Float) : Float := Float.scaleB x k
  let shape := "shape n=" ++ toString n ++ " vals=" ++ toString n ++ " vecs=" ++ toString n ++ "x" ++ toString n
  match n, xs with
  | 1, [a] =>
    let a := sc a
    let (l, v) := eigenValuesVectors1d a
    shape ++ " qvals=" ++ qList k [eigenValues1d a] ++ " qvvals=" ++ qList k [l] ++ " qvecs=[" ++ qVec [v] ++ "]"
  | 2, [a, b, d] =>
    let A : M2 Float := ⟨sc a, sc b, sc b, sc d⟩
    match eigenValues2x2 fSqrt A, eigenValuesVectors2x2 fSqrt fEps A with
    | .ok (w0, w1), .ok ((l0, l1), (v0, v1)) =>
      shape ++ " qvals=" ++ qList k [w0, w1] ++ " qvvals=" ++ qList k [l0, l1] ++
        " qvecs=[" ++ qVec [v0.x, v0.y] ++ "," ++ qVec [v1.x, v1.y] ++ "]"
    | _, _ => "ERR:Math"
  | 3, [a00, a01, a02, a11, a12, a22] =>
    let A : M3 Float := ⟨sc a00, sc a01, sc a02, sc a01, sc a11, sc a12, sc a02, sc a12, sc a22⟩
    let (w0, w1, w2) := eigenValues3d fSqrt Float.acos Float.cos fPi fEps A
    let ((l0, l1, l2), (v0, v1, v2)) := eigenValuesVectors3dD fSqrt Float.acos Float.cos fPi fEps A
    shape ++ " qvals=" ++ qList k [w0, w1, w2] ++ " qvvals=" ++ qList k [l0, l1, l2] ++
      " qvecs=[" ++ qVec [v0.x, v0.y, v0.z] ++ "," ++ qVec [v1.x, v1.y, v1.z] ++ "," ++ qVec [v2.x, v2.y, v2.z] ++ "]"
  | _, _ => "bad-op"

def matOf (n : Nat) (xs : List Int) : Nat → Nat → Int := fun i j => xs.getD (i * n + j) 0

def showMat (n : Nat) (M : Nat → Nat → Int) : String :=
  showList ((List.range n).map fun i => showList ((List.range n).map fun j => M i j))

def allIdx (n : Nat) (p : Nat → Nat → Bool) : Bool :=
  (List.range n).all fun i => (List.range n).all fun j => p i j

/-- the recording fake returns `Z r c = 100 (c+1) + (r+1)` (eigenvector c in column c) and `w c = c + 1` -/
def fakeZ : Nat → Nat → Int := fun r c => 100 * ((c : Int) + 1) + ((r : Int) + 1)

def hand (n : Nat) (which : String) (xs : List Int) : String :=
  if xs.length != n * n || n == 0 then "bad-op" else
  let known := which == "vals" || which == "vecs" || which == "auto" || which == "autovals"
  if !known then "bad-op" else
  if (which == "auto" || which == "autovals") && n ≤ 3 then "no-lapack" else
  let A := matOf n xs
  let eff := lapackSeesSymT n A
  let wantVec := which == "vecs" || which == "auto"
  "eff=" ++ showMat n eff ++ " vals=" ++ showList ((List.range n).map (· + 1)) ++ " vecs=" ++
    (if wantVec then showMat n (copyBackSymT n fakeZ) else "-") ++
    -- the job the entry point asks for (`eigenValuesLapack` runs the eigenvector job into a dummy)
    " call=" ++ symCallLine n (if which == "vals" then Gen.entryJobs.2.2.1 else if which == "vecs" then Gen.entryJobs.2.2.2
      else if which == "auto" then Gen.entryJobs.2.1 else Gen.entryJobs.1)

def handns (n : Nat) (vec : Bool) (xs : List Int) : String :=
  if xs.length != n * n || n == 0 then "bad-op" else
  let A := matOf n xs
  let sees := lapackSeesNonSymDT n A
  let seesA := allIdx n fun r c => sees r c == A r c
  let seesAT := allIdx n fun r c => sees r c == A c r
  let spec := if seesA || seesAT then "A" else "other"
  -- the model takes the vectors from vr, i.e. they are right eigenvectors of what LAPACK sees
  let rightOf := if !vec then "-" else if seesA then "A" else if seesAT then "AT" else "other"
  let vals := showList ((List.range n).map fun i => toString (i + 1) ++ ":0")
  "spectrum-of=" ++ spec ++ " vals=" ++ vals ++ " right-eigenvectors-of=" ++ rightOf ++ " vecs=" ++
    (if vec then showMat n (copyBack n fakeZ) else "-") ++ " call=" ++ nsDCallLine n vec

def handnsf (n : Nat) (xs : List Int) : String :=
  if xs.length != n * n || n == 0 then "bad-op" else
  let A := matOf n xs
  let sees := lapackSeesNonSymFT n A
  let seesA := allIdx n fun r c => sees r c == A r c
  let seesAT := allIdx n fun r c => sees r c == A c r
  let spec := if seesA || seesAT then "A" else "other"
  "spectrum-of=" ++ spec ++ " vals=" ++ showList ((List.range n).map fun i => toString (i + 1) ++ ":0") ++
    " call=" ++ nsFCallLine n

/-- C99 hexadecimal floating literal as printed by `%a` / `%La` -/
def isHexFloat (s : String) : Bool :=
  let cs := s.toList
  let cs := match cs with | '-' :: r => r | r => r
  match cs with
  | '0' :: 'x' :: rest =>
    let mant := rest.takeWhile (· != 'p')
    let ex := (rest.dropWhile (· != 'p')).drop 1
    let ex := match ex with | '+' :: r => r | '-' :: r => r | r => r
    !mant.isEmpty && mant.all (fun c => c.isDigit || ('a' ≤ c && c ≤ 'f') || c == '.') &&
      (mant.filter (· == '.')).length ≤ 1 && !ex.isEmpty && ex.all Char.isDigit
  | _ => false

def isType (t : String) : Bool := t == "f" || t == "d" || t == "l"

/-! ### histories of `DynamicMatrixHelp::eigenValuesNonSym` calls on the same two containers -/

/-- junk the harness puts into pre-filled containers -/
def junkVal (i : Nat) : Int × Int := (5000 + (i : Int), 6000 + (i : Int))
def junkVec (p q : Nat) : Int := 10000 + 100 * (p : Int) + (q : Int)

def preState (a : Nat) (lens : List Nat) : NsOut (Int × Int) Int :=
  ⟨(List.range a).map junkVal, lens.mapIdx fun p l => (List.range l).map (junkVec p)⟩

def showVals (l : List (Int × Int)) : String := showList (l.map fun v => toString v.1 ++ ":" ++ toString v.2)
def showVecs (l : List (List Int)) : String := showList (l.map fun v => showList (v.map Int.natAbs))
def showLens (l : List (List Int)) : String := showList (l.map List.length)

def parseNatList? (s : String) : Option (List Nat) :=
  match parseIntList? s with
  | some xs => xs.mapM fun x => if x < 0 then none else some x.toNat
  | none => none

/-- segment `pre a [l0,l1,…]`: the caller's containers before the next call -/
def parsePre? (ts : List String) : Option (NsOut (Int × Int) Int) :=
  match ts with
  | [a, ls] =>
    match a.toNat?, parseNatList? ls with
    | some a, some lens => if a ≤ 12 && lens.length ≤ 12 && lens.all (· ≤ 12) then some (preState a lens) else none
    | _, _ => none
  | _ => none

/-- one step of a `handnsq` history (recording fake: `w c = c + 1`, `vr` = Fortran storage of `fakeZ`) -/
def handnsqSeg (st : NsOut (Int × Int) Int) (ts : List String) : Option (NsOut (Int × Int) Int × String) :=
  match ts with
  | "pre" :: rest =>
    match parsePre? rest with
    | some st' => some (st', "pre vals=" ++ showVals st'.vals ++ " vecs=" ++ showVecs st'.vecs)
    | none => none
  | "fk" :: ns :: vs :: rest =>
    match ns.toNat?, vs.toNat?, rest.mapM String.toInt? with
    | some n, some v, some xs =>
      if n == 0 || n > 8 || v > 1 || xs.length != n * n then none else
      let vec := v == 1
      let A := matOf n xs
      let sees := lapackSeesNonSymDT n A
      let seesA := allIdx n fun r c => sees r c == A r c
      let seesAT := allIdx n fun r c => sees r c == A c r
      let spec := if seesA || seesAT then "A" else "other"
      let rightOf := if !vec then "-" else if seesA then "A" else if seesAT then "AT" else "other"
      let call : NsCall (Int × Int) Int := ⟨n, vec, fun i => ((i : Int) + 1, 0), fortranStore n fakeZ⟩
      match nsStep (0, 0) 0 st call with
      | some st' =>
        some (st', "spectrum-of=" ++ spec ++ " right-eigenvectors-of=" ++ rightOf ++ " vals=" ++ showVals st'.vals ++
          " vecs=" ++ showVecs st'.vecs)
      | none => some (st, "ERR:OutOfBounds")
    | _, _, _ => none
  | _ => none

/-- one step of an `nsq` history (real LAPACK: only the shape of the containers is predicted) -/
def nsqSeg (st : NsOut (Int × Int) Int) (ts : List String) : Option (NsOut (Int × Int) Int × String) :=
  match ts with
  | "pre" :: rest =>
    match parsePre? rest with
    | some st' => some (st', "pre vals=" ++ toString st'.vals.length ++ " vecs=" ++ showLens st'.vecs)
    | none => none
  | "ev" :: ns :: vs :: ks :: rest =>
    match ns.toNat?, vs.toNat?, ks.toInt? with
    | some n, some v, some _ =>
      if n == 0 || n > 8 || v > 1 || rest.length != n * n || !rest.all isHexFloat then none else
      let call : NsCall (Int × Int) Int := ⟨n, v == 1, fun _ => (0, 0), fun _ => 0⟩
      match nsStep (0, 0) 0 st call with
      | some st' =>
        some (st', "n=" ++ toString n ++ " vals=" ++ toString st'.vals.length ++ " vecs=" ++ showLens st'.vecs)
      | none => some (st, "ERR:OutOfBounds")
    | _, _, _ => none
  | _ => none

def runSegs (f : NsOut (Int × Int) Int → List String → Option (NsOut (Int × Int) Int × String)) :
    NsOut (Int × Int) Int → List String → Option (List String)
  | _, [] => some []
  | st, seg :: segs =>
    match f st (tokens seg) with
    | none => none
    | some (st', out) => (runSegs f st' segs).map (out :: ·)

def history (line : String) : String :=
  match line.splitOn " : " with
  | [head, body] =>
    let f? := match tokens head with
      | [op, t, c] =>
        if !(isType t) || !(c == "c" || c == "z") then none
        else if op == "nsq" then some nsqSeg else if op == "handnsq" then some handnsqSeg else none
      | _ => none
    match f? with
    | none => "bad-op"
    | some f =>
      let segs := body.splitOn ";"
      if segs.isEmpty || segs.length > 40 then "bad-op" else
      match runSegs f ⟨[], []⟩ segs with
      | some outs => " | ".intercalate outs
      | none => "bad-op"
  | _ => "bad-op"


def handle (line : String) : String :=
  match tokens line with
  | "nsq" :: _ => history line
  | "handnsq" :: _ => history line
  | "ev2x" :: t :: rest =>
    match rest.mapM String.toInt? with
    | some [a, b, d, e] => ev2x t a b d e
    | _ => "bad-op"
  | "ev3x" :: t :: rest =>
    match rest.mapM String.toInt? with
    | some xs => if xs.length == 7 then ev3x t (xs.take 6) (xs.getD 6 0) else "bad-op"
    | none => "bad-op"
  | "hand" :: t :: ns :: which :: rest =>
    match isType t, ns.toNat?, rest.mapM String.toInt? with
    | true, some n, some xs => if n ≤ 6 then hand n which xs else "bad-op"
    | _, _, _ => "bad-op"
  | "handns" :: t :: ns :: vs :: rest =>
    match isType t, ns.toNat?, vs.toNat?, rest.mapM String.toInt? with
    | true, some n, some v, some xs => if n ≤ 8 && v ≤ 1 then handns n (v == 1) xs else "bad-op"
    | _, _, _, _ => "bad-op"
  | "handnsf" :: t :: ns :: rest =>
    match isType t, ns.toNat?, rest.mapM String.toInt? with
    | true, some n, some xs => if n ≤ 5 then handnsf n xs else "bad-op"
    | _, _, _ => "bad-op"
  | "sym" :: "d" :: ns :: "cfq" :: ks :: rest =>
    match ns.toNat?, ks.toInt?, rest.mapM parseHexFloat? with
    | some n, some k, some xs =>
      if 1 ≤ n && n ≤ 3 && xs.length == n * (n + 1) / 2 && rest.all isHexFloat && k.natAbs ≤ 1000 then symq n k xs
      else "bad-op"
    | _, _, _ => "bad-op"
  | "sym" :: t :: ns :: route :: ks :: rest =>
    match isType t, ns.toNat?, ks.toInt? with
    | true, some n, some _ =>
      if 1 ≤ n && n ≤ 8 && (route == "cf" || route == "lap") && rest.length == n * (n + 1) / 2 && rest.all isHexFloat then
        "shape n=" ++ toString n ++ " vals=" ++ toString n ++ " vecs=" ++ toString n ++ "x" ++ toString n
      else "bad-op"
    | _, _, _ => "bad-op"
  | "nsd" :: t :: ns :: vs :: ks :: rest =>
    match isType t, ns.toNat?, vs.toNat?, ks.toInt? with
    | true, some n, some v, some _ =>
      if 1 ≤ n && n ≤ 8 && v ≤ 1 && rest.length == n * n && rest.all isHexFloat then
        "shape n=" ++ toString n ++ " vals=" ++ toString n ++ " vecs=" ++
          (if v == 1 then toString n ++ "x" ++ toString n else "-")
      else "bad-op"
    | _, _, _, _ => "bad-op"
  | "nsf" :: t :: ns :: ks :: rest =>
    match isType t, ns.toNat?, ks.toInt? with
    | true, some n, some _ =>
      if 1 ≤ n && n ≤ 6 && rest.length == n * n && rest.all isHexFloat then
        "shape n=" ++ toString n ++ " vals=" ++ toString n ++ " vecs=-"
      else "bad-op"
    | _, _, _ => "bad-op"
  | _ => "bad-op"

end C08Drv

def main : IO Unit := DV.runDriver C08Drv.handle
