import DuneVerif.Model.C04F
import DuneVerif.Model.C04L
import DuneVerif.Common.Proto
/-!
line-protocol driver for C04 (format: see harness/mpi_c04.cc)

  c04 <P> <flags> <hints> [g=<type>] [n=<chunk>] [comm=<spec>] : seg;seg;...

The global index type only restricts the range of the global indices of the line (the model's global indices are
integers, all the model uses is their order); the communicator only decides which world process plays which rank
(the answers are listed by rank in the communicator, processes left out answer `{}`).  `n=` is the chunk size of the
index sets' storage: the model's index sets are lists (what the iterator of the chunked storage walks through, see
`DV.C04.L.packWalk` / `pack_chunked`), so it only is validated, like the other two.  An `a` segment may name the way the
local index is constructed (`a…,<how>`): the pair is made by `DV.C04.L.mkPair how`, i.e. by the constructors / mutators
regenerated from plocalindex.hh.

The driver keeps the model's `World` (per rank: three index set objects with their sequence numbers, which of them
are source and target, includeSelf, hints, the `RIState`) plus the pending adds/deletes of the harness protocol.
Every segment becomes `World.step` events of the faithful model `DV.C04.F`: `R`/`r` → `resize` with the new contents,
`B<ign>` → the collective `rebuild` (all ranks, ring rounds or network-level neighbour exchange), `F` → `free`,
`X<k>[,<hints>]` → `setIndexSets` (with the hints in force or the new ones), `I` → `setIncludeSelf`, `N` → `setNeighbours`; `S` prints `isSynced`.
-/
open DV DV.C04 DV.C04.F

namespace C04Drv

/-- pending adds (in op-line order) and deletes of one index set object -/
structure Pend where
  adds : List Pair := []
  dels : List Int := []
  deriving Inhabited

structure St where
  w : World
  gLo : Int := -2147483648      -- range of the global index type
  gHi : Int := 2147483647
  pend : Array (Array Pend)     -- [rank][object]
  two : Array Bool
  out : Array (List String)     -- observations per rank, reversed

/-- insert into a list sorted by (global, attribute) — the order `ParallelIndexSet::endResize` establishes -/
def insertPair (x : Pair) : List Pair → List Pair
  | [] => [x]
  | y :: ys => if x.g < y.g ∨ (x.g = y.g ∧ x.a < y.a) then x :: y :: ys else y :: insertPair x ys

/-- the harness protocol's resize: (old \ deleted) + the adds whose (global, attribute) is new -/
def newPairs (old : List Pair) (pe : Pend) : List Pair :=
  let kept := old.filter (fun p => !pe.dels.contains p.g)
  pe.adds.foldl (fun acc e => if acc.any (fun p => p.g == e.g && p.a == e.a) then acc else insertPair e acc) kept

def showIdx (x : RIdx) : String :=
  "(" ++ toString x.loc.g ++ "," ++ toString x.ra ++ "," ++ toString x.loc.l ++ "," ++ toString x.loc.a ++ ")"
/-- canonical print order (as in the harness): runs of equal global index are sorted by (ra, l, a) -/
def idxLt (x y : RIdx) : Bool :=
  x.ra < y.ra || (x.ra == y.ra && (x.loc.l < y.loc.l || (x.loc.l == y.loc.l && x.loc.a < y.loc.a)))
def insRun (x : RIdx) : List RIdx → List RIdx
  | [] => [x]
  | y :: ys => if y.loc.g == x.loc.g && idxLt y x then y :: insRun x ys else x :: y :: ys
/-- insertion from the right keeps runs of equal global index together and sorts inside them -/
def canon (l : List RIdx) : List RIdx := l.foldr insRun []
def showIdxs (l : List RIdx) : String := "[" ++ ",".intercalate ((canon l).map showIdx) ++ "]"
def showMap (m : RMap) : String :=
  "b" ++ " ".intercalate (m.map fun e => toString e.1 ++ ":" ++ showIdxs e.2.1 ++ "|" ++ showIdxs e.2.2)

/-- the object behind role `s` (0 source, 1 target, 2 unrelated) of a rank -/
def objOf (r : RankW) (s : Nat) : Nat := if s == 2 then 2 else if s == 0 then r.srcObj else r.tgtObj

def getPend (st : St) (r o : Nat) : Pend := (st.pend.getD r #[]).getD o {}
def setPend (st : St) (r o : Nat) (p : Pend) : St :=
  { st with pend := st.pend.setIfInBounds r ((st.pend.getD r #[]).setIfInBounds o p) }

def note (st : St) (f : Nat → RankW → String) : St :=
  { st with out := st.out.mapIdx fun p o => f p (st.w.getD p default) :: o }

/-- resize of the object behind role `s` on the ranks selected by `sel` -/
def resize (st : St) (s : Nat) (sel : Nat → Bool) : St :=
  (List.range st.w.length).foldl (fun st r =>
    if !sel r then st else
    let rw := st.w.getD r default
    let o := objOf rw s
    let np := newPairs (rw.obj o).pairs (getPend st r o)
    match st.w.step (.resize r o np) with
    | some w' => setPend { st with w := w' } r o {}
    | none => st) st

def parseHints (P : Nat) (h : String) : Option (List Nat) :=
  if h == "-" then some [] else
  match (h.splitOn ",").mapM (·.toNat?) with
  | some l => if l.all (· < P) then some l else none
  | none => none

/-- the sanity rules of the harness: ring and neighbour mode are not mixed, hints are symmetric -/
def hintsOk (P : Nat) (hl : List (List Nat)) : Bool :=
  let ringOf (r : Nat) : Bool := (nbIds { hints := hl.getD r [] } r).isEmpty
  let okMode := (List.range P).all fun r => ringOf r == ringOf 0
  let okSym := (List.range P).all fun r => ringOf r ||
    (hl.getD r []).all fun q => q == r || (hl.getD q []).contains r
  okMode && okSym

def step (st : St) (seg : String) : Option St :=
  let P := st.w.length
  match seg.toList with
  | [] => some st
  | kind :: restc =>
    let rest := String.ofList restc
    if kind == 'a' || kind == 'd' then
      match rest.splitOn "," with
      | s :: r :: g :: more =>
        match s.toNat?, r.toNat?, g.toInt? with
        | some s, some r, some g =>
          if s > 1 || r ≥ P then none else
          if g < st.gLo || g > st.gHi then none else
          let rw := st.w.getD r default
          let isTwo := st.two.getD r false
          let o := objOf rw s
          if kind == 'a' then
            let how? : Option Nat := match more with
              | [_, _, _] => some 0
              | [_, _, _, h] => if h.length == 1 then (h.toNat?).bind fun k => if k ≤ 4 then some k else none else none
              | _ => none
            match more.take 3, how? with
            | [l, a, pb], some how =>
              match l.toNat?, a.toNat? with
              | some l, some a =>
                if a > 3 || (pb != "0" && pb != "1") then none else
                if s == 1 && !isTwo then some st else
                let pe := getPend st r o
                some (setPend st r o { pe with adds := pe.adds ++ [L.mkPair how g l a (pb == "1")] })
              | _, _ => none
            | _, _ => none
          else
            match more with
            | [] =>
              if s == 1 && !isTwo then some st else
              let pe := getPend st r o
              some (setPend st r o { adds := pe.adds.filter (fun e => e.g != g), dels := g :: pe.dels })
            | _ => none
        | _, _, _ => none
      | _ => none
    else if kind == 'R' then
      match rest.toNat? with
      | some s => if s > 2 || rest.length != 1 then none else some (resize st s fun _ => true)
      | none => none
    else if kind == 'r' then
      match rest.splitOn "," with
      | [s, r] =>
        match s.toNat?, r.toNat? with
        | some s, some r => if s > 2 || r ≥ P then none else some (resize st s fun q => q == r)
        | _, _ => none
      | _ => none
    else if kind == 'S' then
      if rest != "" then none else some (note st fun _ r => if r.isSynced then "s1" else "s0")
    else if kind == 'B' then
      if rest != "0" && rest != "1" then none else
      let ign := rest == "1"
      match st.w.step (.rebuild ign (stdArrivals st.w.sys)) with
      | none => some (note st fun _ _ => "b!")
      | some w' => some (note { st with w := w' } fun _ r => showMap r.ri.remote)
    else if kind == 'F' then
      if rest != "" then none else
      let w' := (List.range P).foldl (fun w p => (w.step (.free p)).getD w) st.w
      some (note { st with w := w' } fun _ r => "f" ++ toString r.ri.remote.length)
    else if kind == 'X' then
      let kc := restc.take 1
      if kc != ['0'] && kc != ['1'] then none else
      let swap := kc == ['1']
      -- `X<k>`: the hints in force are passed again; `X<k>,<hints>`: new hints
      let newHints : Option (Option (List (List Nat))) :=
        match restc.drop 1 with
        | [] => some none
        | ',' :: hc =>
          let hs := (String.ofList hc).splitOn "/"
          if hs.length != P then none else
          match hs.mapM (parseHints P) with
          | none => none
          | some hl => if hintsOk P hl then some (some hl) else none
        | _ => none
      match newHints with
      | none => none
      | some nh =>
        let w' := (List.range P).foldl (fun w p =>
          let r := w.getD p default
          let (s, t) := if swap then (r.tgtObj, r.srcObj) else (r.srcObj, r.tgtObj)
          let h := match nh with
            | none => r.hints
            | some hl => hl.getD p []
          (w.step (.setSets p s t h)).getD w) st.w
        some (note { st with w := w' } fun _ r => "x" ++ toString r.ri.remote.length)
    else if kind == 'I' then
      match rest.splitOn "," with
      | [r, b] =>
        match r.toNat? with
        | some r =>
          if r ≥ P || (b != "0" && b != "1") then none else
          (st.w.step (.setIncl r (b == "1"))).map fun w' => { st with w := w' }
        | none => none
      | _ => none
    else if kind == 'N' then
      let hs := rest.splitOn "/"
      if hs.length != P then none else
      match hs.mapM (parseHints P) with
      | none => none
      | some hl =>
        if !hintsOk P hl then none else
        let w' := (List.range P).foldl (fun w p => (w.step (.setNb p (hl.getD p []))).getD w) st.w
        some { st with w := w' }
    else none

/-- range of the global index type named by `g=` -/
def gRange (t : String) : Option (Int × Int) :=
  if t == "int" then some (-2147483648, 2147483647)
  else if t == "long" then some (-(2 ^ 62 : Int) + 1, (2 ^ 62 : Int) - 1)
  else if t == "big24" then some (0, (2 ^ 24 : Int) - 1)
  else if t == "big40" || t == "pair" then some (0, (2 ^ 40 : Int) - 1)
  else none

/-- `comm=w | d | r0.r1...[+n]`: the number of world processes left out of the communicator, `none` if malformed
    (the members are `P` distinct world ranks `< P + n`) -/
def commExtra (P : Nat) (v : String) : Option Nat :=
  if v == "w" || v == "d" then some 0 else
  let pm := v.splitOn "+"
  let extra : Option Nat := match pm with
    | [_] => some 0
    | [_, n] => match n.toNat? with
      | some k => if k ≥ 1 then some k else none
      | none => none
    | _ => none
  match extra with
  | none => none
  | some n =>
    match ((pm.headD "").splitOn ".").mapM (·.toNat?) with
    | none => none
    | some ms => if ms.length == P && ms.all (· < P + n) && ms.eraseDups.length == ms.length then some n else none

structure Opts where
  g : Option (Int × Int) := none
  gName : String := "int"
  n : Option Nat := none
  extra : Option Nat := none

/-- the chunk sizes the harness instantiates: 100 for every global index type, 1, 3, 8 for `int` -/
def chunkOk (gName : String) (n : Nat) : Bool := n == 100 || (gName == "int" && (n == 1 || n == 3 || n == 8))

def parseOpts : List String → Nat → Opts → Option Opts
  | [], _, o => some o
  | t :: ts, P, o =>
    if t.startsWith "g=" then
      if o.g.isSome then none else
      match gRange (String.ofList (t.toList.drop 2)) with
      | some r => parseOpts ts P { o with g := some r, gName := String.ofList (t.toList.drop 2) }
      | none => none
    else if t.startsWith "n=" then
      if o.n.isSome then none else
      let v := String.ofList (t.toList.drop 2)
      if v.length > 9 || v.isEmpty || !v.toList.all Char.isDigit then none else
      match v.toNat? with
      | some k => parseOpts ts P { o with n := some k }
      | none => none
    else if t.startsWith "comm=" then
      if o.extra.isSome then none else
      match commExtra P (String.ofList (t.toList.drop 5)) with
      | some n => parseOpts ts P { o with extra := some n }
      | none => none
    else none

def handle (line : String) : String :=
  let parts := line.splitOn " : "
  let head := parts.headD ""
  let body := " : ".intercalate (parts.drop 1)
  match tokens head with
  | "c04" :: ps :: flags :: hints :: optToks =>
    match ps.toNat? with
    | none => "bad-op"
    | some P =>
      if optToks.length > 3 then "bad-op" else
      match parseOpts optToks P {} with
      | none => "bad-op"
      | some opts =>
      if !chunkOk opts.gName (opts.n.getD 100) then "bad-op" else
      let (gLo, gHi) := opts.g.getD (-2147483648, 2147483647)
      let extra := opts.extra.getD 0
      let fl := flags.toList
      let hs := hints.splitOn "/"
      if P == 0 || fl.length != P || hs.length != P then "bad-op" else
      match hs.mapM (parseHints P) with
      | none => "bad-op"
      | some hl =>
        if !fl.all (fun c => '0' ≤ c && c ≤ '7') then "bad-op" else
        if !hintsOk P hl then "bad-op" else
        let flag (r : Nat) : Nat := (fl.getD r '0').toNat - '0'.toNat
        let w : World := (List.range P).map fun r =>
          { srcObj := 0, tgtObj := if flag r % 2 == 1 then 1 else 0, incl := (flag r / 2) % 2 == 1, hints := hl.getD r [] }
        let init : St := { w := w, gLo := gLo, gHi := gHi, pend := (List.range P).toArray.map fun _ => #[{}, {}, {}],
                           two := (List.range P).toArray.map fun r => flag r % 2 == 1,
                           out := (List.range P).toArray.map fun _ => [] }
        let segs := (String.ofList (body.toList.filter (· != ' '))).splitOn ";"
        match segs.foldlM step init with
        | none => "bad-op"
        | some fin =>
          " ".intercalate (((List.range P).map fun r =>
            "r" ++ toString r ++ "{" ++ ";".intercalate ((fin.out.getD r []).reverse) ++ "}") ++
            ((List.range extra).map fun i => "r" ++ toString (P + i) ++ "{}"))
  | _ => "bad-op"

end C04Drv

def main : IO Unit := DV.runDriver C04Drv.handle
