import DuneVerif.Model.C04
import DuneVerif.Common.Proto
/-!
line-protocol driver for C04 (format: see harness/mpi_c04.cc)

  c04 <P> <flags> <hints> : seg;seg;...

The driver keeps, for every rank, three index set objects (source, target, unrelated) as sorted pair lists with
their sequence numbers plus the pending adds/deletes of the harness protocol, and one `RIState`.  `B<ign>` runs
`RIState.rebuild` with `buildRemoteStd` on the snapshot of all ranks, `S` prints `isSynced`.
-/
open DV DV.C04

namespace C04Drv

structure ISet where
  pairs : List Pair := []
  seq : Nat := 0
  adds : List Pair := []      -- pending adds (in op-line order)
  dels : List Int := []       -- pending deletes
  deriving Inhabited

structure RankSt where
  obj : Array ISet := #[{}, {}, {}]
  two : Bool := false
  incl : Bool := false
  hints : List Nat := []
  ri : RIState := {}
  out : List String := []     -- observations, reversed
  deriving Inhabited

/-- insert into a list sorted by (global, attribute) — the order `ParallelIndexSet::endResize` establishes -/
def insertPair (x : Pair) : List Pair → List Pair
  | [] => [x]
  | y :: ys => if x.g < y.g ∨ (x.g = y.g ∧ x.a < y.a) then x :: y :: ys else y :: insertPair x ys

/-- the harness protocol's resize: (old \ deleted) + the adds whose (global, attribute) is new -/
def applyResize (s : ISet) : ISet :=
  let kept := s.pairs.filter (fun p => !s.dels.contains p.g)
  let res := s.adds.foldl (fun acc e => if acc.any (fun p => p.g == e.g && p.a == e.a) then acc else insertPair e acc) kept
  { pairs := res, seq := s.seq + 1, adds := [], dels := [] }

def showIdx (x : RIdx) : String :=
  "(" ++ toString x.loc.g ++ "," ++ toString x.ra ++ "," ++ toString x.loc.l ++ "," ++ toString x.loc.a ++ ")"
/-- canonical print order (as in the harness): runs of equal global index are sorted by (ra, l, a) -/
def idxLt (x y : RIdx) : Bool :=
  x.ra < y.ra || (x.ra == y.ra && (x.loc.l < y.loc.l || (x.loc.l == y.loc.l && x.loc.a < y.loc.a)))
def insRun (x : RIdx) : List RIdx → List RIdx
  | [] => [x]
  | y :: ys => if y.loc.g == x.loc.g && idxLt y x then y :: insRun x ys else x :: y :: ys
/-- insertion from the right keeps runs of equal global index together and sorts inside them -/
def canon (l : List RIdx) : List RIdx := l.foldr insRun []
def showIdxs (l : List RIdx) : String := "[" ++ ",".intercalate ((canon l).map showIdx) ++ "]"
def showMap (m : RMap) : String :=
  "b" ++ " ".intercalate (m.map fun e => toString e.1 ++ ":" ++ showIdxs e.2.1 ++ "|" ++ showIdxs e.2.2)

def getObj (r : RankSt) (i : Nat) : ISet := r.obj.getD i {}

/-- index of the object that is rank r's source (0) / target (1, or 0 for one index set) / unrelated (2) set -/
def objOf (r : RankSt) (s : Nat) : Nat := if s == 1 && !r.two then 0 else s

def snapshot (rs : Array RankSt) : System :=
  { P := rs.size,
    rank := fun p =>
      let r := rs.getD p {}
      { src := (getObj r 0).pairs, tgt := (getObj r 1).pairs, two := r.two, incl := r.incl, hints := r.hints } }

def parseNats? (ws : List String) : Option (List Nat) := ws.mapM (·.toNat?)

def step (rs : Array RankSt) (seg : String) : Option (Array RankSt) :=
  match seg.toList with
  | [] => some rs
  | kind :: restc =>
    let rest := String.ofList restc
    if kind == 'a' || kind == 'd' then
      let f := rest.splitOn ","
      match f with
      | s :: r :: g :: more =>
        match s.toNat?, r.toNat?, g.toInt? with
        | some s, some r, some g =>
          if s > 1 || r ≥ rs.size then none else
          let st := rs.getD r {}
          if kind == 'a' then
            match more with
            | [l, a, pb] =>
              match l.toNat?, a.toNat? with
              | some l, some a =>
                if a > 3 then none else
                if s == 1 && !st.two then some rs else
                let o := getObj st s
                let o' := { o with adds := o.adds ++ [{ g := g, l := l, a := a, pub := pb == "1" }] }
                some (rs.setIfInBounds r { st with obj := st.obj.setIfInBounds s o' })
              | _, _ => none
            | _ => none
          else
            match more with
            | [] =>
              if s == 1 && !st.two then some rs else
              let o := getObj st s
              let o' := { o with adds := o.adds.filter (fun e => e.g != g), dels := g :: o.dels }
              some (rs.setIfInBounds r { st with obj := st.obj.setIfInBounds s o' })
            | _ => none
        | _, _, _ => none
      | _ => none
    else if kind == 'R' then
      match rest.toNat? with
      | some s =>
        if s > 2 || rest.length != 1 then none else
        some (rs.map fun st =>
          let i := objOf st s
          { st with obj := st.obj.setIfInBounds i (applyResize (getObj st i)) })
      | none => none
    else if kind == 'S' then
      if rest != "" then none else
      some (rs.map fun st =>
        let sy := st.ri.isSynced (getObj st 0).seq (getObj st (objOf st 1)).seq
        { st with out := (if sy then "s1" else "s0") :: st.out })
    else if kind == 'B' then
      if rest != "0" && rest != "1" then none else
      let ign := rest == "1"
      let sys := snapshot rs
      some (rs.mapIdx fun p st =>
        let ri' := st.ri.rebuild ign (getObj st 0).seq (getObj st (objOf st 1)).seq (fun _ => buildRemoteStd ign sys p)
        { st with ri := ri', out := showMap ri'.remote :: st.out })
    else none

def parseHints (P : Nat) (h : String) : Option (List Nat) :=
  if h == "-" then some [] else
  match parseNats? (h.splitOn ",") with
  | some l => if l.all (· < P) then some l else none
  | none => none

def handle (line : String) : String :=
  let parts := line.splitOn " : "
  let head := parts.headD ""
  let body := " : ".intercalate (parts.drop 1)
  match tokens head with
  | ["c04", ps, flags, hints] =>
    match ps.toNat? with
    | none => "bad-op"
    | some P =>
      let fl := flags.toList
      let hs := hints.splitOn "/"
      if P == 0 || fl.length != P || hs.length != P then "bad-op" else
      match hs.mapM (parseHints P) with
      | none => "bad-op"
      | some hl =>
        if !fl.all (fun c => '0' ≤ c && c ≤ '3') then "bad-op" else
        let init : Array RankSt := (List.range P).toArray.map fun r =>
          let f := (fl.getD r '0').toNat - '0'.toNat
          { two := f % 2 == 1, incl := f / 2 == 1, hints := hl.getD r [] }
        -- the same sanity rules as the harness: ring and neighbour mode are not mixed, hints are symmetric
        let ringOf (r : Nat) : Bool := (nbIds { hints := hl.getD r [] } r).isEmpty
        let okMode := (List.range P).all fun r => ringOf r == ringOf 0
        let okSym := (List.range P).all fun r => ringOf r ||
          (hl.getD r []).all fun q => q == r || (hl.getD q []).contains r
        if !okMode || !okSym then "bad-op" else
        let segs := (String.ofList (body.toList.filter (· != ' '))).splitOn ";"
        match segs.foldlM step init with
        | none => "bad-op"
        | some fin =>
          " ".intercalate ((List.range P).map fun r =>
            "r" ++ toString r ++ "{" ++ ";".intercalate ((fin.getD r {}).out.reverse) ++ "}")
  | _ => "bad-op"

end C04Drv

def main : IO Unit := DV.runDriver C04Drv.handle
