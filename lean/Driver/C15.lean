import DuneVerif.Model.C15
/-! line-protocol driver for C15: `<kind> <params…> : <op>;<op>;…` (see `DV.C15.handle`) -/
def main : IO Unit := DV.runDriver DV.C15.handle
