import DuneVerif.Common.Proto
import DuneVerif.Model.C13
/-! line-protocol driver for C13 (format: see harness/mpi_c13.cc)
    `np=<P> num=<d|c|s|l> ord=<a|f> del=<m|r> [re=<0|s|d|e>] [comm=<w|d|r0.r1...>] [glob=<i|l>] : <g>=<rank><o|v|c><k|d|a|n>,...;...`

    `comm` names the MPI communicator the harness builds the remote indices on (MPI_COMM_WORLD, a duplicate, or the
    world processes r0, r1, … in this order) and `glob` the C++ type of the global indices.  The model has neither
    notion: processes are numbered as the communicator numbers them, processes outside it hold nothing, global
    indices are integers.  The driver only validates the two tokens (holder ranks must be ranks of the
    communicator) — that the real code gives the model's answer for every choice is what the comparison checks. -/
open DV DV.C13

structure Tok where
  rank : Nat
  g : Int
  attr : Nat
  st : Char

def attrOfChar? (c : Char) : Option Nat :=
  if c = 'o' then some 0 else if c = 'v' then some 1 else if c = 'c' then some 2 else none

def attrStr (a : Nat) : String :=
  if a = 0 then "o" else if a = 1 then "v" else if a = 2 then "c" else "?" ++ toString a

def parseHolder? (np : Nat) (g : Int) (h : String) : Option Tok :=
  let cs := h.toList
  if cs.length < 3 then none else
  let rs := cs.take (cs.length - 2)
  if !rs.all Char.isDigit then none else
  match (String.ofList rs).toNat?, attrOfChar? (cs.getD (cs.length - 2) ' ') with
  | some r, some a =>
    let st := cs.getD (cs.length - 1) ' '
    if r < np ∧ (st = 'k' ∨ st = 'd' ∨ st = 'a' ∨ st = 'n') then some ⟨r, g, a, st⟩ else none
  | _, _ => none

def parseSeg? (np : Nat) (seg : String) : Option (List Tok) :=
  match seg.splitOn "=" with
  | [gs, hs] =>
    match gs.toInt? with
    | some g =>
      if gs.toList.head? = some '+' then none else
      match (hs.splitOn ",").mapM (parseHolder? np g) with
      | some ts => if (ts.map (·.rank)).Nodup then some ts else none
      | none => none
    | none => none
  | _ => none

def insSorted (x : Int × Nat) : List (Int × Nat) → List (Int × Nat)
  | [] => [x]
  | y :: ys => if y.1 < x.1 then y :: insSorted x ys else x :: y :: ys

def locStr (hide : Bool) (l : Nat) : String :=
  if hide then "S" else if l = 2 ^ 64 - 1 then "M" else toString l

abbrev NumState := (List Nat × Nat) × Nat   -- ((free list, next fresh number), calls)

/-- `assigned`: the global indices whose local number came from a numberer object with state (printed as S: which
index gets which number depends on the processing order); `post`: after a sync (prints the in-sync flag and, for a
numberer object, its calls, the length of its free list and its next fresh number) -/
def showRank (assigned : List Int) (post : Bool) (ns : Option NumState) (st : RankState) : String :=
  let idx := "I[" ++ ",".intercalate (st.idx.map fun e =>
    toString e.g ++ attrStr e.attr ++ ":" ++ locStr (assigned.contains e.g) e.loc) ++ "]"
  let nbs := st.remote.map fun x =>
    " N" ++ toString x.1 ++ "[" ++ ",".intercalate (x.2.map fun en =>
      match resolve st.idx en with
      | some k => toString en.g ++ attrStr en.own ++ attrStr en.rem ++ "@" ++ toString k
      | none => "?" ++ attrStr en.rem) ++ "]"
  idx ++ String.join nbs ++ (if post then " S" ++ (if isSynced st then "1" else "0") else "") ++
    (match ns with
     | some s => if post then " K" ++ toString s.2 ++ " F" ++ toString s.1.1.length ++ " X" ++ toString s.1.2 else ""
     | none => "")

/-- one sync of all ranks: pure numbering, or the numberer object of every rank -/
def syncStep (num : Option (Int → Nat)) (w : World) (ns : List NumState) : World × List NumState :=
  match num with
  | some f => (sync f w, ns)
  | none =>
    let r := syncS (counted slotNumberer) w ns
    (r.map (·.1), r.map (·.2))

def newGlobals (before after : RankState) : List Int :=
  (after.idx.filter fun e => !hasKey before.idx e.g e.attr).map (·.g)

def run (np : Nat) (numKind : String) (re : String) (toks : List Tok) : String :=
  let base : Decomp := (List.range np).map fun p =>
    (toks.filter fun t => t.rank = p ∧ (t.st = 'k' ∨ t.st = 'd')).foldl (fun acc t => insSorted (t.g, t.attr) acc) []
  let del : Nat → Int → Bool := fun p g => toks.any fun t => t.rank = p ∧ t.g = g ∧ t.st = 'd'
  let w0 := consistent base
  let w1 := deleteCopies del w0
  let w2 := (toks.filter fun t => t.st = 'a').foldl (fun w t =>
      let known := (toks.filter fun u => u.g = t.g ∧ u.rank ≠ t.rank).map fun u => (u.rank, u.attr)
      addCopyAt w t.rank t.g t.attr (500 + t.g).toNat known) w1
  let num : Option (Int → Nat) :=
    if numKind = "c" then some (fun g => (1000 + g).toNat) else if numKind = "d" then some (fun _ => 2 ^ 64 - 1) else none
  let stateful := numKind = "s" ∨ numKind = "l"
  -- the numberer objects: a counter from 2000, or the free list of the slots of the deleted copies, then 3000, ...
  let ns0 : List NumState := (List.range np).map fun p =>
    if numKind = "l" then ((((w0.getD p ⟨[], [], 0, 0⟩).idx.filter fun e => del p e.g).map (·.loc), 3000), 0)
    else (([], 2000), 0)
  let r1 := syncStep num w2 ns0
  let nsOf (ns : List NumState) (p : Nat) : Option NumState := if stateful then some (ns.getD p (([], 0), 0)) else none
  let emptySt : RankState := ⟨[], [], 0, 0⟩
  let asg1 : List (List Int) := (List.range np).map fun p =>
    if stateful then newGlobals (w2.getD p emptySt) (r1.1.getD p emptySt) else []
  let a := w2.mapIdx fun _ st => "A(" ++ showRank [] false none st ++ ")"
  let b := r1.1.mapIdx fun p st => "B(" ++ showRank (asg1.getD p []) true (nsOf r1.2 p) st ++ ")"
  let c : List String :=
    if re = "0" then List.replicate np ""
    else
      let w3 := if re = "d" then deleteCopies del r1.1 else r1.1
      -- the free-list numberer gets the slots of the copies that are deleted again
      let ns3 : List NumState := r1.2.mapIdx fun p s =>
        if re = "d" ∧ numKind = "l" then
          ((s.1.1 ++ ((r1.1.getD p emptySt).idx.filter fun e => del p e.g).map (·.loc), s.1.2), s.2)
        else s
      let asg3 : List (List Int) := asg1.mapIdx fun p l => if re = "d" then l.filter (fun g => !del p g) else l
      let r2 := syncStep num w3 ns3
      r2.1.mapIdx fun p st =>
        let asg := asg3.getD p [] ++ (if stateful then newGlobals (w3.getD p emptySt) st else [])
        " C(" ++ showRank asg true (nsOf r2.2 p) st ++ ")"
  " ".intercalate ((List.range np).map fun p =>
    "r" ++ toString p ++ "{" ++ a.getD p "" ++ " " ++ b.getD p "" ++ c.getD p "" ++ "}")

/-- the optional header tokens, in this order: `re=`, `comm=`, `glob=`; result: (re, comm) -/
def parseOpt? (np : Nat) (ts : List String) : Option (String × Option (List Nat)) :=
  let (re, ts) : String × List String :=
    match ts with
    | t :: rest => if t = "re=0" then ("0", rest) else if t = "re=s" then ("s", rest) else if t = "re=d" then ("d", rest)
      -- `re=e` is `re=d` with the IndicesSyncer object of the first round: one and the same history for the model
      else if t = "re=e" then ("d", rest) else ("0", ts)
    | [] => ("0", [])
  let (comm?, ts) : Option (Option (List Nat)) × List String :=
    match ts with
    | t :: rest =>
      if t = "comm=w" ∨ t = "comm=d" then (some none, rest)
      else if t.startsWith "comm=" then
        let parts := (t.drop 5).toString.splitOn "."
        match parts.mapM (fun m => if m.length ≤ 3 ∧ m.length ≥ 1 ∧ m.toList.all Char.isDigit then m.toNat? else none) with
        | some ms => if ms.Nodup ∧ ms.all (· < np) then (some (some ms), rest) else (none, rest)
        | none => (none, rest)
      else (some none, ts)
    | [] => (some none, [])
  match comm?, ts with
  | some comm, [] => some (re, comm)
  | some comm, [t] => if t = "glob=i" ∨ t = "glob=l" then some (re, comm) else none
  | _, _ => none

def handle (line : String) : String :=
  match line.splitOn " : " with
  | [head, body] =>
    let hs := tokens head
    let np0 : Nat := match hs with
      | n :: _ => if n.startsWith "np=" then ((n.drop 3).toString.toNat?).getD 0 else 0
      | [] => 0
    let (hs4, opt?) : List String × Option (String × Option (List Nat)) :=
      match hs with
      | n :: num :: ord :: del :: rest => ([n, num, ord, del], parseOpt? np0 rest)
      | _ => ([], none)
    match hs4, opt? with
    | [n, num, ord, del], some (re, comm) =>
      if !(n.startsWith "np=") then "bad-op" else
      match (n.drop 3).toString.toNat? with
      | none => "bad-op"
      | some np =>
        if np < 1 ∨ np > 64 then "bad-op" else
        if !(num = "num=d" ∨ num = "num=c" ∨ num = "num=s" ∨ num = "num=l") ∨ !(ord = "ord=a" ∨ ord = "ord=f") ∨ !(del = "del=m" ∨ del = "del=r") then "bad-op" else
        if ord = "ord=f" ∧ num = "num=d" then "bad-op" else
        let segs := (body.splitOn ";").map (fun s => String.ofList (s.toList.filter (· ≠ ' '))) |>.filter (· ≠ "")
        -- holders are ranks of the communicator
        let active := match comm with | some ms => ms.length | none => np
        match segs.mapM (parseSeg? active) with
        | none => "bad-op"
        | some tss =>
          if !((tss.filterMap fun ts => ts.head?.map (·.g)).Nodup) then "bad-op" else
          run np (num.drop 4).toString re tss.flatten
    | _, _ => "bad-op"
  | _ => "bad-op"

def main : IO Unit := runDriver handle
