import DuneVerif.Common.Proto
import DuneVerif.Model.C13
/-! line-protocol driver for C13 (format: see harness/mpi_c13.cc)
    `np=<P> num=<d|c> ord=<a|f> del=<m|r> : <g>=<rank><o|v|c><k|d|a|n>,...;...`  -/
open DV DV.C13

structure Tok where
  rank : Nat
  g : Int
  attr : Nat
  st : Char

def attrOfChar? (c : Char) : Option Nat :=
  if c = 'o' then some 0 else if c = 'v' then some 1 else if c = 'c' then some 2 else none

def attrStr (a : Nat) : String :=
  if a = 0 then "o" else if a = 1 then "v" else if a = 2 then "c" else "?" ++ toString a

def parseHolder? (np : Nat) (g : Int) (h : String) : Option Tok :=
  let cs := h.toList
  if cs.length < 3 then none else
  let rs := cs.take (cs.length - 2)
  if !rs.all Char.isDigit then none else
  match (String.ofList rs).toNat?, attrOfChar? (cs.getD (cs.length - 2) ' ') with
  | some r, some a =>
    let st := cs.getD (cs.length - 1) ' '
    if r < np ∧ (st = 'k' ∨ st = 'd' ∨ st = 'a' ∨ st = 'n') then some ⟨r, g, a, st⟩ else none
  | _, _ => none

def parseSeg? (np : Nat) (seg : String) : Option (List Tok) :=
  match seg.splitOn "=" with
  | [gs, hs] =>
    match gs.toInt? with
    | some g =>
      if gs.toList.head? = some '+' then none else
      match (hs.splitOn ",").mapM (parseHolder? np g) with
      | some ts => if (ts.map (·.rank)).Nodup then some ts else none
      | none => none
    | none => none
  | _ => none

def insSorted (x : Int × Nat) : List (Int × Nat) → List (Int × Nat)
  | [] => [x]
  | y :: ys => if y.1 < x.1 then y :: insSorted x ys else x :: y :: ys

def locStr (l : Nat) : String := if l = 2 ^ 64 - 1 then "M" else toString l

def showRank (st : RankState) : String :=
  let idx := "I[" ++ ",".intercalate (st.idx.map fun e => toString e.g ++ attrStr e.attr ++ ":" ++ locStr e.loc) ++ "]"
  let nbs := st.remote.map fun x =>
    " N" ++ toString x.1 ++ "[" ++ ",".intercalate (x.2.map fun en =>
      match resolve st.idx en with
      | some k => toString en.g ++ attrStr en.own ++ attrStr en.rem ++ "@" ++ toString k
      | none => "?" ++ attrStr en.rem) ++ "]"
  idx ++ String.join nbs ++ " S" ++ (if isSynced st then "1" else "0")

def run (np : Nat) (custom : Bool) (toks : List Tok) : String :=
  let base : Decomp := (List.range np).map fun p =>
    (toks.filter fun t => t.rank = p ∧ (t.st = 'k' ∨ t.st = 'd')).foldl (fun acc t => insSorted (t.g, t.attr) acc) []
  let del : Nat → Int → Bool := fun p g => toks.any fun t => t.rank = p ∧ t.g = g ∧ t.st = 'd'
  let w1 := deleteCopies del (consistent base)
  let w2 := w1.mapIdx fun p st =>
    let adds := (toks.filter fun t => t.rank = p ∧ t.st = 'a').foldl (fun acc t => insSorted (t.g, t.attr) acc) []
    adds.foldl (fun s ga =>
      let known := (toks.filter fun t => t.g = ga.1 ∧ t.rank ≠ p).map fun t => (t.rank, t.attr)
      addCopy s ga.1 ga.2 (500 + ga.1).toNat known) st
  let num : Int → Nat := if custom then fun g => (1000 + g).toNat else fun _ => 2 ^ 64 - 1
  let post := sync num w2
  " ".intercalate (post.mapIdx fun p st => "r" ++ toString p ++ "{" ++ showRank st ++ "}")

def handle (line : String) : String :=
  match line.splitOn " : " with
  | [head, body] =>
    match tokens head with
    | [n, num, ord, del] =>
      if !(n.startsWith "np=") then "bad-op" else
      match (n.drop 3).toString.toNat? with
      | none => "bad-op"
      | some np =>
        if np < 1 ∨ np > 64 then "bad-op" else
        if !(num = "num=d" ∨ num = "num=c") ∨ !(ord = "ord=a" ∨ ord = "ord=f") ∨ !(del = "del=m" ∨ del = "del=r") then "bad-op" else
        if ord = "ord=f" ∧ num = "num=d" then "bad-op" else
        let segs := (body.splitOn ";").map (fun s => String.ofList (s.toList.filter (· ≠ ' '))) |>.filter (· ≠ "")
        match segs.mapM (parseSeg? np) with
        | none => "bad-op"
        | some tss =>
          if !((tss.filterMap fun ts => ts.head?.map (·.g)).Nodup) then "bad-op" else
          run np (num = "num=c") tss.flatten
    | _ => "bad-op"
  | _ => "bad-op"

def main : IO Unit := runDriver handle
