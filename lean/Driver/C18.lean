import DuneVerif.Model.C18
/-! line-protocol driver for C18.

Strings travel as one token: `-` is the empty string; letters, digits, `/`, `.`, `_` stand for
themselves; every other byte is `~hh` (two lower-case hex digits).

  u <p>                 -> <processPath p> <prettyPath p false> <prettyPath p true> <prettyPath p> <pathIndicatesDirectory p>
  b <x> <y>             -> <concatPaths x y> <relativePath x y | ERR:NotImplemented> <hasPrefix x y> <hasSuffix x y>
  f <fmt> <arg>...      -> <formatString fmt args>      arg = d:<int> | s:<count>:<piece>  (piece repeated count times)

The `u` answer is computed with the character-level model; if the component-level spec `processPathS`
disagrees on that input the driver prints `MODEL-SPLIT …` instead (so the C/S link is checked on every
enumerated string as well).
-/
open DV DV.C18

def safeChar (c : Char) : Bool := c.isAlphanum || c == '/' || c == '.' || c == '_'

def encStr (s : Str) : String :=
  if s.isEmpty then "-" else
  String.ofList (s.flatMap fun c =>
    if safeChar c then [c] else ['~', hexChar (c.toNat / 16 % 16), hexChar (c.toNat % 16)])

def decAux : List Char → Option Str
  | [] => some []
  | '~' :: a :: b :: r =>
    match hexDigitVal? a, hexDigitVal? b, decAux r with
    | some x, some y, some t => if x * 16 + y = 0 then none else some (Char.ofNat (x * 16 + y) :: t)
    | _, _, _ => none
  | c :: r => if safeChar c then (decAux r).map (c :: ·) else none

def decStr (t : String) : Option Str :=
  if t == "-" then some [] else if t.isEmpty then none else decAux t.toList

def showB (b : Bool) : String := if b then "true" else "false"

def showRel : RelRes → String
  | .ok r => encStr r
  | .notImplemented => "ERR:NotImplemented"

def parseArg (t : String) : Option FArg :=
  match t.splitOn ":" with
  | ["d", i] => i.toInt?.map FArg.int
  | ["s", n, piece] =>
    match n.toNat?, decStr piece with
    | some n, some p => some (.str (List.replicate n p).flatten)
    | _, _ => none
  | _ => none

def handle (line : String) : String :=
  match tokens line with
  | ["u", p] =>
    match decStr p with
    | none => "bad-op"
    | some p =>
      let c := processPathC p
      let s := processPathS p
      if c ≠ s then "MODEL-SPLIT C=" ++ encStr c ++ " S=" ++ encStr s
      else " ".intercalate [encStr c, encStr (prettyPath p false), encStr (prettyPath p true),
                            encStr (prettyPathAuto p), showB (pathIndicatesDirectory p)]
  | ["b", x, y] =>
    match decStr x, decStr y with
    | some x, some y =>
      " ".intercalate [encStr (concatPaths x y), showRel (relativePath x y), showB (hasPrefix x y), showB (hasSuffix x y)]
    | _, _ => "bad-op"
  | "f" :: fmt :: args =>
    match decStr fmt, args.mapM parseArg with
    | some fmt, some args =>
      match formatIdeal (fmt.length + 1) fmt args with
      | some ideal => encStr (formatString ideal)
      | none => "bad-op"
    | _, _ => "bad-op"
  | _ => "bad-op"

def main : IO Unit := runDriver handle
