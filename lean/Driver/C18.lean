import DuneVerif.Model.C18
/-! line-protocol driver for C18.

Strings travel as one token: `-` is the empty string; letters, digits, `/`, `.`, `_` stand for
themselves; every other byte is `~hh` (two lower-case hex digits; `~00` is allowed).

  u <p>                 -> <processPath p> <prettyPath p false> <prettyPath p true> <prettyPath p> <pathIndicatesDirectory p>
  b <x> <y>             -> <concatPaths x y> <relativePath x y | ERR:NotImplemented> <hasPrefix x (cstr y)> <hasSuffix x (cstr y)>
                           (hasPrefix/hasSuffix take the pattern as `const char*`: `cstr y` = y up to its first NUL)
  f <fmt> <arg>...      -> <formatString fmt args> | ERR:Exception
                           arg = d:<int> | l:<long> | q:<long long> | u:<unsigned> | z:<size_t> | c:<char code> |
                                 w:<wint_t code> | s:<count>:<piece>   (a `*` width consumes a d: argument)
  tp <p> <r> | tq <p> <0|1> <r> | tc <base> <p> <r>
                        -> <processPath p> | <prettyPath p isDir> | <concatPaths base p>   (documentation rows; <r> is
                           the documented result, compared by the harness oracle and by the theorems doc_table_*)
  F <width>             -> ok | ERR:Exception : outcome class of formatString("%<width>d", 7), whose result is too long
                           to build; computed with `formatReturns` (tied to formatString by theorem formatString_outcome)

The `u` answer is computed with the character-level model; if the loop of pass 4 ran out of fuel the driver prints
`FUEL-EXHAUSTED`, and if the component-level spec `processPathS` disagrees on that input it prints `MODEL-SPLIT …`
instead (so termination and the C/S link are checked on every enumerated string as well).
-/
open DV DV.C18

def safeChar (c : Char) : Bool := c.isAlphanum || c == '/' || c == '.' || c == '_'

def encStr (s : Str) : String :=
  if s.isEmpty then "-" else
  String.ofList (s.flatMap fun c =>
    if safeChar c then [c] else ['~', hexChar (c.toNat / 16 % 16), hexChar (c.toNat % 16)])

def decAux : List Char → Option Str
  | [] => some []
  | '~' :: a :: b :: r =>
    match hexDigitVal? a, hexDigitVal? b, decAux r with
    | some x, some y, some t => some (Char.ofNat (x * 16 + y) :: t)
    | _, _, _ => none
  | c :: r => if safeChar c then (decAux r).map (c :: ·) else none

def decStr (t : String) : Option Str :=
  if t == "-" then some [] else if t.isEmpty then none else decAux t.toList

def showB (b : Bool) : String := if b then "true" else "false"

def showRel : RelRes → String
  | .ok r => encStr r
  | .notImplemented => "ERR:NotImplemented"

def parseArg (t : String) : Option FArg :=
  match t.splitOn ":" with
  | ["d", i] => i.toInt?.bind fun v => if -2147483648 ≤ v ∧ v ≤ 2147483647 then some (FArg.int v) else none
  | ["l", i] => i.toInt?.map FArg.long
  | ["q", i] => i.toInt?.map FArg.llong
  | ["z", n] => n.toNat?.bind fun v => if v ≤ 18446744073709551615 then some (FArg.size v) else none
  | ["u", n] => n.toNat?.bind fun v => if v ≤ 4294967295 then some (FArg.uns v) else none
  | ["c", n] => n.toNat?.bind fun v => if 1 ≤ v ∧ v ≤ 255 then some (FArg.chr v) else none
  | ["w", n] => n.toNat?.bind fun v => if v ≤ 4294967295 then some (FArg.wchr v) else none
  | ["s", n, piece] =>
    match n.toNat?, decStr piece with
    | some n, some p => if p.contains (Char.ofNat 0) then none else some (.str (List.replicate n p).flatten)
    | _, _ => none
  | _ => none

def handle (line : String) : String :=
  match tokens line with
  | ["u", p] =>
    match decStr p with
    | none => "bad-op"
    | some p =>
      match processPathC? p with
      | none => "FUEL-EXHAUSTED"
      | some c =>
      let s := processPathS p
      if c ≠ s then "MODEL-SPLIT C=" ++ encStr c ++ " S=" ++ encStr s
      else " ".intercalate [encStr c, encStr (prettyPath p false), encStr (prettyPath p true),
                            encStr (prettyPathAuto p), showB (pathIndicatesDirectory p)]
  | ["b", x, y] =>
    match decStr x, decStr y with
    | some x, some y =>
      " ".intercalate [encStr (concatPaths x y), showRel (relativePath x y), showB (hasPrefix x (cstr y)),
                       showB (hasSuffix x (cstr y))]
    | _, _ => "bad-op"
  | ["tp", p, r] =>
    match decStr p, decStr r with
    | some p, some _ => match processPathC? p with | some c => encStr c | none => "FUEL-EXHAUSTED"
    | _, _ => "bad-op"
  | ["tq", p, d, r] =>
    match decStr p, decStr r with
    | some p, some _ =>
      if d == "0" then encStr (prettyPath p false) else if d == "1" then encStr (prettyPath p true) else "bad-op"
    | _, _ => "bad-op"
  | ["tc", b, p, r] =>
    match decStr b, decStr p, decStr r with
    | some b, some p, some _ => encStr (concatPaths b p)
    | _, _, _ => "bad-op"
  | "f" :: fmt :: args =>
    match decStr fmt, args.mapM parseArg with
    | some fmt, some args =>
      let onlyDS := args.all fun a => match a with | .int _ => true | .str _ => true | _ => false
      if fmt.contains (Char.ofNat 0) ∨ (onlyDS ∧ args.length > 6) ∨ (¬ onlyDS ∧ args.length > 2) then "bad-op"
      else
        let show_ (i : Option Str) : String :=
          match formatString i with
          | .ok t => encStr t
          | .exception => "ERR:Exception"
        match formatIdeal (fmt.length + 1) fmt args with
        | .text ideal => show_ (some ideal)
        | .convError => show_ none
        | .outside => "bad-op"
    | _, _ => "bad-op"
  | ["F", w] =>
    if w.length > 18 then "bad-op" else
    match w.toNat? with
    | some n => if n < 1 then "bad-op" else if formatReturns n then "ok" else "ERR:Exception"
    | none => "bad-op"
  | _ => "bad-op"

def main : IO Unit := runDriver handle
