import DuneVerif.Common.Proto
import DuneVerif.Model.C11
/-! line-protocol driver for C11:  `<container> <params> : op;op;op`  (see harness/cxx_c11.cc for the op language).
    One observation per op, joined by `;`.  Ops outside their precondition are observed as `skip`. -/
open DV DV.C11

namespace C11Drv

def tf (b : Bool) : String := if b then "t" else "f"

/-- the harness' `isInt`: optional '-', then 1..8 digits, at most 9 characters -/
def int? (s : String) : Option Int :=
  let cs := s.toList
  let (neg, ds) := match cs with
    | '-' :: r => (true, r)
    | _ => (false, cs)
  if ds.isEmpty || cs.length > 9 || !(ds.all Char.isDigit) then none
  else
    let n := ds.foldl (fun acc c => acc * 10 + (c.toNat - '0'.toNat)) 0
    some (if neg then -(n : Int) else (n : Int))

def nat? (s : String) : Option Nat :=
  if s.toList.head? == some '-' then none else (int? s).map Int.toNat

def bits? (B : Nat) (s : String) : Option (List Bool) :=
  let cs := s.toList
  if cs.length == B && cs.all (fun c => c == '0' || c == '1') then some (cs.map (· == '1')) else none

def flag? (s : String) : Option Bool := if s == "0" then some false else if s == "1" then some true else none

/-- `[1,2,3]` with every entry passing `int?` -/
def list? (s : String) : Option (List Int) :=
  let cs := s.toList
  if cs.length < 2 || cs.head? != some '[' || cs.getLast? != some ']' then none
  else if cs.length == 2 then some []
  else ((String.ofList ((cs.drop 1).dropLast)).splitOn ",").mapM int?

def showO (o : Option Int) : String := match o with | some v => toString v | none => "?"
def bitsStr (b : List Bool) : String := String.ofList (b.map fun x => if x then '1' else '0')
def strList (l : List String) : String := "[" ++ ",".intercalate l ++ "]"

/-- split `head : ops` exactly as the harness does -/
def parseCase (line : String) : List String × List (List String) :=
  match line.splitOn " :" with
  | [] => ([], [])
  | h :: rest =>
    let r := " :".intercalate rest
    let ops := if (tokens r).isEmpty then [] else (r.splitOn ";").map tokens
    (tokens h, ops)

/-- run a history: `f state op = (state', observation)` -/
def runOps {σ : Type} (f : σ → List String → σ × String) (s : σ) (ops : List (List String)) : String :=
  let (_, obs) := ops.foldl (fun (acc : σ × List String) o => let r := f acc.1 o; (r.1, r.2 :: acc.2)) (s, [])
  ";".intercalate obs.reverse

/-! ### ArrayList (two lists `a`, `b`; an op token `b.xxx` addresses `b`, a bare `xxx` addresses `a`) -/
structure ALSide where
  s : AL.State Int
  held : List Nat

structure ALW where
  a : ALSide
  b : ALSide

def alSideObs (N : Nat) (w : ALSide) : String :=
  let heldS := w.held.map fun p => if p == AL.endPos w.s then "E" else showO (AL.elementAt N w.s p)
  s!"{w.s.size} {strList ((AL.view N w.s).map showO)} {strList heldS}"

def alObs (N : Nat) (w : ALW) (res : String) : String := s!"{alSideObs N w.a} | {alSideObs N w.b} {res}"

/-- split the optional side prefix off the op token -/
def sideOf (tok : String) : Bool × String :=
  match tok.toList with
  | 'b' :: '.' :: r => (false, String.ofList r)
  | _ => (true, tok)

def alStep (N : Nat) (w0 : ALW) (o : List String) : ALW × String :=
  let skip := (w0, "skip")
  match o with
  | [] => skip
  | tok :: args =>
  let (isA, opn) := sideOf tok
  let w := if isA then w0.a else w0.b
  let other := if isA then w0.b else w0.a
  let done (w' : ALSide) (res : String) : ALW × String :=
    let W : ALW := if isA then { w0 with a := w' } else { w0 with b := w' }
    (W, alObs N W res)
  let run (op : AL.Op Int) : AL.State Int := AL.step N 0 w.s op
  match opn :: args with
  | ["push", x] => match int? x with
    | some x => done { w with s := run (.push x) } "-"
    | none => skip
  | ["pushn", k, x] => match nat? k, int? x with     -- k appends in a row: x, x+1, …
    | some k, some x =>
      if 1 ≤ k && k ≤ 300 then
        done { w with s := (List.range k).foldl (fun s (i : Nat) => AL.step N 0 s (.push (x + Int.ofNat i))) w.s } "-"
      else skip
    | _, _ => skip
  | ["erase", k] => match nat? k with
    | some k =>
      if (AL.Op.erase k : AL.Op Int).ok w.s then
        let p := w.s.start + k
        let s' := run (.erase k)
        done ⟨s', w.held.filter (· > p)⟩ (if s'.size == 0 then "E" else showO (AL.elementAt N s' (AL.beginPos s')))
      else skip
    | none => skip
  | ["purge"] => done ⟨run .purge, []⟩ "-"
  | ["clear"] => done ⟨run .clear, []⟩ "-"
  | ["get", k] => match nat? k with
    | some k => if k < w.s.size then done w (showO (AL.get N w.s k)) else skip
    | none => skip
  | ["set", k, x] => match nat? k, int? x with
    | some k, some x => if (AL.Op.set k x).ok w.s then done { w with s := run (.set k x) } "-" else skip
    | _, _ => skip
  | ["hold", k] => match nat? k with
    | some k =>
      if k ≤ w.s.size then
        done { w with held := w.held ++ [w.s.start + k] } (if k < w.s.size then showO (AL.get N w.s k) else "E")
      else skip
    | none => skip
  | ["idx", k, j] => match nat? k, nat? j with
    | some k, some j => if k + j < w.s.size then done w (showO (AL.elementAt N w.s (j + (w.s.start + k)))) else skip
    | _, _ => skip
  | ["asg"] => done ⟨AL.assign w.s (some other.s), []⟩ "-"     -- target = other
  | ["cc"] => done ⟨AL.copy other.s, []⟩ "-"                   -- target constructed anew as a copy of other
  | ["sasg"] => done { w with s := AL.assign w.s none } "-"    -- target = target: iterators stay valid
  | _ => skip

/-! ### SLList -/
structure SLW where
  a : SL.World Int
  b : SL.World Int

def slSide (nm : String) (w : SL.World Int) : String :=
  let ms := match w.m with
    | none => "-"
    | some m => if m.cur == SL.Ptr.null then "E" else showO (SL.mDeref w.s m)
  s!"{nm}:{w.s.size},{tf (SL.isEmpty w.s)},{showList (SL.items w.s)},{ms}"

def slObs (w : SLW) (res : String) : String :=
  s!"{slSide "a" w.a} {slSide "b" w.b} {tf (SL.eq w.a.s w.b.s)}{tf (SL.ne w.a.s w.b.s)} {res}"

def slStep (w : SLW) (o : List String) : SLW × String :=
  let skip := (w, "skip")
  match o with
  | full :: args =>
    let cs := full.toList
    match cs with
    | t :: '.' :: opc =>
      if (t != 'a' && t != 'b') || opc.isEmpty then skip else
      let isA := t == 'a'
      let me := if isA then w.a else w.b
      let other := if isA then w.b else w.a
      let put (x : SL.World Int) : SLW := if isA then { w with a := x } else { w with b := x }
      let doOp (op : SL.Op Int) : SLW × String :=
        if op.ok me then let w' := put (SL.step me op); (w', slObs w' "-") else skip
      match String.ofList opc, args with
      | "pb", [x] => match int? x with | some x => doOp (.pushBack x) | none => skip
      | "pf", [x] => match int? x with | some x => doOp (.pushFront x) | none => skip
      | "pop", [] => doOp .popFront
      | "clear", [] => doOp .clear
      | "ia", [k, x] => match nat? k, int? x with | some k, some x => doOp (.insAfter k x) | _, _ => skip
      | "dn", [k] => match nat? k with | some k => doOp (.delNext k) | none => skip
      | "asg", [src] =>
        if src == "a" || src == "b" then
          if (src == "a") == isA then doOp .assignSelf else doOp (.assignFrom (SL.items other.s))
        else skip
      | "cc", [] =>
        let c := SL.copy me.s
        (w, slObs w (showList (SL.items c) ++ tf (SL.eq c me.s)))
      | "ccv", [] =>
        let c : SL.State Int := SL.copyConv (fun x => x) me.s     -- SLList<long> from SLList<int>
        (w, slObs w (showList (SL.items c) ++ toString c.size))
      | "mb", [] => doOp .mBegin
      | "me", [] => doOp .mEnd
      | "m+", [] => doOp .mInc
      | "mi", [x] => match int? x with | some x => doOp (.mIns x) | none => skip
      | "mr", [] => doOp .mRem
      | _, _ => skip
    | _ => skip
  | [] => skip

/-! ### ReservedVector -/
structure RVW where
  a : RV.State Int
  b : RV.State Int

def rvSide (nm : String) (s : RV.State Int) : String :=
  let fr := if s.size == 0 then "-" else showO (RV.front s)
  let bk := if s.size == 0 then "-" else showO (RV.back s)
  s!"{nm}:{s.size},{showList (RV.abs s)},{fr},{bk}"

def rvObs (w : RVW) (res : String) : String :=
  let a := w.a
  let b := w.b
  let cmp := tf (RV.lt a b) ++ tf (RV.le a b) ++ tf (RV.gt a b) ++ tf (RV.ge a b) ++ tf (RV.eq a b) ++ tf (RV.ne a b)
  s!"{rvSide "a" a} {rvSide "b" b} {cmp} {res}"

def rvStep (n : Nat) (w : RVW) (o : List String) : RVW × String :=
  let skip := (w, "skip")
  match o with
  | full :: args =>
    match full.toList with
    | t :: '.' :: opc =>
      if (t != 'a' && t != 'b') || opc.isEmpty then skip else
      let isA := t == 'a'
      let me := if isA then w.a else w.b
      let other := if isA then w.b else w.a
      let put (x : RV.State Int) : RVW := if isA then { w with a := x } else { w with b := x }
      let fin (x : RV.State Int) (res : String := "-") : RVW × String := let w' := put x; (w', rvObs w' res)
      let doOp (op : RV.Op Int) : RVW × String := if op.ok n me then fin (RV.step n me op) else skip
      match String.ofList opc, args with
      | "push", [x] => match int? x with | some x => doOp (.push x) | none => skip
      | "emp", [x] => match int? x with | some x => doOp (.push x) | none => skip
      | "pop", [] => doOp .pop
      | "clear", [] => doOp .clear
      | "resize", [k] => match nat? k with
        | some k =>
          -- protocol op = resize(k) followed by `v[i] = 0` for every uncovered slot (see harness)
          if (RV.Op.resize k : RV.Op Int).ok n me then
            fin ((List.range (k - me.size)).foldl (fun s i => RV.set s (me.size + i) 0) (RV.step n me (.resize k)))
          else skip
        | none => skip
      | "set", [i, x] => match nat? i, int? x with | some i, some x => doOp (.set i x) | _, _ => skip
      | "at", [i] => match nat? i with
        | some i => (w, rvObs w (match RV.at? me i with | some v => toString v | none => "ERR:Range"))
        | none => skip
      | "fill", [x] => match int? x with | some x => doOp (.fill x) | none => skip
      | "swap", [] =>
        let r := RV.swap me other
        let w' : RVW := if isA then ⟨r.1, r.2⟩ else ⟨r.2, r.1⟩
        (w', rvObs w' "-")
      | "asg", [] => doOp (.assignFrom other)
      | "ctor", [] => fin (RV.empty n 0)
      | "ctorc", [k] => match nat? k with
        | some k => if k ≤ n then fin ((List.range k).foldl (fun s i => RV.set s i 0) (RV.ofCount n 0 k)) else skip
        | none => skip
      | "ctorv", [k, x] => match nat? k, int? x with
        | some k, some x => if k ≤ n then fin (RV.ofCountValue n 0 k x) else skip
        | _, _ => skip
      | "init", [l] => match list? l with
        | some l => if l.length ≤ n then fin (RV.ofList n 0 l) else skip
        | none => skip
      -- the iterator-pair constructor driven with an iterator of the named category (random access, pointer,
      -- bidirectional, forward, two single-pass input iterators): the abstract result does not depend on it
      | "initr", [k, l] => match list? l with
        | some l => if l.length ≤ n && ["ra", "ptr", "bidi", "fwd", "in", "is"].contains k then fin (RV.ofList n 0 l) else skip
        | none => skip
      | _, _ => skip
    | _ => skip
  | [] => skip

/-! ### BitSetVector -/
def bvObs (B : Nat) (v : BV.Bits) (res : String) : String :=
  let blocks := (List.range (BV.size B v)).map fun i => bitsStr (BV.getRepr B v i)
  let masked := (List.range B).map fun j => BV.countmasked B v j
  s!"{BV.size B v} {BV.count v} {strList blocks} {showList masked} {res}"

def bvStep (B : Nat) (v : BV.Bits) (o : List String) : BV.Bits × String :=
  let skip := (v, "skip")
  let fin (v' : BV.Bits) (res : String := "-") : BV.Bits × String := (v', bvObs B v' res)
  let doOp (op : BV.Op) : BV.Bits × String := if op.ok B v then fin (BV.step B v op) else skip
  let blk (s : String) : Option Nat := (nat? s).bind fun i => if i < BV.size B v then some i else none
  let bit (s : String) : Option Nat := (nat? s).bind fun j => if j < B then some j else none
  let cnt (s : String) (mx : Nat) : Option Nat := (nat? s).bind fun j => if j ≤ mx then some j else none
  match o with
  | ["new", n] => match cnt n 64 with | some n => fin (BV.mk B n) | none => skip
  | ["newv", n, b] => match cnt n 64, flag? b with | some n, some b => fin (BV.mk B n b) | _, _ => skip
  | ["resize", n, b] => match cnt n 64, flag? b with | some n, some b => doOp (.resize n b) | _, _ => skip
  | ["fromv", x] => match x.toList with
    | 'b' :: cs =>
      if cs.length ≤ 700 && cs.all (fun c => c == '0' || c == '1') then
        match BV.ofVector B (cs.map (· == '1')) with
        | some v' => fin v'
        | none => fin v "ERR:Range"
      else skip
    | _ => skip
  | ["clear"] => doOp .clear
  | ["setall"] => doOp (.assignAll true)
  | ["unsetall"] => doOp (.assignAll false)
  | ["set", i] => match blk i with | some i => doOp (.setBlock i) | none => skip
  | ["reset", i] => match blk i with | some i => doOp (.resetBlock i) | none => skip
  | ["flip", i] => match blk i with | some i => doOp (.flipBlock i) | none => skip
  | ["set1", i, j, b] => match blk i, bit j, flag? b with | some i, some j, some b => doOp (.setOne i j b) | _, _, _ => skip
  | ["reset1", i, j] => match blk i, bit j with | some i, some j => doOp (.setOne i j false) | _, _ => skip
  | ["flip1", i, j] => match blk i, bit j with | some i, some j => doOp (.flipOne i j) | _, _ => skip
  | ["asgb", i, b] => match blk i, flag? b with | some i, some b => doOp (.assignBool i b) | _, _ => skip
  | ["asgs", i, x] => match blk i, bits? B x with | some i, some x => doOp (.assignBits i x) | _, _ => skip
  | ["asgr", i, k] => match blk i, blk k with | some i, some k => doOp (.assignRef i k) | _, _ => skip
  | ["and", i, x] => match blk i, bits? B x with | some i, some x => doOp (.andBits i x) | _, _ => skip
  | ["or", i, x] => match blk i, bits? B x with | some i, some x => doOp (.orBits i x) | _, _ => skip
  | ["xor", i, x] => match blk i, bits? B x with | some i, some x => doOp (.xorBits i x) | _, _ => skip
  | ["andr", i, k] => match blk i, blk k with | some i, some k => doOp (.andBits i (BV.getRepr B v k)) | _, _ => skip
  | ["orr", i, k] => match blk i, blk k with | some i, some k => doOp (.orBits i (BV.getRepr B v k)) | _, _ => skip
  | ["xorr", i, k] => match blk i, blk k with | some i, some k => doOp (.xorBits i (BV.getRepr B v k)) | _, _ => skip
  | ["shl", i, n] => match blk i, cnt n 400 with | some i, some n => doOp (.shl i n) | _, _ => skip
  | ["shr", i, n] => match blk i, cnt n 400 with | some i, some n => doOp (.shr i n) | _, _ => skip
  | ["q", i] => match blk i with
    | some i => fin v s!"{BV.countBlock B v i}{tf (BV.anyBlock B v i)}{tf (BV.noneBlock B v i)}{tf (BV.allBlock B v i)}"
    | none => skip
  | ["not", i] => match blk i with | some i => fin v (bitsStr (BV.bNot (BV.getRepr B v i))) | none => skip
  | ["shlq", i, n] => match blk i, cnt n 400 with | some i, some n => fin v (bitsStr (BV.bShl (BV.getRepr B v i) n)) | _, _ => skip
  | ["shrq", i, n] => match blk i, cnt n 400 with | some i, some n => fin v (bitsStr (BV.bShr (BV.getRepr B v i) n)) | _, _ => skip
  | ["eqs", i, x] => match blk i, bits? B x with
    | some i, some x => let e := BV.equalsBits B v i x; fin v (tf e ++ tf (!e))
    | _, _ => skip
  | ["eqr", i, k] => match blk i, blk k with
    | some i, some k => let e := BV.equalsBits B v i (BV.getRepr B v k); fin v (tf e ++ tf (!e))
    | _, _ => skip
  | ["test", i, j] => match blk i, bit j with | some i, some j => fin v (tf (BV.getBit B v i j)) | _, _ => skip
  | _ => skip

/-! ### lru -/
abbrev LS := LRU.State Int Int

def kv (e : Int × Int) : String := s!"{e.1}:{e.2}"

def key? (s : String) : Option Int := (nat? s).bind fun k => if k < 1000 then some (k : Int) else none

structure LRUW where
  a : LS
  b : LS

def lruSideObs (s : LS) : String :=
  let fr := if LRU.size s == 0 then "-" else showO (LRU.front s)
  let bk := if LRU.size s == 0 then "-" else showO (LRU.back s)
  let finds := (List.range 8).map fun (k : Nat) => match LRU.find s (Int.ofNat k) with | some e => toString e.2 | none => "-"
  s!"{LRU.size s} {fr} {bk} {strList ((LRU.abs s).map kv)} {strList finds}"

def lruObs2 (w : LRUW) (res : String) : String := s!"{lruSideObs w.a} | {lruSideObs w.b} {res}"

def lruStep (w0 : LRUW) (o : List String) : LRUW × String :=
  let skip := (w0, "skip")
  match o with
  | [] => skip
  | tok :: args =>
  let (isA, opn) := sideOf tok
  let s := if isA then w0.a else w0.b
  let other := if isA then w0.b else w0.a
  let fin (s' : LS) (res : String := "-") : LRUW × String :=
    let W : LRUW := if isA then { w0 with a := s' } else { w0 with b := s' }
    (W, lruObs2 W res)
  let doOp (op : LRU.Op Int Int) (res : LS → String := fun _ => "-") : LRUW × String :=
    if op.ok s then let s' := LRU.step s op; fin s' (res s') else skip
  let touchOp (k : Int) : LRUW × String :=
    match LRU.touch s k with
    | some r => fin (LRU.step s (.touch k)) (showO r.2)
    | none => fin (LRU.step s (.touch k)) "ERR:Range"
  match opn :: args with
  | ["ins", k, v] => match key? k, int? v with
    | some k, some v => doOp (.insert k v) (fun s' => showO (LRU.front s'))
    | _, _ => skip
  | ["touch", k] => match key? k with | some k => touchOp k | none => skip
  | ["ins1", k] => match key? k with | some k => touchOp k | none => skip
  | ["find", k] => match key? k with
    | some k => fin s (match LRU.find s k with | some e => kv e | none => "E")
    | none => skip
  | ["popf"] => doOp .popFront
  | ["popb"] => doOp .popBack
  | ["resize", n] => match nat? n with | some n => doOp (.resize n) | none => skip
  | ["clear"] => doOp .clear
  | ["asg"] => fin (LRU.assign s (some other))     -- target = other
  | ["cc"] => fin (LRU.copy other)                 -- target constructed anew as a copy of other
  | ["sasg"] => fin (LRU.assign s none)            -- target = target
  | _ => skip

/-- the build configuration token: a header may end in `rel` (release build of the headers, see the harness).  The
    behaviour the property talks about does not depend on the configuration, so the token is validated and dropped. -/
def dropCfg (head : List String) : List String :=
  if head.length ≥ 2 && head.getLast? == some "rel" then head.dropLast else head

def handle (line : String) : String :=
  let (head0, ops) := parseCase line
  let head := dropCfg head0
  match head with
  | ["al", p] => match int? p with
    | some p =>
      if [0, 1, 2, 3, 4, 7, 8, 16, 100].contains p then
        runOps (alStep (AL.chunkSize p)) ⟨⟨AL.empty, []⟩, ⟨AL.empty, []⟩⟩ ops
      else "bad-op"
    | none => "bad-op"
  | ["sl"] => runOps slStep ⟨⟨SL.empty, none⟩, ⟨SL.empty, none⟩⟩ ops
  | ["rv", p] => match nat? p with
    | some n => if [1, 2, 4, 7, 16, 65].contains n then runOps (rvStep n) ⟨RV.empty n 0, RV.empty n 0⟩ ops else "bad-op"
    | none => "bad-op"
  | ["bv", p] => match nat? p with
    | some B => if [1, 3, 8, 32, 33, 63, 64, 65, 100, 128, 129].contains B then runOps (bvStep B) [] ops else "bad-op"
    | none => "bad-op"
  | ["lru"] => runOps lruStep ⟨LRU.empty, LRU.empty⟩ ops
  | _ => "bad-op"

end C11Drv

def main : IO Unit := DV.runDriver C11Drv.handle
