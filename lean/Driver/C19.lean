import DuneVerif.Model.C19
/-!
line-protocol driver for C19

  guard <def|helper|mpicomm|cc|seq> <[colour per rank]> : <section>;<section>;…
      section = 2 letters per rank (arm ∈ n m a, act ∈ t d f r x q); answer = per rank one letter per section;
      the end must be matched in every communicator (`endsMatchedB`), otherwise bad-op
  fut <mpi|seq> <op> <void|int|vec|ref|bool> <raw|erased|assigned|voidcast|movedfrom|null> red=<sum|min|max> root=<r>
      vals=<v0/v1/…> : <step>;<step>;…
      step = 1 letter per rank (v y w g c s -); answer = per rank the comma separated observations
      (`*` for ready/polling on an invalid future: not part of the property, not compared)
      wrap: raw = the future itself (move constructed), assigned = move-assigned into a default-constructed future,
      erased = Dune::Future<R> holding it, voidcast = Dune::Future<void> holding it (payload discarded),
      movedfrom = the Dune::Future<R> it was moved out of again (null), null = default-constructed Dune::Future<R>
-/
open DV DV.C19

def sentinel : Int := -777

/-! ### guard -/

def parseArm : Char → Option Arm
  | 'n' => some .fresh
  | 'm' => some .freshInactive
  | 'a' => some .rearm
  | _ => none

def parseAct : Char → Option Act
  | 't' => some .finTrue
  | 'd' => some .finDefault
  | 'f' => some .finFalse
  | 'r' => some .react
  | 'x' => some .throwUser
  | 'q' => some .leave
  | _ => none

def parseSection (p : Nat) (s : String) : Option (List (Arm × Act)) :=
  let cs := s.toList
  if cs.length ≠ 2 * p then none else
  (List.range p).mapM fun i =>
    match parseArm (cs.getD (2 * i) ' '), parseAct (cs.getD (2 * i + 1) ' ') with
    | some a, some b => some (a, b)
    | _, _ => none

def showObs : Obs → String
  | .none => "-"
  | .guardError => "E"
  | .userExc => "X"
  | .terminated => "!"

def dedup (l : List Nat) : List Nat := l.foldl (fun acc x => if acc.contains x then acc else acc ++ [x]) []

def handleGuard (ctor : String) (groups : String) (body : String) : String :=
  match parseNatList? groups with
  | none => "bad-op"
  | some cols =>
    let p := cols.length
    if p = 0 then "bad-op" else
    if !(["def", "helper", "mpicomm", "cc", "seq"].contains ctor) then "bad-op" else
    let secStrs := (body.splitOn ";").map fun s => String.ofList (s.toList.filter (· ≠ ' '))
    match secStrs.mapM (parseSection p) with
    | none => "bad-op"
    | some secs =>
      let n := secs.length
      if n = 0 then "bad-op" else
        let colour (i : Nat) : Nat :=
          if ctor == "seq" then i else if ctor == "def" || ctor == "helper" then 0 else cols.getD i 0
        let script (i k : Nat) : Arm × Act := (secs.getD k []).getD i (.fresh, .finTrue)
        let ranks := List.range p
        let colours := dedup (ranks.map colour)
        if !(colours.all fun c => endsMatchedB (ranks.filter fun i => colour i == c) script n) then "bad-op" else
        -- per group: run the ranks' programs in lock step
        let results : List (Nat × String) := colours.flatMap fun c =>
          let members := ranks.filter fun i => colour i == c
          match runJoint (2 * n + 4) (members.map fun i => rankProg (script i) n) with
          | .done outs => members.zip (outs.map fun os => String.join (os.map showObs))
          | .deadlock => members.map fun i => (i, "DEADLOCK")
          | .outOfFuel => members.map fun i => (i, "FUEL")
        " ".intercalate (ranks.map fun i =>
          "r" ++ toString i ++ "{" ++ ((results.find? (·.1 == i)).map (·.2)).getD "?" ++ "}")

/-! ### futures -/

def parseFOp : Char → Option (Option FOp)
  | 'v' => some (some .valid)
  | 'y' => some (some .ready)
  | 'w' => some (some .wait)
  | 'g' => some (some .get)
  | 'c' => some (some .complete)
  | 's' => some (some .spin)
  | '-' => some none
  | _ => none

def parseVals (s : String) : Option (List (List Int)) :=
  (s.splitOn "/").mapM fun part =>
    if part == "_" then some [] else (part.splitOn ",").mapM fun t => t.toInt?

def parseRed : String → Option Red
  | "red=sum" => some .sum
  | "red=min" => some .min
  | "red=max" => some .max
  | _ => none

def stripPrefix? (pre s : String) : Option String :=
  if s.startsWith pre then some (String.ofList (s.toList.drop pre.length)) else none

def showFObs (dontcare : Bool) : FObs → String
  | .bool true => "T"
  | .bool false => "F"
  | .ok => "ok"
  | .data d => if dontcare then "_" else showList d
  | .errInvalid => "ERR:InvalidFuture"
  | .env => "c"

/-- the future a rank holds -/
inductive AnyFut where
  | mpiT (f : MpiFut)
  | mpiVoid (f : MpiVoid)
  | pseudoT (f : PseudoFut)
  | pseudoVoid (f : PseudoVoid)
  | idle

def AnyFut.step : AnyFut → FOp → FObs × AnyFut
  | .mpiT f, o => let r := f.step o; (r.1, .mpiT r.2)
  | .mpiVoid f, o => let r := f.step o; (r.1, .mpiVoid r.2)
  | .pseudoT f, o => let r := f.step o; (r.1, .pseudoT r.2)
  | .pseudoVoid f, o => let r := f.step o; (r.1, .pseudoVoid r.2)
  | .idle, _ => (.env, .idle)

/-- the object the calls are made on: the future itself (raw, assigned: the move constructor / move assignment hand
over buffer and request unchanged), a `Dune::Future` holding it (`some`), a `Dune::Future<void>` holding it, or a null
`Dune::Future` -/
def wrapStep (wrap : String) : Option AnyFut → FOp → FObs × Option AnyFut :=
  match wrap with
  | "voidcast" => erasedStep (voidCastStep AnyFut.step)
  | _ => erasedStep AnyFut.step

def wrapStart (wrap : String) (f : AnyFut) : Option AnyFut :=
  match wrap with
  | "null" => none
  | "movedfrom" => none
  | _ => some f

def allowedType (comm op ty : String) : Bool :=
  match comm, op with
  | _, "none" => ty == "void" || ty == "int"
  | _, "ibarrier" => ty == "void"
  | _, "ibroadcast" => ty == "int" || ty == "vec" || ty == "ref" || ty == "bool"
  | "mpi", "igather" => ty == "int" || ty == "ref"
  | "mpi", "iscatter" => ty == "int" || ty == "ref"
  | "mpi", "iallgather" => ty == "int" || ty == "ref"
  | "seq", "igather" => ty == "int"
  | "seq", "iscatter" => ty == "int"
  | "seq", "iallgather" => ty == "int"
  | "mpi", "iallreduce" => ty == "int" || ty == "vec" || ty == "ref" || ty == "bool"
  | "seq", "iallreduce" => ty == "int" || ty == "vec" || ty == "bool"
  | _, "iallreduce1" => ty == "int" || ty == "vec" || ty == "ref" || ty == "bool"
  | "mpi", "p2p" => ty == "int" || ty == "vec" || ty == "bool"
  | _, _ => false

/-- which wrappers exist for which future type: a future can be move-assigned only where the class has a usable
default constructor (no second buffer, no reference payload); a default-constructed Dune::Future belongs to no
operation -/
def allowedWrap (comm op ty wrap : String) : Bool :=
  match wrap with
  | "raw" => true
  | "erased" => true
  | "voidcast" => true
  | "movedfrom" => true
  | "null" => op == "none"
  | "assigned" =>
    ty != "ref" &&
      (comm == "seq" || op == "none" || op == "ibarrier" || op == "ibroadcast" || op == "iallreduce1" || op == "p2p")
  | _ => false

def allowed (comm op ty wrap : String) : Bool := allowedType comm op ty && allowedWrap comm op ty wrap

/-- (future, payload is don't-care) of rank `i` -/
def startFut (comm op ty : String) (red : Red) (root : Nat) (vals : List (List Int)) (i : Nat) : AnyFut × Bool :=
  let p := vals.length
  let mine := vals.getD i []
  let sent (n : Nat) : List Int := List.replicate n sentinel
  if comm == "seq" then
    match op with
    | "none" => (if ty == "void" then .pseudoVoid PseudoVoid.invalid else .pseudoT PseudoFut.invalid, false)
    | "ibarrier" => (.pseudoVoid PseudoVoid.start, false)
    | "ibroadcast" => (.pseudoT (PseudoFut.start mine), false)
    | "igather" => (.pseudoT (PseudoFut.start [mine.headD 0]), false)
    | "iscatter" => (.pseudoT (PseudoFut.start [mine.headD 0]), false)
    | "iallgather" => (.pseudoT (PseudoFut.start [mine.headD 0]), true)
    | _ => (.pseudoT (PseudoFut.start mine), false)   -- iallreduce, iallreduce1 on one process
  else
    match op with
    | "none" => (if ty == "void" then .mpiVoid MpiVoid.invalid else .mpiT MpiFut.invalid, false)
    | "ibarrier" => (.mpiVoid MpiVoid.start, false)
    | "ibroadcast" => (.mpiT (MpiFut.start mine (vals.getD root [])), false)
    | "igather" =>
      if i == root then (.mpiT (MpiFut.start (sent p) (firsts vals)), false)
      else (.mpiT (MpiFut.start [] []), true)
    | "iscatter" => (.mpiT (MpiFut.start (sent 1) [mine.headD 0]), false)
    | "iallgather" => (.mpiT (MpiFut.start (sent p) (firsts vals)), false)
    | "iallreduce" => (.mpiT (MpiFut.start (sent mine.length) (reduceAll red vals)), false)
    | "iallreduce1" => (.mpiT (MpiFut.start mine (reduceAll red vals)), false)
    | _ =>  -- p2p: root sends to root+1
      let src := vals.getD root []
      if p < 2 then (.idle, false)
      else if i == root then (.mpiT (MpiFut.start src src), false)
      else if i == (root + 1) % p then (.mpiT (MpiFut.start (sent src.length) src), false)
      else (.idle, false)

def runRank (wrap : String) (f : Option AnyFut) (dontcare : Bool) (ops : List (Option FOp)) : List String :=
  match ops with
  | [] => []
  | none :: os => "-" :: runRank wrap f dontcare os
  | some o :: os =>
    let r := wrapStep wrap f o
    -- ready()/polling on an invalid future is outside the property: not compared (`*`)
    let invalid := (wrapStep wrap f .valid).1 == FObs.bool false
    let shown := if invalid && (o == FOp.ready || o == FOp.spin) then "*" else showFObs dontcare r.1
    shown :: runRank wrap r.2 dontcare os

def handleFut (hdr : List String) (body : String) : String :=
  match hdr with
  | [comm, op, ty, wrap, reds, roots, valss] =>
    match parseRed reds, (stripPrefix? "root=" roots).bind (·.toNat?), (stripPrefix? "vals=" valss).bind parseVals with
    | some red, some root, some vals =>
      let p := vals.length
      if !(comm == "mpi" || comm == "seq") then "bad-op" else
      if !allowed comm op ty wrap || root ≥ p then "bad-op" else
      -- payload shape: void → empty, int/ref → one value, bool → one value 0/1 (reduced with min/max only),
      -- vec → equal lengths (p2p: at least one)
      let l0 := (vals.headD []).length
      let shapeOk :=
        if ty == "void" then vals.all (·.isEmpty)
        else if ty == "vec" then vals.all (·.length == l0) && (op != "p2p" || l0 ≥ 1)
        else if ty == "bool" then vals.all (fun v => v.length == 1 && v.all (fun x => x == 0 || x == 1)) && red != Red.sum
        else vals.all (·.length == 1)
      if !shapeOk then "bad-op" else
      let stepStrs := (body.splitOn ";").map fun s => s.toList.filter (· ≠ ' ')
      if stepStrs.any (·.length ≠ p) then "bad-op" else
      match stepStrs.mapM (fun cs => cs.mapM parseFOp) with
      | none => "bad-op"
      | some steps =>
        " ".intercalate ((List.range p).map fun i =>
          let (f, dc) := startFut comm op ty red root vals i
          let mineOps := steps.map fun st => (st.getD i none)
          let body := match f with
            | .idle => "idle"
            | _ => ",".intercalate (runRank wrap (wrapStart wrap f) dc mineOps)
          "r" ++ toString i ++ "{" ++ body ++ "}")
    | _, _, _ => "bad-op"
  | _ => "bad-op"

def handle (line : String) : String :=
  match line.splitOn " : " with
  | [hdr, body] =>
    match tokens hdr with
    | ["guard", ctor, groups] => handleGuard ctor groups body
    | "fut" :: rest => handleFut rest body
    | _ => "bad-op"
  | _ => "bad-op"

def main : IO Unit := runDriver handle
