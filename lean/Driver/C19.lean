import DuneVerif.Model.C19
/-!
line-protocol driver for C19

  guard <def|helper|mpicomm|cc|seq> <[colour per rank]> : <section>;<section>;…
      section = 2 letters per rank (arm ∈ n m a, act ∈ t d f r x q); answer = per rank one letter per section;
      the end must be matched in every communicator (`endsMatchedB`), otherwise bad-op
  fut <mpi|seq> <op> <void|int|vec|ref|bool> <raw|erased|assigned|voidcast|movedfrom|null|reused|reusedw|reusedd|erasedreused>
      red=<sum|min|max> root=<r> vals=<v0/v1/…> : <step>;<step>;…
      step = 1 letter per rank (v y w g c s - and d = get_send_data()); answer = per rank the comma separated observations
      (`*` for ready/polling on an invalid future: not part of the property, not compared)
      wrap: raw = the future itself (move constructed), assigned = move-assigned into a default-constructed future,
      reused / reusedw / reusedd = move-assigned into a variable that served a previous operation (result taken / only
      waited for / send object and result taken), erasedreused = the same for a Dune::Future<R> variable,
      erased = Dune::Future<R> holding it, voidcast = Dune::Future<void> holding it (payload discarded),
      movedfrom = the Dune::Future<R> it was moved out of again (null), null = default-constructed Dune::Future<R>
-/
open DV DV.C19

def sentinel : Int := -777

/-! ### guard -/

def parseArm : Char → Option Arm
  | 'n' => some .fresh
  | 'm' => some .freshInactive
  | 'a' => some .rearm
  | _ => none

def parseAct : Char → Option Act
  | 't' => some .finTrue
  | 'd' => some .finDefault
  | 'f' => some .finFalse
  | 'r' => some .react
  | 'x' => some .throwUser
  | 'q' => some .leave
  | _ => none

def parseSection (p : Nat) (s : String) : Option (List (Arm × Act)) :=
  let cs := s.toList
  if cs.length ≠ 2 * p then none else
  (List.range p).mapM fun i =>
    match parseArm (cs.getD (2 * i) ' '), parseAct (cs.getD (2 * i + 1) ' ') with
    | some a, some b => some (a, b)
    | _, _ => none

def showObs : Obs → String
  | .none => "-"
  | .guardError => "E"
  | .userExc => "X"
  | .terminated => "!"

def dedup (l : List Nat) : List Nat := l.foldl (fun acc x => if acc.contains x then acc else acc ++ [x]) []

def handleGuard (ctor : String) (groups : String) (body : String) : String :=
  match parseNatList? groups with
  | none => "bad-op"
  | some cols =>
    let p := cols.length
    if p = 0 then "bad-op" else
    if !(["def", "helper", "mpicomm", "cc", "seq"].contains ctor) then "bad-op" else
    let secStrs := (body.splitOn ";").map fun s => String.ofList (s.toList.filter (· ≠ ' '))
    match secStrs.mapM (parseSection p) with
    | none => "bad-op"
    | some secs =>
      let n := secs.length
      if n = 0 then "bad-op" else
        let colour (i : Nat) : Nat :=
          if ctor == "seq" then i else if ctor == "def" || ctor == "helper" then 0 else cols.getD i 0
        let script (i k : Nat) : Arm × Act := (secs.getD k []).getD i (.fresh, .finTrue)
        let ranks := List.range p
        let colours := dedup (ranks.map colour)
        if !(colours.all fun c => endsMatchedB (ranks.filter fun i => colour i == c) script n) then "bad-op" else
        -- per group: run the ranks' programs in lock step
        let results : List (Nat × String) := colours.flatMap fun c =>
          let members := ranks.filter fun i => colour i == c
          match runJoint (2 * n + 4) (members.map fun i => rankProg (script i) n) with
          | .done outs => members.zip (outs.map fun os => String.join (os.map showObs))
          | .deadlock => members.map fun i => (i, "DEADLOCK")
          | .outOfFuel => members.map fun i => (i, "FUEL")
        " ".intercalate (ranks.map fun i =>
          "r" ++ toString i ++ "{" ++ ((results.find? (·.1 == i)).map (·.2)).getD "?" ++ "}")

/-! ### futures -/

def parseFOp : Char → Option (Option FOp2)
  | 'v' => some (some (.call .valid))
  | 'y' => some (some (.call .ready))
  | 'w' => some (some (.call .wait))
  | 'g' => some (some (.call .get))
  | 'c' => some (some (.call .complete))
  | 's' => some (some (.call .spin))
  | 'd' => some (some .sendData)
  | '-' => some none
  | _ => none

def parseVals (s : String) : Option (List (List Int)) :=
  (s.splitOn "/").mapM fun part =>
    if part == "_" then some [] else (part.splitOn ",").mapM fun t => t.toInt?

def parseRed : String → Option Red
  | "red=sum" => some .sum
  | "red=min" => some .min
  | "red=max" => some .max
  | _ => none

def stripPrefix? (pre s : String) : Option String :=
  if s.startsWith pre then some (String.ofList (s.toList.drop pre.length)) else none

def showFObs (dontcare : Bool) : FObs → String
  | .bool true => "T"
  | .bool false => "F"
  | .ok => "ok"
  | .data d => if dontcare then "_" else showList d
  | .errInvalid => "ERR:InvalidFuture"
  | .env => "c"

/-- the future a rank holds -/
inductive AnyFut where
  | mpiT (f : MpiFut)
  | mpi2 (f : MpiFut2)
  | mpiVoid (f : MpiVoid)
  | pseudoT (f : PseudoFut)
  | pseudoVoid (f : PseudoVoid)
  | idle

def AnyFut.step : AnyFut → FOp → FObs × AnyFut
  | .mpiT f, o => let r := f.step o; (r.1, .mpiT r.2)
  | .mpi2 f, o => let r := f.base.step o; (r.1, .mpi2 { f with base := r.2 })
  | .mpiVoid f, o => let r := f.step o; (r.1, .mpiVoid r.2)
  | .pseudoT f, o => let r := f.step o; (r.1, .pseudoT r.2)
  | .pseudoVoid f, o => let r := f.step o; (r.1, .pseudoVoid r.2)
  | .idle, _ => (.env, .idle)

/-- `get_send_data()`: exists on the two-buffer future only; the inner `none` = undefined behaviour -/
def AnyFut.sendData : AnyFut → Option (Option (FObs × AnyFut))
  | .mpi2 f => some ((MpiFut2.sendData f).map fun r => (r.1, .mpi2 r.2))
  | _ => none

/-- `tgt = std::move(src)` on two objects of the same class (`none`: different classes, not a case) -/
def AnyFut.moveAssign : AnyFut → AnyFut → Option AnyFut
  | .mpiT t, .mpiT s => some (.mpiT (MpiFut.moveAssign t s).1)
  | .mpi2 t, .mpi2 s => some (.mpi2 (MpiFut2.moveAssign t s).1)
  | .mpiVoid t, .mpiVoid s => some (.mpiVoid (MpiVoid.moveAssign t s).1)
  | .pseudoT t, .pseudoT s => some (.pseudoT (PseudoFut.moveAssign t s))
  | .pseudoVoid t, .pseudoVoid s => some (.pseudoVoid (PseudoVoid.moveAssign t s))
  | .idle, .idle => some .idle
  | _, _ => none

/-- `F local(std::move(fut))` -/
def AnyFut.moveConstruct : AnyFut → AnyFut
  | .mpiT s => .mpiT (MpiFut.moveConstruct s)
  | .mpi2 s => .mpi2 (MpiFut2.moveConstruct s)
  | .mpiVoid s => .mpiVoid (MpiVoid.moveConstruct s)
  | f => f   -- PseudoFuture: implicit member-wise move constructor

/-- the default-constructed object of the same class (target of `assigned`) -/
def AnyFut.defaultOf : AnyFut → Option AnyFut
  | .mpiT _ => some (.mpiT MpiFut.invalid)
  | .mpiVoid _ => some (.mpiVoid MpiVoid.invalid)
  | .pseudoT _ => some (.pseudoT PseudoFut.invalid)
  | .pseudoVoid _ => some (.pseudoVoid PseudoVoid.invalid)
  | .idle => some .idle
  | .mpi2 _ => none   -- MPIFuture<R,S> has no usable default constructor

/-- the object the calls are made on: the future itself or a `Dune::Future` holding it (`some`), a
`Dune::Future<void>` holding it, or a null `Dune::Future` -/
def wrapStep (wrap : String) : Option AnyFut → FOp → FObs × Option AnyFut :=
  match wrap with
  | "voidcast" => erasedStep (voidCastStep AnyFut.step)
  | _ => erasedStep AnyFut.step

/-- how the previous operation on a re-used variable was consumed -/
def servePrevious (mode : Char) (f : AnyFut) : Option AnyFut :=
  match mode with
  | 'w' => some (f.step .wait).2
  | 'g' => some (f.step .get).2
  | 'd' =>
    match f.sendData with
    | some (some r) => some (r.2.step .get).2
    | _ => none
  | _ => none

/-- the state of the object the calls are made on, given the future `f` returned by the operation of the case and the
future `prev` returned by the previous operation of a re-used variable.  raw: move constructed; assigned: move
assigned into a default-constructed object; reused/reusedw/reusedd: move assigned into the variable that served
`prev`; erased/voidcast: a `Dune::Future` holding it; erasedreused: a `Dune::Future` variable that served `prev` is
assigned a `Dune::Future` holding it; movedfrom/null: a null `Dune::Future`. -/
def wrapStart (wrap : String) (f prev : AnyFut) : Option (Option AnyFut) :=
  match wrap with
  | "null" => some none
  | "movedfrom" => some none
  | "raw" => some (some f.moveConstruct)
  | "erased" => some (some f.moveConstruct)
  | "voidcast" => some (some f.moveConstruct)
  | "erasedreused" =>
    let used : Option AnyFut := (erasedStep AnyFut.step (some prev.moveConstruct) .get).2
    some (erasedAssign used (some f.moveConstruct)).1
  | "assigned" => (f.defaultOf.bind fun t => t.moveAssign f).map some
  | "reused" => ((servePrevious 'g' prev.moveConstruct).bind fun t => t.moveAssign f).map some
  | "reusedw" => ((servePrevious 'w' prev.moveConstruct).bind fun t => t.moveAssign f).map some
  | "reusedd" => ((servePrevious 'd' prev.moveConstruct).bind fun t => t.moveAssign f).map some
  | _ => none

def allowedType (comm op ty : String) : Bool :=
  match comm, op with
  | _, "none" => ty == "void" || ty == "int"
  | _, "ibarrier" => ty == "void"
  | _, "ibroadcast" => ty == "int" || ty == "vec" || ty == "ref" || ty == "bool"
  | "mpi", "igather" => ty == "int" || ty == "ref"
  | "mpi", "iscatter" => ty == "int" || ty == "ref"
  | "mpi", "iallgather" => ty == "int" || ty == "ref"
  | "seq", "igather" => ty == "int"
  | "seq", "iscatter" => ty == "int"
  | "seq", "iallgather" => ty == "int"
  | "mpi", "iallreduce" => ty == "int" || ty == "vec" || ty == "ref" || ty == "bool"
  | "seq", "iallreduce" => ty == "int" || ty == "vec" || ty == "bool"
  | _, "iallreduce1" => ty == "int" || ty == "vec" || ty == "ref" || ty == "bool"
  | "mpi", "p2p" => ty == "int" || ty == "vec" || ty == "bool" || ty == "ref"
  | _, _ => false

/-- two-buffer operations of `Communication<MPI_Comm>`: the future is an `MPIFuture<R,S>` owning a send object -/
def hasSendObject (comm op : String) : Bool :=
  comm == "mpi" && (op == "igather" || op == "iscatter" || op == "iallgather" || op == "iallreduce")

/-- which wrappers exist for which future type: a future can be move-assigned into a default-constructed object only
where the class has a usable default constructor (no second buffer, no reference payload); a used variable can be
assigned to in every class but `PseudoFuture<T&>` (reference member); a default-constructed Dune::Future belongs to no
operation -/
def allowedWrap (comm op ty wrap : String) : Bool :=
  match wrap with
  | "raw" => true
  | "erased" => true
  | "voidcast" => true
  | "movedfrom" => true
  | "null" => op == "none"
  | "assigned" =>
    ty != "ref" &&
      (comm == "seq" || op == "none" || op == "ibarrier" || op == "ibroadcast" || op == "iallreduce1" || op == "p2p")
  | "reused" => op != "none" && !(comm == "seq" && ty == "ref")
  | "reusedw" => op != "none" && !(comm == "seq" && ty == "ref")
  | "reusedd" => hasSendObject comm op
  | "erasedreused" => op != "none"
  | _ => false

/-- `get_send_data()` can be called where the calls are made on the `MPIFuture<R,S>` itself -/
def allowsSendData (comm op wrap : String) : Bool :=
  hasSendObject comm op && (wrap == "raw" || wrap == "reused" || wrap == "reusedw" || wrap == "reusedd")

def allowed (comm op ty wrap : String) : Bool := allowedType comm op ty && allowedWrap comm op ty wrap

/-- (future, payload is don't-care) of rank `i` -/
def startFut (comm op ty : String) (red : Red) (root : Nat) (vals : List (List Int)) (i : Nat) : AnyFut × Bool :=
  let p := vals.length
  let mine := vals.getD i []
  let sent (n : Nat) : List Int := List.replicate n sentinel
  if comm == "seq" then
    match op with
    | "none" => (if ty == "void" then .pseudoVoid PseudoVoid.invalid else .pseudoT PseudoFut.invalid, false)
    | "ibarrier" => (.pseudoVoid PseudoVoid.start, false)
    | "ibroadcast" => (.pseudoT (PseudoFut.start mine), false)
    | "igather" => (.pseudoT (PseudoFut.start [mine.headD 0]), false)
    | "iscatter" => (.pseudoT (PseudoFut.start [mine.headD 0]), false)
    | "iallgather" => (.pseudoT (PseudoFut.start [mine.headD 0]), true)
    | _ => (.pseudoT (PseudoFut.start mine), false)   -- iallreduce, iallreduce1 on one process
  else
    match op with
    | "none" => (if ty == "void" then .mpiVoid MpiVoid.invalid else .mpiT MpiFut.invalid, false)
    | "ibarrier" => (.mpiVoid MpiVoid.start, false)
    | "ibroadcast" => (.mpiT (MpiFut.start mine (vals.getD root [])), false)
    | "igather" =>
      if i == root then (.mpi2 (MpiFut2.start (sent p) (firsts vals) [mine.headD 0]), false)
      else (.mpi2 (MpiFut2.start [] [] [mine.headD 0]), true)
    | "iscatter" => (.mpi2 (MpiFut2.start (sent 1) [mine.headD 0] (if i == root then firsts vals else [])), false)
    | "iallgather" => (.mpi2 (MpiFut2.start (sent p) (firsts vals) [mine.headD 0]), false)
    | "iallreduce" => (.mpi2 (MpiFut2.start (sent mine.length) (reduceAll red vals) mine), false)
    | "iallreduce1" => (.mpiT (MpiFut.start mine (reduceAll red vals)), false)
    | _ =>  -- p2p: root sends to root+1
      let src := vals.getD root []
      if p < 2 then (.idle, false)
      else if i == root then (.mpiT (MpiFut.start src src), false)
      else if i == (root + 1) % p then (.mpiT (MpiFut.start (sent src.length) src), false)
      else (.idle, false)

def runRank (wrap : String) (f : Option AnyFut) (dontcare : Bool) (ops : List (Option FOp2)) : List String :=
  match ops with
  | [] => []
  | none :: os => "-" :: runRank wrap f dontcare os
  | some (.call o) :: os =>
    let r := wrapStep wrap f o
    -- ready()/polling on an invalid future is outside the property: not compared (`*`)
    let invalid := (wrapStep wrap f .valid).1 == FObs.bool false
    let shown := if invalid && (o == FOp.ready || o == FOp.spin) then "*" else showFObs dontcare r.1
    shown :: runRank wrap r.2 dontcare os
  | some .sendData :: os =>
    -- only on the two-buffer future itself (`allowsSendData`); the send object is always specified
    match f.bind AnyFut.sendData with
    | some (some r) => showFObs false r.1 :: runRank wrap (some r.2) dontcare os
    | some none => ["UB"]
    | none => ["no-send-object"]

/-- the contributions to the previous operation a re-used variable served: every entry differs, and so does every
reduction (sum/min/max shift by a constant; bool is flipped) -/
def prevOf (ty : String) (v : Int) : Int := if ty == "bool" then 1 - v else v + 1000003

def handleFut (hdr : List String) (body : String) : String :=
  match hdr with
  | [comm, op, ty, wrap, reds, roots, valss] =>
    match parseRed reds, (stripPrefix? "root=" roots).bind (·.toNat?), (stripPrefix? "vals=" valss).bind parseVals with
    | some red, some root, some vals =>
      let p := vals.length
      if !(comm == "mpi" || comm == "seq") then "bad-op" else
      if !allowed comm op ty wrap || root ≥ p then "bad-op" else
      -- payload shape: void → empty, int/ref → one value, bool → one value 0/1 (reduced with min/max only),
      -- vec → equal lengths (p2p: at least one)
      let l0 := (vals.headD []).length
      let shapeOk :=
        if ty == "void" then vals.all (·.isEmpty)
        else if ty == "vec" then vals.all (·.length == l0) && (op != "p2p" || l0 ≥ 1)
        else if ty == "bool" then vals.all (fun v => v.length == 1 && v.all (fun x => x == 0 || x == 1)) && red != Red.sum
        else vals.all (·.length == 1)
      if !shapeOk then "bad-op" else
      let stepStrs := (body.splitOn ";").map fun s => s.toList.filter (· ≠ ' ')
      if stepStrs.any (·.length ≠ p) then "bad-op" else
      match stepStrs.mapM (fun cs => cs.mapM parseFOp) with
      | none => "bad-op"
      | some steps =>
        -- get_send_data(): only where there is a send object, at most once per rank (a second call is undefined)
        let sendCalls (i : Nat) : Nat := (steps.filter fun st => st.getD i none == some FOp2.sendData).length
        if (List.range p).any (fun i => sendCalls i > 1 || (sendCalls i == 1 && !allowsSendData comm op wrap)) then "bad-op" else
        let prevVals := vals.map fun v => v.map (prevOf ty)
        let ranks := (List.range p).map fun i =>
          let (f, dc) := startFut comm op ty red root vals i
          let (prev, _) := startFut comm op ty red root prevVals i
          let mineOps := steps.map fun st => (st.getD i none)
          match f with
          | .idle => some ("r" ++ toString i ++ "{idle}")
          | _ =>
            (wrapStart wrap f prev).map fun obj =>
              "r" ++ toString i ++ "{" ++ ",".intercalate (runRank wrap obj dc mineOps) ++ "}"
        match ranks.mapM id with
        | some rs => " ".intercalate rs
        | none => "bad-op"
    | _, _, _ => "bad-op"
  | _ => "bad-op"

def handle (line : String) : String :=
  match line.splitOn " : " with
  | [hdr, body] =>
    match tokens hdr with
    | ["guard", ctor, groups] => handleGuard ctor groups body
    | "fut" :: rest => handleFut rest body
    | _ => "bad-op"
  | _ => "bad-op"

def main : IO Unit := runDriver handle
