import DuneVerif.Common.Proto
import DuneVerif.Model.C06
import DuneVerif.Model.C06Life
import DuneVerif.Gen.C06
/-! line-protocol driver for C06 (format: see harness/mpi_c06.cc)

  c06 P=<np> B=<items> mode=<f|v> f=<n> ty=<letter> dirs=<f|b|F|B ..> [ctor=<m|M|i|I|c|a|object history>] : E p q [..] [..];S p [..];F p n;...

`dirs`: one communicate call per letter; f/b use a handle of the case's mode, F/B one of the other mode.  The item type
does not change what has to be delivered.  `ctor`: one of the round-two letters or an object history (statements
K<n> N<s><k><m>[b] C<s><t> A<s><t> D<s> U<s> X<s> joined by '.'), executed with `lifeStep` (Model/C06Life.lean); a
call is answered with the `maxBufferSize` of the object it is made on, which must point to the case's map (0; the
decoy map is 1) and have a buffer of at least B items, and in the rank numbering of the user communicator the object's
communicator descends from (0 = MPI_COMM_WORLD, 1 = reversed rank order: process q answers as rank P-1-q).

answer: `r0{q:(idx:[items],..) q':(..) | <second call>} r1{..} ..` -/
open DV DV.C06

structure Seg where
  isE : Bool
  /-- `F p n` (fixed size of rank p's handle) is stored as a non-E segment with `isF` and `q = n` -/
  isF : Bool := false
  p : Nat
  q : Nat
  a : List Nat
  b : List Nat

def kv? (key tok : String) : Option String :=
  let pre := (key ++ "=").toList
  let cs := tok.toList
  if cs.take pre.length == pre then some (String.ofList (cs.drop pre.length)) else none

def parseSeg? (P B : Nat) (s : String) : Option (Option Seg) :=
  match tokens s with
  | [] => some none
  | ["E", p, q, a, b] => do
    let p ← p.toNat?
    let q ← q.toNat?
    let a ← parseNatList? a
    let b ← parseNatList? b
    if p < P ∧ q < P ∧ a.length = b.length ∧ a.all (· < 4096) ∧ b.all (· < 4096) then
      some (some ⟨true, false, p, q, a, b⟩) else none
  | ["S", p, s] => do
    let p ← p.toNat?
    let s ← parseNatList? s
    if p < P ∧ s.all (· ≤ B) then some (some ⟨false, false, p, 0, s, []⟩) else none
  | ["F", p, n] => do
    let p ← p.toNat?
    let n ← n.toNat?
    if p < P ∧ 1 ≤ n ∧ n ≤ B then some (some ⟨false, true, p, n, [], []⟩) else none
  | _ => none

def itemValue (p i j : Nat) : Nat := ((p + 1) * 4096 + i) * 65536 + j

def insertSorted (x : Nat) : List Nat → List Nat
  | [] => [x]
  | y :: ys => if x < y then x :: y :: ys else if x = y then y :: ys else y :: insertSorted x ys

def rankData (segs : List Seg) (fixed : Bool) (f : Nat) (p : Nat) : RankData Nat :=
  let keys := segs.foldl (fun acc s =>
    if s.isE then
      let acc := if s.p = p then insertSorted s.q acc else acc
      if s.q = p then insertSorted s.p acc else acc
    else acc) []
  let imap := keys.map fun n =>
    { rank := n,
      first := (segs.filter (fun s => s.isE && s.p == p && s.q == n)).flatMap (·.a),
      second := (segs.filter (fun s => s.isE && s.p == n && s.q == p)).flatMap (·.b) : IfaceEntry }
  -- the last S segment of the rank wins
  let sizes := (segs.filter (fun s => !s.isE && !s.isF && s.p == p)).getLast?.map (·.a) |>.getD []
  -- the last F segment of the rank wins, default: the header's f
  let f := (segs.filter (fun s => s.isF && s.p == p)).getLast?.map (·.q) |>.getD f
  let sizeOf := fun i => if fixed then f else sizes.getD i 0
  { imap, handle := ⟨fixed, fun i => (List.range (sizeOf i)).map (itemValue p i)⟩ }

def showCall (c : Call Nat) : String := toString c.index ++ ":" ++ showList c.items

def showRank (B : Nat) (ranks : List (RankData Nat)) (q : Nat) (fwd : Bool) : String :=
  match ranks[q]? with
  | none => "?"
  | some rd =>
    " ".intercalate (rd.imap.map fun e =>
      match receiveFrom true B fwd ranks q e with
      | none => toString e.rank ++ ":ASYMMETRIC"
      | some r =>
        if r.returns then
          toString e.rank ++ ":(" ++ ",".intercalate ((r.calls.filter (·.count != 0)).map showCall) ++ ")"
        else toString e.rank ++ ":HANG")

/-! ### object histories -/

structure Stmt where
  op : Char
  s : Nat := 0
  t : Nat := 0
  size : Option Nat := none
  map : Nat := 0
  /-- the user communicator: 0 = MPI_COMM_WORLD, 1 = the communicator with the reversed rank order -/
  user : Nat := 0

/-- map letters: r the case's map, d the decoy map, both on MPI_COMM_WORLD; x, y the same on the reversed communicator -/
def mapLetter? (m : Char) : Option (Nat × Nat) :=
  if m == 'r' then some (0, 0) else if m == 'd' then some (1, 0) else if m == 'x' then some (0, 1)
  else if m == 'y' then some (1, 1) else none

def digit? (c : Char) : Option Nat := if '0' ≤ c ∧ c ≤ '9' then some (c.toNat - '0'.toNat) else none

/-- 1 to 7 decimal digits -/
def number? (cs : List Char) : Option Nat :=
  if cs.isEmpty || cs.length > 7 then none else cs.foldlM (fun acc c => (digit? c).map (acc * 10 + ·)) 0

/-- the round-two constructor letters as object histories -/
def legacyLife (letter : String) (B : Nat) : Option String :=
  match letter with
  | "m" => some s!"N0mr{B}"
  | "M" => some "N0Mr"
  | "i" => some s!"N0ir{B}"
  | "I" => some "N0Ir"
  | "c" => some s!"N1mr{B}.C01.D1"
  | "a" => some s!"N1mr{B}.N0md{B + 3}.A00.A01.D1"
  | _ => none

def parseStmt? (tok : String) : Option Stmt :=
  match tok.toList with
  | ['N', s, k, m] =>
    if k == 'M' || k == 'I' then do
      let s ← digit? s
      let (map, user) ← mapLetter? m
      some { op := 'N', s, map, user }
    else none
  | 'N' :: s :: k :: m :: rest =>
    if k == 'm' || k == 'i' then do
      let s ← digit? s
      let (map, user) ← mapLetter? m
      let b ← number? rest
      if b = 0 then none else some { op := 'N', s, size := some b, map, user }
    else none
  | ['C', s, t] => do some { op := 'C', s := ← digit? s, t := ← digit? t }
  | ['A', s, t] => do some { op := 'A', s := ← digit? s, t := ← digit? t }
  | ['D', s] => do some { op := 'D', s := ← digit? s }
  | ['U', s] => do some { op := 'U', s := ← digit? s }
  | ['X', s] => do some { op := 'X', s := ← digit? s }
  | _ => none

/-- (macro value or 0, statements) -/
def parseLife? (ctor : String) (B : Nat) : Option (Nat × List Stmt) := do
  let prog ← if ctor.length == 1 then legacyLife ctor B else some ctor
  let toks := prog.splitOn "."
  if toks.length > 40 then none
  let (K, toks) ←
    match toks with
    | t :: rest =>
      match t.toList with
      | 'K' :: num => do
        let n ← number? num
        if n = 0 then none else some (n, rest)
      | _ => some (0, toks)
    | [] => none
  let stmts ← toks.mapM parseStmt?
  some (K, stmts)

structure LifeRun where
  w : DV.C06.World
  /-- buffer size and user communicator of the object of every call made so far (in the order of `dirs`) -/
  bufs : List (Nat × Nat)

/-- runs the history; `none`: not a valid case -/
def runLife (dflt B ncalls : Nat) (stmts : List Stmt) : Option LifeRun := do
  let call := fun (r : LifeRun) (s : Nat) => do
    let o ← r.w.slots s
    if o.interface ≠ 0 || o.maxBufferSize < B || r.bufs.length ≥ ncalls then none
    let w ← DV.C06.lifeStep dflt r.w (.use s)
    some { w, bufs := r.bufs ++ [(o.maxBufferSize, r.w.origin o.comm)] : LifeRun }
  let r ← stmts.foldlM (fun (r : LifeRun) st =>
    match st.op with
    | 'N' => (DV.C06.lifeStep dflt r.w (.construct st.s st.size st.map st.user)).map ({ r with w := · })
    | 'C' => (DV.C06.lifeStep dflt r.w (.copy st.s st.t)).map ({ r with w := · })
    | 'A' => (DV.C06.lifeStep dflt r.w (.assign st.s st.t)).map ({ r with w := · })
    | 'D' => (DV.C06.lifeStep dflt r.w (.destroy st.s)).map ({ r with w := · })
    | 'U' => (DV.C06.lifeStep dflt r.w (.use st.s)).map ({ r with w := · })
    | 'X' => call r st.s
    | _ => none) { w := DV.C06.World.init 2, bufs := [] }
  -- the calls no X statement placed are made on slot 0
  let r ← (List.range (ncalls - r.bufs.length)).foldlM (fun r _ => call r 0) r
  -- a communicator the class misuses would be a defect of the class, not of the case: report it loudly
  if r.w.fault then none else some r

def handle (line : String) : String :=
  let (head, body) :=
    match line.splitOn " : " with
    | [h] => (h, "")
    | h :: rest => (h, " : ".intercalate rest)
    | [] => ("", "")
  let hd := tokens head
  -- the optional eighth header token
  let (hd, ctor?) : List String × Option String :=
    match hd with
    | [a, p, b, mode, f, ty, dirs, c] => ([a, p, b, mode, f, ty, dirs], kv? "ctor" c)
    | _ => (hd, some "m")
  match hd with
  | ["c06", p, b, mode, f, ty, dirs] =>
    match (kv? "P" p).bind (·.toNat?), (kv? "B" b).bind (·.toNat?), kv? "mode" mode, (kv? "f" f).bind (·.toNat?),
          kv? "ty" ty, kv? "dirs" dirs, ctor? with
    | some P, some B, some mode, some f, some ty, some dirs, some ctor =>
      let fixed := mode == "f"
      if (mode != "f" && mode != "v") || ty.length != 1 || !(ty.toList.all "lpctvnghkqdewzxyabsriuf".toList.contains)
         || P = 0 || P > 62 || B = 0 || B > 1000000 || f = 0
         || f > B || dirs.isEmpty || !(dirs.toList.all fun c => c == 'f' || c == 'b' || c == 'F' || c == 'B')
         || ctor.isEmpty then "bad-op"
      else
        match (parseLife? ctor B).bind (fun (K, stmts) => runLife (if K = 0 then DV.C06.Gen.defaultBufferSize else K) B dirs.length stmts),
              (body.splitOn ";").mapM (parseSeg? P B) with
        | none, _ => "bad-op"
        | _, none => "bad-op"
        | some life, some segs =>
          let segs := segs.filterMap id
          -- the handles of a call in the case's mode / in the other mode
          let ranksOf := fun (fx : Bool) => (List.range P).map (rankData segs fx f)
          let same := ranksOf fixed
          let other := ranksOf (!fixed)
          " ".intercalate ((List.range P).map fun q =>
            "r" ++ toString q ++ "{" ++
              -- process q of MPI_COMM_WORLD is rank P-1-q of the reversed communicator
              " | ".intercalate ((dirs.toList.zip life.bufs).map fun (d, Bobj, user) =>
                showRank Bobj (if d == 'f' || d == 'b' then same else other) (if user = 1 then P - 1 - q else q)
                  (d == 'f' || d == 'F')) ++ "}")
    | _, _, _, _, _, _, _ => "bad-op"
  | _ => "bad-op"

def main : IO Unit := runDriver handle
