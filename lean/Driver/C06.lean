import DuneVerif.Common.Proto
import DuneVerif.Model.C06
/-! line-protocol driver for C06 (format: see harness/mpi_c06.cc)

  c06 P=<np> B=<items> mode=<f|v> f=<n> ty=<l|p|c|t|v|n> dirs=<f|b|F|B ..> [ctor=<m|M|i|I|c|a>] : E p q [..] [..];S p [..];F p n;...

`dirs`: one communicate call per letter; f/b use a handle of the case's mode, F/B one of the other mode.  The item type
and the constructor do not change what has to be delivered (the default-buffer constructors M/I need B=32768).

answer: `r0{q:(idx:[items],..) q':(..) | <second call>} r1{..} ..` -/
open DV DV.C06

structure Seg where
  isE : Bool
  /-- `F p n` (fixed size of rank p's handle) is stored as a non-E segment with `isF` and `q = n` -/
  isF : Bool := false
  p : Nat
  q : Nat
  a : List Nat
  b : List Nat

def kv? (key tok : String) : Option String :=
  let pre := (key ++ "=").toList
  let cs := tok.toList
  if cs.take pre.length == pre then some (String.ofList (cs.drop pre.length)) else none

def parseSeg? (P B : Nat) (s : String) : Option (Option Seg) :=
  match tokens s with
  | [] => some none
  | ["E", p, q, a, b] => do
    let p ← p.toNat?
    let q ← q.toNat?
    let a ← parseNatList? a
    let b ← parseNatList? b
    if p < P ∧ q < P ∧ a.length = b.length ∧ a.all (· < 4096) ∧ b.all (· < 4096) then
      some (some ⟨true, false, p, q, a, b⟩) else none
  | ["S", p, s] => do
    let p ← p.toNat?
    let s ← parseNatList? s
    if p < P ∧ s.all (· ≤ B) then some (some ⟨false, false, p, 0, s, []⟩) else none
  | ["F", p, n] => do
    let p ← p.toNat?
    let n ← n.toNat?
    if p < P ∧ 1 ≤ n ∧ n ≤ B then some (some ⟨false, true, p, n, [], []⟩) else none
  | _ => none

def itemValue (p i j : Nat) : Nat := ((p + 1) * 4096 + i) * 65536 + j

def insertSorted (x : Nat) : List Nat → List Nat
  | [] => [x]
  | y :: ys => if x < y then x :: y :: ys else if x = y then y :: ys else y :: insertSorted x ys

def rankData (segs : List Seg) (fixed : Bool) (f : Nat) (p : Nat) : RankData Nat :=
  let keys := segs.foldl (fun acc s =>
    if s.isE then
      let acc := if s.p = p then insertSorted s.q acc else acc
      if s.q = p then insertSorted s.p acc else acc
    else acc) []
  let imap := keys.map fun n =>
    { rank := n,
      first := (segs.filter (fun s => s.isE && s.p == p && s.q == n)).flatMap (·.a),
      second := (segs.filter (fun s => s.isE && s.p == n && s.q == p)).flatMap (·.b) : IfaceEntry }
  -- the last S segment of the rank wins
  let sizes := (segs.filter (fun s => !s.isE && !s.isF && s.p == p)).getLast?.map (·.a) |>.getD []
  -- the last F segment of the rank wins, default: the header's f
  let f := (segs.filter (fun s => s.isF && s.p == p)).getLast?.map (·.q) |>.getD f
  let sizeOf := fun i => if fixed then f else sizes.getD i 0
  { imap, handle := ⟨fixed, fun i => (List.range (sizeOf i)).map (itemValue p i)⟩ }

def showCall (c : Call Nat) : String := toString c.index ++ ":" ++ showList c.items

def showRank (B : Nat) (ranks : List (RankData Nat)) (q : Nat) (fwd : Bool) : String :=
  match ranks[q]? with
  | none => "?"
  | some rd =>
    " ".intercalate (rd.imap.map fun e =>
      match receiveFrom true B fwd ranks q e with
      | none => toString e.rank ++ ":ASYMMETRIC"
      | some r =>
        if r.returns then
          toString e.rank ++ ":(" ++ ",".intercalate ((r.calls.filter (·.count != 0)).map showCall) ++ ")"
        else toString e.rank ++ ":HANG")

def handle (line : String) : String :=
  let (head, body) :=
    match line.splitOn " : " with
    | [h] => (h, "")
    | h :: rest => (h, " : ".intercalate rest)
    | [] => ("", "")
  let hd := tokens head
  -- the optional eighth header token
  let (hd, ctor?) : List String × Option String :=
    match hd with
    | [a, p, b, mode, f, ty, dirs, c] => ([a, p, b, mode, f, ty, dirs], kv? "ctor" c)
    | _ => (hd, some "m")
  match hd with
  | ["c06", p, b, mode, f, ty, dirs] =>
    match (kv? "P" p).bind (·.toNat?), (kv? "B" b).bind (·.toNat?), kv? "mode" mode, (kv? "f" f).bind (·.toNat?),
          kv? "ty" ty, kv? "dirs" dirs, ctor? with
    | some P, some B, some mode, some f, some ty, some dirs, some ctor =>
      let fixed := mode == "f"
      if (mode != "f" && mode != "v") || !(["l", "p", "c", "t", "v", "n"].contains ty) || P = 0 || P > 64 || B = 0 || f = 0
         || f > B || dirs.isEmpty || !(dirs.toList.all fun c => c == 'f' || c == 'b' || c == 'F' || c == 'B')
         || !(["m", "M", "i", "I", "c", "a"].contains ctor) || ((ctor == "M" || ctor == "I") && B != 32768) then "bad-op"
      else
        match (body.splitOn ";").mapM (parseSeg? P B) with
        | none => "bad-op"
        | some segs =>
          let segs := segs.filterMap id
          -- the handles of a call in the case's mode / in the other mode
          let ranksOf := fun (fx : Bool) => (List.range P).map (rankData segs fx f)
          let same := ranksOf fixed
          let other := ranksOf (!fixed)
          " ".intercalate ((List.range P).map fun q =>
            "r" ++ toString q ++ "{" ++
              " | ".intercalate (dirs.toList.map fun d =>
                showRank B (if d == 'f' || d == 'b' then same else other) q (d == 'f' || d == 'F')) ++ "}")
    | _, _, _, _, _, _, _ => "bad-op"
  | _ => "bad-op"

def main : IO Unit := runDriver handle
