import DuneVerif.Common.Proto
import DuneVerif.Model.C06
/-! line-protocol driver for C06 (format: see harness/mpi_c06.cc)

  c06 P=<np> B=<items> mode=<f|v> f=<n> ty=<l|p> dirs=<f|b|fb|..> : E p q [..] [..];S p [..];...

answer: `r0{q:(idx:[items],..) q':(..) | <second call>} r1{..} ..` -/
open DV DV.C06

structure Seg where
  isE : Bool
  p : Nat
  q : Nat
  a : List Nat
  b : List Nat

def kv? (key tok : String) : Option String :=
  let pre := (key ++ "=").toList
  let cs := tok.toList
  if cs.take pre.length == pre then some (String.ofList (cs.drop pre.length)) else none

def parseSeg? (P B : Nat) (s : String) : Option (Option Seg) :=
  match tokens s with
  | [] => some none
  | ["E", p, q, a, b] => do
    let p ← p.toNat?
    let q ← q.toNat?
    let a ← parseNatList? a
    let b ← parseNatList? b
    if p < P ∧ q < P ∧ a.length = b.length ∧ a.all (· < 4096) ∧ b.all (· < 4096) then
      some (some ⟨true, p, q, a, b⟩) else none
  | ["S", p, s] => do
    let p ← p.toNat?
    let s ← parseNatList? s
    if p < P ∧ s.all (· ≤ B) then some (some ⟨false, p, 0, s, []⟩) else none
  | _ => none

def itemValue (p i j : Nat) : Nat := ((p + 1) * 4096 + i) * 65536 + j

def insertSorted (x : Nat) : List Nat → List Nat
  | [] => [x]
  | y :: ys => if x < y then x :: y :: ys else if x = y then y :: ys else y :: insertSorted x ys

def rankData (segs : List Seg) (fixed : Bool) (f : Nat) (p : Nat) : RankData Nat :=
  let keys := segs.foldl (fun acc s =>
    if s.isE then
      let acc := if s.p = p then insertSorted s.q acc else acc
      if s.q = p then insertSorted s.p acc else acc
    else acc) []
  let imap := keys.map fun n =>
    { rank := n,
      first := (segs.filter (fun s => s.isE && s.p == p && s.q == n)).flatMap (·.a),
      second := (segs.filter (fun s => s.isE && s.p == n && s.q == p)).flatMap (·.b) : IfaceEntry }
  -- the last S segment of the rank wins
  let sizes := (segs.filter (fun s => !s.isE && s.p == p)).getLast?.map (·.a) |>.getD []
  let sizeOf := fun i => if fixed then f else sizes.getD i 0
  { imap, handle := ⟨fixed, fun i => (List.range (sizeOf i)).map (itemValue p i)⟩ }

def showCall (c : Call Nat) : String := toString c.index ++ ":" ++ showList c.items

def showRank (B : Nat) (ranks : List (RankData Nat)) (q : Nat) (fwd : Bool) : String :=
  match ranks[q]? with
  | none => "?"
  | some rd =>
    " ".intercalate (rd.imap.map fun e =>
      match receiveFrom true B fwd ranks q e with
      | none => toString e.rank ++ ":ASYMMETRIC"
      | some r =>
        if r.returns then
          toString e.rank ++ ":(" ++ ",".intercalate ((r.calls.filter (·.count != 0)).map showCall) ++ ")"
        else toString e.rank ++ ":HANG")

def handle (line : String) : String :=
  let (head, body) :=
    match line.splitOn " : " with
    | [h] => (h, "")
    | h :: rest => (h, " : ".intercalate rest)
    | [] => ("", "")
  match tokens head with
  | ["c06", p, b, mode, f, ty, dirs] =>
    match (kv? "P" p).bind (·.toNat?), (kv? "B" b).bind (·.toNat?), kv? "mode" mode, (kv? "f" f).bind (·.toNat?),
          kv? "ty" ty, kv? "dirs" dirs with
    | some P, some B, some mode, some f, some ty, some dirs =>
      let fixed := mode == "f"
      if (mode != "f" && mode != "v") || (ty != "l" && ty != "p") || P = 0 || P > 64 || B = 0 || f = 0
         || (fixed && f > B) || dirs.isEmpty || !(dirs.toList.all fun c => c == 'f' || c == 'b') then "bad-op"
      else
        match (body.splitOn ";").mapM (parseSeg? P B) with
        | none => "bad-op"
        | some segs =>
          let segs := segs.filterMap id
          let ranks := (List.range P).map (rankData segs fixed f)
          " ".intercalate ((List.range P).map fun q =>
            "r" ++ toString q ++ "{" ++
              " | ".intercalate (dirs.toList.map fun d => showRank B ranks q (d == 'f')) ++ "}")
    | _, _, _, _, _, _ => "bad-op"
  | _ => "bad-op"

def main : IO Unit := runDriver handle
