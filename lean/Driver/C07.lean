import DuneVerif.Model.C07
import DuneVerif.Gen.C07
/-! line-protocol driver for C07 (formats: see the header of harness/mpi_c07.cc) -/
open DV DV.C07

def kvGet (toks : List String) (key : String) : Option String :=
  let k := (key ++ "=").toList
  toks.findSome? fun t =>
    let cs := t.toList
    if cs.take k.length == k then some (String.ofList (cs.drop k.length)) else none

def kvNat (toks : List String) (key : String) : Option Nat := (kvGet toks key).bind String.toNat?
def kvInts (toks : List String) (key : String) : Option (List Int) := (kvGet toks key).bind parseIntList?
def kvNats (toks : List String) (key : String) : Option (List Nat) := (kvGet toks key).bind parseNatList?

/-- tokens after the first ":" token, split at "|" tokens -/
def afterColon (toks : List String) : List String := (toks.dropWhile (· ≠ ":")).drop 1

def splitBars : List String → List (List String)
  | [] => [[]]
  | t :: ts =>
    match splitBars ts with
    | [] => [[t]]
    | g :: gs => if t = "|" then [] :: g :: gs else (t :: g) :: gs

def showCells (l : List Int) : String := showList l

def ranksLine (outs : List String) : String :=
  " ".intercalate (outs.zipIdx.map fun p => "r" ++ toString p.2 ++ "{" ++ p.1 ++ "}")

def repeatFill (fill : List Int) (count : Nat) : List Int := (List.replicate count fill).flatten

def splitDots (s : String) : List String := s.splitOn "."

def isNamed (fn : String) : Bool := fn == "sum" || fn == "prod" || fn == "min" || fn == "max"
def isIntrinsic (ty : String) : Bool := ty == "int" || ty == "long" || ty == "double" || ty == "complex"
def isLight (ty : String) : Bool :=
  isLightArith ty || ty == "cfloat" || ty == "cldouble" || ty == "pod" || ty == "ppair" || ty == "fvp" || ty == "big40"
    || ty == "fv2" || ty == "pairis"
def isTrueScalar (ty : String) : Bool := ty != "fv3" && ty != "fvp" && ty != "fv2"

structure CollCase where
  comm : String
  base : String
  fn : String
  form : String
  ty : String
  tm : TMap
  root : Nat
  n : Nat
  pad : Nat
  m : Nat
  fill : List Int
  lens : List Nat
  displs : List Nat
  ins : List (List Int)

/-- container views of the MPIData-based reductions: `v…` = a `std::vector<T>` with a generic functor, `k…` = one
`FieldVector<int,3>` object reduced entry by entry with a functor on `int` -/
def isVForm (form : String) : Bool := form == "vrv" || form == "viio" || form == "viip"
def isKForm (form : String) : Bool := form == "krv" || form == "kiio" || form == "kiip"
/-- R4: `std::array<T,3>` / `DynamicVector<T>` handed to the MPIData based reductions -/
def isAForm (form : String) : Bool := form == "arv" || form == "aiio" || form == "aiip"
def isDForm (form : String) : Bool := form == "drv" || form == "diio" || form == "diip"

/-- the functor of a reduction at cell level (for the `k…` forms: the functor on the entries, cell by cell) -/
def caseOp (ty fn form : String) : Option (List Int → List Int → List Int) :=
  if isKForm form then
    (if ty == "fv3" && (isNamed fn || fn == "gsum" || fn == "gprod" || fn == "left" || fn == "right") then redOp "int" fn else none)
  else redOp ty fn

def outElems (k : CollCase) (np rank : Nat) (lens : List Nat) : Nat :=
  match k.base with
  | "gather" | "allgather" => k.n * np + k.pad
  | "gatherv" | "allgatherv" => k.m
  | "scatter" => k.n + k.pad
  | "scatterv" => lens.getD rank 0 + k.pad
  | "red" => k.n + k.pad
  | _ => 0

inductive Out
  | cells (c : List Int)
  | unsupported

def Out.show : Out → String
  | .cells c => showCells c
  | .unsupported => "ERR:unsupported"

/-- the checks after which the harness answers ERR:unsupported (same on every rank of the communicator) -/
def unsupported (k : CollCase) (seq : Bool) (inSize outSize : Nat) : Bool :=
  let e := k.tm.extent
  let inN := inSize / e
  let outN := outSize / e
  if k.ty == "char" then true else
  if isLight k.ty then
    -- the light element types are instantiated for a restricted set of calls only
    if seq then true else
    match k.base, k.form with
    | "red", form =>
      if (redOp k.ty k.fn).isNone then true
      else if form == "sc" then !(k.n == 1 && isNamed k.fn)
      else !(form == "ip" || form == "io" || (form == "ar" && isNamed k.fn))
    | "bcast", "ptr" | "gather", "ptr" | "gatherv", "ptr" | "scatter", "ptr" | "scatterv", "ptr" | "allgather", "ptr"
    | "allgatherv", "ptr" => false
    | _, _ => true
  else
  match k.base, k.form with
  | "red", form =>
    let vec := isIntrinsic k.ty && isNamed k.fn
    if (caseOp k.ty k.fn form).isNone then true
    else if isKForm form then k.n != 1 || inN != 1 || outN != 1 || (form == "krv" && seq)
    else if isVForm form then !(k.fn == "gmin" || k.fn == "gmax" || k.fn == "left" || k.fn == "right") || inN != k.n || outN != k.n || (form == "vrv" && seq)
    else if form == "sc" then !(k.n == 1 && isNamed k.fn)
    else if form == "ar" then !(isNamed k.fn)
    else if form == "ip" || form == "io" then false
    else if isAForm form || isDForm form then
      !vec || inN != k.n || outN != k.n || (isAForm form && k.n != 3) || ((form == "arv" || form == "drv") && seq)
    else if form == "rv" || form == "iio" || form == "iip" then
      (!vec && !isTrueScalar k.ty) || (!vec && k.n != 1) || inN != k.n || outN != k.n || (form == "rv" && seq)
    else true
  | "barrier", form => !(form == "ptr" || form == "i")
  | "bcast", "ptr" => false
  | "bcast", "i" => outN != k.n
  | "bcast", "isc" => k.n != 1 || outN != 1
  | "gather", "ptr" | "allgather", "ptr" | "scatter", "ptr" => false
  | "gather", "i" | "allgather", "i" => seq
  | "gather", "isc" | "allgather", "isc" => !isTrueScalar k.ty || k.n != 1
  | "scatter", "i" => seq || outN != k.n
  | "scatter", "isc" => !isTrueScalar k.ty || k.n != 1 || outN != 1 || (seq && inN == 0)
  | "gatherv", "ptr" | "allgatherv", "ptr" | "scatterv", "ptr" => false
  | _, _ => true

/-- all ranks' results on a communicator whose ranks hold `ins` / `outs` -/
def specAll (k : CollCase) (root : Nat) (ins outs : List (List Int)) (lens displs : List Nat) : List (List Int) :=
  match k.base with
  | "bcast" => Spec.bcast k.tm k.n root outs
  | "gather" => Spec.gather k.tm k.n root ins outs
  | "gatherv" => Spec.gatherv k.tm root ins lens displs outs
  | "scatter" => Spec.scatter k.tm k.n root ins outs
  | "scatterv" => Spec.scatterv k.tm root ins lens displs outs
  | "allgather" => Spec.allgather k.tm k.n ins outs
  | "allgatherv" => Spec.allgatherv k.tm ins lens displs outs
  | "red" =>
    match caseOp k.ty k.fn k.form with
    | some op =>
      if isKForm k.form then Spec.allreduce 1 (k.n * k.tm.extent) op ins outs
      else Spec.allreduce k.tm.extent k.n op ins outs
    | none => outs
  | _ => outs

/-- the sequential stand-in on one rank -/
def seqOne (k : CollCase) (inp out : List Int) (len displ : Nat) : List Int :=
  let e := k.tm.extent
  match k.base, k.form with
  | "red", "sc" => Seq.assignElem e (Seq.reduceScalar inp) 0 out 0
  | "red", "ar" | "red", "ip" => Seq.copyLoop e (Seq.reduceInplace inp k.n) 0 out 0 k.n
  | "red", "io" => Seq.allreduceInOut e inp out k.n
  | "red", "iio" | "red", "viio" | "red", "kiio" | "red", "aiio" | "red", "diio" => Seq.iallreduceInOut inp out
  | "red", "iip" | "red", "viip" | "red", "kiip" | "red", "aiip" | "red", "diip" => Seq.iallreduceInplace inp
  | "bcast", "ptr" => Seq.broadcast out k.n 0
  | "bcast", _ => Seq.ibroadcast out 0
  | "gather", "ptr" => Seq.gather e inp out k.n 0
  | "gather", _ => Seq.igather e inp out 0
  | "gatherv", _ => Seq.gatherv e inp len out len displ 0
  | "scatter", "ptr" => Seq.scatter e inp out k.n 0
  | "scatter", _ => Seq.iscatter e inp out 0
  | "scatterv", _ => Seq.scatterv e inp len displ out len 0
  | "allgather", "ptr" => Seq.allgather e inp k.n out
  | "allgather", _ => Seq.iallgather e inp out
  | "allgatherv", _ => Seq.allgatherv e inp len out len displ
  | _, _ => out

def runColl (k : CollCase) : Option (List String) :=
  let P := k.ins.length
  let e := k.tm.extent
  if e = 0 || k.lens.length ≠ P || k.displs.length ≠ P || k.fill.length ≠ e
      || k.ins.any (fun i => i.length % e ≠ 0) then some (List.replicate P "ERR:malformed")
  else if k.comm == "world" then
    let outs := (List.range P).map fun r =>
      if k.base == "bcast" then k.ins.getD r [] else repeatFill k.fill (outElems k P r k.lens)
    let uns := (List.range P).map fun r => unsupported k false (k.ins.getD r []).length (outs.getD r []).length
    if uns.any id then some (List.replicate P "ERR:unsupported")
    else some ((specAll k k.root k.ins outs k.lens k.displs).map showCells)
  else if k.comm == "self" || k.comm == "seq" then
    let seq := k.comm == "seq"
    some ((List.range P).map fun r =>
      let inp := k.ins.getD r []
      let len := k.lens.getD r 0
      let displ := k.displs.getD r 0
      let out := if k.base == "bcast" then inp else repeatFill k.fill (outElems k 1 0 [len])
      if unsupported k seq inp.length out.length then "ERR:unsupported"
      else if seq then showCells (seqOne k inp out len displ)
      else showCells ((specAll k 0 [inp] [out] [len] [displ]).getD 0 []))
  else none

def handleColl (toks : List String) : Option (List String) :=
  match toks with
  | _ :: comm :: op :: ty :: _ =>
    match tyMap ty, kvNat toks "root", kvNat toks "n", kvNat toks "pad", kvNat toks "m", kvInts toks "fill",
          kvNats toks "lens", kvNats toks "displs" with
    | some tm, some root, some n, some pad, some m, some fill, some lens, some displs =>
      let parts := splitDots op
      let base := parts.headD ""
      let form := parts.getLastD ""
      let fn := if parts.length = 3 then parts.getD 1 "" else ""
      match (splitBars (afterColon toks)).mapM (fun g => match g with | [t] => parseIntList? t | _ => none) with
      | some ins => runColl { comm, base, fn, form, ty, tm, root, n, pad, m, fill, lens, displs, ins }
      | none => none
    | _, _, _, _, _, _, _, _ => none
  | _ => none

/-! ### point-to-point -/

def splitSlash (s : String) : List String := s.splitOn "/"

def handleP2p (toks : List String) : Option (List String) :=
  match toks with
  | _ :: mode :: cont :: ty :: _ =>
    match tyMap ty, kvNat toks "shift" with
    | some tm, some shift =>
      let segs := (splitBars (afterColon toks)).mapM fun g =>
        match g with
        | [t] => match splitSlash t with
          | [a, b] => match parseIntList? a, parseIntList? b with
            | some s, some d => some (s, d)
            | _, _ => none
          | _ => none
        | _ => none
      match segs with
      | none => none
      | some sd =>
        let P := sd.length
        let e := tm.extent
        let rr := mode == "isend_rrecv" || mode == "chain_rrecv"
        let chain := mode == "chain_recv" || mode == "chain_rrecv"
        let knownMode := mode == "isend_recv" || mode == "irecv_send" || rr || chain
        let uns := !knownMode || isLight ty || (cont == "sc" && (ty == "char" || rr)) || (cont == "vec" && ty == "char")
          || (cont == "str" && ty != "char") || !(cont == "sc" || cont == "vec" || cont == "str")
          || (chain && shift % P == 0)
        if uns then some (List.replicate P "ERR:unsupported")
        else if sd.any (fun p => p.1.length % e ≠ 0 || p.2.length % e ≠ 0) then some (List.replicate P "ERR:malformed")
        else
          let srcs := sd.map fun p => (p.1, p.1.length / e)
          let dsts := sd.map (·.2)
          if rr then some ((Spec.ringRrecv tm (List.replicate e 0) shift srcs dsts).map showCells)
          else some ((Spec.ringRecv tm shift srcs dsts).map showCells)
    | _, _ => none
  | _ => none

/-! ### MPIPack -/

abbrev It := Item Int Int
abbrev De := Dest Int Int

def parseItem (t : String) : Option (Option (It × De)) :=   -- none = bad-op, some none = unsupported
  match splitSlash t with
  | [kind, ty, a, b] =>
    match tyMap ty, parseIntList? a, parseIntList? b with
    | some tm, some src, some dst =>
      let e := tm.extent
      if src.length % e ≠ 0 || dst.length % e ≠ 0 then none else
      match kind with
      | "s" => if src.length = e && dst.length = e then some (some (.stat tm 1 src, .stat tm 1 dst)) else none
      | "a" => if isLight ty then some none
               else if src.length = 3 * e && dst.length = 3 * e then some (some (.stat tm 3 src, .stat tm 3 dst)) else none
      | "v" => if ty == "char" || ty == "bool" then some none
               else some (some (.dyn tm (src.length / e) src, .dyn tm (List.replicate e 0) dst))
      | "t" => if ty != "char" then some none
               else some (some (.dyn tm (src.length / e) src, .dyn tm (List.replicate e 0) dst))
      | _ => some none
    | _, _, _ => none
  | _ => none

def destCells : De → String
  | .stat _ _ c => showCells c
  | .dyn _ _ c => showCells c
  | .raw b => showCells b

def pk (st : PState Int) (its : List It) : PState Int := packAll idCodec Int.ofNat id 0 st its
def upk (st : PState Int) (ds : List De) : List De × PState Int := unpackAll idCodec Int.toNat 0 st ds

def intItem (v : Int) : It := .stat (TMap.basic 1) 1 [v]
def intDest (v : Int) : De := .stat (TMap.basic 1) 1 [v]

def showRead (rs : List De) : String :=
  match rs with
  | [] => "[]"
  | f :: rest => " ".intercalate (destCells f :: rest.map destCells)

def packRank (mode : String) (P shift r : Nat) (items : List It) (dests : List De) : String :=
  let sender : Nat :=
    if mode == "send" || mode == "irecv" then (r + P - shift % P) % P
    else if mode == "bcast" then shift % P else r
  let written := pk ⟨[], 0⟩ (intItem sender :: items)
  let ds := intDest (-2147483648) :: dests
  if mode == "local" || mode == "send" || mode == "irecv" || mode == "bcast" then
    showRead (upk ⟨written.buf, 0⟩ ds).1
  else if mode == "tell" then
    -- positions before each item, then every item is read at its own position
    let step := fun (acc : PState Int × List Nat) (it : It) => (pk acc.1 [it], acc.2 ++ [acc.1.pos])
    let poss := ((intItem sender :: items).foldl step (⟨[], 0⟩, [])).2
    showRead ((ds.zip poss).map fun p => ((upk ⟨written.buf, p.2⟩ [p.1]).1.headD p.1))
  else if mode == "nest" then
    let outer := pk ⟨[], 0⟩ [intItem 111, .raw written.buf, intItem 222]
    match (upk ⟨outer.buf, 0⟩ [intDest 0, .raw [], intDest 0]).1 with
    | [_, .raw inner, _] => showRead (upk ⟨inner, 0⟩ ds).1
    | _ => "bad-op"
  else "ERR:unsupported"

def handlePack (toks : List String) : Option (List String) :=
  match toks with
  | _ :: mode :: _ =>
    match kvNat toks "np", kvNat toks "shift" with
    | some P, some shift =>
      match (afterColon toks).mapM parseItem with
      | none => none
      | some parsed =>
        match parsed.mapM id with
        | none => some (List.replicate P "ERR:unsupported")
        | some pairs =>
          some ((List.range P).map fun r => packRank mode P shift r (pairs.map (·.1)) (pairs.map (·.2)))
    | _, _ => none
  | _ => none

/-! ### datatypes -/

def flatBlocks (bs : List (Nat × Nat)) : List Nat := bs.flatMap fun b => [b.1, b.2]

def tmapOf (ty : String) (lay : List Nat) : Option TMap :=
  open TMap Types in
  match ty, lay with
  | "int", [s] | "long", [s] | "double", [s] | "char", [s] | "complex", [s] => some (basic s)
  | "uchar", [s] | "short", [s] | "ushort", [s] | "uint", [s] | "ulong", [s] | "float", [s] | "ldouble", [s]
  | "cfloat", [s] | "cldouble", [s] => some (basic s)
  -- no MPITraits specialisation: `sizeof(T)` bytes
  | "llong", [s] | "bool", [s] | "schar", [s] | "ullong", [s] | "pod", [s] => some (contiguous s (basic 1))
  | "fv3", [d, n, w] | "fv2", [d, n, w] => some (fieldVector d n (basic w))
  | "big96", [d, n, w] | "big40", [d, n, w] => some (bigUnsigned d n (basic w))
  | "pair", [o1, s1, o2, s2, size] | "pairis", [o1, s1, o2, s2, size] => some (pair o1 (basic s1) o2 (basic s2) size)
  | "pairlc", [o1, s1, o2, s2, size] => some (pair o1 (contiguous s1 (basic 1)) o2 (basic s2) size)
  | "ppair", [o1, s1, o2, s2, isz, oi, os, ss, size] =>
      some (pair oi (pair o1 (contiguous s1 (basic 1)) o2 (basic s2) isz) os (basic ss) size)
  | "fvp", [d, n, o1, s1, o2, s2, psz] => some (fieldVector d n (pair o1 (contiguous s1 (basic 1)) o2 (basic s2) psz))
  | "pli", [offA, size] => some (localIndex offA (basic 1) size)
  | "ip", [offG, szG, offL, offA, szL, size] => some (indexPair offG (basic szG) offL (localIndex offA (basic 1) szL) size)
  | _, _ => none

def handleTmap (toks : List String) : Option (List String) :=
  match toks with
  | _ :: ty :: _ =>
    match kvNat toks "np", kvNats toks "lay" with
    | some P, some lay =>
      match tmapOf ty lay with
      | some tm =>
        some (List.replicate P
          ("blocks=" ++ showList (flatBlocks (TMap.mergeBlocks (tm.blocks.mergeSort (fun a b => decide (a.1 ≤ b.1))))) ++ " extent=" ++ toString tm.extent ++ " lb=0"))
      | none => none
    | _, _ => none
  | _ => none

/-! ### rank / size / barrier / refusals -/

def handleMisc (toks : List String) : Option (List String) :=
  match kvNat toks "np" with
  | some P =>
    some ((List.range P).map fun r =>
      showList [r, P, 0, 1, Seq.rank, Seq.size, 0, 1, 0, 0, Seq.barrier, 63, r, P, r, P, Seq.rank, Seq.size])
  | none => none

/-- every rank's answer to one op line (`none` = not an op line) -/
def handleOne (toks : List String) : Option (List String) :=
  match toks.head? with
  | some "coll" => handleColl toks
  | some "p2p" => handleP2p toks
  | some "pack" => handlePack toks
  | some "tmap" => handleTmap toks
  | some "misc" => handleMisc toks
  | _ => none

/-! ### call histories: the steps run in one process, i.e. on one state of the lazily created singletons -/

/-- the `get()` / `getType()` calls behind one op line -/
def usesOf (toks : List String) : List Reg.Use :=
  match toks with
  | "coll" :: _ :: op :: ty :: _ =>
    let parts := splitDots op
    if parts.headD "" == "red" && parts.length = 3 then
      -- a FieldVector object viewed as a container of ints: datatype and operation of the entries
      if isKForm (parts.getD 2 "") then opUses "int" (parts.getD 1 "") else tyUses ty ++ opUses ty (parts.getD 1 "")
    else tyUses ty
  | "p2p" :: _ :: _ :: ty :: _ => tyUses ty
  | "tmap" :: ty :: _ => tyUses ty
  | "pack" :: _ => (afterColon toks).flatMap fun t => match splitSlash t with | _ :: ty :: _ => tyUses ty | _ => []
  | _ => []

def trimSpaces (s : String) : String :=
  String.ofList ((s.toList.dropWhile (· == ' ')).reverse.dropWhile (· == ' ')).reverse

def handleHist (line : String) : String :=
  match line.splitOn " : " with
  | head :: rest =>
    match kvNat (tokens head) "np" with
    | none => "bad-op"
    | some P =>
      let steps := (((" : ".intercalate rest).splitOn ";").map trimSpaces).filter (· ≠ "")
      let toks := steps.map tokens
      -- a step that is served a handle created for another instantiation has no cell-level meaning
      let flags := Reg.runSteps Gen.singletonTable [] (toks.map usesOf)
      match toks.mapM handleOne with
      | none => "bad-op"
      | some outs =>
        let outs := (outs.zip flags).map fun p =>
          if !p.2 then List.replicate P "ERR:foreign-handle"
          else if p.1.length ≠ P then List.replicate P "ERR:ranks" else p.1
        ranksLine ((List.range P).map fun r => " ; ".intercalate (outs.map fun o => o.getD r ""))
  | [] => "bad-op"

def handle (line : String) : String :=
  let toks := tokens line
  if toks.head? == some "hist" then handleHist line
  else match handleOne toks with
    | some outs => ranksLine outs
    | none => "bad-op"

def main : IO Unit := runDriver handle
