import DuneVerif.Model.C10
/-! line-protocol driver for C10:  `<k> <op> <hexA> [<hexB>|<dec>]`  -/
open DV DV.C10 DV.C10.Gen

def showV (a : List Nat) : String := String.ofList (print a)
def showB (b : Bool) : String := if b then "true" else "false"
def showR : Res → String
  | .ok v => showV v
  | .mathError => "ERR:Math"

def handle (line : String) : String :=
  match tokens line with
  | ks :: op :: rest =>
    match ks.toNat? with
    | none => "bad-op"
    | some k =>
      let n := ndigits k
      let big (s : String) : Option (List Nat) := (parseHex? s).map (ofNat n)
      let bin (f : List Nat → List Nat → String) : String :=
        match rest with
        | [a, b] => match big a, big b with
          | some a, some b => f a b
          | _, _ => "bad-op"
        | _ => "bad-op"
      -- big OP builtin (second operand goes through assign)
      let binU (f : List Nat → List Nat → String) : String :=
        match rest with
        | [a, b] => match big a, b.toNat? with
          | some a, some y => if y < 2^64 then f a (assign n y) else "bad-op"
          | _, _ => "bad-op"
        | _ => "bad-op"
      let uBin (f : List Nat → List Nat → String) : String :=
        match rest with
        | [a, b] => match a.toNat?, big b with
          | some y, some b => if y < 2^64 then f (assign n y) b else "bad-op"
          | _, _ => "bad-op"
        | _ => "bad-op"
      let un (f : List Nat → String) : String :=
        match rest with
        | [a] => match big a with
          | some a => f a
          | _ => "bad-op"
        | _ => "bad-op"
      let sh (f : List Nat → Nat → List Nat) : String :=
        match rest with
        | [a, s] => match big a, s.toNat? with
          | some a, some s => if s < bits * n then showV (f a s) else "bad-op"
          | _, _ => "bad-op"
        | _ => "bad-op"
      let arith (pre : (List Nat → List Nat → String) → String) (o : String) : String :=
        match o with
        | "add" => pre fun a b => showV (add a b)
        | "sub" => pre fun a b => showV (sub a b)
        | "mul" => pre fun a b => showV (mul k a b)
        | "div" => pre fun a b => showR (div a b)
        | "mod" => pre fun a b => showR (mod a b)
        | _ => "bad-op"
      match op with
      | "add" | "sub" | "mul" | "div" | "mod" => arith bin op
      | "add_u" => arith binU "add" | "sub_u" => arith binU "sub" | "mul_u" => arith binU "mul"
      | "div_u" => arith binU "div" | "mod_u" => arith binU "mod"
      | "u_add" => arith uBin "add" | "u_sub" => arith uBin "sub" | "u_mul" => arith uBin "mul"
      | "u_div" => arith uBin "div" | "u_mod" => arith uBin "mod"
      | "and" => bin fun a b => showV (band a b)
      | "or" => bin fun a b => showV (bor a b)
      | "xor" => bin fun a b => showV (bxor a b)
      | "not" => un fun a => showV (bnot a)
      | "incr" => un fun a => showV (incr a)
      | "shl" => sh shl
      | "shr" => sh shr
      | "lt" => bin fun a b => showB (lt a b)
      | "le" => bin fun a b => showB (le a b)
      | "gt" => bin fun a b => showB (gt a b)
      | "ge" => bin fun a b => showB (ge a b)
      | "eq" => bin fun a b => showB (eq a b)
      | "ne" => bin fun a b => showB (ne a b)
      -- the harness canonicalises unequal values to `false` (their hashes may or may not collide; not a property)
      | "hasheq" => bin fun a b => showB (a == b && C10.hash a == C10.hash b)
      | "assign" => match rest with
        | [x] => match x.toInt? with
          | some x =>
            -- the harness takes the signed constructor for odd values below 2^63 and for negatives
            if x < 0 ∨ (x < 2^63 ∧ x % 2 = 1) then
              match ofSigned n x with
              | .ok v => showV v
              | .negative => "ERR:Negative"
            else if x < 2^64 then showV (assign n x.toNat) else "bad-op"
          | none => "bad-op"
        | _ => "bad-op"
      | "touint" => un fun a => toString (touint a)
      | "todouble" => un fun a => toString (todoubleN a)
      | "print" => un showV
      | "max" => showV (maxVal n)
      | "digits" => toString (bits * n)
      | _ => "bad-op"
  | _ => "bad-op"

def main : IO Unit := runDriver handle
