import DuneVerif.Model.C10
import DuneVerif.Model.C10Prog
/-! line-protocol driver for C10:  `<k> <op> <hexA> [<hexB>|<dec>]`
    and histories  `<k> prog <hexA> <hexB> : stmt;stmt;…`  (statements of Model/C10Prog.lean) -/
open DV DV.C10 DV.C10.Gen

def showV (a : List Nat) : String := String.ofList (print a)
def showB (b : Bool) : String := if b then "true" else "false"
def showR : Res → String
  | .ok v => showV v
  | .mathError => "ERR:Math"


/-- quotient above which a program's `/=`/`%=` is not executed (the real algorithm and the model are O(quotient));
    the harness applies the same rule with its GMP shadow -/
def quotCap : Nat := 2000

def parseReg? : String → Option Reg
  | "a" => some .a
  | "b" => some .b
  | _ => none

def parseBin? : String → Option BinOp
  | "add" => some .add | "sub" => some .sub | "mul" => some .mul | "div" => some .div | "mod" => some .mod
  | "and" => some .band | "or" => some .bor | "xor" => some .bxor
  | _ => none

def parseStmt? (s : String) : Option POp :=
  match tokens s with
  | ["incr", d] => (parseReg? d).map .incr
  | ["not", d] => (parseReg? d).map .bnot
  | ["copy", d, s] => do some (.copy (← parseReg? d) (← parseReg? s))
  | ["shl", d, n] => do some (.shl (← parseReg? d) (← n.toNat?))
  | ["shr", d, n] => do some (.shr (← parseReg? d) (← n.toNat?))
  | [o, d, x] =>
    if o.endsWith "u" then do
      some (.binU (← parseBin? (String.ofList o.toList.dropLast)) (← parseReg? d) (← x.toNat?))
    else do
      some (.bin (← parseBin? o) (← parseReg? d) (← parseReg? x))
  | _ => none

/-- does this statement run the subtraction loop more than `quotCap` times? -/
def tooSlow (n : Nat) (r : Regs) : POp → Bool
  | .bin o d s => (o == .div || o == .mod) && val (r.get s) != 0 && val (r.get d) / val (r.get s) > quotCap
  | .binU o d y =>
    (o == .div || o == .mod) && val (assign n y) != 0 && val (r.get d) / val (assign n y) > quotCap
  | _ => false

/-- `run` of the model, statement by statement, stopping with `SKIP` at a too slow division -/
def runProg (k : Nat) : Regs → List POp → List String → String
  | r, [], acc => ";".intercalate acc.reverse ++ " => " ++ showV r.a ++ " " ++ showV r.b
  | r, op :: ops, acc =>
    if tooSlow (ndigits k) r op then ";".intercalate ("SKIP" :: acc).reverse
    else match step k r op with
      | none => "bad-op"
      | some (r', o) => runProg k r' ops (showR o :: acc)

def parseTy? : String → Option IntTy
  | "i8" => some ⟨true, 8⟩ | "i16" => some ⟨true, 16⟩ | "i32" => some ⟨true, 32⟩ | "i64" => some ⟨true, 64⟩
  | "u8" => some ⟨false, 8⟩ | "u16" => some ⟨false, 16⟩ | "u32" => some ⟨false, 32⟩ | "u64" => some ⟨false, 64⟩
  | "bool" => some ⟨false, 1⟩
  | _ => none

def handleProg (line : String) : Option String :=
  match line.splitOn " : " with
  | [head, body] =>
    match tokens head with
    | [ks, "prog", a, b] => do
      let k ← ks.toNat?
      let n := ndigits k
      let a ← parseHex? a
      let b ← parseHex? b
      let stmts ← (body.splitOn ";").mapM parseStmt?
      some (runProg k ⟨ofNat n a, ofNat n b⟩ stmts [])
    | _ => none
  | _ => none

def handle (line : String) : String :=
  if ((tokens line).drop 1).head? == some "prog" then (handleProg line).getD "bad-op" else
  match tokens line with
  | ks :: op :: rest =>
    match ks.toNat? with
    | none => "bad-op"
    | some k =>
      let n := ndigits k
      let big (s : String) : Option (List Nat) := (parseHex? s).map (ofNat n)
      let bin (f : List Nat → List Nat → String) : String :=
        match rest with
        | [a, b] => match big a, big b with
          | some a, some b => f a b
          | _, _ => "bad-op"
        | _ => "bad-op"
      -- big OP builtin (second operand goes through assign)
      let binU (f : List Nat → List Nat → String) : String :=
        match rest with
        | [a, b] => match big a, b.toNat? with
          | some a, some y => if y < 2^64 then f a (assign n y) else "bad-op"
          | _, _ => "bad-op"
        | _ => "bad-op"
      let uBin (f : List Nat → List Nat → String) : String :=
        match rest with
        | [a, b] => match a.toNat?, big b with
          | some y, some b => if y < 2^64 then f (assign n y) b else "bad-op"
          | _, _ => "bad-op"
        | _ => "bad-op"
      let un (f : List Nat → String) : String :=
        match rest with
        | [a] => match big a with
          | some a => f a
          | _ => "bad-op"
        | _ => "bad-op"
      let sh (f : List Nat → Nat → List Nat) : String :=
        match rest with
        | [a, s] => match big a, s.toNat? with
          | some a, some s => if s < bits * n then showV (f a s) else "bad-op"
          | _, _ => "bad-op"
        | _ => "bad-op"
      let arith (pre : (List Nat → List Nat → String) → String) (o : String) : String :=
        match o with
        | "add" => pre fun a b => showV (add a b)
        | "sub" => pre fun a b => showV (sub a b)
        | "mul" => pre fun a b => showV (mul k a b)
        | "div" => pre fun a b => showR (div a b)
        | "mod" => pre fun a b => showR (mod a b)
        | _ => "bad-op"
      match op with
      | "add" | "sub" | "mul" | "div" | "mod" => arith bin op
      | "add_u" => arith binU "add" | "sub_u" => arith binU "sub" | "mul_u" => arith binU "mul"
      | "div_u" => arith binU "div" | "mod_u" => arith binU "mod"
      | "u_add" => arith uBin "add" | "u_sub" => arith uBin "sub" | "u_mul" => arith uBin "mul"
      | "u_div" => arith uBin "div" | "u_mod" => arith uBin "mod"
      | "and" => bin fun a b => showV (band a b)
      | "or" => bin fun a b => showV (bor a b)
      | "xor" => bin fun a b => showV (bxor a b)
      | "not" => un fun a => showV (bnot a)
      | "incr" => un fun a => showV (incr a)
      | "shl" => sh shl
      | "shr" => sh shr
      | "lt" => bin fun a b => showB (lt a b)
      | "le" => bin fun a b => showB (le a b)
      | "gt" => bin fun a b => showB (gt a b)
      | "ge" => bin fun a b => showB (ge a b)
      | "eq" => bin fun a b => showB (eq a b)
      | "ne" => bin fun a b => showB (ne a b)
      -- the harness canonicalises unequal values to `false` (their hashes may or may not collide; not a property)
      | "hasheq" => bin fun a b => showB (a == b && C10.hash a == C10.hash b)
      | "assign" => match rest with
        | [x] => match x.toInt? with
          | some x =>
            -- the harness takes the signed constructor for odd values below 2^63 and for negatives
            if x < 0 ∨ (x < 2^63 ∧ x % 2 = 1) then
              match ofSigned n x with
              | .ok v => showV v
              | .negative => "ERR:Negative"
            else if x < 2^64 then showV (assign n x.toNat) else "bad-op"
          | none => "bad-op"
        | _ => "bad-op"
      | "touint" => un fun a => toString (touint a)
      | "todouble" => un fun a => toString (todoubleN a)
      | "print" => un fun a => String.ofList (printCanon a)
      | "max" => showV (maxVal n)
      | "digits" => toString (limitsDigits k)
      | "limits" => s!"digits={limitsDigits k} radix={limitsRadix} signed={showB limitsIsSigned} integer={showB limitsIsInteger} exact={showB limitsIsExact} bounded={showB limitsIsBounded} modulo={showB limitsIsModulo}"
      | "default" => match rest with
        | [] => showV (assign n 0)
        | _ => "bad-op"
      | "ctor" => match rest with
        | [ty, x] => match parseTy? ty, x.toInt? with
          | some t, some y =>
            if t.holds y then
              match construct n t y with
              | .ok v => showV v
              | .negative => "ERR:Negative"
            else "bad-op"
          | _, _ => "bad-op"
        | _ => "bad-op"
      | _ => "bad-op"
  | _ => "bad-op"

def main : IO Unit := runDriver handle
