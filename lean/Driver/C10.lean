import DuneVerif.Model.C10
import DuneVerif.Model.C10Prog
import DuneVerif.Model.C10Hist
import DuneVerif.Model.C10Mem
/-! line-protocol driver for C10:  `<k> <op> <hexA> [<hexB>|<dec>]`
    and histories  `<k> prog <hexA> <hexB> : stmt;stmt;…`  (statements of Model/C10Prog.lean and, round four,
    Model/C10Hist.lean: `m<op> d ty y` (d = d op y), `r<op> d ty y` (d = y op d), `c<op> d ty y` (d op= y) with a
    built-in `y` of type ty ∈ i8 i16 i32 i64 u8 u16 u32 u64 bool; `lt|le|gt|ge|eq|ne x y`; `ltb|…|neb x ty y`;
    `touint x`) -/
open DV DV.C10 DV.C10.Gen

def showV (a : List Nat) : String := String.ofList (print a)
def showB (b : Bool) : String := if b then "true" else "false"
def showR : Res → String
  | .ok v => showV v
  | .mathError => "ERR:Math"


/-- quotient above which a program's `/=`/`%=` is not executed (the real algorithm and the model are O(quotient));
    the harness applies the same rule with its GMP shadow -/
def quotCap : Nat := 2000

def parseReg? : String → Option Reg
  | "a" => some .a
  | "b" => some .b
  | _ => none

def parseBin? : String → Option BinOp
  | "add" => some .add | "sub" => some .sub | "mul" => some .mul | "div" => some .div | "mod" => some .mod
  | "and" => some .band | "or" => some .bor | "xor" => some .bxor
  | _ => none

def parseTy? : String → Option IntTy
  | "i8" => some ⟨true, 8⟩ | "i16" => some ⟨true, 16⟩ | "i32" => some ⟨true, 32⟩ | "i64" => some ⟨true, 64⟩
  | "u8" => some ⟨false, 8⟩ | "u16" => some ⟨false, 16⟩ | "u32" => some ⟨false, 32⟩ | "u64" => some ⟨false, 64⟩
  | "bool" => some ⟨false, 1⟩
  | _ => none

def parseStmt? (s : String) : Option POp :=
  match tokens s with
  | ["incr", d] => (parseReg? d).map .incr
  | ["not", d] => (parseReg? d).map .bnot
  | ["copy", d, s] => do some (.copy (← parseReg? d) (← parseReg? s))
  | ["shl", d, n] => do some (.shl (← parseReg? d) (← n.toNat?))
  | ["shr", d, n] => do some (.shr (← parseReg? d) (← n.toNat?))
  | [o, d, x] =>
    if o.endsWith "u" then do
      some (.binU (← parseBin? (String.ofList o.toList.dropLast)) (← parseReg? d) (← x.toNat?))
    else do
      some (.bin (← parseBin? o) (← parseReg? d) (← parseReg? x))
  | _ => none

def parseCmp? : String → Option Cmp
  | "lt" => some .lt | "le" => some .le | "gt" => some .gt | "ge" => some .ge | "eq" => some .eq | "ne" => some .ne
  | _ => none

/-- a built-in operand must be a value of its type (the harness cannot pass anything else) -/
def parseBuiltin? (ty x : String) : Option (IntTy × Int) := do
  let t ← parseTy? ty
  let y ← x.toInt?
  if t.holds y then some (t, y) else none

def parseStmt4? (s : String) : Option Stmt :=
  match tokens s with
  | ["touint", x] => (parseReg? x).map .touint
  | [c, x, y] =>
    match parseCmp? c with
    | some c => do some (.cmp c (← parseReg? x) (← parseReg? y))
    | none => (parseStmt? s).map .old
  | [o, d, ty, y] =>
    let cs := o.toList
    match cs with
    | 'm' :: rest => do
      let (t, y) ← parseBuiltin? ty y
      some (.mixed (← parseBin? (String.ofList rest)) (← parseReg? d) t y true)
    | 'r' :: rest => do
      let (t, y) ← parseBuiltin? ty y
      some (.mixed (← parseBin? (String.ofList rest)) (← parseReg? d) t y false)
    | 'c' :: rest => do
      let (t, y) ← parseBuiltin? ty y
      some (.compound (← parseBin? (String.ofList rest)) (← parseReg? d) t y)
    | _ =>
      if o.endsWith "b" then do
        let (t, y) ← parseBuiltin? ty y
        some (.cmpB (← parseCmp? (String.ofList cs.dropLast)) (← parseReg? d) t y)
      else none
  | _ => (parseStmt? s).map .old

/-- does this statement run the subtraction loop more than `quotCap` times? -/
def tooSlow (n : Nat) (r : Regs) : POp → Bool
  | .bin o d s => (o == .div || o == .mod) && val (r.get s) != 0 && val (r.get d) / val (r.get s) > quotCap
  | .binU o d y =>
    (o == .div || o == .mod) && val (assign n y) != 0 && val (r.get d) / val (assign n y) > quotCap
  | _ => false

def tooSlow4 (n : Nat) (r : Regs) : Stmt → Bool
  | .old op => tooSlow n r op
  | .mixed o d t y bl =>
    (o == .div || o == .mod) && decide (0 ≤ y) &&
      (let c := val (assign n y.toNat)
       let x := val (r.get d)
       let (num, den) := if (mixedBody t.signed bl o).any (·.bigLeft) then (x, c) else (c, x)
       den != 0 && num / den > quotCap)
  | .compound o d _ y =>
    (o == .div || o == .mod) && decide (0 ≤ y) && val (assign n y.toNat) != 0 &&
      val (r.get d) / val (assign n y.toNat) > quotCap
  | _ => false

def showObs : Obs → String
  | .val v => showV v
  | .mathError => "ERR:Math"
  | .negative => "ERR:Negative"
  | .bool b => showB b
  | .num x => toString x

/-- `run4` of the model, statement by statement, stopping with `SKIP` at a too slow division -/
def runProg (k : Nat) : Regs → List Stmt → List String → String
  | r, [], acc => ";".intercalate acc.reverse ++ " => " ++ showV r.a ++ " " ++ showV r.b
  | r, st :: sts, acc =>
    if tooSlow4 (ndigits k) r st then ";".intercalate ("SKIP" :: acc).reverse
    else match stepMem k r st with   -- `d op= s` on the store of d (Model/C10Mem.lean), everything else as `step4`
      | none => "bad-op"
      | some (r', o) => runProg k r' sts (showObs o :: acc)

def handleProg (line : String) : Option String :=
  match line.splitOn " : " with
  | [head, body] =>
    match tokens head with
    | [ks, "prog", a, b] => do
      let k ← ks.toNat?
      let n := ndigits k
      let a ← parseHex? a
      let b ← parseHex? b
      let stmts ← (body.splitOn ";").mapM parseStmt4?
      some (runProg k ⟨ofNat n a, ofNat n b⟩ stmts [])
    | _ => none
  | _ => none

def handle (line : String) : String :=
  if ((tokens line).drop 1).head? == some "prog" then (handleProg line).getD "bad-op" else
  match tokens line with
  | ks :: op :: rest =>
    match ks.toNat? with
    | none => "bad-op"
    | some k =>
      let n := ndigits k
      let big (s : String) : Option (List Nat) := (parseHex? s).map (ofNat n)
      let bin (f : List Nat → List Nat → String) : String :=
        match rest with
        | [a, b] => match big a, big b with
          | some a, some b => f a b
          | _, _ => "bad-op"
        | _ => "bad-op"
      -- big OP builtin / builtin OP big: the free mixed operators, through the regenerated table `mixedBody`.
      -- The harness passes the built-in as `int` when it is below 2^31 and divisible by 3 (signed overloads),
      -- otherwise as an unsigned type (uintmax_t overloads).
      let mixedOp (o : BinOp) (bigLeft : Bool) : String :=
        match rest with
        | [p, q] =>
          let (bs, ys) := if bigLeft then (p, q) else (q, p)
          match big bs, ys.toNat? with
          | some a, some y =>
            if y < 2^64 then
              let t : IntTy := if y < 2^31 ∧ y % 3 = 0 then ⟨true, 32⟩ else ⟨false, 64⟩
              match step4 k ⟨a, a⟩ (.mixed o .a t (Int.ofNat y) bigLeft) with
              | some (_, obs) => showObs obs
              | none => "bad-op"
            else "bad-op"
          | _, _ => "bad-op"
        | _ => "bad-op"
      let un (f : List Nat → String) : String :=
        match rest with
        | [a] => match big a with
          | some a => f a
          | _ => "bad-op"
        | _ => "bad-op"
      let sh (f : List Nat → Nat → List Nat) : String :=
        match rest with
        | [a, s] => match big a, s.toNat? with
          | some a, some s => if s < bits * n then showV (f a s) else "bad-op"
          | _, _ => "bad-op"
        | _ => "bad-op"
      let arith (pre : (List Nat → List Nat → String) → String) (o : String) : String :=
        match o with
        | "add" => pre fun a b => showV (add a b)
        | "sub" => pre fun a b => showV (sub a b)
        | "mul" => pre fun a b => showV (mul k a b)
        | "div" => pre fun a b => showR (div a b)
        | "mod" => pre fun a b => showR (mod a b)
        | _ => "bad-op"
      match op with
      | "add" | "sub" | "mul" | "div" | "mod" => arith bin op
      | "add_u" => mixedOp .add true | "sub_u" => mixedOp .sub true | "mul_u" => mixedOp .mul true
      | "div_u" => mixedOp .div true | "mod_u" => mixedOp .mod true
      | "u_add" => mixedOp .add false | "u_sub" => mixedOp .sub false | "u_mul" => mixedOp .mul false
      | "u_div" => mixedOp .div false | "u_mod" => mixedOp .mod false
      | "and" => bin fun a b => showV (band a b)
      | "or" => bin fun a b => showV (bor a b)
      | "xor" => bin fun a b => showV (bxor a b)
      | "not" => un fun a => showV (bnot a)
      | "incr" => un fun a => showV (incr a)
      | "shl" => sh shl
      | "shr" => sh shr
      | "lt" => bin fun a b => showB (lt a b)
      | "le" => bin fun a b => showB (le a b)
      | "gt" => bin fun a b => showB (gt a b)
      | "ge" => bin fun a b => showB (ge a b)
      | "eq" => bin fun a b => showB (eq a b)
      | "ne" => bin fun a b => showB (ne a b)
      -- the harness canonicalises unequal values to `false` (their hashes may or may not collide; not a property)
      | "hasheq" => bin fun a b => showB (a == b && C10.hash a == C10.hash b)
      | "assign" => match rest with
        | [x] => match x.toInt? with
          | some x =>
            -- the harness takes the signed constructor for odd values below 2^63 and for negatives
            if x < 0 ∨ (x < 2^63 ∧ x % 2 = 1) then
              match ofSigned n x with
              | .ok v => showV v
              | .negative => "ERR:Negative"
            else if x < 2^64 then showV (assign n x.toNat) else "bad-op"
          | none => "bad-op"
        | _ => "bad-op"
      | "touint" => un fun a => toString (touint a)
      | "todouble" => un fun a => toString (todoubleN a)
      | "print" => un fun a => String.ofList (printCanon a)
      -- `printfl <mask> <hex>`: print() into a stream with format flags set; the flags take no part
      | "printfl" => match rest with
        | [m, a] => match m.toNat?, big a with
          | some m, some a => if m < 64 then String.ofList (printCanon a) else "bad-op"
          | _, _ => "bad-op"
        | _ => "bad-op"
      | "max" => showV (maxVal n)
      | "digits" => toString (limitsDigits k)
      | "limits" => s!"digits={limitsDigits k} radix={limitsRadix} signed={showB limitsIsSigned} integer={showB limitsIsInteger} exact={showB limitsIsExact} bounded={showB limitsIsBounded} modulo={showB limitsIsModulo} specialized={showB limitsIsSpecialized} exponents={",".intercalate (limitsExponents.map toString)} infinity={showB limitsHasInfinity} qnan={showB limitsHasQuietNaN} snan={showB limitsHasSignalingNaN} denormloss={showB limitsHasDenormLoss} iec559={showB limitsIsIec559} traps={showB limitsTraps} tinyness={showB limitsTinynessBefore}"
      -- `mpi A B C`: what MPITraits<bigunsignedint<k>>::getType() (regenerated description) transports
      | "mpi" => match rest with
        | [a, b, c] => match big a, big b, big c with
          | some a, some b, some c =>
            let bytes := mpiBlocks * mpiCount k * mpiElemBits / 8
            s!"size={bytes} extent={bits * n / 8} [{showV a},{showV b},{showV c}]"
          | _, _, _ => "bad-op"
        | _ => "bad-op"
      | "default" => match rest with
        | [] => showV (assign n 0)
        | _ => "bad-op"
      | "ctor" => match rest with
        | [ty, x] => match parseTy? ty, x.toInt? with
          | some t, some y =>
            if t.holds y then
              match construct n t y with
              | .ok v => showV v
              | .negative => "ERR:Negative"
            else "bad-op"
          | _, _ => "bad-op"
        | _ => "bad-op"
      | _ => "bad-op"
  | _ => "bad-op"

def main : IO Unit := runDriver handle
