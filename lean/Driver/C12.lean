import DuneVerif.Model.C12
/-!
line-protocol driver for C12.  Byte strings travel as lower-case hex (`-` = empty string).

  ini <ow> <pre> <doc>                      readINITree(pre, overwrite) into an empty tree, then readINITree(doc, ow)
  rt <ow> : item;item;…                     the same for documents given as items of the documented dialect
                                            (`P` separates the first source from the second), rendered by `renderDoc`
       B,ws | C,ws,text | H,ws1,ws2,p,ws3,junk | A,ws1,key,ws2,ws3,q,value,ws4,cmt     q ∈ n|s|d, cmt ∈ n|c<hex>
  bads <ow> <n> <pre> <doc>                 readINITree(pre) into an empty tree, then readINITree(doc, ow) from a stream that delivers
                                            n bytes of doc and then fails (badbit)
  hostile <doc>                             arbitrary bytes: the only claim is "returns or throws a Dune exception";
                                            the answer is the constant `done` (no model comparison for this stream)
  opt <pre> <arg>…                          readOptions, argv[1..]
  nopt <required> <allowMore> <ow> <pre> <nkw> <kw>… <arg>…      readNamedOptions
  get <T> <text>                            pt["k"]=text; pt.get<T>("k")   (`noclaim` for a negative literal with an unsigned T)
  shw <int>                                 decimal text of a built-in integer
  tq <key>=<value>,… : probe;probe;…        tree built with operator[] (`<key>=@`: non-const sub(key)), then hk|hs|gs|sk|skf <key>, gd|gi <key> <default>
-/
open DV DV.C12

def hx (s : Str) : String :=
  if s = [] then "-" else String.ofList (s.flatMap fun c => [hexChar (c.toNat / 16), hexChar (c.toNat % 16)])

def unhexGo : List Char → Option Str
  | [] => some []
  | [_] => none
  | a :: b :: r =>
    match hexDigitVal? a, hexDigitVal? b, unhexGo r with
    | some x, some y, some t => some (Char.ofNat (x * 16 + y) :: t)
    | _, _, _ => none

def unhex (s : String) : Option Str := if s = "-" then some [] else if s = "" then none else unhexGo s.toList

def showB (b : Bool) : String := if b then "true" else "false"
def showErr : Err → String
  | .range => "ERR:Range"
  | .parser => "ERR:Parser"
  | .help => "ERR:Help"
  | .io => "ERR:IO"
  | .fuel => "ERR:Fuel"

-- the tree as seen through getValueKeys / getSubKeys / operator[] const / sub() const
mutual
def dumpTree : Tree → String
  | .node vals subs =>
    "{" ++ ",".intercalate (vals.map fun kv =>
        hx kv.1 ++ "=" ++ (if aHas kv.1 subs then "!" else hx kv.2))
      ++ "|" ++ dumpSubs vals subs ++ "}"
def dumpSubs (vals : List (Str × Str)) : List (Str × Tree) → String
  | [] => ""
  | (n, t) :: r =>
    hx n ++ (if aHas n vals then "!" else dumpTree t) ++ (if r.isEmpty then "" else "," ++ dumpSubs vals r)
end

def showRes : Except Err Tree → String
  | .ok t => dumpTree t
  | .error e => showErr e

def parseBoolTok (s : String) : Option Bool := if s = "1" then some true else if s = "0" then some false else none

def twoDocs (ow : Bool) (pre doc : Str) : Except Err Tree :=
  match parseINI pre .empty true with
  | .error e => .error e
  | .ok t => parseINI doc t ow

def parseItem (s : String) : Option Item :=
  match s.splitOn "," with
  | ["B", ws] => (unhex ws).map .blank
  | ["C", ws, t] => do pure (.comment (← unhex ws) (← unhex t))
  | ["H", a, b, p, c, j] => do pure (.header (← unhex a) (← unhex b) (← unhex p) (← unhex c) (← unhex j))
  | ["A", a, k, b, c, q, v, d, cm] => do
    let q ← (if q = "n" then some none else if q = "s" then some (some '\'') else if q = "d" then some (some '"') else none)
    let cm ← (if cm = "n" then some none else
      match cm.toList with
      | 'c' :: r => (unhex (String.ofList r)).map some
      | _ => none)
    pure (.assign (← unhex a) (← unhex k) (← unhex b) (← unhex c) q (← unhex v) (← unhex d) cm)
  | _ => none

/-- split the item list at the first `P` -/
def splitP : List String → List String × List String
  | [] => ([], [])
  | x :: r => if x = "P" then ([], r) else let (a, b) := splitP r; (x :: a, b)

def intTy? (s : String) : Option IntTy :=
  match s with
  | "int" => some ⟨true, 32⟩ | "uint" => some ⟨false, 32⟩
  | "long" => some ⟨true, 64⟩ | "ulong" => some ⟨false, 64⟩
  | "lng" => some ⟨true, 64⟩ | "ulng" => some ⟨false, 64⟩
  | "short" => some ⟨true, 16⟩ | "ushort" => some ⟨false, 16⟩
  | _ => none

def showOpt (f : α → String) : Option α → String
  | none => "ERR:Range"
  | some v => f v
def showDbl (bits : Nat) : String :=
  let h := toHex bits
  "d:" ++ String.ofList (List.replicate (16 - h.length) '0') ++ h
def showFlt (bits : Nat) : String :=
  let h := toHex bits
  "f:" ++ String.ofList (List.replicate (8 - h.length) '0') ++ h
def showChr (c : Char) : String := "c:" ++ hx [c]
def showFltL (l : List Nat) : String := "[" ++ ",".intercalate (l.map showFlt) ++ "]"
def showChrL (l : List Char) : String := "[" ++ ",".intercalate (l.map showChr) ++ "]"
def showIntL (l : List Int) : String := showList l
def showStrL (l : List Str) : String := "[" ++ ",".intercalate (l.map hx) ++ "]"
def showBoolL (l : List Bool) : String := "[" ++ ",".intercalate (l.map showB) ++ "]"
def showDblL (l : List Nat) : String := "[" ++ ",".intercalate (l.map showDbl) ++ "]"

/-- `xyN` → (`xy`, N) -/
def splitSuffixNat (s : String) : Option (String × Nat) :=
  let cs := s.toList
  let pre := cs.takeWhile (fun c => !c.isDigit)
  let suf := cs.dropWhile (fun c => !c.isDigit)
  if suf.isEmpty then none else (String.ofList suf).toNat?.map fun n => (String.ofList pre, n)

/-- a negative literal for an unsigned target: not claimed, not compared (the harness prints the same token) -/
def noClaim (ty : String) (text : Str) : Bool :=
  (ty == "uint" || ty == "ulong" || ty == "ulng" || ty == "ushort" || ty == "vu" || ty.startsWith "au") && text.contains '-'

def getOp (ty : String) (text : Str) : String :=
  if noClaim ty text then "noclaim" else
  match intTy? ty with
  | some t => showOpt toString (parseInt t text)
  | none =>
    match ty with
    | "bool" => showOpt showB (parseBool text)
    | "str" => "s:" ++ hx (parseString text)
    | "dbl" => showOpt showDbl (parseDouble text)
    | "flt" => showOpt showFlt (parseFloat text)
    | "chr" => showOpt showChr (parseScalar extractChar text)
    | "schr" => showOpt showChr (parseScalar extractChar text)
    | "uchr" => showOpt showChr (parseScalar extractChar text)
    | "vf" => showOpt showFltL (parseVector parseFloat text)
    | "vc" => showOpt showChrL (parseVector (parseScalar extractChar) text)
    | "vi" => showOpt showIntL (parseVector (parseInt ⟨true, 32⟩) text)
    | "vu" => showOpt showIntL (parseVector (parseInt ⟨false, 32⟩) text)
    | "vb" => showOpt showBoolL (parseVector parseBool text)
    | "vs" => showOpt showStrL (parseVector (fun s => some (parseString s)) text)
    | "vd" => showOpt showDblL (parseVector parseDouble text)
    | _ =>
      match splitSuffixNat ty with
      | some ("ai", n) => showOpt showIntL (parseRange (extractInt ⟨true, 32⟩) n text)
      | some ("fi", n) => showOpt showIntL (parseRange (extractInt ⟨true, 32⟩) n text)
      | some ("au", n) => showOpt showIntL (parseRange (extractInt ⟨false, 32⟩) n text)
      | some ("as", n) => showOpt showStrL (parseRange extractWord n text)
      | some ("ad", n) => showOpt showDblL (parseRange extractDouble n text)
      | some ("fd", n) => showOpt showDblL (parseRange extractDouble n text)
      | some ("af", n) => showOpt showFltL (parseRange extractFloat n text)
      | some ("ac", n) => showOpt showChrL (parseRange extractChar n text)
      | some ("bs", n) => showOpt showBoolL (parseBitset n text)
      | some ("ab", n) => showOpt showBoolL (parseRange extractBool01 n text)
      | _ => "bad-op"

/-- `key=value` (operator[] assignment) or `key=@` (non-const `sub(key)`) -/
def parseKV (s : String) : Option (Str × Option Str) :=
  match s.splitOn "=" with
  | [k, v] => if v = "@" then do pure (← unhex k, none) else do pure (← unhex k, some (← unhex v))
  | _ => none

def buildTree : List (Str × Option Str) → Tree → Except Err Tree
  | [], t => .ok t
  | (k, v) :: r, t =>
    match (match v with | some v => t.set k v | none => t.mkSub k) with
    | .error e => .error e
    | .ok t' => buildTree r t'

def showExB : Except Err Bool → String
  | .ok b => showB b
  | .error e => showErr e

def probe (t : Tree) (p : String) : String :=
  match tokens p with
  | ["hk", k] => match unhex k with | some k => showExB (t.hasKey k) | none => "bad-op"
  | ["hs", k] => match unhex k with | some k => showExB (t.hasSub k) | none => "bad-op"
  | ["gs", k] => match unhex k with
    | some k => (match t.get? k with | some v => hx v | none => "ERR:Range")
    | none => "bad-op"
  | ["sk", k] => match unhex k with | some k => showRes (t.sub k false) | none => "bad-op"
  | ["skf", k] => match unhex k with | some k => showRes (t.sub k true) | none => "bad-op"
  | ["gd", k, d] => match unhex k, unhex d with
    | some k, some d => (match t.getD (fun s => some s) k d with | .ok v => hx v | .error e => showErr e)
    | _, _ => "bad-op"
  | ["gi", k, d] => match unhex k, d.toInt? with
    | some k, some d => (match t.getD (parseInt ⟨true, 32⟩) k d with | .ok v => toString v | .error e => showErr e)
    | _, _ => "bad-op"
  | _ => "bad-op"

def handle (line : String) : String :=
  let (head, tail) : String × Option String :=
    match line.splitOn " : " with
    | [h] => (h, none)
    | [h, t] => (h, some t)
    | _ => ("", none)
  match tokens head, tail with
  | ["ini", ow, pre, doc], none =>
    match parseBoolTok ow, unhex pre, unhex doc with
    | some ow, some pre, some doc => showRes (twoDocs ow pre doc)
    | _, _, _ => "bad-op"
  | ["rt", ow], some t =>
    match parseBoolTok ow with
    | none => "bad-op"
    | some ow =>
      let toks := (t.splitOn ";").filter (· ≠ "")
      let (a, b) := if toks.contains "P" then splitP toks else ([], toks)
      match a.mapM parseItem, b.mapM parseItem with
      | some pre, some main =>
        let d1 := renderDoc pre
        let d2 := renderDoc main
        "wf=" ++ showB ((pre ++ main).all Item.wf) ++ " pre=" ++ hx d1 ++ " doc=" ++ hx d2 ++ " " ++ showRes (twoDocs ow d1 d2)
      | _, _ => "bad-op"
  | ["bads", ow, n, pre, doc], none =>
    match parseBoolTok ow, n.toNat?, unhex pre, unhex doc with
    | some ow, some n, some pre, some doc =>
      (match parseINI pre .empty true with
       | .error e => showErr e
       | .ok t => showRes (parseBad doc n t ow))
    | _, _, _, _ => "bad-op"
  | ["hostile", doc], none => match unhex doc with | some _ => "done" | none => "bad-op"
  | "opt" :: pre :: args, none =>
    match unhex pre, args.mapM unhex with
    | some pre, some args =>
      (match parseINI pre .empty true with
       | .error e => showErr e
       | .ok t => showRes (readOptions args t))
    | _, _ => "bad-op"
  | "nopt" :: req :: am :: ow :: pre :: nkw :: rest, none =>
    match req.toNat?, parseBoolTok am, parseBoolTok ow, unhex pre, nkw.toNat? with
    | some req, some am, some ow, some pre, some nkw =>
      if rest.length < nkw then "bad-op" else
      match (rest.take nkw).mapM unhex, (rest.drop nkw).mapM unhex with
      | some kws, some args =>
        (match parseINI pre .empty true with
         | .error e => showErr e
         | .ok t => showRes (readNamedOptions args t kws req am ow))
      | _, _ => "bad-op"
    | _, _, _, _, _ => "bad-op"
  | ["get", ty, text], none => match unhex text with | some text => getOp ty text | none => "bad-op"
  | ["shw", n], none => match n.toInt? with | some n => hx (showInt n) | none => "bad-op"
  | ["tq", kvs], some t =>
    match (if kvs = "-" then some [] else (kvs.splitOn ",").mapM parseKV) with
    | none => "bad-op"
    | some kvs =>
      match buildTree kvs .empty with
      | .error e => showErr e
      | .ok tree => ",".intercalate (((t.splitOn ";").filter (· ≠ "")).map (probe tree))
  | _, _ => "bad-op"

def main : IO Unit := runDriver handle
