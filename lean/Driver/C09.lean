import DuneVerif.Common.Proto
import DuneVerif.Model.C09
import DuneVerif.Model.C09LU
import DuneVerif.Model.C09LUT
import DuneVerif.Model.C09X
import DuneVerif.Model.C09K
/-! line-protocol driver for C09 (see harness/cxx_c09.cc for the op lines).

Scalar types of the correspondence: `i32`/`i64` as exact `Int` with the range of the C++ type (an operation
whose result leaves the range, divides by zero or shifts out of range is `invalid` — the harness never executes
undefined behaviour), `b` as `Bool` with the C++ promotion to `int`, `f64`/`f32` as Lean's `Float`/`Float32`
(IEEE binary64/binary32 `+ - * /`, comparisons, `fabs`; values travel as bit patterns, every NaN as the canonical
quiet NaN).  The cmath functions are *uninterpreted*: the op line carries the table of the scalar function on the
operand values, the model applies it through the translated loop. -/
open DV DV.C09 DV.C09.Gen

namespace C09Driver

/-- a scalar value together with its C++ type: the scalar operand of `v @ s` / `s @ v` may have another arithmetic type
    than the lanes (`binx` cases) -/
inductive IntTy where
  | b | i16 | i32 | u32 | i64
  deriving DecidableEq

inductive Num where
  | int (t : IntTy) (v : Int)
  | f32 (x : Float32)
  | f64 (x : Float)

/-- what the driver needs of a scalar type -/
structure Sem (α : Type) where
  parse : String → Option α
  «show» : α → String
  bin : BinOp → Option (α → α → Option α)        -- outer none: the expression does not exist for the type
  shift : ShiftOp → Option (α → α → Option α)
  cmp : CmpOp → α → α → Bool
  truth : α → Bool
  un : UnOp → Option (α → Option α)
  inc : IncOp → Option (α → Option α)
  zero : α
  classify : Option (α → Bool × Bool × Bool)     -- (isNaN, isInf, isFinite) for floating point
  toNum : α → Num
  ofNum : Num → Option α                          -- the implicit conversion `U → T` of C++ (x86-64 for float → integer)
  shiftI : ShiftOp → Option (α → Int → Option α)  -- shift by a count of another integer type

def hexPad (digits : Nat) (n : Nat) : String :=
  let h := (toHex n).toList
  "x" ++ String.ofList (List.replicate (digits - h.length) '0' ++ h)

def parseHexTok (s : String) : Option Nat :=
  match s.toList with
  | 'x' :: rest => parseHex? (String.ofList rest)
  | _ => none

-- integers ----------------------------------------------------------------------------------------------

/-- truncation toward zero of a finite value inside the range of `long` (`cvttsd2si`); `none` = "integer indefinite" -/
def truncF (x : Float) : Option Int :=
  if x.isNaN then none
  else if x ≥ 9223372036854775808.0 || x < -9223372036854775808.0 then none
  else some x.toInt64.toInt

/-- `float/double → signed integer of w bits` as x86-64 does it (out of range: the most negative value) -/
def fpToSigned (w : Nat) (x : Float) : Int :=
  match truncF x with
  | some t => if -(2 : Int) ^ (w - 1) ≤ t ∧ t < (2 : Int) ^ (w - 1) then t else -(2 : Int) ^ (w - 1)
  | none => -(2 : Int) ^ (w - 1)

def Num.truth : Num → Bool
  | .int _ v => v ≠ 0
  | .f32 x => !(x == 0)
  | .f64 x => !(x == 0)
def Num.toF64 : Num → Float
  | .int _ v => Float.ofInt v
  | .f32 x => x.toFloat
  | .f64 x => x
def Num.toF32 : Num → Float32
  | .int _ v => Float32.ofInt v
  | .f32 x => x
  | .f64 x => x.toFloat32
/-- integral promotion: `bool`, `short` → `int` -/
def Num.promote : Num → Num
  | .int .b v => .int .i32 v
  | .int .i16 v => .int .i32 v
  | n => n

def inRange (w : Nat) (x : Int) : Option Int :=
  if -(2 : Int) ^ (w - 1) ≤ x ∧ x < (2 : Int) ^ (w - 1) then some x else none

def toU (w : Nat) (x : Int) : Nat := (x % (2 : Int) ^ w).toNat
def ofU (w : Nat) (n : Nat) : Int := if n < 2 ^ (w - 1) then (n : Int) else (n : Int) - (2 : Int) ^ w

def intBin (w : Nat) : BinOp → Int → Int → Option Int
  | .add, a, b => inRange w (a + b)
  | .sub, a, b => inRange w (a - b)
  | .mul, a, b => inRange w (a * b)
  | .div, a, b => if b = 0 then none else inRange w (Int.tdiv a b)
  | .mod, a, b => if b = 0 ∨ (a = -(2 : Int) ^ (w - 1) ∧ b = -1) then none else some (Int.tmod a b)
  | .band, a, b => some (ofU w (Nat.land (toU w a) (toU w b)))
  | .bor, a, b => some (ofU w (Nat.lor (toU w a) (toU w b)))
  | .bxor, a, b => some (ofU w (Nat.xor (toU w a) (toU w b)))

def intShift (w : Nat) : ShiftOp → Int → Int → Option Int
  | .shl, a, b => if 0 ≤ b ∧ b < w ∧ 0 ≤ a then inRange w (a * (2 : Int) ^ b.toNat) else none
  | .shr, a, b => if 0 ≤ b ∧ b < w then some (Int.shiftRight a b.toNat) else none

def intCmp : CmpOp → Int → Int → Bool
  | .lt, a, b => a < b | .gt, a, b => a > b | .le, a, b => a ≤ b | .ge, a, b => a ≥ b
  | .eq, a, b => a = b | .ne, a, b => a ≠ b

def intUn (w : Nat) : UnOp → Int → Option Int
  | .pos, a => some a
  | .neg, a => inRange w (-a)
  | .bnot, a => some (-a - 1)

def intInc (w : Nat) : IncOp → Int → Option Int
  | .inc, a => inRange w (a + 1)
  | .dec, a => inRange w (a - 1)

def semInt (w : Nat) : Sem Int where
  parse := fun s => (s.toInt?).bind (inRange w)
  «show» := toString
  bin := fun op => some (intBin w op)
  shift := fun op => some (intShift w op)
  cmp := intCmp
  truth := fun a => a ≠ 0
  un := fun op => some (intUn w op)
  inc := fun op => some (intInc w op)
  zero := 0
  classify := none
  toNum := fun a => .int (if w = 64 then .i64 else .i32) a
  ofNum := fun n => match n with
    | .int _ v => some (ofU w (toU w v))
    | .f64 x => some (fpToSigned w x)
    | .f32 x => some (fpToSigned w x.toFloat)
  shiftI := fun op => some (intShift w op)

-- short: computed in `int` (integer promotion), converted back to 16 bits (wraps) -----------------------------

def wrapS (w : Nat) (x : Int) : Int := ofU w (toU w x)

def semI16 : Sem Int where
  parse := fun s => (s.toInt?).bind (inRange 16)
  «show» := toString
  bin := fun op => some fun a b => (intBin 32 op a b).map (wrapS 16)
  shift := fun op => some fun a b => (intShift 32 op a b).map (wrapS 16)
  cmp := intCmp
  truth := fun a => a ≠ 0
  un := fun op => some fun a => (intUn 32 op a).map (wrapS 16)
  inc := fun op => some fun a => (intInc 32 op a).map (wrapS 16)
  zero := 0
  classify := none
  toNum := fun a => .int .i16 a
  ofNum := fun n => match n with
    | .int _ v => some (wrapS 16 v)
    | .f64 x => some (wrapS 16 (fpToSigned 32 x))
    | .f32 x => some (wrapS 16 (fpToSigned 32 x.toFloat))
  shiftI := fun op => some fun a c => (intShift 32 op a c).map (wrapS 16)

-- unsigned: arithmetic modulo 2^w -----------------------------------------------------------------------------

def wrapU (w : Nat) (x : Int) : Int := (toU w x : Nat)

def uintBin (w : Nat) : BinOp → Int → Int → Option Int
  | .add, a, b => some (wrapU w (a + b))
  | .sub, a, b => some (wrapU w (a - b))
  | .mul, a, b => some (wrapU w (a * b))
  | .div, a, b => if b = 0 then none else some (a / b)
  | .mod, a, b => if b = 0 then none else some (a % b)
  | .band, a, b => some (Nat.land a.toNat b.toNat : Nat)
  | .bor, a, b => some (Nat.lor a.toNat b.toNat : Nat)
  | .bxor, a, b => some (Nat.xor a.toNat b.toNat : Nat)

def uintShift (w : Nat) : ShiftOp → Int → Int → Option Int
  | .shl, a, b => if b < w then some (wrapU w (a * (2 : Int) ^ b.toNat)) else none
  | .shr, a, b => if b < w then some (a / (2 : Int) ^ b.toNat) else none

def semUInt (w : Nat) : Sem Int where
  parse := fun s => (s.toInt?).bind fun x => if 0 ≤ x ∧ x < (2 : Int) ^ w then some x else none
  «show» := toString
  bin := fun op => some (uintBin w op)
  shift := fun op => some (uintShift w op)
  cmp := intCmp
  truth := fun a => a ≠ 0
  un := fun op => some fun a => match op with
    | .pos => some a
    | .neg => some (wrapU w (-a))
    | .bnot => some ((2 : Int) ^ w - 1 - a)
  inc := fun op => some fun a => match op with
    | .inc => some (wrapU w (a + 1))
    | .dec => some (wrapU w (a - 1))
  zero := 0
  classify := none
  toNum := fun a => .int .u32 a
  ofNum := fun n => match n with
    | .int _ v => some (wrapU w v)
    | .f64 x => some (wrapU w (fpToSigned 64 x))
    | .f32 x => some (wrapU w (fpToSigned 64 x.toFloat))
  shiftI := fun op => some fun a c => if 0 ≤ c then uintShift w op a c else none

-- bool: promoted to int, result converted back ------------------------------------------------------------

def b2i (b : Bool) : Int := if b then 1 else 0

def semBool : Sem Bool where
  parse := fun s => if s = "1" then some true else if s = "0" then some false else none
  «show» := fun b => if b then "1" else "0"
  bin := fun op => some fun a b => (intBin 32 op (b2i a) (b2i b)).map (· ≠ 0)
  shift := fun op => some fun a b => (intShift 32 op (b2i a) (b2i b)).map (· ≠ 0)
  cmp := fun op a b => intCmp op (b2i a) (b2i b)
  truth := id
  un := fun op => some fun a => (intUn 32 op (b2i a)).map (· ≠ 0)
  inc := fun _ => none
  zero := false
  classify := none
  toNum := fun a => .int .b (b2i a)
  ofNum := fun n => some n.truth
  shiftI := fun op => some fun a c => (intShift 32 op (b2i a) c).map (· ≠ 0)

-- floating point -------------------------------------------------------------------------------------------

def semF64 : Sem Float where
  parse := fun s => match parseHexTok s with
    | some n => if n < 2 ^ 64 then some (Float.ofBits (UInt64.ofNat n)) else none
    | none => s.toInt?.map Float.ofInt
  «show» := fun x => hexPad 16 x.toBits.toNat
  bin := fun op => match op with
    | .add => some fun a b => some (a + b) | .sub => some fun a b => some (a - b)
    | .mul => some fun a b => some (a * b) | .div => some fun a b => some (a / b)
    | _ => none
  shift := fun _ => none
  cmp := fun op a b => match op with
    | .lt => a < b | .gt => a > b | .le => a ≤ b | .ge => a ≥ b | .eq => a == b | .ne => !(a == b)
  truth := fun a => !(a == 0)
  un := fun op => match op with | .pos => some fun a => some a | .neg => some fun a => some (-a) | .bnot => none
  inc := fun op => match op with | .inc => some fun a => some (a + 1) | .dec => some fun a => some (a - 1)
  zero := 0
  classify := some fun a => (a.isNaN, a.isInf, a.isFinite)
  toNum := fun a => .f64 a
  ofNum := fun n => some n.toF64
  shiftI := fun _ => none

def semF32 : Sem Float32 where
  parse := fun s => match parseHexTok s with
    | some n => if n < 2 ^ 32 then some (Float32.ofBits (UInt32.ofNat n)) else none
    | none => s.toInt?.map Float32.ofInt
  «show» := fun x => hexPad 8 x.toBits.toNat
  bin := fun op => match op with
    | .add => some fun a b => some (a + b) | .sub => some fun a b => some (a - b)
    | .mul => some fun a b => some (a * b) | .div => some fun a b => some (a / b)
    | _ => none
  shift := fun _ => none
  cmp := fun op a b => match op with
    | .lt => a < b | .gt => a > b | .le => a ≤ b | .ge => a ≥ b | .eq => a == b | .ne => !(a == b)
  truth := fun a => !(a == 0)
  un := fun op => match op with | .pos => some fun a => some a | .neg => some fun a => some (-a) | .bnot => none
  inc := fun op => match op with | .inc => some fun a => some (a + 1) | .dec => some fun a => some (a - 1)
  zero := 0
  classify := some fun a => (a.isNaN, a.isInf, a.isFinite)
  toNum := fun a => .f32 a
  ofNum := fun n => some n.toF32
  shiftI := fun _ => none

-- scalar operand of another arithmetic type: the built-in mixed-type operations of C++ -----------------------------

def parseNum (ty tok : String) : Option Num :=
  match ty with
  | "b" => (semBool.parse tok).map fun b => .int .b (b2i b)
  | "i16" => (semI16.parse tok).map (.int .i16)
  | "i32" => ((semInt 32).parse tok).map (.int .i32)
  | "u32" => ((semUInt 32).parse tok).map (.int .u32)
  | "i64" => ((semInt 64).parse tok).map (.int .i64)
  | "f32" => (semF32.parse tok).map .f32
  | "f64" => (semF64.parse tok).map .f64
  | _ => none

/-- `a @ b` for two arithmetic values after the usual arithmetic conversions: integral promotion; if one operand is
    `double` (else `float`) the other is converted to it; `long` absorbs `int`/`unsigned`; `unsigned` absorbs `int` (modulo 2^32) -/
def cmpNum (op : CmpOp) (a b : Num) : Bool :=
  match a.promote, b.promote with
  | .f64 x, y => semF64.cmp op x y.toF64
  | x, .f64 y => semF64.cmp op x.toF64 y
  | .f32 x, y => semF32.cmp op x y.toF32
  | x, .f32 y => semF32.cmp op x.toF32 y
  | .int ta va, .int tb vb =>
    if ta = .i64 ∨ tb = .i64 then intCmp op va vb
    else if ta = .u32 ∨ tb = .u32 then intCmp op (wrapU 32 va) (wrapU 32 vb)
    else intCmp op va vb

section MixedSem
variable {α : Type} (T : Sem α)
/-- `x @ s` as the per-lane statement of `v @ s` sees its scalar operand -/
def cmpArgL (op : CmpOp) (x : α) (g : Simd.Arg Num α) : Option Bool :=
  match g with
  | .own s => some (cmpNum op (T.toNum x) s)
  | .lane y => some (T.cmp op x y)
  | .mask m => some (cmpNum op (T.toNum x) (.int .b (b2i m)))
/-- `s @ y` -/
def cmpArgR (op : CmpOp) (g : Simd.Arg Num α) (y : α) : Option Bool :=
  match g with
  | .own s => some (cmpNum op s (T.toNum y))
  | .lane x => some (T.cmp op x y)
  | .mask m => some (cmpNum op (.int .b (b2i m)) (T.toNum y))
def argTruth (g : Simd.Arg Num α) : Bool :=
  match g with
  | .own s => s.truth
  | .lane y => T.truth y
  | .mask m => m
def logicArgL (op : BoolOp) (x : α) (g : Simd.Arg Num α) : Option Bool :=
  match op with
  | .land => some (T.truth x && argTruth T g)
  | .lor => some (T.truth x || argTruth T g)
def logicArgR (op : BoolOp) (g : Simd.Arg Num α) (y : α) : Option Bool :=
  match op with
  | .land => some (argTruth T g && T.truth y)
  | .lor => some (argTruth T g || T.truth y)
def shiftArg (op : ShiftOp) (x : α) (g : Simd.Arg Num α) : Option α :=
  match g with
  | .own (.int _ c) => (T.shiftI op).bind fun f => f x c
  | .own _ => none
  | .lane y => (T.shift op).bind fun f => f x y
  | .mask _ => none
end MixedSem

-- vectors -------------------------------------------------------------------------------------------------

def listToks (s : String) : Option (List String) :=
  let cs := s.toList
  if cs.length < 2 then none else
  if cs.head? ≠ some '[' || cs.getLast? ≠ some ']' then none else
  let inner := String.ofList ((cs.drop 1).dropLast)
  if inner.isEmpty then some [] else some (inner.splitOn ",")

def mkVec {α : Type} (S : Nat) (l : List α) : Option (Vec α S) :=
  if h : l.toArray.size = S then some ⟨l.toArray, h⟩ else none

def chunks {α : Type} (k : Nat) : Nat → List α → List (List α)
  | 0, _ => []
  | n + 1, l => l.take k :: chunks k n (l.drop k)

def parseFlat {α : Type} (p : String → Option α) (S : Nat) (tok : String) : Option (Vec α S) :=
  (listToks tok).bind fun ts => (ts.mapM p).bind (mkVec S)

def parseNested {α : Type} (p : String → Option α) (S₁ S₂ : Nat) (tok : String) : Option (Vec (Vec α S₂) S₁) :=
  (listToks tok).bind fun ts => (ts.mapM p).bind fun xs =>
    if xs.length = S₁ * S₂ then ((chunks S₂ S₁ xs).mapM (mkVec S₂)).bind (mkVec S₁) else none

def showFlat {α : Type} {S : Nat} (sh : α → String) (v : Vec α S) : String :=
  "[" ++ ",".intercalate (v.toList.map sh) ++ "]"
def showNested {α : Type} {S₁ S₂ : Nat} (sh : α → String) (v : Vec (Vec α S₂) S₁) : String :=
  "[" ++ ",".intercalate ((Simd.flatten v).map sh) ++ "]"

def showB (b : Bool) : String := if b then "1" else "0"

inductive Shape where
  | flat (S : Nat) | nested (S₁ S₂ : Nat)

def parseShape (s : String) : Option Shape :=
  match s.splitOn "x" with
  | [a] => a.toNat?.bind fun S => if S ∈ [1, 2, 3, 4, 8] then some (.flat S) else none
  | [a, b] => a.toNat?.bind fun S₁ => b.toNat?.bind fun S₂ =>
      if (S₁, S₂) ∈ [(2, 2), (4, 2), (2, 4)] then some (.nested S₁ S₂) else none
  | _ => none

def nested? : Shape → Bool | .nested .. => true | _ => false

def binOpOf (s : String) : Option BinOp :=
  match s with
  | "add" => some .add | "sub" => some .sub | "mul" => some .mul | "div" => some .div | "mod" => some .mod
  | "band" => some .band | "bor" => some .bor | "bxor" => some .bxor | _ => none
def shiftOpOf (s : String) : Option ShiftOp := match s with | "shl" => some .shl | "shr" => some .shr | _ => none
def cmpOpOf (s : String) : Option CmpOp :=
  match s with
  | "lt" => some .lt | "gt" => some .gt | "le" => some .le | "ge" => some .ge | "eq" => some .eq | "ne" => some .ne
  | _ => none
def boolOpOf (s : String) : Option BoolOp := match s with | "land" => some .land | "lor" => some .lor | _ => none
def assignOpOf (s : String) : Option AssignOp :=
  match s with
  | "add" => some .add | "sub" => some .sub | "mul" => some .mul | "div" => some .div | "mod" => some .mod
  | "shl" => some .shl | "shr" => some .shr | "band" => some .band | "bor" => some .bor | "bxor" => some .bxor
  | _ => none
def unOpOf (s : String) : Option UnOp := match s with | "pos" => some .pos | "neg" => some .neg | "bnot" => some .bnot | _ => none

def res (o : Option String) : String := o.getD "invalid"
def noSuch : String := "ERR:NoSuchOp"

/-- `lanes<V>() lanes(v) Scalar<V>  lanes<Mask<V>>() Scalar<Mask<V>>  lanes<Rebind<long,V>>() Scalar<Rebind<long,V>>
    Rebind<Scalar<V>,V> == V`, computed with the translated type functions -/
def traits (t : Ty) : String :=
  let m := Ty.rebind (.scalar "b") t
  let r := Ty.rebind (.scalar "i64") t
  " ".intercalate [toString t.lanes, toString t.lanes, t.scalarOf.scalarName, toString m.lanes, m.scalarOf.scalarName,
    toString r.lanes, r.scalarOf.scalarName, if Ty.rebind t.scalarOf t = t then "1" else "0"]

/-- operations on one scalar type -/
def execT {α : Type} (tname : String) (isMask : Bool) (T : Sem α) (sh : Shape) (kind : String) (rest : List String) : String :=
  let logicSem : BoolOp → α → α → Option Bool := fun op a b =>
    match op with | .land => some (T.truth a && T.truth b) | .lor => some (T.truth a || T.truth b)
  let cmpSem : CmpOp → α → α → Option Bool := fun op a b => some (T.cmp op a b)
  let lt : α → α → Bool := T.cmp .lt
  match sh with
  | .flat S =>
    let pv := parseFlat T.parse S
    let sv := showFlat (S := S) T.show
    let sm := showFlat (S := S) showB
    -- `Simd::mask(v)`: the vector itself if it is a mask, otherwise `v != 0` (defaults.hh)
    let maskOf : Vec α S → Option (Vec Bool S) := fun v =>
      if isMask then some (v.map T.truth) else Simd.mask cmpSem T.zero v
    match kind, rest with
    | "bin", [form, opn, ta, tb] =>
      -- arithmetic
      match binOpOf opn with
      | some op => match T.bin op with
        | none => noSuch
        | some f =>
          let sem : BinOp → α → α → Option α := fun _ => f
          match form with
          | "vv" => match pv ta, pv tb with | some a, some b => res ((Simd.binaryVV sem op a b).map sv) | _, _ => "bad-op"
          | "vs" => match pv ta, T.parse tb with | some a, some s => res ((Simd.binaryVS sem op a s).map sv) | _, _ => "bad-op"
          | "sv" => match T.parse ta, pv tb with | some s, some b => res ((Simd.binarySV sem op s b).map sv) | _, _ => "bad-op"
          | "va" => match pv ta, tb.toNat? with   -- a OP lane(k, a): out of place, the old value of lane k
            | some a, some k => if k < S then res (((Simd.lane k a).bind fun s => Simd.binaryVS sem op a s).map sv) else "bad-op"
            | _, _ => "bad-op"
          | _ => "bad-op"
      | none =>
      match shiftOpOf opn with
      | some op => match T.shift op with
        | none => noSuch
        | some f =>
          let sem : ShiftOp → α → α → Option α := fun _ => f
          match form with
          | "vv" => match pv ta, pv tb with | some a, some b => res ((Simd.shiftVV sem op a b).map sv) | _, _ => "bad-op"
          | "vs" => match pv ta, T.parse tb with | some a, some s => res ((Simd.shiftVS sem op a s).map sv) | _, _ => "bad-op"
          | "va" => match pv ta, tb.toNat? with
            | some a, some k => if k < S then res (((Simd.lane k a).bind fun s => Simd.shiftVS sem op a s).map sv) else "bad-op"
            | _, _ => "bad-op"
          | _ => noSuch
      | none =>
      match cmpOpOf opn with
      | some op =>
          match form with
          | "vv" => match pv ta, pv tb with | some a, some b => res ((Simd.compareVV cmpSem op a b).map sm) | _, _ => "bad-op"
          | "vs" => match pv ta, T.parse tb with | some a, some s => res ((Simd.compareVS cmpSem op a s).map sm) | _, _ => "bad-op"
          | "sv" => match T.parse ta, pv tb with | some s, some b => res ((Simd.compareSV cmpSem op s b).map sm) | _, _ => "bad-op"
          | "va" => match pv ta, tb.toNat? with
            | some a, some k => if k < S then res (((Simd.lane k a).bind fun s => Simd.compareVS cmpSem op a s).map sm) else "bad-op"
            | _, _ => "bad-op"
          | _ => "bad-op"
      | none =>
      match boolOpOf opn with
      | some op =>
          match form with
          | "vv" => match pv ta, pv tb with | some a, some b => res ((Simd.logicVV logicSem op a b).map sm) | _, _ => "bad-op"
          | "vs" => match pv ta, T.parse tb with | some a, some s => res ((Simd.logicVS logicSem op a s).map sm) | _, _ => "bad-op"
          | "sv" => match T.parse ta, pv tb with | some s, some b => res ((Simd.logicSV logicSem op s b).map sm) | _, _ => "bad-op"
          | "va" => match pv ta, tb.toNat? with
            | some a, some k => if k < S then res (((Simd.lane k a).bind fun s => Simd.logicVS logicSem op a s).map sm) else "bad-op"
            | _, _ => "bad-op"
          | _ => "bad-op"
      | none =>
      match opn, form, pv ta, pv tb with
      | "max", "vv", some a, some b => res ((Simd.stdBin (fun _ x y => some (Simd.stdMax lt x y)) StdBinOp.f_max a b).map sv)
      | "min", "vv", some a, some b => res ((Simd.stdBin (fun _ x y => some (Simd.stdMin lt x y)) StdBinOp.f_min a b).map sv)
      | "maskor", "vv", some a, some b =>
          -- defaults.hh: mask(v1) || mask(v2), mask(v) = v != 0 (the mask itself for a vector of bool)
          res ((Simd.maskCombine maskOrOp Simd.boolSem (maskOf a) (maskOf b)).map sm)
      | "maskand", "vv", some a, some b =>
          res ((Simd.maskCombine maskAndOp Simd.boolSem (maskOf a) (maskOf b)).map sm)
      | _, _, _, _ => if opn ∈ ["max", "min", "maskor", "maskand"] then noSuch else "bad-op"
    | "binx", [form, opn, ta, tu, ts] =>
      -- the scalar operand has the arithmetic type `tu` (instantiated for S = 4 only)
      if S ≠ 4 then "bad-op" else
      let truth : Num → Option Bool := fun s => some s.truth
      match pv ta, parseNum tu ts with
      | some a, some s =>
        match cmpOpOf opn, boolOpOf opn, shiftOpOf opn, form with
        | some op, _, _, "vs" => res ((Simd.compareVSx (cmpArgL T) T.ofNum truth op a s).map sm)
        | some op, _, _, "sv" => res ((Simd.compareSVx (cmpArgR T) T.ofNum truth op s a).map sm)
        | _, some op, _, "vs" => res ((Simd.logicVSx (logicArgL T) T.ofNum truth op a s).map sm)
        | _, some op, _, "sv" => res ((Simd.logicSVx (logicArgR T) T.ofNum truth op s a).map sm)
        | _, _, some op, "vs" =>
          match T.shiftI op, s with
          | some _, .int _ _ => res ((Simd.shiftVSx (shiftArg T) T.ofNum truth op a s).map sv)
          | _, _ => noSuch
        | _, _, _, _ => noSuch
      | _, _ => "bad-op"
    | "asg", [form, opn, ta, tb] =>
      match assignOpOf opn with
      | none => noSuch
      | some op =>
        let f? : Option (α → α → Option α) := match binOpOf opn with
          | some b => T.bin b
          | none => (shiftOpOf opn).bind T.shift
        match f? with
        | none => noSuch
        | some f =>
          let sem : AssignOp → α → α → Option α := fun _ => f
          match form with
          | "vv" => match pv ta, pv tb with | some a, some b => res ((Simd.assignVV sem op a b).map sv) | _, _ => "bad-op"
          | "vs" => match pv ta, T.parse tb with | some a, some s => res ((Simd.assignVS sem op a s).map sv) | _, _ => "bad-op"
          | "va" => match pv ta, tb.toNat? with   -- a OP= lane(k, a): the scalar is passed by value
            | some a, some k => if k < S then res ((Simd.assignVA sem op a k).map sv) else "bad-op"
            | _, _ => "bad-op"
          | _ => noSuch
    | "un", [opn, ta] =>
      match pv ta with
      | none => "bad-op"
      | some a =>
        match unOpOf opn with
        | some op => match T.un op with
          | none => noSuch
          | some f => res ((Simd.unary (fun _ => f) op a).map sv)
        | none =>
        match opn with
        | "lnot" => res ((Simd.lnot (fun x => some (T.truth x)) a).map sm)
        | "preinc" => match T.inc .inc with | none => noSuch | some f => res ((Simd.prefix (fun _ => f) .inc a).map fun r => sv r ++ "|" ++ sv r)
        | "predec" => match T.inc .dec with | none => noSuch | some f => res ((Simd.prefix (fun _ => f) .dec a).map fun r => sv r ++ "|" ++ sv r)
        | "postinc" => match T.inc .inc with | none => noSuch | some f => res ((Simd.postfix (fun _ => f) .inc a).map fun r => sv r.1 ++ "|" ++ sv r.2)
        | "postdec" => match T.inc .dec with | none => noSuch | some f => res ((Simd.postfix (fun _ => f) .dec a).map fun r => sv r.1 ++ "|" ++ sv r.2)
        | "mask" => res ((maskOf a).map sm)
        | "isNaN" => match T.classify with | none => noSuch | some c => res ((Simd.isNaN (fun x => some (c x).1) a).map sm)
        | "isInf" => match T.classify with | none => noSuch | some c => res ((Simd.isInf (fun x => some (c x).2.1) a).map sm)
        | "isFinite" => match T.classify with | none => noSuch | some c => res ((Simd.isFinite (fun x => some (c x).2.2) a).map sm)
        | _ => noSuch
    | "lane", [l, ta] => match l.toNat?, pv ta with
      | some l, some a => if l < S then res ((Simd.lane l a).map T.show) else "bad-op"
      | _, _ => "bad-op"
    | "setlane", [l, x, ta] => match l.toNat?, T.parse x, pv ta with
      | some l, some x, some a => if l < S then res ((Simd.setLane l x a).map sv) else "bad-op"
      | _, _, _ => "bad-op"
    | "cond", [tm, ta, tb] => match parseFlat semBool.parse S tm, pv ta, pv tb with
      | some m, some a, some b => res ((Simd.cond m a b).map sv)
      | _, _, _ => "bad-op"
    | "condb", [m, ta, tb] => match semBool.parse m, pv ta, pv tb with
      | some m, some a, some b => sv (scalarCond m a b)
      | _, _, _ => "bad-op"
    | "bcast", [x] => match T.parse x with | some x => sv (Simd.broadcast x) | none => "bad-op"
    | "hmax", [ta] => match pv ta with | some a => res ((Simd.hmaxFlat lt a).map T.show) | none => "bad-op"
    | "hmin", [ta] => match pv ta with | some a => res ((Simd.hminFlat lt a).map T.show) | none => "bad-op"
    | "lanes", [] => traits (Ty.flat tname S)
    | _, _ => "bad-op"
  | .nested S₁ S₂ =>
    let pv := parseNested T.parse S₁ S₂
    let pf := parseFlat T.parse (S₁ * S₂)
    let sv := showNested (S₁ := S₁) (S₂ := S₂) T.show
    let sm := showNested (S₁ := S₁) (S₂ := S₂) showB
    let maskOf : Vec (Vec α S₂) S₁ → Option (Vec (Vec Bool S₂) S₁) := fun v =>
      if isMask then some (v.map fun e => e.map T.truth) else Simd.maskNested cmpSem T.zero v
    match kind, rest with
    | "bin", ["va", _, _, _] => "bad-op"
    | "binx", [form, opn, ta, tu, ts] =>
      if ¬ ((S₁, S₂) = (2, 2) ∧ (tname = "i32" ∨ tname = "f64")) then "bad-op" else
      let truth : Num → Option Bool := fun s => some s.truth
      match pv ta, parseNum tu ts with
      | some a, some s =>
        match cmpOpOf opn, boolOpOf opn, shiftOpOf opn, form with
        | some op, _, _, "vs" => res ((Simd.binVSxNested loop_COMPARISON_OP_vs (cmpArgL T op) T.ofNum truth a s).map sm)
        | some op, _, _, "sv" => res ((Simd.binSVxNested loop_COMPARISON_OP_sv (cmpArgR T op) T.ofNum truth s a).map sm)
        | _, some op, _, "vs" => res ((Simd.binVSxNested loop_BOOLEAN_OP_vs (logicArgL T op) T.ofNum truth a s).map sm)
        | _, _, some op, "vs" =>
          match T.shiftI op, s with
          | some _, .int _ _ => res ((Simd.binVSxNested loop_BITSHIFT_OP_vs (shiftArg T op) T.ofNum truth a s).map sv)
          | _, _ => noSuch
        | _, _, _, _ => noSuch    -- no `Mask<T> && vector` overload exists for nested vectors
      | _, _ => "bad-op"
    | "bin", [form, opn, ta, tb] =>
      match binOpOf opn with
      | some op => match T.bin op with
        | none => noSuch
        | some f =>
          let sem : BinOp → α → α → Option α := fun _ => f
          match form with
          | "vv" => match pv ta, pv tb with
            | some a, some b => res ((Simd.binVV loop_BINARY_OP_vv (Simd.binaryVV sem op) a b).map sv) | _, _ => "bad-op"
          | "vs" => match pv ta, T.parse tb with
            | some a, some s => res ((Simd.binVS loop_BINARY_OP_vs (Simd.binaryVS sem op) a s).map sv) | _, _ => "bad-op"
          | "sv" => match T.parse ta, pv tb with
            | some s, some b => res ((Simd.binSV loop_BINARY_OP_sv (Simd.binarySV sem op) s b).map sv) | _, _ => "bad-op"
          | _ => "bad-op"
      | none =>
      match shiftOpOf opn with
      | some op => match T.shift op with
        | none => noSuch
        | some f =>
          let sem : ShiftOp → α → α → Option α := fun _ => f
          match form with
          | "vv" => match pv ta, pv tb with
            | some a, some b => res ((Simd.binVV loop_BITSHIFT_OP_vv (Simd.shiftVV sem op) a b).map sv) | _, _ => "bad-op"
          | "vs" => match pv ta, T.parse tb with
            | some a, some s => res ((Simd.binVS loop_BITSHIFT_OP_vs (Simd.shiftVS sem op) a s).map sv) | _, _ => "bad-op"
          | _ => noSuch
      | none =>
      match cmpOpOf opn with
      | some op =>
          match form with
          | "vv" => match pv ta, pv tb with
            | some a, some b => res ((Simd.binVV loop_COMPARISON_OP_vv (Simd.compareVV cmpSem op) a b).map sm) | _, _ => "bad-op"
          | "vs" => match pv ta, T.parse tb with
            | some a, some s => res ((Simd.binVS loop_COMPARISON_OP_vs (Simd.compareVS cmpSem op) a s).map sm) | _, _ => "bad-op"
          | "sv" => match T.parse ta, pv tb with
            | some s, some b => res ((Simd.binSV loop_COMPARISON_OP_sv (Simd.compareSV cmpSem op) s b).map sm) | _, _ => "bad-op"
          | _ => "bad-op"
      | none =>
      match boolOpOf opn with
      | some op =>
          match form with
          | "vv" => match pv ta, pv tb with
            | some a, some b => res ((Simd.binVV loop_BOOLEAN_OP_vv (Simd.logicVV logicSem op) a b).map sm) | _, _ => "bad-op"
          | "vs" => match pv ta, T.parse tb with
            | some a, some s => res ((Simd.binVS loop_BOOLEAN_OP_vs (Simd.logicVS logicSem op) a s).map sm) | _, _ => "bad-op"
          | _ => noSuch    -- no `Mask<T> && vector` overload exists for nested vectors
      | none =>
      match opn, form, pv ta, pv tb with
      | "max", "vv", some a, some b =>
          res ((Simd.binVV loop_STD_BINARY_OP_vv (Simd.stdBin (fun _ x y => some (Simd.stdMax lt x y)) StdBinOp.f_max) a b).map sv)
      | "min", "vv", some a, some b =>
          res ((Simd.binVV loop_STD_BINARY_OP_vv (Simd.stdBin (fun _ x y => some (Simd.stdMin lt x y)) StdBinOp.f_min) a b).map sv)
      | "maskor", "vv", some a, some b =>
          res ((Simd.maskCombineNested maskOrOp Simd.boolSem (maskOf a) (maskOf b)).map sm)
      | "maskand", "vv", some a, some b =>
          res ((Simd.maskCombineNested maskAndOp Simd.boolSem (maskOf a) (maskOf b)).map sm)
      | _, _, _, _ => if opn ∈ ["max", "min", "maskor", "maskand"] then noSuch else "bad-op"
    | "asg", [form, opn, ta, tb] =>
      match assignOpOf opn with
      | none => noSuch
      | some op =>
        let f? : Option (α → α → Option α) := match binOpOf opn with
          | some b => T.bin b
          | none => (shiftOpOf opn).bind T.shift
        match f? with
        | none => noSuch
        | some f =>
          let sem : AssignOp → α → α → Option α := fun _ => f
          match form with
          | "vv" => match pv ta, pv tb with
            | some a, some b => res ((Simd.ipVV loop_ASSIGNMENT_OP_vv (Simd.assignVV sem op) a b).map sv) | _, _ => "bad-op"
          | "vs" => match pv ta, T.parse tb with
            | some a, some s => res ((Simd.ipVS loop_ASSIGNMENT_OP_vs (Simd.assignVS sem op) a s).map sv) | _, _ => "bad-op"
          | "va" => match pv ta, tb.toNat? with
            | some a, some k =>
              if k < S₁ * S₂ then res ((Simd.assignVANested sem op a k).map sv) else "bad-op"
            | _, _ => "bad-op"
          | _ => noSuch
    | "un", [opn, ta] =>
      match pv ta with
      | none => "bad-op"
      | some a =>
        match unOpOf opn with
        | some op => match T.un op with
          | none => noSuch
          | some f => res ((Simd.un loop_UNARY_OP_v (Simd.unary (fun _ => f) op) a).map sv)
        | none =>
        let pre := fun (op : IncOp) (f : α → Option α) => Simd.ipUn loop_PREFIX_OP_v (Simd.prefix (fun _ => f) op) a
        match opn with
        | "lnot" => res ((Simd.un loop_lnot (Simd.lnot fun x => some (T.truth x)) a).map sm)
        | "preinc" => match T.inc .inc with | none => noSuch | some f => res ((pre .inc f).map fun r => sv r ++ "|" ++ sv r)
        | "predec" => match T.inc .dec with | none => noSuch | some f => res ((pre .dec f).map fun r => sv r ++ "|" ++ sv r)
        | "postinc" => match T.inc .inc with | none => noSuch | some f => res ((pre .inc f).map fun r => sv a ++ "|" ++ sv r)
        | "postdec" => match T.inc .dec with | none => noSuch | some f => res ((pre .dec f).map fun r => sv a ++ "|" ++ sv r)
        | "mask" => res ((maskOf a).map sm)
        | "isNaN" => match T.classify with
          | none => noSuch | some c => res ((Simd.un loop_isNaN (Simd.isNaN fun x => some (c x).1) a).map sm)
        | "isInf" => match T.classify with
          | none => noSuch | some c => res ((Simd.un loop_isInf (Simd.isInf fun x => some (c x).2.1) a).map sm)
        | "isFinite" => match T.classify with
          | none => noSuch | some c => res ((Simd.un loop_isFinite (Simd.isFinite fun x => some (c x).2.2) a).map sm)
        | _ => noSuch
    | "lane", [l, ta] => match l.toNat?, pv ta with
      | some l, some a => if l < S₁ * S₂ then res ((Simd.laneNested l a).map T.show) else "bad-op"
      | _, _ => "bad-op"
    | "setlane", [l, x, ta] => match l.toNat?, T.parse x, pv ta with
      | some l, some x, some a => if l < S₁ * S₂ then res ((Simd.setLaneNested l x a).map sv) else "bad-op"
      | _, _, _ => "bad-op"
    | "cond", [tm, ta, tb] => match parseNested semBool.parse S₁ S₂ tm, pv ta, pv tb with
      | some m, some a, some b => res ((Simd.condNested m a b).map sv)
      | _, _, _ => "bad-op"
    | "condb", [m, ta, tb] => match semBool.parse m, pv ta, pv tb with
      | some m, some a, some b => sv (scalarCond m a b)
      | _, _, _ => "bad-op"
    | "bcast", [x] => match T.parse x with
      | some x => sv (Simd.broadcastNested (S := S₁) (S₂ := S₂) x) | none => "bad-op"
    | "hmax", [ta] => match pv ta with | some a => res ((Simd.hmaxNested lt a).map T.show) | none => "bad-op"
    | "hmin", [ta] => match pv ta with | some a => res ((Simd.hminNested lt a).map T.show) | none => "bad-op"
    | "implcast", [dir, ta] =>
      -- defaults.hh: lane(l, result) = lane(l, u) for every l
      match dir with
      | "flat" => match pv ta with
        | some a => res ((Simd.implCastToFlat T.zero a).map (showFlat T.show))
        | none => "bad-op"
      | "nest" => match pf ta with
        | some a => res ((Simd.implCastToNested (S := S₁) (S₂ := S₂) T.zero a).map sv)
        | none => "bad-op"
      | _ => noSuch
    | "lanes", [] => traits (Ty.nested tname S₁ S₂)
    | _, _ => "bad-op"

-- cmath functions: uninterpreted, given by the table on the op line -----------------------------------------

def parseTable (s : String) : Option (List (String × String)) :=
  let cs := s.toList
  if cs.head? ≠ some '{' || cs.getLast? ≠ some '}' then none else
  let inner := String.ofList ((cs.drop 1).dropLast)
  if inner.isEmpty then some [] else
  (inner.splitOn ",").mapM fun e => match e.splitOn ":" with | [k, v] => some (k, v) | _ => none

def execMath (canon : String → Option String) (sh : Shape) (fn ta tt : String) : String :=
  match parseTable tt with
  | none => "bad-op"
  | some tab =>
    let f : String → Option String := fun x => tab.lookup x
    let showS := fun (l : List String) => "[" ++ ",".intercalate l ++ "]"
    match MathOp.all.find? (fun o => o.symbol == fn), MathRetOp.all.find? (fun o => o.symbol == fn),
          StdUnOp.all.find? (fun o => o.symbol == fn) with
    | some op, _, _ =>
      match sh with
      | .flat S => match parseFlat canon S ta with
        | some a => res ((Simd.math (fun _ => f) op a).map fun r => showS r.toList) | none => "bad-op"
      | .nested S₁ S₂ => match parseNested canon S₁ S₂ ta with
        | some a => res ((Simd.un loop_CMATH_UNARY_OP_v (Simd.math (fun _ => f) op) a).map fun r => showS (Simd.flatten r))
        | none => "bad-op"
    | none, some op, _ =>
      match sh with
      | .flat S => match parseFlat canon S ta with
        | some a => res ((Simd.mathRet (fun _ => f) op a).map fun r => showS r.toList) | none => "bad-op"
      | .nested .. => noSuch   -- `LoopSIMD<returnType,S> out; out[i] = expr(v[i])` does not compile for nested vectors
    | none, none, some op =>
      match sh with
      | .flat S => match parseFlat canon S ta with
        | some a => res ((Simd.stdUn (fun _ => f) op a).map fun r => showS r.toList) | none => "bad-op"
      | .nested S₁ S₂ => match parseNested canon S₁ S₂ ta with
        | some a => res ((Simd.un loop_STD_UNARY_OP_v (Simd.stdUn (fun _ => f) op) a).map fun r => showS (Simd.flatten r))
        | none => "bad-op"
    | none, none, none => noSuch

-- dense matrices / vectors of SIMD numbers ------------------------------------------------------------------------

def arithF64 : Arith Float where
  zero := 0
  one := 1
  add := (· + ·)
  sub := (· - ·)
  mul := (· * ·)
  div := (· / ·)
  neg := fun a => -a
  abs := Float.abs
  lt := fun a b => a < b
  beq := fun a b => a == b

def arithF32 : Arith Float32 where
  zero := 0
  one := 1
  add := (· + ·)
  sub := (· - ·)
  mul := (· * ·)
  div := (· / ·)
  neg := fun a => -a
  abs := Float32.abs
  lt := fun a b => a < b
  beq := fun a b => a == b

/-- `absreal(x) < FMatrixPrecision<>::absolute_limit()`: a `vector < double` comparison; whether the `double` limit reaches
    the lanes in its own type or converted to the lanes' type is read off the translated vector-scalar comparison overload -/
def belowLimit {α : Type} (T : Sem α) (abs : α → α) (lim : Float) (c : CmpOpName) (x : α) : Bool :=
  match CmpOp.ofName c with
  | some op =>
    ((Simd.passScalar loop_COMPARISON_OP_vs.scalarTy T.ofNum (fun s => some s.truth) (Num.f64 lim)).bind
      (cmpArgL T op (abs x))).getD false
  | none => false

/-- one SIMD number type of the matrix cases: the `SimdLike` instance, the scalar arithmetic and the codec -/
structure Ctx (V : Type → Type) (L : Nat) (K : Type) where
  X : SimdLike V L
  R : Arith K
  sq : K → K
  parseK : String → Option K
  showK : K → String
  ofLanes : List K → Option (V K)
  toLanes : V K → List K
  /-- `fvmeta::absreal(x) < FMatrixPrecision<>::absolute_limit()` (the limit is a `double`, also for `float` lanes) -/
  below : Float → CmpOpName → K → Bool

def ctxLoop64 (S : Nat) : Ctx (fun α => Vec α S) S Float :=
  { X := SimdLike.loop S, R := arithF64, sq := Float.sqrt, parseK := semF64.parse, showK := semF64.show,
    ofLanes := mkVec S, toLanes := fun v => v.toList, below := belowLimit semF64 Float.abs }
def ctxLoop32 (S : Nat) : Ctx (fun α => Vec α S) S Float32 :=
  { X := SimdLike.loop S, R := arithF32, sq := Float32.sqrt, parseK := semF32.parse, showK := semF32.show,
    ofLanes := mkVec S, toLanes := fun v => v.toList, below := belowLimit semF32 Float32.abs }
def ctxNested64 (S₁ S₂ : Nat) : Ctx (fun α => Vec (Vec α S₂) S₁) (S₁ * S₂) Float :=
  { X := SimdLike.nested S₁ S₂, R := arithF64, sq := Float.sqrt, parseK := semF64.parse, showK := semF64.show,
    ofLanes := fun xs => ((chunks S₂ S₁ xs).mapM (mkVec S₂)).bind (mkVec S₁), toLanes := fun v => Simd.flatten v,
    below := belowLimit semF64 Float.abs }

section Generic
variable {V : Type → Type} {L : Nat} {K : Type} (C : Ctx V L K)

def parseEntries (count : Nat) (tok : String) : Option (List (V K)) :=
  (listToks tok).bind fun ts => (ts.mapM C.parseK).bind fun xs =>
    if xs.length = count * L then (chunks L count xs).mapM C.ofLanes else none
def parseRM (r c : Nat) (tok : String) : Option (RMat (V K) r c) :=
  (parseEntries C (r * c) tok).bind fun es => ((chunks c r es).mapM (mkVec c)).bind (mkVec r)
def parseVG (n : Nat) (tok : String) : Option (Vector (V K) n) := (parseEntries C n tok).bind (mkVec n)
def parseOne (tok : String) : Option (V K) := (parseEntries C 1 tok).bind fun l => l.head?

def showG (v : V K) : String := ",".intercalate ((C.toLanes v).map C.showK)
def showVG {n : Nat} (v : Vector (V K) n) : String := "[" ++ ",".intercalate (v.toList.map (showG C)) ++ "]"
def showRM {r c : Nat} (A : RMat (V K) r c) : String :=
  "[" ++ ",".intercalate ((A.toList.map fun row => row.toList.map (showG C)).flatten) ++ "]"

def execMatG (what : String) (n : Nat) (piv : Bool) (ta : String) (tb : Option String) : String :=
  let X := C.X
  let R := C.R
  match parseRM C n n ta with
  | none => "bad-op"
  | some (A : Mat (V K) n) =>
    match what, tb with
    -- (round 4) the LU-based algorithms run from the control table `luCtl` translated from densematrix.hh (Model/C09LUT.lean)
    | "det", none => match determinantT X R luCtl piv A with | some d => "[" ++ showG C d ++ "]" | none => "ERR:FMatrix"
    | "solve", some tb => match parseVG C n tb with
      | some b => match solveT X R luCtl piv A b with | some x => showVG C x | none => "ERR:FMatrix"
      | none => "bad-op"
    | "inv", none => match invertT X R luCtl piv A with | some B => showRM C B | none => "ERR:FMatrix"
    | "mv", some tb => match parseVG C n tb with
      | some b => showVG C (mv X R A b)
      | none => "bad-op"
    | "mm", some tb => match parseRM C n n tb with
      | some (B : Mat (V K) n) => showRM C (rightmultiply X R A B)
      | none => "bad-op"
    | "lmm", some tb => match parseRM C n n tb with
      | some (B : Mat (V K) n) => showRM C (leftmultiply X R A B)
      | none => "bad-op"
    | "fnorm2", none => "[" ++ showG C (frobeniusNorm2 X R A) ++ "]"
    | "infnorm", none => "[" ++ showG C (infinityNorm X R A) ++ "]"
    | _, _ => noSuch

/-- the configuration DUNE_FMatrix_WITH_CHECKING (`matc` op lines): `solveC` / `invertC` with the threshold test -/
def execMatC (what : String) (n : Nat) (piv : Bool) (limit : Float) (ta : String) (tb : Option String) : String :=
  let X := C.X
  let R := C.R
  let chk : Option (CmpOpName → K → Bool) := some (C.below limit)
  match parseRM C n n ta with
  | none => "bad-op"
  | some (A : Mat (V K) n) =>
    match what, tb with
    | "solve", some tb => match parseVG C n tb with
      | some b => match solveCT X R luCtl chk piv A b with | some x => showVG C x | none => "ERR:FMatrix"
      | none => "bad-op"
    | "inv", none => match invertCT X R luCtl chk piv A with | some B => showRM C B | none => "ERR:FMatrix"
    | _, _ => noSuch

def execRectG (what : String) (r c : Nat) (rest : List String) : String :=
  let X := C.X
  let R := C.R
  match rest with
  | [ta] =>
    match parseRM C r c ta with
    | none => "bad-op"
    | some A =>
      match what with
      | "fnorm2" => "[" ++ showG C (frobeniusNorm2R X R A) ++ "]"
      | "fnorm" => "[" ++ showG C (frobeniusNormR X R C.sq A) ++ "]"
      | "infnorm" => "[" ++ showG C (infinityNormR X R A) ++ "]"
      | "infnormr" => "[" ++ showG C (infinityNormR X R A) ++ "]"
      | _ => noSuch
  | [ta, tx, ty, tal] =>
    match parseRM C r c ta, parseOne C tal with
    | some A, some alpha =>
      -- (round 4) the kernels run from the shapes translated from densematrix.hh (`Gen.kernelTable`, Model/C09K.lean);
      -- `conjugateComplex` is the identity on the (real) lanes the harness uses
      if what ∈ ["madd", "msub", "mscale", "mdiv", "mneg", "maxpy"] then
        -- (round 4) vector-space operations of DenseMatrix: `rect <op> <shape> <r> <c> <A> <B> [] <alpha>`
        match parseRM C r c tx, ty with
        | some B, "[]" =>
          match what with
          | "madd" => showRM C (matAdd X R A B)
          | "msub" => showRM C (matSub X R A B)
          | "mscale" => showRM C (matScale X R alpha A)
          | "mdiv" => showRM C (matDiv X R alpha A)
          | "mneg" => showRM C (matNeg X R A)
          | _ => showRM C (matAxpy X R alpha A B)
        | _, _ => "bad-op"
      else
      match kernelTable.lookup what with
      | some s =>
        if s.form == KForm.n then
          match parseVG C c tx, parseVG C r ty with
          | some x, some y => showVG C (kernelRunN X R id s alpha A x y)
          | _, _ => "bad-op"
        else
          match parseVG C r tx, parseVG C c ty with
          | some x, some y => showVG C (kernelRunT X R id s alpha A x y)
          | _, _ => "bad-op"
      | none => noSuch
    | _, _ => "bad-op"
  | _ => "bad-op"

def execVecG (what : String) (n : Nat) (rest : List String) : String :=
  let X := C.X
  let R := C.R
  match rest with
  | [tv] =>
    match parseVG C n tv with
    | none => "bad-op"
    | some v =>
      match what with
      | "one" => "[" ++ showG C (oneNorm X R v) ++ "]"
      | "oner" => "[" ++ showG C (oneNorm X R v) ++ "]"
      | "two2" => "[" ++ showG C (twoNorm2 X R v) ++ "]"
      | "two" => "[" ++ showG C (twoNorm X R C.sq v) ++ "]"
      | "inf" => "[" ++ showG C (vecInfinityNorm X R v) ++ "]"
      | "infr" => "[" ++ showG C (vecInfinityNorm X R v) ++ "]"
      | _ => noSuch
  | [tv, tw] =>
    match what, parseVG C n tv, parseVG C n tw with
    | "dot", some v, some w => "[" ++ showG C (dotT X R v w) ++ "]"
    | "dot", _, _ => "bad-op"
    | _, _, _ => noSuch
  | [tv, tw, tal] =>
    match what, parseVG C n tv, parseVG C n tw, parseOne C tal with
    | "axpy", some v, some w, some alpha => showVG C (axpy X R alpha v w)
    | "axpy", _, _, _ => "bad-op"
    | _, _, _, _ => noSuch
  | _ => "bad-op"

end Generic

/-- the (shape, size) combinations the harness instantiates -/
def matSizes (shape : String) : List Nat :=
  match shape with
  | "1" => [1, 2, 3, 4, 5] | "2" => [1, 2, 3, 4, 5, 6] | "3" => [3, 4, 5] | "4" => [1, 2, 3, 4, 5, 6] | "8" => [2, 3, 5, 6]
  | "2x2" => [2, 3, 4, 5] | "f4" => [1, 2, 3, 4, 5] | _ => []
def rectSizes : List (Nat × Nat) := [(2, 3), (3, 2), (1, 4), (3, 3)]
def rectShapes : List String := ["2", "4", "2x2", "f4"]
def fvecSizes : List Nat := [1, 3, 4]

/-- run `k` with the context of a matrix shape -/
def withShape (shape : String) (k : {V : Type → Type} → {L : Nat} → {K : Type} → Ctx V L K → String) : String :=
  match shape with
  | "1" => k (ctxLoop64 1) | "2" => k (ctxLoop64 2) | "3" => k (ctxLoop64 3) | "4" => k (ctxLoop64 4) | "8" => k (ctxLoop64 8)
  | "2x2" => k (ctxNested64 2 2)
  | "f4" => k (ctxLoop32 4)
  | _ => "bad-op"

-- the minimal SIMD type that inherits the defaults of defaults.hh ------------------------------------------------

def execMini {α : Type} (isMask : Bool) (T : Sem α) (S : Nat) (what : String) (rest : List String) : String :=
  let pv := parseFlat T.parse S
  let sv := showFlat (S := S) T.show
  let sm := showFlat (S := S) showB
  let cmpSem : CmpOp → α → α → Option Bool := fun op a b => some (T.cmp op a b)
  let lt : α → α → Bool := T.cmp .lt
  let maskOf : Vec α S → Option (Vec Bool S) := fun v =>
    if isMask then some (v.map T.truth) else Simd.mask cmpSem T.zero v
  let cast : Vec α S → Option (Vec α S) := fun u => (Simd.implCastLanes (laneCount S 1) T.zero (Simd.lane · u)).bind Simd.ofLanesFlat
  match what, rest with
  | "mask", [ta] => match pv ta with | some a => res ((maskOf a).map sm) | none => "bad-op"
  | "maskor", [ta, tb] => match pv ta, pv tb with
    | some a, some b => res ((Simd.maskCombine maskOrOp Simd.boolSem (maskOf a) (maskOf b)).map sm) | _, _ => "bad-op"
  | "maskand", [ta, tb] => match pv ta, pv tb with
    | some a, some b => res ((Simd.maskCombine maskAndOp Simd.boolSem (maskOf a) (maskOf b)).map sm) | _, _ => "bad-op"
  | "hmax", [ta] => match pv ta with | some a => res ((Simd.hmaxFlat lt a).map T.show) | none => "bad-op"
  | "hmin", [ta] => match pv ta with | some a => res ((Simd.hminFlat lt a).map T.show) | none => "bad-op"
  | "bcast", [x] => match T.parse x with | some x => sv (Simd.broadcast x) | none => "bad-op"
  | "implcast", [ta] => match pv ta with
    | some a => res ((cast a).bind fun lv => (cast lv).map fun back => sv lv ++ " " ++ sv back)
    | none => "bad-op"
  | _, _ => noSuch

-- complex lanes ---------------------------------------------------------------------------------------------------

def pairs {α : Type} : List α → Option (List (α × α))
  | [] => some []
  | x :: y :: rest => (pairs rest).map fun ps => (x, y) :: ps
  | _ => none

def execCplx (S : Nat) (what : String) (rest : List String) : String :=
  let pc : String → Option (Vec (Float × Float) S) := fun tok =>
    (listToks tok).bind fun ts => (ts.mapM semF64.parse).bind fun xs => (pairs xs).bind (mkVec S)
  let showC := fun (v : Vec (Float × Float) S) =>
    "[" ++ ",".intercalate (v.toList.map fun z => semF64.show z.1 ++ "," ++ semF64.show z.2) ++ "]"
  let sf := showFlat (S := S) semF64.show
  let sm := showFlat (S := S) showB
  let ceq : Float × Float → Float × Float → Bool := fun x y => x.1 == y.1 && x.2 == y.2
  match what, rest with
  | "real", [ta] => match pc ta with
    | some a => res ((Simd.stdUn2 (fun (_ : StdUnOp) (z : Float × Float) => some z.1) StdUnOp.f_real a).map sf) | none => "bad-op"
  | "imag", [ta] => match pc ta with
    | some a => res ((Simd.stdUn2 (fun (_ : StdUnOp) (z : Float × Float) => some z.2) StdUnOp.f_imag a).map sf) | none => "bad-op"
  | "neg", [ta] => match pc ta with
    | some a => res ((Simd.unary (fun (_ : UnOp) (z : Float × Float) => some (-z.1, -z.2)) .neg a).map showC) | none => "bad-op"
  | "add", [ta, tb] => match pc ta, pc tb with
    | some a, some b => res ((Simd.binaryVV (fun (_ : BinOp) (x y : Float × Float) => some (x.1 + y.1, x.2 + y.2)) .add a b).map showC)
    | _, _ => "bad-op"
  | "sub", [ta, tb] => match pc ta, pc tb with
    | some a, some b => res ((Simd.binaryVV (fun (_ : BinOp) (x y : Float × Float) => some (x.1 - y.1, x.2 - y.2)) .sub a b).map showC)
    | _, _ => "bad-op"
  | "eq", [ta, tb] => match pc ta, pc tb with
    | some a, some b => res ((Simd.compareVV (fun (_ : CmpOp) x y => some (ceq x y)) .eq a b).map sm) | _, _ => "bad-op"
  | "ne", [ta, tb] => match pc ta, pc tb with
    | some a, some b => res ((Simd.compareVV (fun (_ : CmpOp) x y => some (!ceq x y)) .ne a b).map sm) | _, _ => "bad-op"
  | _, _ => noSuch

-- operands of another type in the generic functions of the abstraction layer (`layx`) ---------------------------------

def withSem (t : String) (k : {α : Type} → Bool → Sem α → String) : String :=
  match t with
  | "f64" => k false semF64 | "f32" => k false semF32 | "i32" => k false (semInt 32) | "i64" => k false (semInt 64)
  | "i16" => k false semI16 | "u32" => k false (semUInt 32) | "b" => k true semBool | _ => "bad-op"

/-- `Simd::mask(v)` of a flat vector: the vector itself if it is a mask, otherwise `v != 0` (defaults.hh) -/
def maskOfSem {α : Type} {S : Nat} (isMask : Bool) (T : Sem α) (v : Vec α S) : Option (Vec Bool S) :=
  if isMask then some (v.map T.truth) else Simd.mask (fun op a b => some (T.cmp op a b)) T.zero v

/-- is the conversion `U → T` of `s` defined (a floating-point value outside the range of an integer `T` is not)? -/
def convDefined (t : String) (s : Num) : Bool :=
  let inR := fun (lo hi x : Float) => !x.isNaN && x > lo - 1 && x < hi + 1
  let fp : Option Float := match s with | .f64 x => some x | .f32 x => some x.toFloat | .int _ _ => none
  match fp, t with
  | some x, "i32" => inR (-2147483648.0) 2147483647.0 x
  | some x, "i16" => inR (-32768.0) 32767.0 x
  | some x, "u32" => inR 0.0 4294967295.0 x
  | _, _ => true

/-- `Simd::cond(mask, a, b)` with a mask that is not of type `Mask<V>`: interface.hh converts it with
    `implCast<Mask<V>>` (defaults.hh: lane by lane), then the cond of the vector type -/
def execCondM {α : Type} (T : Sem α) (how tm ta tb : String) : String :=
  match how with
  | "flat" =>
    match parseFlat semBool.parse (2 * 2) tm, parseNested T.parse 2 2 ta, parseNested T.parse 2 2 tb with
    | some m, some a, some b =>
      res (((Simd.implCastToNested (S := 2) (S₂ := 2) false m).bind fun mm => Simd.condNested mm a b).map (showNested T.show))
    | _, _, _ => "bad-op"
  | "nest" =>
    match parseNested semBool.parse 2 2 tm, parseFlat T.parse (2 * 2) ta, parseFlat T.parse (2 * 2) tb with
    | some m, some a, some b =>
      res (((Simd.implCastToFlat false m).bind fun mm => Simd.cond mm a b).map (showFlat T.show))
    | _, _, _ => "bad-op"
  | "al64" =>
    match parseFlat semBool.parse 4 tm, parseFlat T.parse 4 ta, parseFlat T.parse 4 tb with
    | some m, some a, some b =>
      res ((((Simd.implCastLanes (laneCount 4 1) false (Simd.lane · m)).bind Simd.ofLanesFlat).bind fun mm => Simd.cond mm a b).map
        (showFlat T.show))
    | _, _, _ => "bad-op"
  | _ => "bad-op"

def redKindOf (s : String) : Option RedKind :=
  match s with
  | "anyTrue" => some .anyTrue | "allTrue" => some .allTrue | "anyFalse" => some .anyFalse | "allFalse" => some .allFalse
  | _ => none

def handle (line : String) : String :=
  match tokens line with
  | "mat" :: what :: shape :: n :: piv :: ta :: rest =>
    match n.toNat? with
    | some n =>
      if n ∈ matSizes shape ∧ (piv = "0" ∨ piv = "1") then
        match rest with
        | [] => withShape shape fun C => execMatG C what n (piv == "1") ta none
        | [tb] => withShape shape fun C => execMatG C what n (piv == "1") ta (some tb)
        | _ => "bad-op"
      else "bad-op"
    | none => "bad-op"
  | "matc" :: what :: shape :: n :: piv :: lim :: ta :: rest =>
    -- the checked configuration; `d4` = DynamicMatrix<LoopSIMD<double,4>>
    match n.toNat?, semF64.parse lim with
    | some n, some limit =>
      let sizes : List Nat := match shape with
        | "2" => [1, 2, 3] | "4" => [1, 2, 3, 4] | "2x2" => [2, 3] | "f4" => [1, 2, 3] | "d4" => [1, 2, 3, 4] | _ => []
      if n ∈ sizes ∧ (piv = "0" ∨ piv = "1") then
        let shp := if shape = "d4" then "4" else shape
        match rest with
        | [] => withShape shp fun C => execMatC C what n (piv == "1") limit ta none
        | [tb] => withShape shp fun C => execMatC C what n (piv == "1") limit ta (some tb)
        | _ => "bad-op"
      else "bad-op"
    | _, _ => "bad-op"
  | "dmat" :: what :: shape :: n :: piv :: ta :: rest =>
    -- DynamicMatrix: the same algorithms, run-time size 1..8 (no 1x1 specialisation of rightmultiply: not generated)
    match n.toNat? with
    | some n =>
      if shape ∈ ["2", "4"] ∧ 1 ≤ n ∧ n ≤ 8 ∧ (piv = "0" ∨ piv = "1") ∧ what ∈ ["det", "solve", "inv", "mv", "fnorm2", "infnorm"] then
        match rest with
        | [] => withShape shape fun C => execMatG C what n (piv == "1") ta none
        | [tb] => withShape shape fun C => execMatG C what n (piv == "1") ta (some tb)
        | _ => "bad-op"
      else if shape ∈ ["2", "4"] ∧ 1 ≤ n ∧ n ≤ 8 then noSuch else "bad-op"
    | none => "bad-op"
  | "rect" :: what :: shape :: r :: c :: rest =>
    match r.toNat?, c.toNat? with
    | some r, some c =>
      if (r, c) ∈ rectSizes ∧ shape ∈ rectShapes then withShape shape fun C => execRectG C what r c rest else "bad-op"
    | _, _ => "bad-op"
  | "vec" :: what :: shape :: n :: rest =>
    match n.toNat? with
    | some n => if n ∈ fvecSizes ∧ shape ∈ rectShapes then withShape shape fun C => execVecG C what n rest else "bad-op"
    | none => "bad-op"
  | "mini" :: what :: t :: sz :: rest =>
    match redKindOf what, t, sz, rest with
    | some k, "b", "3", [tm] => match parseFlat semBool.parse 3 tm with
      | some m => res ((Simd.reduceDefault k m).map showB) | none => "bad-op"
    | some k, "b", "4", [tm] => match parseFlat semBool.parse 4 tm with
      | some m => res ((Simd.reduceDefault k m).map showB) | none => "bad-op"
    | some _, _, _, _ => if (t, sz) ∈ [("i32", "3"), ("f64", "4")] then noSuch else "bad-op"
    | none, "b", "3", _ => execMini true semBool 3 what rest
    | none, "b", "4", _ => execMini true semBool 4 what rest
    | none, "i32", "3", _ => execMini false (semInt 32) 3 what rest
    | none, "f64", "4", _ => execMini false semF64 4 what rest
    | none, _, _, _ => "bad-op"
  | "cplx" :: what :: sz :: rest =>
    match sz with
    | "2" => execCplx 2 what rest
    | "4" => execCplx 4 what rest
    | _ => "bad-op"
  | ["layx", "condm", t, how, tm, ta, tb] =>
    match t with
    | "f64" => execCondM semF64 how tm ta tb
    | "i32" => execCondM (semInt 32) how tm ta tb
    | _ => "bad-op"
  | ["layx", "bcast", t, u, ts] =>
    if t ∈ ["f64", "f32", "i32", "i16", "u32", "b"] ∧ u ∈ ["f64", "f32", "i32", "i64", "u32", "b"] then
      match parseNum u ts with
      | some s =>
        if convDefined t s then
          withSem t fun _ T => res ((T.ofNum s).map fun x => showFlat (S := 4) T.show (Simd.broadcast x))
        else "invalid"
      | none => "bad-op"
    else "bad-op"
  | ["layx", opn, t1, t2, ta, tb] =>
    if (opn = "maskor" ∨ opn = "maskand") ∧ t1 ∈ ["f64", "i32", "b"] ∧ t2 ∈ ["f64", "i32", "b"] then
      withSem t1 fun m1 T1 => withSem t2 fun m2 T2 =>
        match parseFlat T1.parse 4 ta, parseFlat T2.parse 4 tb with
        | some a, some b =>
          res ((Simd.maskCombine (if opn = "maskor" then maskOrOp else maskAndOp) Simd.boolSem (maskOfSem m1 T1 a)
            (maskOfSem m2 T2 b)).map (showFlat (S := 4) showB))
        | _, _ => "bad-op"
    else "bad-op"
  | ["realign", ta, tb] =>
    match parseFlat semF64.parse 4 ta, parseFlat semF64.parse 4 tb with
    | some a, some b =>
      let sv := showFlat (S := 4) semF64.show
      res ((Simd.binaryVV (fun (_ : BinOp) (x y : Float) => some (x + y)) .add a b).bind fun sum =>
        (Simd.compareVV (fun (_ : CmpOp) (x y : Float) => some (x < y)) .lt a b).bind fun m =>
          (Simd.cond m a b).map fun sel => sv a ++ " " ++ sv sum ++ " " ++ sv sel)
    | _, _ => "bad-op"
  | ["shiftmix", opn, form, ta, tb] =>
    match shiftOpOf opn, parseFlat (semInt 64).parse 4 ta with
    | some op, some a =>
      let sem : ShiftOp → Int → Int → Option Int := fun o => intShift 64 o
      let sv := showFlat (S := 4) (toString : Int → String)
      match form with
      | "vv" => match parseFlat (semInt 32).parse 4 tb with
        | some b => res ((Simd.shiftVV sem op a b).map sv) | none => "bad-op"
      | "vs" => match (semInt 32).parse tb with
        | some s => res ((Simd.shiftVS sem op a s).map sv) | none => "bad-op"
      | _ => "bad-op"
    | _, _ => "bad-op"
  | ["reds", what, m] =>
    match redKindOf what, semBool.parse m with
    | some k, some m => showB (scalarReduce k m)
    | _, _ => "bad-op"
  | ["slane", x, y, m] =>
    match semF64.parse x, semF64.parse y, semBool.parse m with
    | some x, some y, some m =>
      -- lane(0, x), cond(m, x, y), broadcast(x), max(x, y), max(x)
      " ".intercalate ([x, scalarCond m x y, x, Simd.stdMax (fun a b => a < b) x y, x].map semF64.show)
    | _, _, _ => "bad-op"
  | ["red", "b", shp, what, tm] =>
    match parseShape shp, redKindOf what with
    | some (.flat S), some k => match parseFlat semBool.parse S tm with
      | some m => res ((Simd.reduceFlat k m).map showB) | none => "bad-op"
    | some (.nested S₁ S₂), some k => match parseNested semBool.parse S₁ S₂ tm with
      | some m => res ((Simd.reduceNested k m).map showB) | none => "bad-op"
    | _, _ => "bad-op"
  | ["math", t, shp, fn, ta, tt] =>
    match parseShape shp with
    | none => "bad-op"
    | some sh =>
      match t with
      | "f64" => execMath (fun s => (semF64.parse s).map semF64.show) sh fn ta tt
      | "f32" => match sh with
        | .flat S => if S = 3 then "bad-op" else execMath (fun s => (semF32.parse s).map semF32.show) sh fn ta tt
        | _ => "bad-op"
      | _ => noSuch
  | kind :: t :: shp :: rest =>
    match parseShape shp with
    | none => "bad-op"
    | some sh =>
      if kind == "red" then noSuch else
      let flatIn : List Nat → Bool := fun l => match sh with | .flat S => decide (S ∈ l) | _ => false
      match t with
      | "f64" => execT "f64" false semF64 sh kind rest
      | "f32" => if flatIn [1, 2, 4, 8] then execT "f32" false semF32 sh kind rest else "bad-op"
      | "i32" => execT "i32" false (semInt 32) sh kind rest
      | "i64" => if flatIn [1, 2, 4, 8] then execT "i64" false (semInt 64) sh kind rest else "bad-op"
      | "b" => execT "b" true semBool sh kind rest
      | "u32" => if flatIn [2, 4, 8] then execT "u32" false (semUInt 32) sh kind rest else "bad-op"
      | "i16" => if flatIn [2, 4] then execT "i16" false semI16 sh kind rest else "bad-op"
      | _ => "bad-op"
  | _ => "bad-op"

end C09Driver

def main : IO Unit := DV.runDriver C09Driver.handle
