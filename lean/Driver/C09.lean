import DuneVerif.Common.Proto
import DuneVerif.Model.C09
import DuneVerif.Model.C09LU
/-! line-protocol driver for C09 (see harness/cxx_c09.cc for the op lines).

Scalar types of the correspondence: `i32`/`i64` as exact `Int` with the range of the C++ type (an operation
whose result leaves the range, divides by zero or shifts out of range is `invalid` — the harness never executes
undefined behaviour), `b` as `Bool` with the C++ promotion to `int`, `f64`/`f32` as Lean's `Float`/`Float32`
(IEEE binary64/binary32 `+ - * /`, comparisons, `fabs`; values travel as bit patterns, every NaN as the canonical
quiet NaN).  The cmath functions are *uninterpreted*: the op line carries the table of the scalar function on the
operand values, the model applies it through the translated loop. -/
open DV DV.C09 DV.C09.Gen

namespace C09Driver

/-- what the driver needs of a scalar type -/
structure Sem (α : Type) where
  parse : String → Option α
  «show» : α → String
  bin : BinOp → Option (α → α → Option α)        -- outer none: the expression does not exist for the type
  shift : ShiftOp → Option (α → α → Option α)
  cmp : CmpOp → α → α → Bool
  truth : α → Bool
  un : UnOp → Option (α → Option α)
  inc : IncOp → Option (α → Option α)
  zero : α
  classify : Option (α → Bool × Bool × Bool)     -- (isNaN, isInf, isFinite) for floating point

def hexPad (digits : Nat) (n : Nat) : String :=
  let h := (toHex n).toList
  "x" ++ String.ofList (List.replicate (digits - h.length) '0' ++ h)

def parseHexTok (s : String) : Option Nat :=
  match s.toList with
  | 'x' :: rest => parseHex? (String.ofList rest)
  | _ => none

-- integers ----------------------------------------------------------------------------------------------

def inRange (w : Nat) (x : Int) : Option Int :=
  if -(2 : Int) ^ (w - 1) ≤ x ∧ x < (2 : Int) ^ (w - 1) then some x else none

def toU (w : Nat) (x : Int) : Nat := (x % (2 : Int) ^ w).toNat
def ofU (w : Nat) (n : Nat) : Int := if n < 2 ^ (w - 1) then (n : Int) else (n : Int) - (2 : Int) ^ w

def intBin (w : Nat) : BinOp → Int → Int → Option Int
  | .add, a, b => inRange w (a + b)
  | .sub, a, b => inRange w (a - b)
  | .mul, a, b => inRange w (a * b)
  | .div, a, b => if b = 0 then none else inRange w (Int.tdiv a b)
  | .mod, a, b => if b = 0 ∨ (a = -(2 : Int) ^ (w - 1) ∧ b = -1) then none else some (Int.tmod a b)
  | .band, a, b => some (ofU w (Nat.land (toU w a) (toU w b)))
  | .bor, a, b => some (ofU w (Nat.lor (toU w a) (toU w b)))
  | .bxor, a, b => some (ofU w (Nat.xor (toU w a) (toU w b)))

def intShift (w : Nat) : ShiftOp → Int → Int → Option Int
  | .shl, a, b => if 0 ≤ b ∧ b < w ∧ 0 ≤ a then inRange w (a * (2 : Int) ^ b.toNat) else none
  | .shr, a, b => if 0 ≤ b ∧ b < w then some (Int.shiftRight a b.toNat) else none

def intCmp : CmpOp → Int → Int → Bool
  | .lt, a, b => a < b | .gt, a, b => a > b | .le, a, b => a ≤ b | .ge, a, b => a ≥ b
  | .eq, a, b => a = b | .ne, a, b => a ≠ b

def intUn (w : Nat) : UnOp → Int → Option Int
  | .pos, a => some a
  | .neg, a => inRange w (-a)
  | .bnot, a => some (-a - 1)

def intInc (w : Nat) : IncOp → Int → Option Int
  | .inc, a => inRange w (a + 1)
  | .dec, a => inRange w (a - 1)

def semInt (w : Nat) : Sem Int where
  parse := fun s => (s.toInt?).bind (inRange w)
  «show» := toString
  bin := fun op => some (intBin w op)
  shift := fun op => some (intShift w op)
  cmp := intCmp
  truth := fun a => a ≠ 0
  un := fun op => some (intUn w op)
  inc := fun op => some (intInc w op)
  zero := 0
  classify := none

-- bool: promoted to int, result converted back ------------------------------------------------------------

def b2i (b : Bool) : Int := if b then 1 else 0

def semBool : Sem Bool where
  parse := fun s => if s = "1" then some true else if s = "0" then some false else none
  «show» := fun b => if b then "1" else "0"
  bin := fun op => some fun a b => (intBin 32 op (b2i a) (b2i b)).map (· ≠ 0)
  shift := fun op => some fun a b => (intShift 32 op (b2i a) (b2i b)).map (· ≠ 0)
  cmp := fun op a b => intCmp op (b2i a) (b2i b)
  truth := id
  un := fun op => some fun a => (intUn 32 op (b2i a)).map (· ≠ 0)
  inc := fun _ => none
  zero := false
  classify := none

-- floating point -------------------------------------------------------------------------------------------

def semF64 : Sem Float where
  parse := fun s => match parseHexTok s with
    | some n => if n < 2 ^ 64 then some (Float.ofBits (UInt64.ofNat n)) else none
    | none => s.toInt?.map Float.ofInt
  «show» := fun x => hexPad 16 x.toBits.toNat
  bin := fun op => match op with
    | .add => some fun a b => some (a + b) | .sub => some fun a b => some (a - b)
    | .mul => some fun a b => some (a * b) | .div => some fun a b => some (a / b)
    | _ => none
  shift := fun _ => none
  cmp := fun op a b => match op with
    | .lt => a < b | .gt => a > b | .le => a ≤ b | .ge => a ≥ b | .eq => a == b | .ne => !(a == b)
  truth := fun a => !(a == 0)
  un := fun op => match op with | .pos => some fun a => some a | .neg => some fun a => some (-a) | .bnot => none
  inc := fun op => match op with | .inc => some fun a => some (a + 1) | .dec => some fun a => some (a - 1)
  zero := 0
  classify := some fun a => (a.isNaN, a.isInf, a.isFinite)

def semF32 : Sem Float32 where
  parse := fun s => match parseHexTok s with
    | some n => if n < 2 ^ 32 then some (Float32.ofBits (UInt32.ofNat n)) else none
    | none => s.toInt?.map Float32.ofInt
  «show» := fun x => hexPad 8 x.toBits.toNat
  bin := fun op => match op with
    | .add => some fun a b => some (a + b) | .sub => some fun a b => some (a - b)
    | .mul => some fun a b => some (a * b) | .div => some fun a b => some (a / b)
    | _ => none
  shift := fun _ => none
  cmp := fun op a b => match op with
    | .lt => a < b | .gt => a > b | .le => a ≤ b | .ge => a ≥ b | .eq => a == b | .ne => !(a == b)
  truth := fun a => !(a == 0)
  un := fun op => match op with | .pos => some fun a => some a | .neg => some fun a => some (-a) | .bnot => none
  inc := fun op => match op with | .inc => some fun a => some (a + 1) | .dec => some fun a => some (a - 1)
  zero := 0
  classify := some fun a => (a.isNaN, a.isInf, a.isFinite)

-- vectors -------------------------------------------------------------------------------------------------

def listToks (s : String) : Option (List String) :=
  let cs := s.toList
  if cs.length < 2 then none else
  if cs.head? ≠ some '[' || cs.getLast? ≠ some ']' then none else
  let inner := String.ofList ((cs.drop 1).dropLast)
  if inner.isEmpty then some [] else some (inner.splitOn ",")

def mkVec {α : Type} (S : Nat) (l : List α) : Option (Vec α S) :=
  if h : l.toArray.size = S then some ⟨l.toArray, h⟩ else none

def chunks {α : Type} (k : Nat) : Nat → List α → List (List α)
  | 0, _ => []
  | n + 1, l => l.take k :: chunks k n (l.drop k)

def parseFlat {α : Type} (p : String → Option α) (S : Nat) (tok : String) : Option (Vec α S) :=
  (listToks tok).bind fun ts => (ts.mapM p).bind (mkVec S)

def parseNested {α : Type} (p : String → Option α) (S₁ S₂ : Nat) (tok : String) : Option (Vec (Vec α S₂) S₁) :=
  (listToks tok).bind fun ts => (ts.mapM p).bind fun xs =>
    if xs.length = S₁ * S₂ then ((chunks S₂ S₁ xs).mapM (mkVec S₂)).bind (mkVec S₁) else none

def showFlat {α : Type} {S : Nat} (sh : α → String) (v : Vec α S) : String :=
  "[" ++ ",".intercalate (v.toList.map sh) ++ "]"
def showNested {α : Type} {S₁ S₂ : Nat} (sh : α → String) (v : Vec (Vec α S₂) S₁) : String :=
  "[" ++ ",".intercalate ((Simd.flatten v).map sh) ++ "]"

def showB (b : Bool) : String := if b then "1" else "0"

inductive Shape where
  | flat (S : Nat) | nested (S₁ S₂ : Nat)

def parseShape (s : String) : Option Shape :=
  match s.splitOn "x" with
  | [a] => a.toNat?.bind fun S => if S ∈ [1, 2, 4, 8] then some (.flat S) else none
  | [a, b] => a.toNat?.bind fun S₁ => b.toNat?.bind fun S₂ =>
      if (S₁, S₂) ∈ [(2, 2), (4, 2), (2, 4)] then some (.nested S₁ S₂) else none
  | _ => none

def nested? : Shape → Bool | .nested .. => true | _ => false

def binOpOf (s : String) : Option BinOp :=
  match s with
  | "add" => some .add | "sub" => some .sub | "mul" => some .mul | "div" => some .div | "mod" => some .mod
  | "band" => some .band | "bor" => some .bor | "bxor" => some .bxor | _ => none
def shiftOpOf (s : String) : Option ShiftOp := match s with | "shl" => some .shl | "shr" => some .shr | _ => none
def cmpOpOf (s : String) : Option CmpOp :=
  match s with
  | "lt" => some .lt | "gt" => some .gt | "le" => some .le | "ge" => some .ge | "eq" => some .eq | "ne" => some .ne
  | _ => none
def boolOpOf (s : String) : Option BoolOp := match s with | "land" => some .land | "lor" => some .lor | _ => none
def assignOpOf (s : String) : Option AssignOp :=
  match s with
  | "add" => some .add | "sub" => some .sub | "mul" => some .mul | "div" => some .div | "mod" => some .mod
  | "shl" => some .shl | "shr" => some .shr | "band" => some .band | "bor" => some .bor | "bxor" => some .bxor
  | _ => none
def unOpOf (s : String) : Option UnOp := match s with | "pos" => some .pos | "neg" => some .neg | "bnot" => some .bnot | _ => none

def res (o : Option String) : String := o.getD "invalid"
def noSuch : String := "ERR:NoSuchOp"

/-- operations on one scalar type -/
def execT {α : Type} (T : Sem α) (sh : Shape) (kind : String) (rest : List String) : String :=
  let logicSem : BoolOp → α → α → Option Bool := fun op a b =>
    match op with | .land => some (T.truth a && T.truth b) | .lor => some (T.truth a || T.truth b)
  let cmpSem : CmpOp → α → α → Option Bool := fun op a b => some (T.cmp op a b)
  let lt : α → α → Bool := T.cmp .lt
  match sh with
  | .flat S =>
    let pv := parseFlat T.parse S
    let sv := showFlat (S := S) T.show
    let sm := showFlat (S := S) showB
    match kind, rest with
    | "bin", [form, opn, ta, tb] =>
      -- arithmetic
      match binOpOf opn with
      | some op => match T.bin op with
        | none => noSuch
        | some f =>
          let sem : BinOp → α → α → Option α := fun _ => f
          match form with
          | "vv" => match pv ta, pv tb with | some a, some b => res ((Simd.binaryVV sem op a b).map sv) | _, _ => "bad-op"
          | "vs" => match pv ta, T.parse tb with | some a, some s => res ((Simd.binaryVS sem op a s).map sv) | _, _ => "bad-op"
          | "sv" => match T.parse ta, pv tb with | some s, some b => res ((Simd.binarySV sem op s b).map sv) | _, _ => "bad-op"
          | _ => "bad-op"
      | none =>
      match shiftOpOf opn with
      | some op => match T.shift op with
        | none => noSuch
        | some f =>
          let sem : ShiftOp → α → α → Option α := fun _ => f
          match form with
          | "vv" => match pv ta, pv tb with | some a, some b => res ((Simd.shiftVV sem op a b).map sv) | _, _ => "bad-op"
          | "vs" => match pv ta, T.parse tb with | some a, some s => res ((Simd.shiftVS sem op a s).map sv) | _, _ => "bad-op"
          | _ => noSuch
      | none =>
      match cmpOpOf opn with
      | some op =>
          match form with
          | "vv" => match pv ta, pv tb with | some a, some b => res ((Simd.compareVV cmpSem op a b).map sm) | _, _ => "bad-op"
          | "vs" => match pv ta, T.parse tb with | some a, some s => res ((Simd.compareVS cmpSem op a s).map sm) | _, _ => "bad-op"
          | "sv" => match T.parse ta, pv tb with | some s, some b => res ((Simd.compareSV cmpSem op s b).map sm) | _, _ => "bad-op"
          | _ => "bad-op"
      | none =>
      match boolOpOf opn with
      | some op =>
          match form with
          | "vv" => match pv ta, pv tb with | some a, some b => res ((Simd.logicVV logicSem op a b).map sm) | _, _ => "bad-op"
          | "vs" => match pv ta, T.parse tb with | some a, some s => res ((Simd.logicVS logicSem op a s).map sm) | _, _ => "bad-op"
          | "sv" => match T.parse ta, pv tb with | some s, some b => res ((Simd.logicSV logicSem op s b).map sm) | _, _ => "bad-op"
          | _ => "bad-op"
      | none =>
      match opn, form, pv ta, pv tb with
      | "max", "vv", some a, some b => res ((Simd.stdBin (fun _ x y => some (Simd.stdMax lt x y)) StdBinOp.f_max a b).map sv)
      | "min", "vv", some a, some b => res ((Simd.stdBin (fun _ x y => some (Simd.stdMin lt x y)) StdBinOp.f_min a b).map sv)
      | "maskor", "vv", some a, some b =>
          -- defaults.hh: mask(v1) || mask(v2), mask(v) = v != 0
          res (((Simd.compareVS cmpSem .ne a T.zero).bind fun ma => (Simd.compareVS cmpSem .ne b T.zero).bind fun mb =>
            Simd.logicVV (fun (_ : BoolOp) x y => some (x || y)) .lor ma mb).map sm)
      | "maskand", "vv", some a, some b =>
          res (((Simd.compareVS cmpSem .ne a T.zero).bind fun ma => (Simd.compareVS cmpSem .ne b T.zero).bind fun mb =>
            Simd.logicVV (fun (_ : BoolOp) x y => some (x && y)) .land ma mb).map sm)
      | _, _, _, _ => if opn ∈ ["max", "min", "maskor", "maskand"] then noSuch else "bad-op"
    | "asg", [form, opn, ta, tb] =>
      match assignOpOf opn with
      | none => noSuch
      | some op =>
        let f? : Option (α → α → Option α) := match binOpOf opn with
          | some b => T.bin b
          | none => (shiftOpOf opn).bind T.shift
        match f? with
        | none => noSuch
        | some f =>
          let sem : AssignOp → α → α → Option α := fun _ => f
          match form with
          | "vv" => match pv ta, pv tb with | some a, some b => res ((Simd.assignVV sem op a b).map sv) | _, _ => "bad-op"
          | "vs" => match pv ta, T.parse tb with | some a, some s => res ((Simd.assignVS sem op a s).map sv) | _, _ => "bad-op"
          | _ => noSuch
    | "un", [opn, ta] =>
      match pv ta with
      | none => "bad-op"
      | some a =>
        match unOpOf opn with
        | some op => match T.un op with
          | none => noSuch
          | some f => res ((Simd.unary (fun _ => f) op a).map sv)
        | none =>
        match opn with
        | "lnot" => res ((Simd.lnot (fun x => some (T.truth x)) a).map sm)
        | "preinc" => match T.inc .inc with | none => noSuch | some f => res ((Simd.prefix (fun _ => f) .inc a).map fun r => sv r ++ "|" ++ sv r)
        | "predec" => match T.inc .dec with | none => noSuch | some f => res ((Simd.prefix (fun _ => f) .dec a).map fun r => sv r ++ "|" ++ sv r)
        | "postinc" => match T.inc .inc with | none => noSuch | some f => res ((Simd.postfix (fun _ => f) .inc a).map fun r => sv r.1 ++ "|" ++ sv r.2)
        | "postdec" => match T.inc .dec with | none => noSuch | some f => res ((Simd.postfix (fun _ => f) .dec a).map fun r => sv r.1 ++ "|" ++ sv r.2)
        | "mask" => res ((Simd.compareVS cmpSem .ne a T.zero).map sm)
        | "isNaN" => match T.classify with | none => noSuch | some c => res ((Simd.isNaN (fun x => some (c x).1) a).map sm)
        | "isInf" => match T.classify with | none => noSuch | some c => res ((Simd.isInf (fun x => some (c x).2.1) a).map sm)
        | "isFinite" => match T.classify with | none => noSuch | some c => res ((Simd.isFinite (fun x => some (c x).2.2) a).map sm)
        | _ => noSuch
    | "lane", [l, ta] => match l.toNat?, pv ta with
      | some l, some a => if l < S then res ((Simd.lane l a).map T.show) else "bad-op"
      | _, _ => "bad-op"
    | "setlane", [l, x, ta] => match l.toNat?, T.parse x, pv ta with
      | some l, some x, some a => if l < S then res ((Simd.setLane l x a).map sv) else "bad-op"
      | _, _, _ => "bad-op"
    | "cond", [tm, ta, tb] => match parseFlat semBool.parse S tm, pv ta, pv tb with
      | some m, some a, some b => res ((Simd.cond m a b).map sv)
      | _, _, _ => "bad-op"
    | "condb", [m, ta, tb] => match semBool.parse m, pv ta, pv tb with
      | some m, some a, some b => sv (scalarCond m a b)
      | _, _, _ => "bad-op"
    | "bcast", [x] => match T.parse x with | some x => sv (Simd.broadcast x) | none => "bad-op"
    | "hmax", [ta] => match pv ta with | some a => res ((Simd.hmax lt a.toList).map T.show) | none => "bad-op"
    | "hmin", [ta] => match pv ta with | some a => res ((Simd.hmin lt a.toList).map T.show) | none => "bad-op"
    | "lanes", [] => toString (laneCount S 1) ++ " " ++ toString (laneCount S 1)
    | _, _ => "bad-op"
  | .nested S₁ S₂ =>
    let pv := parseNested T.parse S₁ S₂
    let pf := parseFlat T.parse (S₁ * S₂)
    let sv := showNested (S₁ := S₁) (S₂ := S₂) T.show
    let sm := showNested (S₁ := S₁) (S₂ := S₂) showB
    match kind, rest with
    | "bin", [form, opn, ta, tb] =>
      match binOpOf opn with
      | some op => match T.bin op with
        | none => noSuch
        | some f =>
          let sem : BinOp → α → α → Option α := fun _ => f
          match form with
          | "vv" => match pv ta, pv tb with
            | some a, some b => res ((Simd.binVV loop_BINARY_OP_vv (Simd.binaryVV sem op) a b).map sv) | _, _ => "bad-op"
          | "vs" => match pv ta, T.parse tb with
            | some a, some s => res ((Simd.binVS loop_BINARY_OP_vs (Simd.binaryVS sem op) a s).map sv) | _, _ => "bad-op"
          | "sv" => match T.parse ta, pv tb with
            | some s, some b => res ((Simd.binSV loop_BINARY_OP_sv (Simd.binarySV sem op) s b).map sv) | _, _ => "bad-op"
          | _ => "bad-op"
      | none =>
      match shiftOpOf opn with
      | some op => match T.shift op with
        | none => noSuch
        | some f =>
          let sem : ShiftOp → α → α → Option α := fun _ => f
          match form with
          | "vv" => match pv ta, pv tb with
            | some a, some b => res ((Simd.binVV loop_BITSHIFT_OP_vv (Simd.shiftVV sem op) a b).map sv) | _, _ => "bad-op"
          | "vs" => match pv ta, T.parse tb with
            | some a, some s => res ((Simd.binVS loop_BITSHIFT_OP_vs (Simd.shiftVS sem op) a s).map sv) | _, _ => "bad-op"
          | _ => noSuch
      | none =>
      match cmpOpOf opn with
      | some op =>
          match form with
          | "vv" => match pv ta, pv tb with
            | some a, some b => res ((Simd.binVV loop_COMPARISON_OP_vv (Simd.compareVV cmpSem op) a b).map sm) | _, _ => "bad-op"
          | "vs" => match pv ta, T.parse tb with
            | some a, some s => res ((Simd.binVS loop_COMPARISON_OP_vs (Simd.compareVS cmpSem op) a s).map sm) | _, _ => "bad-op"
          | "sv" => match T.parse ta, pv tb with
            | some s, some b => res ((Simd.binSV loop_COMPARISON_OP_sv (Simd.compareSV cmpSem op) s b).map sm) | _, _ => "bad-op"
          | _ => "bad-op"
      | none =>
      match boolOpOf opn with
      | some op =>
          match form with
          | "vv" => match pv ta, pv tb with
            | some a, some b => res ((Simd.binVV loop_BOOLEAN_OP_vv (Simd.logicVV logicSem op) a b).map sm) | _, _ => "bad-op"
          | "vs" => match pv ta, T.parse tb with
            | some a, some s => res ((Simd.binVS loop_BOOLEAN_OP_vs (Simd.logicVS logicSem op) a s).map sm) | _, _ => "bad-op"
          | _ => noSuch    -- no `Mask<T> && vector` overload exists for nested vectors
      | none =>
      match opn, form, pv ta, pv tb with
      | "max", "vv", some a, some b =>
          res ((Simd.binVV loop_STD_BINARY_OP_vv (Simd.stdBin (fun _ x y => some (Simd.stdMax lt x y)) StdBinOp.f_max) a b).map sv)
      | "min", "vv", some a, some b =>
          res ((Simd.binVV loop_STD_BINARY_OP_vv (Simd.stdBin (fun _ x y => some (Simd.stdMin lt x y)) StdBinOp.f_min) a b).map sv)
      | "maskor", "vv", some a, some b =>
          let mk := fun (v : Vec (Vec α S₂) S₁) => Simd.binVS loop_COMPARISON_OP_vs (Simd.compareVS cmpSem .ne) v T.zero
          res (((mk a).bind fun ma => (mk b).bind fun mb =>
            Simd.binVV loop_BOOLEAN_OP_vv (Simd.logicVV (fun (_ : BoolOp) x y => some (x || y)) .lor) ma mb).map sm)
      | "maskand", "vv", some a, some b =>
          let mk := fun (v : Vec (Vec α S₂) S₁) => Simd.binVS loop_COMPARISON_OP_vs (Simd.compareVS cmpSem .ne) v T.zero
          res (((mk a).bind fun ma => (mk b).bind fun mb =>
            Simd.binVV loop_BOOLEAN_OP_vv (Simd.logicVV (fun (_ : BoolOp) x y => some (x && y)) .land) ma mb).map sm)
      | _, _, _, _ => if opn ∈ ["max", "min", "maskor", "maskand"] then noSuch else "bad-op"
    | "asg", [form, opn, ta, tb] =>
      match assignOpOf opn with
      | none => noSuch
      | some op =>
        let f? : Option (α → α → Option α) := match binOpOf opn with
          | some b => T.bin b
          | none => (shiftOpOf opn).bind T.shift
        match f? with
        | none => noSuch
        | some f =>
          let sem : AssignOp → α → α → Option α := fun _ => f
          match form with
          | "vv" => match pv ta, pv tb with
            | some a, some b => res ((Simd.ipVV loop_ASSIGNMENT_OP_vv (Simd.assignVV sem op) a b).map sv) | _, _ => "bad-op"
          | "vs" => match pv ta, T.parse tb with
            | some a, some s => res ((Simd.ipVS loop_ASSIGNMENT_OP_vs (Simd.assignVS sem op) a s).map sv) | _, _ => "bad-op"
          | _ => noSuch
    | "un", [opn, ta] =>
      match pv ta with
      | none => "bad-op"
      | some a =>
        match unOpOf opn with
        | some op => match T.un op with
          | none => noSuch
          | some f => res ((Simd.un loop_UNARY_OP_v (Simd.unary (fun _ => f) op) a).map sv)
        | none =>
        let pre := fun (op : IncOp) (f : α → Option α) => Simd.ipUn loop_PREFIX_OP_v (Simd.prefix (fun _ => f) op) a
        match opn with
        | "lnot" => res ((Simd.un loop_lnot (Simd.lnot fun x => some (T.truth x)) a).map sm)
        | "preinc" => match T.inc .inc with | none => noSuch | some f => res ((pre .inc f).map fun r => sv r ++ "|" ++ sv r)
        | "predec" => match T.inc .dec with | none => noSuch | some f => res ((pre .dec f).map fun r => sv r ++ "|" ++ sv r)
        | "postinc" => match T.inc .inc with | none => noSuch | some f => res ((pre .inc f).map fun r => sv a ++ "|" ++ sv r)
        | "postdec" => match T.inc .dec with | none => noSuch | some f => res ((pre .dec f).map fun r => sv a ++ "|" ++ sv r)
        | "mask" => res ((Simd.binVS loop_COMPARISON_OP_vs (Simd.compareVS cmpSem .ne) a T.zero).map sm)
        | "isNaN" => match T.classify with
          | none => noSuch | some c => res ((Simd.un loop_isNaN (Simd.isNaN fun x => some (c x).1) a).map sm)
        | "isInf" => match T.classify with
          | none => noSuch | some c => res ((Simd.un loop_isInf (Simd.isInf fun x => some (c x).2.1) a).map sm)
        | "isFinite" => match T.classify with
          | none => noSuch | some c => res ((Simd.un loop_isFinite (Simd.isFinite fun x => some (c x).2.2) a).map sm)
        | _ => noSuch
    | "lane", [l, ta] => match l.toNat?, pv ta with
      | some l, some a => if l < S₁ * S₂ then res ((Simd.laneNested l a).map T.show) else "bad-op"
      | _, _ => "bad-op"
    | "setlane", [l, x, ta] => match l.toNat?, T.parse x, pv ta with
      | some l, some x, some a => if l < S₁ * S₂ then res ((Simd.setLaneNested l x a).map sv) else "bad-op"
      | _, _, _ => "bad-op"
    | "cond", [tm, ta, tb] => match parseNested semBool.parse S₁ S₂ tm, pv ta, pv tb with
      | some m, some a, some b => res ((Simd.condNested m a b).map sv)
      | _, _, _ => "bad-op"
    | "condb", [m, ta, tb] => match semBool.parse m, pv ta, pv tb with
      | some m, some a, some b => sv (scalarCond m a b)
      | _, _, _ => "bad-op"
    | "bcast", [x] => match T.parse x with
      | some x => sv (Simd.broadcast (S := S₁) (Simd.broadcast (S := S₂) x)) | none => "bad-op"
    | "hmax", [ta] => match pv ta with | some a => res ((Simd.hmax lt (Simd.flatten a)).map T.show) | none => "bad-op"
    | "hmin", [ta] => match pv ta with | some a => res ((Simd.hmin lt (Simd.flatten a)).map T.show) | none => "bad-op"
    | "implcast", [dir, ta] =>
      -- defaults.hh: lane(l, result) = lane(l, u) for every l
      match dir with
      | "flat" => match pv ta with
        | some a => res (((List.range (S₁ * S₂)).mapM fun l => Simd.laneNested l a).map fun xs => "[" ++ ",".intercalate (xs.map T.show) ++ "]")
        | none => "bad-op"
      | "nest" => match pf ta with
        | some a =>
          let z : Vec (Vec α S₂) S₁ := Simd.broadcast (Simd.broadcast T.zero)
          res (((List.range (S₁ * S₂)).foldlM (fun (r : Vec (Vec α S₂) S₁) l => (Simd.lane l a).bind fun x => Simd.setLaneNested l x r) z).map sv)
        | none => "bad-op"
      | _ => noSuch
    | "lanes", [] => toString (laneCount S₁ (laneCount S₂ 1)) ++ " " ++ toString (laneCount S₁ (laneCount S₂ 1))
    | _, _ => "bad-op"

-- cmath functions: uninterpreted, given by the table on the op line -----------------------------------------

def parseTable (s : String) : Option (List (String × String)) :=
  let cs := s.toList
  if cs.head? ≠ some '{' || cs.getLast? ≠ some '}' then none else
  let inner := String.ofList ((cs.drop 1).dropLast)
  if inner.isEmpty then some [] else
  (inner.splitOn ",").mapM fun e => match e.splitOn ":" with | [k, v] => some (k, v) | _ => none

def execMath (canon : String → Option String) (sh : Shape) (fn ta tt : String) : String :=
  match parseTable tt with
  | none => "bad-op"
  | some tab =>
    let f : String → Option String := fun x => tab.lookup x
    let showS := fun (l : List String) => "[" ++ ",".intercalate l ++ "]"
    match MathOp.all.find? (fun o => o.symbol == fn), MathRetOp.all.find? (fun o => o.symbol == fn),
          StdUnOp.all.find? (fun o => o.symbol == fn) with
    | some op, _, _ =>
      match sh with
      | .flat S => match parseFlat canon S ta with
        | some a => res ((Simd.math (fun _ => f) op a).map fun r => showS r.toList) | none => "bad-op"
      | .nested S₁ S₂ => match parseNested canon S₁ S₂ ta with
        | some a => res ((Simd.un loop_CMATH_UNARY_OP_v (Simd.math (fun _ => f) op) a).map fun r => showS (Simd.flatten r))
        | none => "bad-op"
    | none, some op, _ =>
      match sh with
      | .flat S => match parseFlat canon S ta with
        | some a => res ((Simd.mathRet (fun _ => f) op a).map fun r => showS r.toList) | none => "bad-op"
      | .nested .. => noSuch   -- `LoopSIMD<returnType,S> out; out[i] = expr(v[i])` does not compile for nested vectors
    | none, none, some op =>
      match sh with
      | .flat S => match parseFlat canon S ta with
        | some a => res ((Simd.stdUn (fun _ => f) op a).map fun r => showS r.toList) | none => "bad-op"
      | .nested S₁ S₂ => match parseNested canon S₁ S₂ ta with
        | some a => res ((Simd.un loop_STD_UNARY_OP_v (Simd.stdUn (fun _ => f) op) a).map fun r => showS (Simd.flatten r))
        | none => "bad-op"
    | none, none, none => noSuch

-- dense matrices --------------------------------------------------------------------------------------------

def arithF64 : Arith Float where
  zero := 0
  one := 1
  add := (· + ·)
  sub := (· - ·)
  mul := (· * ·)
  div := (· / ·)
  neg := fun a => -a
  abs := Float.abs
  lt := fun a b => a < b
  beq := fun a b => a == b

def parseMat (S n : Nat) (tok : String) : Option (Mat (Vec Float S) n) :=
  (listToks tok).bind fun ts => (ts.mapM semF64.parse).bind fun xs =>
    if xs.length = n * n * S then
      ((chunks S (n * n) xs).mapM (mkVec S)).bind fun es => ((chunks n n es).mapM (mkVec n)).bind (mkVec n)
    else none

def parseVecOfVec (S n : Nat) (tok : String) : Option (Vector (Vec Float S) n) :=
  (listToks tok).bind fun ts => (ts.mapM semF64.parse).bind fun xs =>
    if xs.length = n * S then ((chunks S n xs).mapM (mkVec S)).bind (mkVec n) else none

def showLanes {S : Nat} (v : Vec Float S) : String := ",".intercalate (v.toList.map semF64.show)
def showVecOfVec {S n : Nat} (v : Vector (Vec Float S) n) : String := "[" ++ ",".intercalate (v.toList.map showLanes) ++ "]"
def showMat {S n : Nat} (A : Mat (Vec Float S) n) : String :=
  "[" ++ ",".intercalate ((A.toList.map fun r => r.toList.map showLanes).flatten) ++ "]"

def execMat (what : String) (S n : Nat) (piv : Bool) (ta : String) (tb : Option String) : String :=
  let X := SimdLike.loop S
  let R := arithF64
  match parseMat S n ta with
  | none => "bad-op"
  | some A =>
    match what, tb with
    | "det", none => "[" ++ showLanes (determinant X R piv A) ++ "]"
    | "solve", some tb => match parseVecOfVec S n tb with
      | some b => match solve X R piv A b with | some x => showVecOfVec x | none => "ERR:FMatrix"
      | none => "bad-op"
    | "inv", none => match invert X R piv A with | some B => showMat B | none => "ERR:FMatrix"
    | "mv", some tb => match parseVecOfVec S n tb with
      | some b => showVecOfVec (mv X R A b)
      | none => "bad-op"
    | "mm", some tb => match parseMat S n tb with
      | some B => showMat (rightmultiply X R A B)
      | none => "bad-op"
    | "fnorm2", none => "[" ++ showLanes (frobeniusNorm2 X R A) ++ "]"
    | "infnorm", none => "[" ++ showLanes (infinityNorm X R A) ++ "]"
    | _, _ => "bad-op"

def redKindOf (s : String) : Option RedKind :=
  match s with
  | "anyTrue" => some .anyTrue | "allTrue" => some .allTrue | "anyFalse" => some .anyFalse | "allFalse" => some .allFalse
  | _ => none

def handle (line : String) : String :=
  match tokens line with
  | "mat" :: what :: s :: n :: piv :: ta :: rest =>
    match s.toNat?, n.toNat? with
    | some S, some n =>
      if S ∈ [1, 2, 4, 8] ∧ 1 ≤ n ∧ n ≤ 6 ∧ (piv = "0" ∨ piv = "1") then
        match rest with
        | [] => execMat what S n (piv == "1") ta none
        | [tb] => execMat what S n (piv == "1") ta (some tb)
        | _ => "bad-op"
      else "bad-op"
    | _, _ => "bad-op"
  | ["reds", what, m] =>
    match redKindOf what, semBool.parse m with
    | some k, some m => showB (scalarReduce k m)
    | _, _ => "bad-op"
  | ["slane", x, y, m] =>
    match semF64.parse x, semF64.parse y, semBool.parse m with
    | some x, some y, some m =>
      -- lane(0, x), cond(m, x, y), broadcast(x), max(x, y), max(x)
      " ".intercalate ([x, scalarCond m x y, x, Simd.stdMax (fun a b => a < b) x y, x].map semF64.show)
    | _, _, _ => "bad-op"
  | ["red", "b", shp, what, tm] =>
    match parseShape shp, redKindOf what with
    | some (.flat S), some k => match parseFlat semBool.parse S tm with
      | some m => res ((Simd.reduceFlat k m).map showB) | none => "bad-op"
    | some (.nested S₁ S₂), some k => match parseNested semBool.parse S₁ S₂ tm with
      | some m => res ((Simd.reduceNested k m).map showB) | none => "bad-op"
    | _, _ => "bad-op"
  | ["math", t, shp, fn, ta, tt] =>
    match parseShape shp with
    | none => "bad-op"
    | some sh =>
      match t with
      | "f64" => execMath (fun s => (semF64.parse s).map semF64.show) sh fn ta tt
      | "f32" => match sh with
        | .flat _ => execMath (fun s => (semF32.parse s).map semF32.show) sh fn ta tt
        | _ => "bad-op"
      | _ => noSuch
  | kind :: t :: shp :: rest =>
    match parseShape shp with
    | none => "bad-op"
    | some sh =>
      if kind == "red" then noSuch else
      match t with
      | "f64" => execT semF64 sh kind rest
      | "f32" => if nested? sh then "bad-op" else execT semF32 sh kind rest
      | "i32" => execT (semInt 32) sh kind rest
      | "i64" => if nested? sh then "bad-op" else execT (semInt 64) sh kind rest
      | "b" => execT semBool sh kind rest
      | _ => "bad-op"
  | _ => "bad-op"

end C09Driver

def main : IO Unit := DV.runDriver C09Driver.handle
