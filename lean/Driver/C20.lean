import DuneVerif.Common.Proto
import DuneVerif.Model.C20
/-! line-protocol driver for C20: `<kind header> : seg;seg;…` (see harness/c20_py.py for the op language) -/
open DV DV.C20

namespace C20Drv

def reg? (letter : Char) (count : Nat) (tok : String) : Option Nat :=
  match tok.toList with
  | c :: rest =>
    if c != letter || rest.isEmpty then none else
    match (String.ofList rest).toNat? with
    | some k => if k < count then some k else none
    | none => none
  | [] => none

def x? := reg? 'x' 4
def a? := reg? 'a' 3
def t? := reg? 't' 2

def int? (s : String) : Option Int := s.toInt?
def list? (s : String) : Option (List Int) := parseIntList? s
/-- slice bound: `_` is None -/
def idx? (s : String) : Option (Option Int) :=
  if s == "_" then some none else (s.toInt?).map some

def slotTy? (s : String) : Option SlotTy :=
  if s == "d" then some .d else if s == "i" then some .i else
  match s.toList with
  | 'F' :: rest => match (String.ofList rest).toNat? with
    | some n => if n ≥ 1 then some (.f n) else none
    | none => none
  | _ => none

/-- the tuple shapes the harness builds -/
def shapes : List (String × String) :=
  [("d,F2,d,F3", "val"), ("d,F2,d,F3", "ref"), ("F3,F2", "val"), ("i,d", "val"), ("F2,i,F2", "ref")]

def header? (h : String) : Option Kind :=
  match tokens h with
  | ["fv", n] => match n.toNat? with
    | some n => if fvSizes.contains n then some (.fv n) else none
    | none => none
  | ["pfv", n] => match n.toNat? with       -- precompiled FieldVector classes
    | some n => if fvSizesPre.contains n then some (.fv n) else none
    | none => none
  | ["dyn", n] => match n.toInt? with
    | some _ => some .dyn
    | none => none
  | [tp, sh, r] =>
    if (tp == "tup" || tp == "ptup") && shapes.contains (sh, r) then
      match (sh.splitOn ",").mapM slotTy? with
      | some tys => some (.tup tys (r == "ref"))
      | none => none
    else none
  | _ => none

/-- element types of buffer objects: name ↦ (code, is `array.array` or read-only: contiguous only) -/
def dtype? (s : String) : Option (Nat × Bool) :=
  match s with
  | "f8" => some (0, false) | "i8" => some (1, false) | "i4" => some (2, false) | "i2" => some (3, false)
  | "i1" => some (4, false) | "u1" => some (5, false) | "u2" => some (6, false) | "f4" => some (7, false)
  | "ro" => some (8, true)
  | "ad" => some (0, true) | "al" => some (1, true) | "ai" => some (2, true) | "ah" => some (3, true)
  | "ab" => some (4, true) | "aB" => some (5, true) | "aH" => some (6, true) | "af" => some (7, true)
  | "e8" => some (9, false)
  | _ => none

def digits? (l : List Char) (maxLen : Nat) : Option Nat :=
  if l.isEmpty || l.length > maxLen || !l.all Char.isDigit then none else (String.ofList l).toNat?

/-- record layouts `q<R>o<F>s[m]<K>`: field at byte offset F of packed records of R bytes, every K-th record, `m` = backwards -/
def recLay? (s : String) : Option Lay :=
  match s.toList with
  | 'q' :: rest =>
    match (String.ofList rest).splitOn "o" with
    | [r, rest2] =>
      match rest2.splitOn "s" with
      | [f, st] => do
        let R ← digits? r.toList 2
        let fo ← digits? f.toList 2
        let (neg, kd) := match st.toList with
          | 'm' :: d => (true, d)
          | d => (false, d)
        let k ← digits? kd 1
        if R < 1 || R > 64 || k < 1 || k > 4 then none else pure (.q R fo neg (k - 1))
      | _ => none
    | _ => none
  | _ => none

def lay? (s : String) : Option Lay :=
  match s with
  | "c" => some .c | "s2" => some .s2 | "col" => some .col | "r" => some .r | "r2" => some .r2
  | s => recLay? s

/-- `nb_<element type>_<layout>`: doubles (also read-only) construct, every other element type is rejected -/
def nbHow? (s : String) : Option CtorHow :=
  match s.splitOn "_" with
  | ["nb", dt, lay] => do
    let (code, special) ← dtype? dt
    let l ← lay? lay
    if special && l != .c then pure .nakind
    else if !l.fits code then pure .nakind
    else if code == 0 || code == 8 then pure (.buf l.stride l.memLay)
    else pure (.badbuf code)
  | _ => none

def how? (s : String) : Option CtorHow :=
  match s with
  | "list" => some .list | "tuple" => some .tuple | "args" => some .args
  | "np" | "buf" => some (.buf 1 {})
  | "nps2" => some (.buf 2 {}) | "nps3" => some (.buf 3 {}) | "npsm1" => some (.buf (-1) {}) | "npsm2" => some (.buf (-2) {})
  | "npb0" => some (.buf 0 {})       -- a broadcast buffer: byte stride 0
  | "fac" => some .fac
  | "ilist" => some .ilist | "ituple" => some .ituple | "iargs" => some .iargs
  | "npi" => some (.badbuf 1) | "npf32" => some (.badbuf 7) | "np2d" => some (.badbuf 0)
  | s => nbHow? s

/-- Python kind of a vector operand -/
def okind? (s : String) : Option OKind :=
  match s with
  | "list" | "ilist" => some .list
  | "tuple" => some .tuple
  | "np" | "buf" => some (.buf 1)
  | "nps2" => some (.buf 2) | "npsm1" => some (.buf (-1)) | "npb0" => some (.buf 0)
  | _ => none

def vseg? (sg : String) : Option VOp :=
  match sg.splitOn " " with
  | ["new", x, "zero"] => do let x ← x? x; pure (.new x .zero [])
  | ["new", x, how, L] => do
      let x ← x? x; let h ← how? how; let L ← list? L
      pure (.new x h L)
  | ["copy", x, y] => do pure (.copy (← x? x) (← x? y))
  | ["mcopy", x, y] => do pure (.mcopy (← x? x) (← x? y))
  | ["mcopya", x, y, L] => do pure (.mcopya (← x? x) (← x? y) (← list? L))
  | ["alias", x, y] => do pure (.alias (← x? x) (← x? y))
  | ["add", x, y, z] => do pure (.binvv false (← x? x) (← x? y) (← x? z))
  | ["sub", x, y, z] => do pure (.binvv true (← x? x) (← x? y) (← x? z))
  | ["addl", x, y, L] => do pure (.binvl false false .list (← x? x) (← x? y) (← list? L))
  | ["subl", x, y, L] => do pure (.binvl true false .list (← x? x) (← x? y) (← list? L))
  | ["raddl", x, L, y] => do pure (.binvl false true .list (← x? x) (← x? y) (← list? L))
  | ["rsubl", x, L, y] => do pure (.binvl true true .list (← x? x) (← x? y) (← list? L))
  | ["addo", x, k, y, L] => do pure (.binvl false false (← okind? k) (← x? x) (← x? y) (← list? L))
  | ["subo", x, k, y, L] => do pure (.binvl true false (← okind? k) (← x? x) (← x? y) (← list? L))
  | ["raddo", x, k, L, y] => do pure (.binvl false true (← okind? k) (← x? x) (← x? y) (← list? L))
  | ["rsubo", x, k, L, y] => do pure (.binvl true true (← okind? k) (← x? x) (← x? y) (← list? L))
  | ["mul", x, y, k] => do pure (.scal .mul false (← x? x) (← x? y) (← int? k))
  | ["rmul", x, k, y] => do pure (.scal .mul false (← x? x) (← x? y) (← int? k))
  | ["div", x, y, k] => do pure (.scal .div false (← x? x) (← x? y) (← int? k))
  | ["ldiv", x, y, k] => do pure (.scal .div false (← x? x) (← x? y) (← int? k))
  | ["muli", x, y, k] => do pure (.scal .mul true (← x? x) (← x? y) (← int? k))
  | ["rmuli", x, k, y] => do pure (.scal .mul true (← x? x) (← x? y) (← int? k))
  | ["divi", x, y, k] => do pure (.scal .div true (← x? x) (← x? y) (← int? k))
  | ["neg", x, y] => do pure (.neg (← x? x) (← x? y))
  | ["addi", x, y, k] => do pure (.intscal false false false (← x? x) (← x? y) (← int? k))
  | ["subi", x, y, k] => do pure (.intscal true false false (← x? x) (← x? y) (← int? k))
  | ["raddi", x, k, y] => do pure (.intscal false true false (← x? x) (← x? y) (← int? k))
  | ["rsubi", x, k, y] => do pure (.intscal true true false (← x? x) (← x? y) (← int? k))
  | ["addf", x, y, k] => do pure (.intscal false false true (← x? x) (← x? y) (← int? k))
  | ["subf", x, y, k] => do pure (.intscal true false true (← x? x) (← x? y) (← int? k))
  | ["raddf", x, k, y] => do pure (.intscal false true true (← x? x) (← x? y) (← int? k))
  | ["rsubf", x, k, y] => do pure (.intscal true true true (← x? x) (← x? y) (← int? k))
  | ["iadd", x, y] => do pure (.inplaceV false (← x? x) (← x? y))
  | ["isub", x, y] => do pure (.inplaceV true (← x? x) (← x? y))
  | ["iaddl", x, L] => do pure (.inplaceL false .list (← x? x) (← list? L))
  | ["isubl", x, L] => do pure (.inplaceL true .list (← x? x) (← list? L))
  | ["iaddo", x, k, L] => do pure (.inplaceL false (← okind? k) (← x? x) (← list? L))
  | ["isubo", x, k, L] => do pure (.inplaceL true (← okind? k) (← x? x) (← list? L))
  | ["iadds", x, k] | ["iaddi", x, k] => do pure (.inplaceS .add (← x? x) (← int? k))
  | ["isubs", x, k] | ["isubi", x, k] => do pure (.inplaceS .sub (← x? x) (← int? k))
  | ["imuls", x, k] | ["imuli", x, k] => do pure (.inplaceS .mul (← x? x) (← int? k))
  | ["idivs", x, k] | ["idivi", x, k] => do pure (.inplaceS .div (← x? x) (← int? k))
  | ["assign", x, y] => do pure (.assign (← x? x) (← x? y))
  | ["assigno", x, k, L] => do pure (.assignL (← okind? k) (← x? x) (← list? L))
  | ["set", x, i, k] => do pure (.set false (← x? x) (← int? i) (← int? k))
  | ["setn", x, i, k] => do pure (.set true (← x? x) (← int? i) (← int? k))
  | ["get", x, i] => do pure (.get false (← x? x) (← int? i))
  | ["getn", x, i] => do pure (.get true (← x? x) (← int? i))
  | ["len", x] => do pure (.len (← x? x))
  | ["iter", x] => do pure (.iter (← x? x))
  | ["str", x] => do pure (.str (← x? x))
  | ["slice", x, i, j, s] => do pure (.slice (← x? x) (← idx? i) (← idx? j) (← idx? s))
  | ["eq", x, y] => do pure (.cmpv false (← x? x) (← x? y))
  | ["ne", x, y] => do pure (.cmpv true (← x? x) (← x? y))
  | ["eql", x, L] => do pure (.cmpl false .list (← x? x) (← list? L))
  | ["nel", x, L] => do pure (.cmpl true .list (← x? x) (← list? L))
  | ["eqo", x, k, L] => do pure (.cmpl false (← okind? k) (← x? x) (← list? L))
  | ["neo", x, k, L] => do pure (.cmpl true (← okind? k) (← x? x) (← list? L))
  | ["norms", x] => do pure (.norms (← x? x))
  | ["dot", x, y] => do pure (.dot (← x? x) (← x? y))
  | ["dotl", x, L] | ["rdotl", x, L] => do pure (.dotl .list (← x? x) (← list? L))
  | ["doto", x, k, L] => do pure (.dotl (← okind? k) (← x? x) (← list? L))
  | ["float", x] => do pure (.float (← x? x))
  | ["view", a, x] => do pure (.view (← a? a) (← x? x))
  | ["npcopy", a, x] => do pure (.npcopy (← a? a) (← x? x))
  | ["sl", a, x, i, j, s] => do pure (.sl (← a? a) (← x? x) (← idx? i) (← idx? j) (← idx? s))
  | ["aget", a, i] => do pure (.aget (← a? a) (← int? i))
  | ["aset", a, i, k] => do pure (.aset (← a? a) (← int? i) (← int? k))
  | ["alist", a] => do pure (.alist (← a? a))
  | ["nscale", a, k] | ["nscaleb", a, k] => do pure (.nscale (← a? a) (← int? k))
  | ["nset", a, i, k] | ["nsetb", a, i, k] | ["nsetc", a, i, k] => do pure (.nset (← a? a) (← int? i) (← int? k))
  | ["nget", a, i] | ["ngetb", a, i] | ["ngetc", a, i] => do pure (.nget (← a? a) (← int? i))
  | ["nnorms", a] | ["nnormsb", a] => do pure (.nnorms (← a? a))
  | ["naxpy", a, k, b] | ["naxpyb", a, k, b] => do pure (.naxpy (← a? a) (← int? k) (← a? b))
  | ["nadd", a, b] | ["naddb", a, b] => do pure (.nadd (← a? a) (← a? b))
  | ["nnew", a, b, k] => do pure (.nnew (← a? a) (← a? b) (← int? k))
  | ["nint", a, k] => do pure (.nint (← a? a) (← int? k))
  | ["ndt", a, b, dt, lay] => do
      let (code, special) ← dtype? dt
      pure (.ndt (← a? a) (← a? b) code (← lay? lay) special)
  | ["nvscale", x, k] => do pure (.nvscale (← x? x) (← int? k))
  | ["nrun", a] | ["nrunb", a] => do pure (.nrun (← a? a))
  | _ => none

def tseg? (sg : String) : Option TOp :=
  match sg.splitOn " " with
  | ["tnew", t, V] => do pure (.tnew (← t? t) (← list? V))
  | ["tnewa", t, V] => do pure (.tnew (← t? t) (← list? V))
  | ["tlen", t] => do pure (.tlen (← t? t))
  | ["tget", t, i] => do pure (.tget (← t? t) (← int? i))
  | ["tlist", t] => do pure (.tlist (← t? t))
  | ["tsetd", t, i, k] => do pure (.tsetd (← t? t) (← int? i) (← int? k))
  | ["tseti", t, i, k] => do pure (.tseti (← t? t) (← int? i) (← int? k))
  | ["tsetf", t, i, L] | ["tsetl", t, i, L] => do pure (.tsetf (← t? t) (← int? i) (← list? L))
  | ["tsetel", t, i, j, k] => do pure (.elem false (← t? t) (← int? i) (← int? j) (← int? k))
  | ["srcset", t, i, j, k] => do pure (.elem true (← t? t) (← int? i) (← int? j) (← int? k))
  | ["tcopy", t, u] => do pure (.tcopy (← t? t) (← t? u))
  | ["tassign", t, u] => do pure (.tassign (← t? t) (← t? u))
  | _ => none

def seg? (sg : String) : Option Op :=
  match vseg? sg with
  | some o => some (.v o)
  | none => (tseg? sg).map .t

def handle (line : String) : String :=
  match line.splitOn " : " with
  | h :: r :: rest =>
    let body := " : ".intercalate (r :: rest)
    match header? h, (body.splitOn ";").mapM seg? with
    | some kd, some ops => answer kd ops
    | _, _ => "bad-op"
  | _ => "bad-op"

end C20Drv

def main : IO Unit := DV.runDriver C20Drv.handle
