import DuneVerif.Model.C05
import DuneVerif.Common.Proto
/-!
line-protocol driver for C05 (format: see harness/mpi_c05.cc)

  c05 <P> <flags> <ign> <S> <T> <pay> <pol> <comm> <cont> <rounds> : s,r,g,l,attr,pub;...

The driver builds the `System`, runs `interfaceOfG`, `Comm.buildG` (= `interfaceOf`, `Comm.build` with `strip`'s condition and
the loop body of `build` as REGENERATED from the source; `strip_regenerated`, `layout_regenerated`) (on the communicator object of the previous build
when `<rounds>` contains `r…`/`n…` items) and one stateful `worldStep` per round — the buffers persist from one
communication to the next and start as junk after every build (arrival and completion order = rank order; the
theorems say the order is irrelevant) — and applies the calls with a scatter policy that additionally tracks
which entries the property leaves open (copy policy, several senders): such entries are printed as `*`, exactly as
the harness does.  A mask written `5a` denotes the same set as `5` (the harness realises it with other classes);
the policy `cgs` (stock `CopyGatherScatter`) is the copy policy.
-/
open DV DV.C05

namespace C05Drv

/-- value of one component; `none` = left open by the property -/
abbrev Comp := Option Int
/-- one container cell: value and "written in this round" -/
structure Cell where
  v : Comp
  w : Bool := false
  deriving Inhabited
/-- a container: per local index the components -/
abbrev Data := List (List Cell)
/-- one `IndexedType` value: one component (s1, v) or three (s3) -/
abbrev Val := List Comp

/-- one build: masks of the two attribute sets, whether the harness spells them with the alternative classes, and
    the communications that follow -/
structure Ph where
  S : Nat
  sa : Bool
  T : Nat
  ta : Bool
  /-- the items that follow the build: `('f',0)`, `('b',0)` communications, `('m',k)` new values in all containers,
      `('l',r)` rank `r` is late for its next communication (a schedule: no effect on the answer) -/
  rd : List (Char × Nat)

structure Cfg where
  P : Nat
  two : List Bool
  ign : Bool
  S : Nat
  T : Nat
  pay : Nat          -- 0 s1, 1 s3, 2 v
  vk : Nat
  vbase : Nat
  add : Bool
  dt : Bool
  c1 : Bool
  phases : List Ph   -- per build: the attribute sets and the communications that follow

def strictNat? (s : String) (lo hi : Nat) : Option Nat :=
  let cs := s.toList
  if cs.isEmpty || cs.length > 6 || !cs.all Char.isDigit then none else
  let n := cs.foldl (fun acc c => acc * 10 + (c.toNat - '0'.toNat)) 0
  if lo ≤ n ∧ n ≤ hi then some n else none

def inMask (m a : Nat) : Bool := (m >>> a) % 2 == 1

def blk (cfg : Cfg) (g : Int) : Nat :=
  if cfg.pay == 0 then 1 else if cfg.pay == 1 then 3 else cfg.vbase + ((g + cfg.vk) % 3).toNat

/-- block sizes of the container belonging to an index set -/
def blockSizes (cfg : Cfg) (s : List Entry) : List Nat :=
  let n := s.foldl (fun n e => max n (e.l + 1)) 1
  (List.range n).map fun l =>
    match s.find? (fun e => e.l == l) with
    | some e => blk cfg e.g
    | none => if cfg.pay == 1 then 3 else 1

def initVal (r c l j : Nat) : Int := ((r + 1) * 100000 + c * 50000 + l * 10 + j + 1 : Nat)

def mkData (r c : Nat) (bs : List Nat) : Data :=
  bs.zipIdx.map fun (b, l) => (List.range b).map fun j => { v := some (initVal r c l j) }

structure RankSt where
  cont : Cont Data
  b0 : List Val := []
  b1 : List Val := []
  out : List String := []

instance : Inhabited RankSt := ⟨{ cont := { c0 := [], c1 := [], one := true } }⟩

/-- a mask, optionally followed by `a` (alternative realisation of the same set in the harness) -/
def mask? (s : String) : Option (Nat × Bool) :=
  let cs := s.toList
  let alt := cs.getLast? == some 'a'
  let cs := if alt then cs.dropLast else cs
  (strictNat? (String.ofList cs) 0 15).map fun m => (m, alt)

/-- `<rounds>`: items separated by `.`; a string over {f,b}, `m<k>`, `l<r>`, or `r<S>-<T>` / `n<S>-<T>` (build again) -/
def parsePhases (P : Nat) (S T : Nat × Bool) (rounds : String) : Option (List Ph) :=
  if rounds.isEmpty || rounds.length > 120 then none else
  let step (acc : Option (List Ph)) (item : String) : Option (List Ph) :=
    match acc with
    | none => none
    | some phs =>
      let cs := item.toList
      match cs with
      | [] => none
      | c :: rest =>
        if c == 'r' || c == 'n' then
          match (String.ofList rest).splitOn "-" with
          | [a, b] =>
            match mask? a, mask? b with
            | some s', some t' => some (phs ++ [{ S := s'.1, sa := s'.2, T := t'.1, ta := t'.2, rd := [] }])
            | _, _ => none
          | _ => none
        else if c == 'm' || c == 'l' then
          match strictNat? (String.ofList rest) 0 (if c == 'm' then 9 else P - 1), phs.getLast? with
          | some v, some ph => some (phs.dropLast ++ [{ ph with rd := ph.rd ++ [(c, v)] }])
          | _, _ => none
        else if cs.all (fun c => c == 'f' || c == 'b') then
          match phs.getLast? with
          | some ph => some (phs.dropLast ++ [{ ph with rd := ph.rd ++ cs.map fun c => (c, 0) }])
          | none => none
        else none
  match (rounds.splitOn ".").foldl step (some [{ S := S.1, sa := S.2, T := T.1, ta := T.2, rd := [] }]) with
  | none => none
  | some phs =>
    let nComm := (phs.map fun p => (p.rd.filter fun x => x.1 == 'f' || x.1 == 'b').length).sum
    let nExtra := (phs.map fun p => (p.rd.filter fun x => x.1 == 'm' || x.1 == 'l').length).sum
    if nComm == 0 || nComm > 8 || phs.length > 4 || nExtra > 12 then none else some phs

def gatherD (whole : Bool) (d : Data) (l j : Nat) : Val :=
  let b := d.getD l []
  if whole then b.map (·.v) else [(b.getD j default).v]

def updCell (add : Bool) (c : Cell) (x : Comp) : Cell :=
  if add then { v := (match c.v, x with | some a, some b => some (a + b) | _, _ => none), w := true }
  else if c.w then { v := none, w := true } else { v := x, w := true }

def scatterD (whole add : Bool) (d : Data) (x : Val) (l j : Nat) : Data :=
  d.modify l fun b =>
    if whole then (b.zip (x ++ List.replicate b.length none)).map fun (c, y) => updCell add c y
    else b.modify j fun c => updCell add c (x.getD 0 none)

def clearW (d : Data) : Data := d.map fun b => b.map fun c => { c with w := false }

/-- item `m<k>`: the user assigns new values: component `(l,j)` becomes `v + 1000003*(k+1) + 7*l + j` -/
def newValues (k : Nat) (d : Data) : Data :=
  d.zipIdx.map fun (b, l) => b.zipIdx.map fun (c, j) =>
    { c with v := c.v.map fun v => v + ((1000003 * (k + 1) + 7 * l + j : Nat) : Int) }

def showData (d : Data) : String :=
  "[" ++ ",".intercalate (d.flatten.map fun c => match c.v with | some v => toString v | none => "*") ++ "]"

def hasDup (l : List Nat) : Bool :=
  match l with
  | [] => false
  | x :: xs => xs.contains x || hasDup xs

def parseEntry (cfg : Cfg) (seg : String) : Option (Nat × Nat × Entry) :=
  match seg.splitOn "," with
  | [s, r, g, l, a, pb] =>
    let neg := g.toList.head? == some '-'
    let gabs := if neg then String.ofList (g.toList.drop 1) else g
    match strictNat? s 0 1, strictNat? r 0 (cfg.P - 1), strictNat? gabs 0 99999, strictNat? l 0 999, strictNat? a 0 3,
          strictNat? pb 0 1 with
    | some s, some r, some ga, some l, some a, some pb =>
      some (s, r, { g := if neg then -(ga : Int) else ga, l := l, a := a, pub := pb == 1 })
    | _, _, _, _, _, _ => none
  | _ => none

def insertByG (x : Entry) : List Entry → List Entry
  | [] => [x]
  | y :: ys => if x.g < y.g then x :: y :: ys else y :: insertByG x ys

/-- add the entries in op-line order; `none` on a repeated global or local index inside one set -/
def addEntries (cfg : Cfg) (segs : List String) : Option (Array (List Entry × List Entry)) :=
  segs.foldlM (init := Array.replicate cfg.P ([], [])) fun acc seg =>
    let seg := String.ofList (seg.toList.filter (· != ' '))
    if seg.isEmpty then some acc else
    match parseEntry cfg seg with
    | none => none
    | some (s, r, e) =>
      if s == 1 && !(cfg.two.getD r false) then some acc else
      let cur := acc.getD r ([], [])
      let set := if s == 0 then cur.1 else cur.2
      if set.any (fun f => f.g == e.g || f.l == e.l) then none else
      let set' := insertByG e set
      some (acc.setIfInBounds r (if s == 0 then (set', cur.2) else (cur.1, set')))

def parseCfg (ws : List String) : Option Cfg :=
  match ws with
  | ["c05", p, flags, ign, s, t, pay, pol, comm, cont, rounds] =>
    match strictNat? p 1 64, strictNat? ign 0 1, mask? s, mask? t with
    | some P, some ign, some S, some T =>
      let fl := flags.toList
      if fl.length != P || !fl.all (fun c => c == '0' || c == '1') then none else
      let payk : Option (Nat × Nat × Nat) :=
        if pay == "s1" then some (0, 0, 1) else if pay == "s3" then some (1, 0, 1)
        else if pay == "v0" then some (2, 0, 1) else if pay == "v1" then some (2, 1, 1) else if pay == "v2" then some (2, 2, 1)
        else if pay == "w0" then some (2, 0, 0) else if pay == "w1" then some (2, 1, 0) else if pay == "w2" then some (2, 2, 0)
        else none
      let add? : Option Bool :=
        if pol == "copy" || pol == "cgs" then some false else if pol == "add" then some true else none
      let dt? : Option Bool := if comm == "buf" then some false else if comm == "dt" then some true else none
      let c1? : Option Bool := if cont == "c1" then some true else if cont == "c2" then some false else none
      match payk, add?, dt?, c1?, parsePhases P S T rounds with
      | some (pay, vk, vbase), some add, some dt, some c1, some phases =>
        if dt && add then none else
        if pol == "cgs" && (dt || pay == 2) then none else
        some { P := P, two := fl.map (· == '1'), ign := ign == 1, S := S.1, T := T.1, pay := pay, vk := vk, vbase := vbase, add := add, dt := dt,
               c1 := c1, phases := phases }
      | _, _, _, _, _ => none
    | _, _, _, _ => none
  | _ => none

def showIf (m : IfMap) : String :=
  "I" ++ String.join (m.map fun e => " " ++ toString e.1 ++ ":" ++ showList e.2.1.idx ++ "|" ++ showList e.2.2.idx)

def run (cfg : Cfg) (sets : Array (List Entry × List Entry)) : String :=
  let P := cfg.P
  let sys : System :=
    { P := P, rank := fun r => let s := sets.getD r ([], []); { src := s.1, tgt := s.2, two := cfg.two.getD r false } }
  let whole := cfg.pay == 1
  let sz := if cfg.pay == 1 then 24 else 8
  let ranks := List.range P
  let bsS := ranks.map fun p => blockSizes cfg (sys.rank p).src
  let bsT := ranks.map fun p => blockSizes cfg (sys.rank p).tgtSet
  let csOf (bs : List (List Nat)) (p : Nat) : Nat → Nat :=
    if cfg.pay == 2 then fun l => (bs.getD p []).getD l 1 else fun _ => 1
  let oneC (r : Nat) : Bool := cfg.c1 && !(cfg.two.getD r false)
  -- the attribute sets are evaluated through the `contains` functions regenerated from enumset.hh
  let ifsOf (ph : Ph) : List IfMap := ranks.map fun p => interfaceOfG cfg.ign (maskSet ph.sa ph.S) (maskSet ph.ta ph.T) sys p
  -- is the derived-datatype variant free of overlapping receive buffers, in every phase?
  let feasible := cfg.phases.all fun ph =>
    let ifs := ifsOf ph
    let useF := ph.rd.any (·.1 == 'f')
    let useB := ph.rd.any (·.1 == 'b')
    ranks.all fun r =>
      let m := ifs.getD r []
      let snd := m.flatMap (·.2.1.idx)
      let rcv := m.flatMap (·.2.2.idx)
      !(useF && hasDup rcv) && !(useB && hasDup snd) && !(oneC r && (useF || useB) && snd.any rcv.contains)
  let showD (c : Cont Data) : String :=
    "D " ++ showData c.c0 ++ (if c.one then "" else "|" ++ showData c.c1)
  let ph0 : Ph := cfg.phases.headD { S := cfg.S, sa := false, T := cfg.T, ta := false, rd := [] }
  let init : List RankSt := ranks.map fun r =>
    { cont := { c0 := mkData r 0 (bsS.getD r []), c1 := mkData r 1 (bsT.getD r []), one := oneC r },
      out := ["S " ++ showList (selection (maskSet false ph0.S) (sys.rank r).src) ++ " " ++
               showList (selection (maskSet false ph0.S) (sys.rank r).tgtSet)] }
  -- the communicator objects before their first build
  let comm0 : List Comm := ranks.map fun p => buildComm sz (csOf bsS p) (csOf bsT p) []
  let fin : List RankSt :=
    if cfg.dt && !feasible then
      init.zipIdx.map fun (st, r) =>
        { st with out := "skip" :: (st.out ++ [showIf ((ifsOf ph0).getD r [])]) }
    else
    let res := cfg.phases.zipIdx.foldl (init := (init, comm0)) fun (acc : List RankSt × List Comm) (ph, k) =>
      let (sts, comms) := acc
      let rd := ph.rd
      let ifs := ifsOf ph
      let raw (p : Nat) : IfMap := rawInterfaceOf cfg.ign (maskSet ph.sa ph.S) (maskSet ph.ta ph.T) sys p
      -- `build` on the communicator objects as the previous phase left them; fresh buffers with arbitrary content
      let comms' : List Comm := ranks.map fun p =>
        (comms.getD p (buildComm sz (csOf bsS p) (csOf bsT p) [])).buildG (cfg.pay == 2 || !cfg.c1) sz (csOf bsS p) (csOf bsT p) (ifs.getD p [])
      let comm (p : Nat) : Comm := comms'.getD p (buildComm sz (fun _ => 1) (fun _ => 1) [])
      let sts1 : List RankSt := sts.zipIdx.map fun (st, r) =>
        { st with
          b0 := List.replicate ((comm r).sendElems true) [],
          b1 := List.replicate ((comm r).sendElems false) [],
          out := if k == 0 then st.out ++ [showIf (ifs.getD r [])] else showIf (ifs.getD r []) :: st.out }
      let sts2 := rd.foldl (init := sts1) fun sts item =>
        if item.1 == 'l' then sts else
        if item.1 == 'm' then
          sts.map fun st => { st with cont := { st.cont with c0 := newValues item.2 st.cont.c0, c1 := newValues item.2 st.cont.c1 } }
        else
        let fwd := item.1 == 'f'
        -- the "written in this round" marks of the open-entry bookkeeping are reset; values are untouched
        let w (p : Nat) : Cont Data :=
          let c := (sts.getD p default).cont
          { c with c0 := clearW c.c0, c1 := clearW c.c1 }
        let posted (q : Nat) : List Nat := (comm q).postedRecvs fwd
        let pst (p : Nat) : PState Val Data :=
          let st := sts.getD p default
          { cont := w p, b0 := st.b0, b1 := st.b1 }
        ranks.map fun q =>
          let st := sts.getD q default
          if cfg.dt then
            let gat (p : Nat) : Nat → Nat → Val := gatherD whole ((w p).get (!fwd))
            let calls := dtCalls ((comm q).csRecv fwd) gat (fun p => (comm p).csSend fwd) (dtNeighbours raw fwd q)
            let c' := (w q).set fwd (applyCalls (scatterD whole cfg.add) ((w q).get fwd) calls)
            { st with cont := c', out := showD c' :: st.out }
          else
            let st' := worldStep comm (gatherD whole) (scatterD whole cfg.add)
              { fwd := fwd, arr := posted, order := posted } pst q
            { cont := st'.cont, b0 := st'.b0, b1 := st'.b1, out := showD st'.cont :: st.out }
      (sts2, comms')
    res.1
  " ".intercalate (ranks.map fun r =>
    "r" ++ toString r ++ "{" ++ ";".intercalate ((fin.getD r default).out.reverse) ++ "}")

def handle (line : String) : String :=
  let parts := line.splitOn " :"
  let head := parts.headD ""
  let body := " :".intercalate (parts.drop 1)
  match parseCfg (tokens head) with
  | none => "bad-op"
  | some cfg =>
    match addEntries cfg (body.splitOn ";") with
    | none => "bad-op"
    | some sets =>
      if cfg.P == 0 then "bad-op" else run cfg sets

end C05Drv

def main : IO Unit := DV.runDriver C05Drv.handle
