import DuneVerif.Common.Proto
import DuneVerif.Model.C02
import DuneVerif.Model.C02Top
import DuneVerif.Gen.C02
/-! line-protocol driver for C02

  `<field> <op> <rep> <n> <piv> <A> [<b>]`
    field = gf | f64 | ld | c64        (ld: the model computes in double)
    op    = solve | invert | det | fmhinv | fmhinvT
    rep   = fm | dm | diag             (diag: `<A>` lists the n diagonal entries)
    piv   = 1 | 0 | d                  (d: the call without the optional `doPivoting` argument)
    `<A>` row-major `[a00,a01,…]`; gf: residues; f64/ld: IEEE-754 binary64 bit patterns in decimal; c64: re,im pairs
    round three: field = `<base>[@ka@kb][%L]`, base = gf | f64 | ld | c64 | v64
      `v64` = `LoopSIMD<double,4>`: `<A>`, `<b>` list four lanes, each a matrix / right-hand side of its own; by the
        lane-wise transparency of the SIMD layer (property C09, `DV.C09.solve_lanewise` …) the model's answer is the
        scalar model's answer lane by lane (FMatrixError as soon as one lane reports it);
      `@ka@kb` (ld only): the operands are `2^ka·A`, `2^kb·b` in long double.  The model computes in `Float` on the
        unscaled operands: by `DV.C02.solveLU_scale / invertLU_scale / detLU_scale` (Props/C02.lean) the LU path
        reports FMatrixError for the scaled operands iff it does for the unscaled ones and the results are the scaled
        results, under every rounding that commutes with the scaling (binary formats, powers of two, no over/underflow);
      `%L`: the harness calls `FMatrixPrecision<>::set_absolute_limit(10^L)` (`z`: 0) around the call.  The model of the
        default build has no such parameter (the code must not read it): the token is validated and ignored.
    A floating-point matrix with a zero row, a zero column or (real types) two equal rows is exactly singular and
    the elimination meets an exact zero pivot: n ≥ 4 → `ERR:FMatrix` / determinant exactly 0; n ≤ 3, diag → `unspecified`.

  Everything is computed by `DV.C02.determinant / solve / invert / fmhInvert` (Model/C02Top.lean: size dispatch
  between the closed forms of `DV.C02.Gen`, regenerated from the source, and the LU path of Model/C02.lean) and
  `solveDiag / invertDiag / detDiag`; the driver only parses, decides "unspecified" and prints.
-/
open DV DV.C02

namespace DV.C02.Drv

inductive Ans (α : Type) where
  | val (x : α)
  | err            -- FMatrixError
  | unspec         -- the property does not fix the behaviour (singular n ≤ 3 / singular diagonal / unpivoted breakdown)

section Generic
variable {K Q : Type} [Add K] [Sub K] [Mul K] [Div K] [Neg K] [OfNat K 0] [OfNat K 1]
variable [LT Q] [DecidableLT Q] [BEq Q] [OfNat Q 0]

def matOfArr (n : Nat) (a : Array K) : Mat n K := Mat.ofFn fun i j => a.getD (i.1 * n + j.1) (0 : K)
def vecOfArr (n : Nat) (a : Array K) : Vec n K := Vec.ofFn fun i => a.getD i.1 (0 : K)
def matToList {n : Nat} (A : Mat n K) : List K :=
  (List.finRange n).flatMap fun i => (List.finRange n).map fun j => A.f i j
def vecToList {n : Nat} (v : Vec n K) : List K := (List.finRange n).map v.f

/-- the `<piv>` token: `1` / `0` = explicit argument, `d` = the call without the optional argument -/
inductive PivArg where
  | given (p : Bool)
  | dflt

def PivArg.parse : String → Option PivArg
  | "1" => some (.given true)
  | "0" => some (.given false)
  | "d" => some .dflt
  | _ => none

/-- `A.determinant(p)` / `A.determinant()` -/
def detDense (pa : PivArg) (absval : K → Q) {n : Nat} (A : Mat n K) : K :=
  match pa with
  | .given p => determinant p absval A
  | .dflt => determinantDefault absval A

/-- `A.solve(x, b, p)` / `A.solve(x, b)` -/
def solveDense (pa : PivArg) (absval : K → Q) {n : Nat} (A : Mat n K) (b : Vec n K) : Res (List K) :=
  match (match pa with
    | .given p => solve p absval A b
    | .dflt => solveDefault absval A b) with
  | .ok x => .ok (vecToList x)
  | .fmatrixError => .fmatrixError

/-- `A.invert(p)` / `A.invert()` -/
def invertDense (pa : PivArg) (absval : K → Q) {n : Nat} (A : Mat n K) : Res (List K) :=
  match (match pa with
    | .given p => invert p absval A
    | .dflt => invertDefault absval A) with
  | .ok B => .ok (matToList B)
  | .fmatrixError => .fmatrixError

/-- `FMatrixHelp::invertMatrix` (`tr = false`) / `invertMatrix_retTransposed` (`tr = true`) -/
def fmhInvertL (tr : Bool) {n : Nat} (A : Mat n K) : Option (K × List K) :=
  (fmhInvert tr A).map fun r => (r.1, matToList r.2)

/-- is pivoting in effect for this call (only used to decide whether the property fixes the behaviour) -/
def PivArg.effective (pa : PivArg) (dflt : Bool) : Bool :=
  match pa with
  | .given p => p
  | .dflt => dflt

/-- does the pivoted decomposition run through (model's own verdict "A is nonsingular", n ≥ 4) -/
def pivotedOk (absval : K → Q) {n : Nat} (A : Mat n K) : Bool :=
  (luDecomp true absval (detFunc : Func n K K) A (1 : K)).ok

end Generic

/-! ### GF(32003) -/

def fpList (l : List Fp) : String := showList (l.map (·.v))

def isZero (a : Fp) : Bool := a.v == 0

/-- model's verdict on singularity for the dense representations -/
def gfSingular (n : Nat) (A : Mat n Fp) : Bool :=
  if 1 ≤ n ∧ n ≤ 3 then isZero (determinant true Fp.absval A) else !(pivotedOk Fp.absval A)

def gfDense (op : String) (n : Nat) (pa : PivArg) (A : Mat n Fp) (b : Option (Vec n Fp)) : String :=
  let sing := gfSingular n A
  let closed := 1 ≤ n ∧ n ≤ 3
  match op, b with
  | "det", none =>
    if closed ∨ sing ∨ pa.effective Gen.determinantDefaultPivoting then toString (detDense pa Fp.absval A).v
    else -- unpivoted, nonsingular: defined iff the unpivoted decomposition runs through
      if (luDecomp false Fp.absval (detFunc : Func n Fp Fp) A (1 : Fp)).ok then toString (detDense pa Fp.absval A).v
      else "unspecified"
  | "solve", some b =>
    if closed ∧ sing then "unspecified" else
    match solveDense pa Fp.absval A b with
    | .ok x => fpList x
    | .fmatrixError => if sing then "ERR:FMatrix" else "unspecified"
  | "invert", none =>
    if closed ∧ sing then "unspecified" else
    match invertDense pa Fp.absval A with
    | .ok x => fpList x
    | .fmatrixError => if sing then "ERR:FMatrix" else "unspecified"
  | "inv2", none =>
    -- round four: `A.invert(p); A.invert(p);` on the same object (pivoting on / default argument only)
    if !(pa.effective Gen.invertDefaultPivoting) then "bad-op" else
    if closed ∧ sing then "unspecified" else
    match invertDense pa Fp.absval A with
    | .ok l => (match invertDense pa Fp.absval (matOfArr n l.toArray) with
      | .ok l2 => fpList l2
      | .fmatrixError => "ERR:FMatrix after a successful first inversion")
    | .fmatrixError => if sing then "ERR:FMatrix" else "unspecified"
  | "fmhinv", none | "fmhinvT", none =>
    if sing then "unspecified" else
    match fmhInvertL (op == "fmhinvT") A with
    | some (d, l) => toString d.v ++ " " ++ fpList l
    | none => "bad-op"
  | _, _ => "bad-op"

def gfDiag (op : String) (n : Nat) (d : Vec n Fp) (b : Option (Vec n Fp)) : String :=
  let sing := (vecToList d).any isZero
  match op, b with
  | "det", none => match n, d with
    | 0, _ => "bad-op"
    | _ + 1, d => toString (detDiag d).v
  | "solve", some b => if sing then "unspecified" else fpList (vecToList (solveDiag d b))
  | "invert", none => if sing then "unspecified" else fpList (vecToList (invertDiag d))
  | "inv2", none => if sing then "unspecified" else fpList (vecToList (invertDiag (invertDiag d)))
  | _, _ => "bad-op"

/-! ### floating point: the model computes in double and reports whether its own residual is small -/

section Flt
variable {K : Type} [Add K] [Sub K] [Mul K] [Div K] [Neg K] [OfNat K 0] [OfNat K 1]

def eps : Float := 2.220446049250313e-16

def fmax (l : List Float) : Float := l.foldl (fun a b => if a < b then b else a) 0.0
def fsum (l : List Float) : Float := l.foldl (· + ·) 0.0
def ksum (l : List K) : K := l.foldl (· + ·) (0 : K)

/-- max-row-sum norm of a row-major n×n list -/
def normInf (mag : K → Float) (n : Nat) (a : Array K) : Float :=
  fmax ((List.range n).map fun i => fsum ((List.range n).map fun j => mag (a.getD (i * n + j) 0)))

def tolOf (n : Nat) : Float := 100.0 * (n * n).toFloat * eps

/-- ‖A x − b‖∞ ≤ tol (‖A‖∞ ‖x‖∞ + ‖b‖∞) -/
def solveResidOk (mag : K → Float) (n : Nat) (a : Array K) (x b : Array K) : Bool :=
  let r := fmax ((List.range n).map fun i =>
    mag (ksum ((List.range n).map fun j => a.getD (i * n + j) 0 * x.getD j 0) - b.getD i 0))
  let xn := fmax (x.toList.map mag)
  let bn := fmax (b.toList.map mag)
  r ≤ tolOf n * (normInf mag n a * xn + bn)

def mulArr (n : Nat) (a b : Array K) : Array K :=
  ((List.range n).flatMap fun i => (List.range n).map fun j =>
    ksum ((List.range n).map fun k => a.getD (i * n + k) 0 * b.getD (k * n + j) 0)).toArray

/-- ‖A B − I‖max and ‖B A − I‖max ≤ tol ‖A‖∞ ‖B‖∞ -/
def invertResidOk (mag : K → Float) (n : Nat) (a b : Array K) : Bool :=
  let idm : Array K := ((List.range n).flatMap fun i => (List.range n).map fun j => if i = j then (1 : K) else 0).toArray
  let dev (m : Array K) : Float := fmax ((List.range (n * n)).map fun t => mag (m.getD t 0 - idm.getD t 0))
  let bound := tolOf n * normInf mag n a * normInf mag n b
  dev (mulArr n a b) ≤ bound && dev (mulArr n b a) ≤ bound

/-- Laplace expansion over column subsets (driver-side reference for the determinant tolerance test):
`D[mask]` = determinant of the rows `0 .. popcount(mask)-1` restricted to the columns in `mask`; `O(2ⁿ n)` -/
def laplace (a : Array K) (n : Nat) : K :=
  let D := (List.range (2 ^ n)).foldl (fun (D : Array K) mask =>
    if mask = 0 then D.push (1 : K) else
      let r := (List.range n).foldl (fun k c => if mask.testBit c then k + 1 else k) 0 - 1
      let st := (List.range n).foldl (fun (acc : K × Nat) c =>
        if mask.testBit c then
          let t := a.getD (r * n + c) 0 * D.getD (mask - 2 ^ c) 0
          ((if (r + acc.2) % 2 = 1 then acc.1 - t else acc.1 + t), acc.2 + 1)
        else acc) ((0 : K), 0)
      D.push st.1) (#[] : Array K)
  D.getD (2 ^ n - 1) (1 : K)

/-- |det − reference| ≤ tol ∏ᵢ ‖rowᵢ‖₁ -/
def detOk (mag : K → Float) (n : Nat) (a : Array K) (d : K) : Bool :=
  let ref := laplace a n
  let had := ((List.range n).map fun i => fsum ((List.range n).map fun j => mag (a.getD (i * n + j) 0))).foldl (· * ·) 1.0
  mag (d - ref) ≤ tolOf n * had

variable {Q : Type} [LT Q] [DecidableLT Q] [BEq Q] [OfNat Q 0]

/-- exactly singular whatever the rounding: a zero row, a zero column or (`dup`, real types) two equal rows -/
def structSingular (isZ : K → Bool) (eqK : K → K → Bool) (dup : Bool) (n : Nat) (a : Array K) : Bool :=
  let e (i j : Nat) : K := a.getD (i * n + j) 0
  (List.range n).any (fun i => (List.range n).all (fun j => isZ (e i j)) || (List.range n).all (fun j => isZ (e j i)))
  || (dup && (List.range n).any fun i => (List.range n).any fun k =>
        decide (i < k) && (List.range n).all fun j => eqK (e i j) (e k j))

/-- answer for one floating-point operand: `resid-ok` / `resid-bad` / `ERR:FMatrix` / `unspecified` -/
def fltCase (mag : K → Float) (absval : K → Q) (isZ : K → Bool) (eqK : K → K → Bool) (dup : Bool)
    (op rep : String) (n : Nat) (piv : PivArg) (a : Array K) (b : Option (Array K)) : String :=
  let ok (t : Bool) : String := if t then "resid-ok" else "resid-bad"
  if rep == "diag" then
    let d : Vec n K := vecOfArr n a
    let full : Array K := ((List.range n).flatMap fun i => (List.range n).map fun j =>
      if i = j then a.getD i 0 else (0 : K)).toArray
    if structSingular isZ eqK dup n full then "unspecified" else
    match op, b with
    | "solve", some b => ok (solveResidOk mag n full (vecToList (solveDiag d (vecOfArr n b))).toArray b)
    | "invert", none =>
      let inv := (vecToList (invertDiag d)).toArray
      let fullInv : Array K := ((List.range n).flatMap fun i => (List.range n).map fun j =>
        if i = j then inv.getD i 0 else (0 : K)).toArray
      ok (invertResidOk mag n full fullInv)
    | "det", none => match n, d with
      | 0, _ => "bad-op"
      | m + 1, d => ok (detOk mag (m + 1) full (detDiag d))
    | _, _ => "bad-op"
  else
    let A : Mat n K := matOfArr n a
    let sing := structSingular isZ eqK dup n a
    if sing ∧ n ≤ 3 then "unspecified" else
    match op, b with
    | "solve", some b => match solveDense piv absval A (vecOfArr n b) with
      | .ok x => if sing then "resid-bad" else ok (solveResidOk mag n a x.toArray b)
      | .fmatrixError => "ERR:FMatrix"
    | "invert", none => match invertDense piv absval A with
      | .ok x => if sing then "resid-bad" else ok (invertResidOk mag n a x.toArray)
      | .fmatrixError => "ERR:FMatrix"
    | "det", none =>
      if sing then ok (isZ (detDense piv absval A)) else ok (detOk mag n a (detDense piv absval A))
    | "fmhinv", none | "fmhinvT", none => match fmhInvertL (op == "fmhinvT") A with
      | some (d, l) =>
        let l' : Array K := if op == "fmhinvT" then
            ((List.range n).flatMap fun i => (List.range n).map fun j => l.toArray.getD (j * n + i) 0).toArray
          else l.toArray
        ok (detOk mag n a d && invertResidOk mag n a l')
      | none => "bad-op"
    | _, _ => "bad-op"
end Flt

def floatOfBits (i : Int) : Option Float :=
  if 0 ≤ i ∧ i < 2 ^ 64 then some (Float.ofBits i.toNat.toUInt64) else none

def cxOfBits : List Int → Option (List Cx)
  | [] => some []
  | [_] => none
  | r :: i :: rest => do
    let r ← floatOfBits r
    let i ← floatOfBits i
    let t ← cxOfBits rest
    pure (⟨r, i⟩ :: t)

def fltReal (op rep : String) (n : Nat) (piv : PivArg) (a : Array Float) (b : Option (Array Float)) : String :=
  fltCase (K := Float) Float.abs Float.abs (fun x => x == 0.0) (fun x y => x == y) true op rep n piv a b

/-- `LoopSIMD<double,4>`: lane `l` holds the matrix `a[l·n² ..]` and the right-hand side `b[l·n ..]`; the answer is
the scalar answer lane by lane; `solve` / `invert` throw as a whole as soon as one lane is singular -/
def simdCase (lanes : Nat) (op rep : String) (n : Nat) (piv : PivArg) (a : Array Float) (b : Option (Array Float)) : String :=
  let per : List String := (List.range lanes).map fun l =>
    fltReal op rep n piv (a.extract (l * n * n) ((l + 1) * n * n)) (b.map fun b => b.extract (l * n) ((l + 1) * n))
  let nsing := ((List.range lanes).filter fun l =>
    structSingular (fun x : Float => x == 0.0) (fun x y => x == y) true n (a.extract (l * n * n) ((l + 1) * n * n))).length
  if per.any (· == "bad-op") then "bad-op"
  else if op != "det" ∧ n ≥ 4 ∧ nsing > 0 then (if per.any (· == "ERR:FMatrix") then "ERR:FMatrix" else "resid-bad")
  else if per.any (· == "ERR:FMatrix") then "ERR:FMatrix"
  else if per.any (· == "unspecified") then "unspecified"
  else if per.all (· == "resid-ok") then "resid-ok" else "resid-bad"

/-- `-?[0-9]{1,5}` -/
def smallInt? (t : String) : Option Int :=
  let cs := t.toList
  let ds := if cs.head? == some '-' then cs.drop 1 else cs
  if ds.length < 1 ∨ ds.length > 5 ∨ !(ds.all Char.isDigit) then none else t.toInt?

structure FieldTok where
  base : String
  scaled : Bool

/-- `<base>[@ka@kb][%L]` (the scale and the limit are validated; the model does not depend on them) -/
def FieldTok.parse (w : String) : Option FieldTok :=
  let limOk (l : String) : Bool := l == "z" || (match smallInt? l with
    | some e => decide (-320 ≤ e ∧ e ≤ 308)
    | none => false)
  let rest? : Option String := match w.splitOn "%" with
    | [r] => some r
    | [r, l] => if limOk l then some r else none
    | _ => none
  match rest? with
  | none => none
  | some rest =>
    match rest.splitOn "@" with
    | [b] => some ⟨b, false⟩
    | [b, ka, kb] =>
      match smallInt? ka, smallInt? kb with
      | some ka, some kb =>
        if b == "ld" ∧ ka.natAbs ≤ 16000 ∧ kb.natAbs ≤ 16000 then some ⟨b, true⟩ else none
      | _, _ => none
    | _ => none

/-- exact determinant of a small integer matrix (row-major, n ≤ 3); 0 for anything else -/
def ckDet (n : Nat) (a : List Int) : Int :=
  match n, a with
  | 1, [a0] => a0
  | 2, [a0, a1, a2, a3] => a0 * a3 - a1 * a2
  | 3, [a0, a1, a2, a3, a4, a5, a6, a7, a8] =>
    a0 * (a4 * a8 - a5 * a7) - a1 * (a3 * a8 - a5 * a6) + a2 * (a3 * a7 - a4 * a6)
  | _, _ => 0

/-- round five: `ck <solve|invert> <fm|dm> <n ≤ 3> <k> <A> [<b>]` = the closed forms in the build with
`DUNE_FMatrix_WITH_CHECKING` on the operand `A·2^k` (small integer entries, exact determinant ≠ 0, `-180 ≤ k·n ≤ 600`,
i.e. the determinant is far above `FMatrixPrecision<>::absolute_limit()`).  By design that build throws FMatrixError only
below the limit (`tie_checked_quantity`: the tested quantity is the determinant), so the model's answer is "returns";
the harness checks the returned numbers by residual. -/
def handleCk (op rep ns ks as : String) (rest : List String) : String :=
  match smallInt? ns, smallInt? ks, parseIntList? as with
  | some n, some k, some al =>
    if (op != "solve" ∧ op != "invert") ∨ (rep != "fm" ∧ rep != "dm") then "bad-op" else
    if n < 1 ∨ n > 3 ∨ k < -600 ∨ k > 600 then "bad-op" else
    let bl : Option (List Int) := match rest with
      | [] => some []
      | [bs] => parseIntList? bs
      | _ => none
    match bl with
    | none => "bad-op"
    | some bl =>
      if (op == "solve") != (rest.length == 1) then "bad-op" else
      if al.length != (n * n).toNat ∨ (op == "solve" ∧ bl.length != n.toNat) then "bad-op" else
      if al.any (fun x => x < -9 ∨ x > 9) ∨ bl.any (fun x => x < -9 ∨ x > 9) then "bad-op" else
      if ckDet n.toNat al == 0 ∨ k * n < -180 ∨ k * n > 600 then "bad-op" else "ck-returns"
  | _, _, _ => "bad-op"

def handle (line : String) : String :=
  match tokens line with
  | ftok :: op :: rep0 :: ns :: ps :: as :: rest =>
    if ftok == "ck" then handleCk op rep0 ns ps as rest else
    match FieldTok.parse ftok, ns.toNat?, PivArg.parse ps, parseIntList? as with
    | some ft, some n, some piv, some al =>
      let field := ft.base
      -- round four: `fmx` / `dmx` / `diagx` = `solve` with x and b of the other vector family (DynamicVector with
      -- FieldMatrix / DiagonalMatrix, FieldVector with DynamicMatrix); the model has one kind of vector
      let mixed := rep0 == "fmx" ∨ rep0 == "dmx" ∨ rep0 == "diagx"
      let rep := if rep0 == "fmx" then "fm" else if rep0 == "dmx" then "dm" else if rep0 == "diagx" then "diag" else rep0
      if mixed ∧ (op != "solve" ∨ field == "v64" ∨ n > 7) then "bad-op" else
      -- `inv2` = the same object inverted twice: exact field only, pivoting on / default argument
      if op == "inv2" ∧ (field != "gf" ∨ ps == "0") then "bad-op" else
      -- n = 0 is not an admissible operand (DynamicMatrix::mat_cols asserts rows() > 0; FieldMatrix<K,0,0> is not used)
      if n < 1 ∨ n > 12 then "bad-op" else
      let bl : Option (Option (List Int)) := match rest with
        | [] => some none
        | [bs] => (parseIntList? bs).map some
        | _ => none
      match bl with
      | none => "bad-op"
      | some bl =>
      let needB := op == "solve"
      if needB != bl.isSome then "bad-op" else
      let cnt := if rep == "diag" then n else n * n
      let scal := if field == "c64" then 2 else if field == "v64" then 4 else 1
      if al.length != cnt * scal ∨ (bl.map (·.length)).getD (n * scal) != n * scal then "bad-op" else
      if rep != "fm" ∧ rep != "dm" ∧ rep != "diag" then "bad-op" else
      if (op == "fmhinv" ∨ op == "fmhinvT") ∧ (rep != "fm" ∨ n > 3) then "bad-op" else
      if field == "v64" ∧ (rep == "diag" ∨ op == "fmhinv" ∨ op == "fmhinvT" ∨ n > 7) then "bad-op" else
      match field with
      | "gf" =>
        if al.any (fun x => x < 0 ∨ x ≥ P) ∨ (bl.getD []).any (fun x => x < 0 ∨ x ≥ P) then "bad-op" else
        let a : Array Fp := (al.map Fp.ofInt).toArray
        let b : Option (Array Fp) := bl.map fun l => (l.map Fp.ofInt).toArray
        if rep == "diag" then gfDiag op n (vecOfArr n a) (b.map (vecOfArr n))
        else gfDense op n piv (matOfArr n a) (b.map (vecOfArr n))
      | "f64" | "ld" | "v64" =>
        match al.mapM floatOfBits, (bl.getD []).mapM floatOfBits with
        | some a, some b =>
          if field == "v64" then simdCase 4 op rep n piv a.toArray (if needB then some b.toArray else none)
          else fltReal op rep n piv a.toArray (if needB then some b.toArray else none)
        | _, _ => "bad-op"
      | "c64" =>
        match cxOfBits al, cxOfBits (bl.getD []) with
        | some a, some b =>
          fltCase (K := Cx) Cx.absval Cx.absval (fun z => z.re == 0.0 && z.im == 0.0)
            (fun x y => x.re == y.re && x.im == y.im) false op rep n piv a.toArray (if needB then some b.toArray else none)
        | _, _ => "bad-op"
      | _ => "bad-op"
    | _, _, _, _ => "bad-op"
  | _ => "bad-op"

end DV.C02.Drv

def main : IO Unit := DV.runDriver DV.C02.Drv.handle
