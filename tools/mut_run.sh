#!/bin/sh
# development aid: run a property's check against a seeded change.
#   tools/mut_run.sh <Cxx> <patch.diff> [tier]
# makes a scratch worktree of /repo HEAD under /tmp, applies the patch, runs the check with VERIF_REPO pointing there
# and separate build/evidence dirs, removes the worktree.  Exit status = the check's.
set -u
PID=$1; PATCH=$(readlink -f "$2"); TIER=${3:-quick}
WT=/tmp/mutrun_${PID}_$$
git -C /repo worktree add --detach "$WT" HEAD >/dev/null 2>&1 || exit 3
if ! git -C "$WT" apply "$PATCH"; then echo "patch does not apply"; git -C /repo worktree remove --force "$WT"; exit 3; fi
cd "$(dirname "$0")/.."
mkdir -p /tmp/mutout_$$
VERIF_REPO="$WT" VERIF_BUILD=/tmp/mutout_$$/build VERIF_OUT=/tmp/mutout_$$ python3 tools/check.py "$PID" --tier "$TIER"
RC=$?
for f in /tmp/mutout_$$/replays/$PID/*.json; do [ -f "$f" ] && { echo "--- $f"; head -c 1500 "$f"; echo; }; done
git -C /repo worktree remove --force "$WT"
VERIF_REPO=/repo python3 tools/regen.py "$PID" >/dev/null 2>&1
rm -rf /tmp/mutout_$$
exit $RC
