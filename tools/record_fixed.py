#!/usr/bin/env python3
"""append 'fixed:' lines to KNOWN_FINDINGS.txt for applied fixes/*.patch whose commit is not yet recorded"""
import glob, os, re, subprocess
V = os.path.dirname(os.path.dirname(os.path.abspath(__file__)))
kf = os.path.join(V, "KNOWN_FINDINGS.txt")
have = open(kf).read()
log = subprocess.run(["git", "-C", "/repo", "log", "--format=%h\t%s"], capture_output=True, text=True).stdout.strip().split("\n")
bysubj = {l.split("\t", 1)[1]: l.split("\t", 1)[0] for l in log}
out = []
for ap in sorted(glob.glob(os.path.join(V, "fixes", "*.applied"))):
    n = os.path.basename(ap)[:-8]
    msg = open(os.path.join(V, "fixes", n + ".msg")).read().strip().split("\n")
    subj = msg[0].strip()
    h = bysubj.get(subj)
    if not h or h in have:
        continue
    pid = n.split("_")[0]
    body = " ".join(l.strip() for l in msg[1:] if l.strip())
    first = re.split(r"(?<=[.;])\s", body)[0][:260] if body else subj
    out.append("fixed: property=%s %s %s — %s" % (pid, h, subj[5:], first))
with open(kf, "a") as fh:
    for l in out:
        fh.write(l + "\n")
print("\n".join(out))
