#!/bin/sh
# apply_fix.sh <name>: apply fixes/<name>.patch to /repo as one unguarded "fix:" commit with fixes/<name>.msg
set -e
N=$1
cd /repo
git apply --check /verif/fixes/$N.patch
git apply /verif/fixes/$N.patch
head -1 /verif/fixes/$N.msg | grep -q '^fix:' || { echo "message must start with fix:"; git checkout -- .; exit 1; }
git commit -qa -F /verif/fixes/$N.msg
git log --oneline | head -1
