#!/usr/bin/env python3
"""MANIFEST.setup_cmd: build the Lean library (models, proofs, property theorems) and all drivers from files on
disk; offline.  The checks rebuild incrementally afterwards."""
import os
import subprocess
import sys

HERE = os.path.dirname(os.path.abspath(__file__))
LEAN = os.path.join(os.path.dirname(HERE), "lean")
sys.path.insert(0, HERE)


def main():
    os.makedirs(os.path.join(os.path.dirname(HERE), "build"), exist_ok=True)
    # regenerate Gen/ from the current tree first so that the first build already sees current sources
    try:
        import importlib
        import dvlib as L
        for f in sorted(os.listdir(os.path.join(HERE, "checks"))):
            if f.startswith("c") and f.endswith(".py"):
                cfg = importlib.import_module("checks." + f[:-3])
                for tr in getattr(cfg, "TRANSLATORS", []):
                    try:
                        for path, content in tr(L.REPO):
                            L.write_if_changed(os.path.join(L.LEAN, path), content)
                    except Exception as ex:
                        print("setup: translator failed (left to the check to report):", ex)
    except Exception as ex:
        print("setup: translator stage skipped:", ex)
    r = subprocess.run(["lake", "build", "DuneVerif", "Driver"] + ["dv_c%02d" % i for i in range(1, 21)], cwd=LEAN)
    # a failing proof is reported by the property's own check, not by setup
    print("setup: lake build exit", r.returncode)
    return 0


if __name__ == "__main__":
    sys.exit(main())
