#!/usr/bin/env python3
"""seeder_prompt.py <Cxx> <wave>: development aid.  Creates the scratch worktree /tmp/seedwt_<Cxx>_<wave> and the output
directory /tmp/seedout_<Cxx>_<wave>, and writes the prompt for an independent seeding sub-agent (property text only,
nothing from /verif's machinery) to /tmp/seedprompt_<Cxx>_<wave>.txt."""
import json, os, subprocess, sys
V = os.path.dirname(os.path.dirname(os.path.abspath(__file__)))
pid, wave = sys.argv[1], sys.argv[2]
p = [json.loads(l) for l in open(os.path.join(V, "properties.jsonl")) if json.loads(l)["id"] == pid][0]
wt, out = "/tmp/seedwt_%s_%s" % (pid, wave), "/tmp/seedout_%s_%s" % (pid, wave)
subprocess.run("git -C /repo worktree remove --force %s; git -C /repo worktree add --detach %s HEAD" % (wt, wt),
               shell=True, stdout=subprocess.DEVNULL, stderr=subprocess.DEVNULL)
os.makedirs(out, exist_ok=True)
text = "Title: %s\n\nStatement: %s\n\nQuantified over (%s): %s\n\nWhy the existing tests cannot settle it: %s\n\nAnchor files: %s\n\nMechanisms: %s\n\nObservable at: %s" % (
    p["title"], p["statement"], ", ".join(p["quantifier"]["over"]), p["quantifier"]["text"], p["why_tests_cant"],
    ", ".join(p["anchors"]["files"]),
    "; ".join("%s (%s)" % (m["name"], m["where"]) for m in p["anchors"].get("mechanism", [])),
    "; ".join(p["anchors"].get("observe_at", [])))
deliv = []
for d in sorted(os.listdir(os.path.join(V, "seeded"))):
    if d.startswith(pid + "_"):
        rd = os.path.join(V, "seeded", d, "README.md")
        if os.path.exists(rd):
            first = [l.strip("# \n") for l in open(rd) if l.strip()][0]
            deliv.append("- " + first[:200])
t = open(os.path.join(V, "tools", "prompt_seeder.txt")).read()
t = t.replace("@@WT@@", wt).replace("@@OUT@@", out).replace("@@PFX@@", "sd%s%s" % (pid.lower(), wave)) \
     .replace("@@PROPERTY@@", text).replace("@@DELIVERED@@", "\n".join(deliv) or "(none)")
f = "/tmp/seedprompt_%s_%s.txt" % (pid, wave)
open(f, "w").write(t)
print(f)
