"""C13 — IndicesSyncer completes index sets and remote index lists to mutual consistency."""
from translators import tr_c13

PID = "C13"
CLAIM = True
MANIFEST_TEXT = ("Lean 4 theorems, for every process count P, every decomposition, every partial view of it (in particular "
                 "every consistent state with arbitrary local copies and their remote entries deleted, states in which a "
                 "process announces copies its neighbours do not have yet, and every state reached from these by any history "
                 "of syncs, deletions and announcements - history_invariant), every numbering of new local indices and every "
                 "order in which a process handles its neighbours' messages: after the message-level model of "
                 "IndicesSyncer::sync every copy that some process believed to exist on a neighbour is in that neighbour's "
                 "index set with the believed attribute, the neighbour's remote index lists name the sender and every holder "
                 "the sender knew with their attributes (new neighbours included), nothing known before is lost or altered, "
                 "nothing is invented, index set and lists are strictly ordered by global index, every remote index resolves "
                 "to its pair in the re-sorted index set, the remote indices are in sync, the result does not depend on the "
                 "processing order, the exchange matches (one message per neighbour), and syncing after deleting copies from a "
                 "state with the shape of the consistent state (the consistent state itself or the result of an earlier "
                 "round) restores exactly that shape, kept pairs keeping their local numbers and restored ones numbered by "
                 "the numberer, whenever some other process still lists each deleted copy.  Numberer objects with internal "
                 "state are modelled too (state threaded through the receives): same index pairs and remote lists as with a "
                 "pure numbering, exactly one call per added index on the caller's object, consecutive distinct numbers for a "
                 "counter.  The field-type layouts of calculateMessageSizes / packAndSend / recvAndUnpack are regenerated from "
                 "the source on every run (tr_c13.py) and proved consistent: the receiver unpacks what the sender packed and "
                 "the reserved buffer suffices for every message size.  Round three: the state of every process after the sync is "
                 "the unique state meeting a set-theoretic specification (old pairs and entries plus exactly the believed "
                 "ones, ascending, in sync - sync_determined; it is the closure the harness oracle computes); the numbering "
                 "of the processes is irrelevant (two worlds that differ by a permutation of the process numbers - another "
                 "communicator over the same processes - are mapped to worlds that differ by the same permutation: "
                 "sync_numbering_irrelevant, so neither the rank order of fixed-order processing nor the map order of the "
                 "neighbours nor the pair order inside a message matter); a sync on a sub-communicator is the sync of its "
                 "processes alone: processes that know nobody and are listed by nobody neither contribute nor change "
                 "(sync_subcommunicator).  Round four: three more parts of indicessyncer.hh are regenerated from the source on "
                 "every run and tied to the model by theorems - the statement order of sync(numberer, useFixedOrder) "
                 "(sizes before packing; packing and receiving two complete loops over all old neighbours, the first "
                 "finished before the second starts; receives inside one resize; repairLocalIndexPointers after endResize and "
                 "before globalMap_ is emptied; every per-sync member emptied so that histories on one object are "
                 "compositions of sync; sequence numbers taken from the index set: sync_phases_sound), the five branch "
                 "conditions of insertIntoRemoteIndexList (the control-flow skeleton checked by the translator with the "
                 "regenerated conditions is the model's insertEntry on every list: insert_conditions_tied) and the "
                 "increments of the counting loop of calculateMessageSizes (for every partial view, process and "
                 "destination the counters equal the number of indices and pairs of the message the model lets packAndSend "
                 "write, so the reserved buffer fits the real message: sizes_match_messages, wire_message_fits).  "
                 "Each run executes the real IndicesSyncer (default "
                 "numberer, pure user numberer, counting and slot-recycling numberer objects; fixed and arrival order; deletion through RemoteIndexListModifier or "
                 "SLList iterators; a second delete-and-sync (with a new syncer object or - round four - with the object of the first "
                 "round) or sync-again round in 40 % of the cases; arrival order through the one-argument call sync(numberer); remote indices living on "
                 "MPI_COMM_WORLD, on a duplicate, on a communicator that renumbers all processes or on a renumbered proper "
                 "sub-communicator while the remaining processes sync on their own communicator; global indices of type int "
                 "or long with values beyond 32 bits) under mpirun -np 1..4 "
                 "(quick) / 1..6 (thorough) on random overlapping decompositions with seeded per-rank start delays, compares "
                 "the complete state of every rank before the sync, after it and after the second round with the model and "
                 "evaluates the property itself with a set-theoretic oracle.")
MANIFEST_NOTE = ("Trusted: Lean kernel (+propext/Classical.choice/Quot.sound), the hand-written protocol model's fidelity "
                 "(differential runs only, bounded: P<=6, <=14 globals, <=2 rounds), harness oracle, g++/ASan/UBSan, OpenMPI "
                 "(reliable, pairwise FIFO; the bytes MPI_Pack produces are not modelled, only the sequence of field types, read "
                 "from the source by tools/translators/tr_c13.py; the same translator reads the statement order of sync, the "
                 "branch conditions of insertIntoRemoteIndexList and the counter increments of calculateMessageSizes, checking "
                 "the surrounding statement skeleton syntactically - a source outside that grammar is a broken obligation; "
                 "syncPhasesOK, the skeleton insertEntryG and the loop calcInfo into which the regenerated data are plugged are "
                 "hand-written and tied to the code by the differential runs like the rest of the model).  The SLList "
                 "iterator bookkeeping of the syncer (Iterators, resetIteratorsMap, checkReset) and the pointer representation "
                 "of remote indices are covered by the runs + ASan only; the model keeps references as (global, attribute) "
                 "keys, as the code does during sync.  The model has one numbering of the processes (that of the communicator of "
                 "the remote indices) and integer global indices; that the code uses only that communicator's numbering and "
                 "ships global indices of any MPITraits type unharmed is covered by the runs (communicators whose numbering "
                 "and membership differ from MPI_COMM_WORLD, long global indices), not by a theorem (sync_numbering_irrelevant and "
                 "sync_subcommunicator say that the protocol is indifferent to the numbering and to outsiders; that the code "
                 "asks the right communicator for its own number is a fact about one MPI call).  Hypotheses of the "
                 "theorems: every global index at most once per index "
                 "set (DESIGN.md section 5, C04: shared by C04/C05/C13; index sets that hold one global index several times "
                 "with different attributes are outside the property and are not generated), beliefs agree with one "
                 "ground-truth decomposition, neighbourhood symmetric (otherwise the MPI exchange "
                 "itself does not match).  The model describes the tree with fixes/C13_*.patch applied; in particular each "
                 "sync only consumes the messages of that sync (fixes/C13_syncer_arrival_order_mixes_syncs.patch; before it, "
                 "MPI_ANY_SOURCE let a fast neighbour's next-sync message be taken for a slow neighbour's outstanding one).")
TECHNIQUE = "Lean 4 proof over a message-level protocol model + differential correspondence under MPI (two-round histories, seeded start delays) and a set-theoretic oracle"
TRANSLATORS = [tr_c13.translate]
HARNESS = dict(
    sources=["mpi_c13.cc", "pmpi_sched.cc"],
    mpi=True,
    repo_sources=["dune/common/exceptions.cc", "dune/common/stdstreams.cc"],
)
RULE = ("cases: rank 0 draws the communicator the remote indices live on (30 % MPI_COMM_WORLD, 10 % a duplicate, 30 % all "
        "processes in a random order = MPI_Comm_split with a key, 30 % a proper subset of P-1 or P-2 processes in random order "
        "while the remaining processes run the same calls with empty index sets on the complementary communicator; holder "
        "numbers of the op line and the answers r<i> are by rank in that communicator), the global index type (1/3 long with "
        "value g*(2^32+3), else int) and a decomposition (<= 9 quick / 14 thorough global indices, each on one rank, all ranks, a random "
        "subset, or - sparse style - on consecutive ranks only) with owner/overlap/copy-style, ownerless, arbitrary or uniform "
        "attributes; every rank builds its index set and RemoteIndices::rebuild; non-owner copies (in 1/6 of the cases owner "
        "copies too) are deleted with probability 0/25/50/75/100 % (markAsDeleted + removal of the remote entries through "
        "RemoteIndexListModifier or SLList modify iterators); in a third of the cases processes also add new copies and "
        "announce them for neighbours that do not hold them (new neighbours arise in the sparse style); then "
        "IndicesSyncer::sync with the default numberer, a pure user numberer, a counting numberer object or one that recycles "
        "the slots of the deleted copies (calls, free slots and next fresh number compared with the model), arrival or fixed "
        "order; a 'hub' style (1/5 of the cases with >= 3 ranks) lets the lower-ranked neighbours share the higher global "
        "indices so that re-announcements arrive in descending order across messages; in 40 % of the cases a second round follows without any synchronisation in between (sync again, or delete "
        "the same copies again and sync); every rank enters each sync after a seeded delay of 0..1 ms so that arrival orders "
        "vary and fast ranks overtake slow ones.  The state of every rank is compared before the first sync, after it and "
        "after the second.  Round four: re=e deletes the same copies again and syncs with the IndicesSyncer object of the "
        "first round (3/20 re=s, 3/20 re=d, 2/20 re=e); arrival order with a user numberer uses sync(numberer) without the flag.  distinct = distinct op lines; non-trivial = at least one process had a non-empty remote index "
        "list before the sync")
ASSUMPTIONS = [
    "the Lean model lean/DuneVerif/Model/C13.lean is hand-written (protocol level); its fidelity to indicessyncer.hh rests on this differential run (P <= 6, <= 2 rounds)",
    "MPI is trusted: reliable, pairwise FIFO; of the wire format only the sequence of field types is modelled (regenerated from the source by tr_c13.py: MPI_Pack_size/MPI_Pack/MPI_Unpack calls with their loop nesting); the bytes are exercised only",
    "round four: tr_c13.py also regenerates the statement order of sync(numberer, useFixedOrder) (phase calls, member clears, sequence number assignments with loop number and if-guard; the two loop headers), the five branch conditions of insertIntoRemoteIndexList (statement skeleton checked syntactically) and the increments of the counting loop of calculateMessageSizes; the predicates/skeletons they are plugged into (syncPhasesOK, insertEntryG, calcInfo in Model/C13.lean) are hand-written; calculateMessageSizes finds the holders with a CollectiveIterator (global index and attribute), the model with `holders` (global index) - the same under the hypothesis of one copy per index set",
    "the consistent initial state is defined in the model directly from the decomposition by the specification of RemoteIndices::rebuild (C04 proves that rebuild meets it); the harness uses the real rebuild and compares the state before the sync with the model as well",
    "every global index occurs at most once per index set (hypothesis shared by C04/C05/C13, DESIGN.md section 5 C04; seeded change C13_w2m3 needs an index held twice by one process, so no input of the property's domain shows it; since round four it is reported as a broken tie - the scan of insertIntoRemoteIndexList leaves the translator's grammar - without a failing input: design_notes/C13.md); all beliefs agree with one decomposition; the neighbour relation is symmetric",
    "communicator and global index type are configurations of the real code only (the model numbers processes as the communicator does and has integer global indices): covered by the differential runs and the oracle on renumbered/sub-communicators and long global indices; sync_numbering_irrelevant / sync_subcommunicator prove that the model's result does not depend on the numbering and that processes outside the communicator do not take part",
    "a case is given 30 s (a message sent to the wrong process or communicator is never received and ends in the per-case alarm = crash at that op line)",
    "arrival orders are varied by seeded start delays (after fixes/C13_syncer_arrival_order_mixes_syncs.patch the syncer no longer probes MPI_ANY_SOURCE, so the PMPI scheduler has nothing to permute); order independence for all orders is the theorem order_irrelevant",
    "the model describes the tree with fixes/C13_syncer_duplicate_remote_entry.patch, fixes/C13_syncer_index_added_twice.patch, fixes/C13_modifier_repair_pointers.patch, fixes/C13_syncer_arrival_order_mixes_syncs.patch and fixes/C13_syncer_object_reusable.patch applied",
]
TRUSTED = ["g++/libstdc++, ASan/UBSan, OpenMPI", "translator tr_c13.py", "harness/mpi_c13.cc (generator, executor, set-theoretic oracle) + harness/pmpi_sched.cc",
           "Driver/C13.lean parsing/printing and its construction of the pre-sync state from the op line"]


def batches(tier, seed):
    res = []
    if tier == "quick":
        plan = [(1, 100), (2, 1200), (3, 2000), (4, 2500)]
        for (np, n) in plan:
            res.append(dict(args=["--seed", str(seed * 1000 + np), "--cases", str(n), "--tier", tier], np=np,
                            tag="np%d" % np, timeout=900))
        res.append(dict(args=["--seed", str(seed * 1000 + 77), "--cases", "500", "--tier", tier, "--sched", "0"], np=3,
                        tag="np3_nosched", timeout=900))
    else:
        plan = [(1, 300), (2, 8000), (3, 12000), (4, 12000), (5, 6000), (6, 4000)]
        for (np, n) in plan:
            res.append(dict(args=["--seed", str(seed * 1000 + 100 + np), "--cases", str(n), "--tier", tier], np=np,
                            tag="np%d" % np, timeout=3000))
        res.append(dict(args=["--seed", str(seed * 1000 + 177), "--cases", "3000", "--tier", tier, "--sched", "0"], np=4,
                        tag="np4_nosched", timeout=3000))
    return res


def search_batches(seed):
    return [dict(args=["--seed", str(seed * 7919 + 13 + i), "--cases", "4000", "--tier", "thorough"], np=np, timeout=1500)
            for i, np in enumerate((2, 3, 4))]
