"""C17 — tolerant comparison, rounding and integer math helpers satisfy their laws."""
from translators import tr_c17

PID = "C17"
CLAIM = True
MANIFEST_TEXT = ("Lean 4 theorems in three layers. (1) Over an arbitrary linearly ordered field, about the comparison formulas regenerated from float_cmp.cc on "
                 "every run: documented definitions of eq/ne/lt/gt/le/ge for the three styles, symmetry, ne = not eq, exactly one of lt/eq/gt for epsilon >= 0, "
                 "le = lt or eq, ge = gt or eq, vector eq = conjunction and the lexicographic trichotomy; round/trunc in the four rounding styles (distance < 1, "
                 "nearest integer, ties within epsilon in the documented direction, floor/floor+1 and the snap rules, integers are fixed points, unsigned targets); the same algorithms with the integer "
                 "target type explicit (roundM/truncM: every value stored in an I variable reduced as the type does, T(lower+1) after the integral promotions) are proved equal to them whenever nothing "
                 "wraps around (every signed type; unsigned with val >= 0), and for an unsigned target with val in (-1,0), where lower-- turns 0 into the largest value M: trunc upward / toward zero "
                 "returns 0 (every style, every epsilon for which val is not equal to -1 within epsilon), round returns 0 or M according to whether the nearest integer is 0 or -1; round returns the "
                 "mathematical result whenever it and I(val) are values of the target type - every type, beyond the largest/smallest value of the type as well (round_of_fits; false before "
                 "fixes/C17_round_range_end.patch: roundOld_range_end), trunc likewise for every non-negative argument (trunc_of_fits_nonneg), just above the largest value of unsigned / unsigned long "
                 "(trunc_unsigned_top_down) and just below the smallest value of a narrow signed type (trunc_snap_conversion, trunc_narrow_bottom_up; truncOld_range_end). (2) The functions the model "
                 "driver actually executes on exact inputs (core Rat) are shown to be these generic functions at Q (rat_* theorems). (3) The comparison algebra "
                 "(symmetry, reflexivity, trichotomy, le/ge decomposition, vectors) is proved verbatim in the ROUNDING arithmetic FP f of every binary floating-point "
                 "format (fp_* theorems; all finite operands, overflow to infinity included; round/trunc fix integer-valued numbers of every magnitude). Over Int with a machine-width check on every intermediate: "
                 "power/factorial/binomial return the exact value iff it is representable (symmetry, Pascal), sign over every ordered ring, any/all classifiers. "
                 "The same model is run against the real code: over Q on float/double inputs whose C++ intermediates are exact (GMP re-checks that), over FP f "
                 "bit for bit on arbitrary finite float/double/long double values incl. omitted (default) epsilons and every overload / FloatCmpOps member, with the integer targets "
                 "signed/unsigned char, short, int, long; over two 8-bit formats (4+3 and 5+2 exponent+mantissa bits) against the templates instantiated with a minifloat class "
                 "(exhaustively in the thorough tier, round/trunc also with unsigned char / signed char / unsigned targets), integer helpers over every representable "
                 "argument pair above small cut-offs. Round four: the rounding-style dispatch of round_t / trunc_t (towardZero / towardInf: test of val against T(0), the two specialisations forwarded to) "
                 "and the component loops of the vector overloads of round / trunc (std::vector, FieldVector: loop bounds, specialisation called, styles and epsilon passed on, the helper each vector "
                 "specialisation derives from) and the vector comparisons eq_t_std_vec / eq_t_fvec (size test, loop, component call, derivation table; vec_eq_tied) are regenerated from float_cmp.cc as well; theorems: the model's round/trunc/roundM/truncM are Dispatch.run of the regenerated tables "
                 "(round_dispatch_tied ...), the regenerated vector overloads are the component-wise maps of the scalar functions for every length and scalar type (vec_round_trunc_eq_map), hence every "
                 "component of a vector result obeys the distance/direction laws (vec_round_within, vec_trunc_within) and the machine-integer versions agree with the mathematical ones when no component "
                 "wraps (vec_roundM_truncM_eq); in the rounding arithmetic of every format they return a vector of integer-valued numbers unchanged (fp_vec_round_trunc_int). The vector overloads are instantiated by the harness (float/double/long double x int, unsigned char, short, unsigned long; std::vector sizes 0..7, "
                 "FieldVector sizes 1,2,3,5; every overload and FloatCmpOps<vector type>) and compared bit for bit with the regenerated loops around roundM / truncM.")
MANIFEST_NOTE = ("Trusted: Lean kernel (+propext/Classical.choice/Quot.sound), tr_c17.py, the hand-written round/trunc/integer models and the IEEE rounding model FP "
                 "(fidelity by differential execution against the hardware types and the harness minifloat), GMP as oracle, g++/ASan/UBSan, IEEE-754 conformance of "
                 "float/double/long double arithmetic of the test machine. The documented definitions and the round/trunc distance/direction laws are theorems of exact "
                 "arithmetic; for rounded arithmetic they are decided by the harness oracle up to one rounding per operation (three-valued), the algebraic laws are proved. "
                 "Outside the checked domain: int and long targets at the ends of their range (signed overflow of I(val)-1 / I(val)+2 is undefined behaviour; unsigned and narrow types are exercised "
                 "up to the ends: every val whose I(val) is a value of the type), every val whose I(val) is not a value of the type (unsigned: val <= -1), and the cases whose documented result "
                 "is not a value of the type (round: the wrapped value is compared with the model and flagged trivial; trunc: printed `unrep` by harness and driver, not compared), "
                 "NaN/infinite arguments, long double classifiers, long long. The wrap-around law trunc_unsigned_neg_up is proved in exact arithmetic; in rounded arithmetic it is "
                 "pinned by the bit-exact model and judged by the three-valued oracle. Integer-valued arguments of every magnitude are inside "
                 "(round/trunc must return them unchanged, also where val+1 is not representable in T). The vector overloads of round/trunc in float_cmp.cc could not "
                 "be instantiated before fixes/C17_vector_round_trunc.patch (ambiguous partial specialisations, argument declared with the component type); the check treats that as a violation of the "
                 "property (configuration dimension of the quantifier): a compile probe runs first and, when it fails, every fvround / fvtrunc case answers FAIL with the op line as replay. "
                 "A dispatch test rewritten as val >= T(0) (same behaviour, because round/trunc fix the integer 0) would be reported as a broken obligation: the tie is syntactic there.")
TECHNIQUE = ("Lean 4 proof over a generic ordered-field model and over an executable IEEE rounding model + translator for the comparison formulas, default epsilons, rounding-style dispatch and vector loops of round/trunc + "
             "differential correspondence (exact rationals, bit-exact float/double/long double, exhaustive minifloat, GMP oracle)")
HARNESS = dict(
    sources=["cxx_c17.cc"],
    repo_sources=[],
    libs=["-lgmpxx", "-lgmp"],
    flags=["-O0"],   # three floating types (+ two minifloats) x eight integer types x 12 style pairs of templates: -O1 triples the compile time
)


def probe_vector_round_trunc(repo):
    """runs with the translators (before the harness is compiled): can FloatCmp::round / trunc be instantiated for std::vector and
    FieldVector in the tree under test?  (They cannot before fixes/C17_vector_round_trunc.patch, and a change can break that again.)
    If not, the harness is compiled with -DDV_C17_VECRT=0: every fvround / fvtrunc op then answers FAIL (a VIOLATION with the op line
    as replay) instead of the harness failing to compile."""
    import os
    import subprocess
    verif = os.path.dirname(os.path.dirname(os.path.dirname(os.path.abspath(__file__))))
    cmd = ["g++", "-std=c++20", "-fsyntax-only", "-DDV_C17_PROBE_ONLY", "-DHAVE_CONFIG_H", "-I" + repo,
           "-I" + os.path.join(verif, "harness", "include"), os.path.join(verif, "harness", "cxx_c17.cc")]
    HARNESS["flags"] = [f for f in HARNESS["flags"] if not f.startswith("-DDV_C17_VECRT")]
    try:
        ok = subprocess.run(cmd, stdout=subprocess.DEVNULL, stderr=subprocess.DEVNULL, timeout=600).returncode == 0
    except Exception:
        ok = True   # e.g. a timeout under load: let the harness compile decide
    if not ok:
        HARNESS["flags"].append("-DDV_C17_VECRT=0")
    return []


TRANSLATORS = [tr_c17.translate, tr_c17.translate_rt, tr_c17.translate_eqvec, tr_c17.translate_vec, probe_vector_round_trunc]
RULE = ("cases: cmp/cmpv (float,double x 3 styles; operand pairs placed on/next to the tolerance threshold, equal, opposite, zero; epsilons 0, <1, 1, >1), "
        "round/trunc (4 rounding styles x signed/unsigned char/short/int/long targets; arguments at integers, halves, tie boundaries, distance epsilon from an integer, (-1,0] for unsigned targets, around the largest / smallest value of the unsigned and narrow types), "
        "fvround/fvtrunc (round / trunc of std::vector (0..7 components) and FieldVector (1,2,3,5) to vectors of int / unsigned char / short / unsigned long: components drawn from the scalar "
        "fround/ftrunc generator of the same types and styles, the first-generated one moved to a random position), "
        "fcmp/fcmpv/fround/ftrunc (the same on arbitrary finite float/double/long double values: random bit patterns, subnormals, extremes, partners nudged a few ulps around the "
        "threshold the code computes, epsilon omitted / default / 0 / tiny / >= 1/2; std::vector sizes 0..9 incl. unequal, FieldVector sizes 1..6,8), minifloat mf/mfr/mfrow/mfri "
        "(exhaustive tables; mfri = round/trunc of both 8-bit formats to unsigned char / signed char / unsigned for every value in range and every epsilon), pow/fact/binom at the representability boundary and exhaustive enumerations, sign, classifiers with one non-finite component, compile-time overloads "
        "and documented defaults (static, defeps); distinct = distinct op lines; non-trivial = the oracle decided a law/definition on a call of the real code (skip/unrep lines, "
        "documented-unsupported negative integer exponents and unsigned targets whose documented result is -1 are trivial)")
ASSUMPTIONS = [
    "the formulas of eq/ne/lt/gt/le/ge, the default epsilons (float, double, long double, minifloat), the towardZero/towardInf dispatch of round_t/trunc_t and the component loops + derived specialisations of the vector overloads of round/trunc are regenerated from float_cmp.cc by tools/translators/tr_c17.py (Gen/C17.lean, Gen/C17RT.lean, Gen/C17Vec.lean), and so are the size test, component loops and derived specialisations of the vector comparisons (Gen/C17EqVec.lean, tied to the model's eqVec / eqFV by vec_eq_tied; the driver prints `eq` of vectors from the regenerated functions); the compare-style dispatch of the scalar eq_t, std::vector's operator<, the bodies of round/trunc downward/upward and the integer helpers in lean/DuneVerif/Model/C17.lean are hand-written and tied by this differential run",
    "ops fvround/fvtrunc: every component is in the domain of the scalar op (otherwise the case is skipped); the oracle is the scalar oracle per component plus equality of every component of the vector result (all overloads, FloatCmpOps<vector type>) with the scalar call; components whose documented result is not a value of the target type print `unrep` on both sides as for ftrunc",
    "ops cmp/cmpv/round/trunc: operands are dyadic with few significant bits (f32: 12 bits in a 2^+-11 window, f64: 26 bits in a 2^+-26 window) so that every C++ intermediate is exact; the harness re-checks that with GMP; the model side is evaluated over the rationals",
    "ops fcmp/fcmpv/fround/ftrunc: arbitrary finite values; float/double/long double arithmetic of the machine is IEEE 754 round-to-nearest-even (binary32, binary64, x87 extended), which the Lean type FP f models; int<->float conversions round to nearest / truncate",
    "the minifloat class template is part of the harness (one rounding per operation, ties to even); its two instances are modelled by the same FP f with f = (4 bits, emin -6, emax 7) and f = (3 bits, emin -14, emax 15); the default epsilon is used with the first only",
    "round/trunc, int and long targets: I(val), lower-1 and upper+1 stay inside the type (|I(val)| <= max-2; signed overflow is undefined behaviour). Unsigned and narrow (char, short) targets: I(val) is a value of the type (unsigned: val > -1) - arguments in (-1,0) and beyond the largest / smallest value of the type included; these types reduce modulo 2^bits, which the model reproduces (IType.wrap: unsigned and narrow signed; IType.arith: integral promotion of narrow types in T(lower+1)); the oracle reads a returned value as the congruent integer nearest to the argument",
    "trunc where the documented result (closed form of trunc_downward_spec / trunc_upward_spec, evaluated in the arithmetic of T; the driver takes it from the mathematical-integer model `trunc`) is not a value of the target type - val in (-1,0) to an unsigned type truncated downward or equal to -1 within epsilon, val above the largest value truncated upward, ... or (minifloat 4+3 only) T(max) infinite: harness and driver print `unrep` instead of the value; everywhere else the oracle's laws apply",
    "ops round/trunc (exact rationals): where something wraps around, trunc converts the wrapped value back to T (T(2^bits - 1) - val, ...), which is exact in T only for bits + exponent window <= precision (unsigned/signed char with float; char and short with double): only those combinations are run beyond the no-wrap domain; the others are exercised by ftrunc (bit-exact model) and mfri. round never converts a wrapped value",
    "a non-integer value of T is below 2^(digits-1), so its neighbouring integers convert exactly; integer-valued arguments (all values from 2^(digits-1) on) must be returned unchanged by round and trunc",
    "power is run with |p| <= 4096",
    "the model describes the code after fixes/C17_binomial_overflow.patch, fixes/C17_round_unsigned.patch, fixes/C17_trunc_large.patch, fixes/C17_round_range_end.patch, fixes/C17_trunc_range_end.patch and fixes/C17_vector_round_trunc.patch",
]
TRUSTED = ["g++/libstdc++, ASan/UBSan, GMP as oracle", "translator tr_c17.py", "harness/cxx_c17.cc + Driver/C17.lean parsing/printing",
           "IEEE-754 conformance of the machine's float/double/long double operations"]


def batches(tier, seed):
    res = []
    if tier == "quick":
        n, parts = 24000, 4
        res.append(dict(args=["--kind", "intall", "--cases", "0", "--tier", tier], tag="int", timeout=300))
        res.append(dict(args=["--kind", "mfall", "--from", str((seed * 7919) % 80000), "--cases", "1500", "--tier", tier], tag="mfrow", timeout=300))
        # a quarter of the exhaustive minifloat round/trunc table, rotating with the seed
        res.append(dict(args=["--kind", "mfrall", "--from", str((seed % 4) * 86400), "--cases", "86400", "--tier", tier], tag="mfr", timeout=300))
        # an eighth of the exhaustive minifloat x integer-type table (all types and values for 16 of the 124 epsilons), rotating with the seed
        # (the table has 681 (format, type, value) entries x 12 style pairs = 8172 lines per epsilon)
        res.append(dict(args=["--kind", "mfriall", "--from", str((seed % 8) * 16 * 8172), "--cases", str(16 * 8172), "--tier", tier], tag="mfri", timeout=300))
        res.append(dict(args=["--kind", "rt", "--seed", str(seed * 1000 + 500), "--cases", "4000", "--tier", tier], tag="rt", timeout=300))
    else:
        n, parts = 600000, 8
        res.append(dict(args=["--kind", "intall", "--cases", "0", "--tier", tier], tag="int", timeout=1800))
        res.append(dict(args=["--kind", "mfall", "--cases", "0", "--tier", tier], tag="mfrow", timeout=3000))
        res.append(dict(args=["--kind", "mfrall", "--cases", "0", "--tier", tier], tag="mfr", timeout=3000))
        res.append(dict(args=["--kind", "mfriall", "--cases", "0", "--tier", tier], tag="mfri", timeout=3000))
        for k in ("rt", "cmp"):
            res.append(dict(args=["--kind", k, "--seed", str(seed * 1000 + 600), "--cases", "100000", "--tier", tier], tag=k, timeout=3000))
    for i in range(parts):
        res.append(dict(args=["--seed", str(seed * 1000 + i), "--cases", str(n // parts), "--tier", tier], tag="g%d" % i,
                        timeout=(300 if tier == "quick" else 3000)))
    return res


def search_batches(seed):
    """after a broken correspondence / obligation: focused streams first (round/trunc near ties with caller-supplied and default
    epsilons in all formats, comparisons on the tolerance threshold, integer helpers at the representability boundary), then the mix"""
    res = [dict(args=["--kind", "mfrall", "--cases", "0", "--tier", "thorough"], timeout=900),
           dict(args=["--kind", "mfriall", "--cases", "0", "--tier", "thorough"], timeout=900)]
    for i, k in enumerate(("rt", "cmp", "int", "cls")):
        res.append(dict(args=["--kind", k, "--seed", str(seed * 7919 + 13 + i), "--cases", "40000"], timeout=900))
    res.append(dict(args=["--kind", "intall", "--cases", "0", "--tier", "thorough"], timeout=900))
    res += [dict(args=["--seed", str(seed * 7919 + 113 + i), "--cases", "60000"], timeout=900) for i in range(2)]
    return res
