"""C17 — tolerant comparison, rounding and integer math helpers satisfy their laws."""
from translators import tr_c17

PID = "C17"
CLAIM = True
MANIFEST_TEXT = ("Lean 4 theorems over an arbitrary linearly ordered field about the comparison formulas regenerated from float_cmp.cc on every run "
                 "(documented definitions, symmetry, ne = not eq, exactly one of lt/eq/gt for epsilon >= 0, le = lt or eq, ge = gt or eq, vector eq = "
                 "conjunction), about round/trunc in the four rounding styles (distance and direction clauses) and, over Int with a machine-width check on "
                 "every intermediate, about power/factorial/binomial (exact value iff representable, symmetry, Pascal), sign and the any/all classifiers; "
                 "the same generic model is executed over exact dyadics against float/double instantiations on inputs where every C++ intermediate is exact, "
                 "and over an 8-bit rounding float format against the templates instantiated with a minifloat class (exhaustively in the thorough tier); "
                 "integer helpers are run over every representable argument pair above small cut-offs.")
MANIFEST_NOTE = ("Trusted: Lean kernel (+propext/Classical.choice/Quot.sound), tr_c17.py, the hand-written round/trunc/integer models (fidelity by differential "
                 "execution only), GMP as oracle, g++/ASan/UBSan. IEEE rounding of non-dyadic float/double inputs is outside the model: there only the algebraic "
                 "laws are checked by the oracle (op kind 'laws'). The vector overloads of round/trunc in float_cmp.cc cannot be instantiated (ambiguous partial "
                 "specialisation) and are not covered.")
TECHNIQUE = "Lean 4 proof over generic ordered-field model + translator for the comparison formulas + differential correspondence (exact dyadics, minifloat, GMP oracle)"
TRANSLATORS = [tr_c17.translate]
HARNESS = dict(
    sources=["cxx_c17.cc"],
    repo_sources=[],
    libs=["-lgmpxx", "-lgmp"],
    flags=["-O0"],   # three floating types x four integer types x 12 style pairs of templates: -O1 triples the compile time
)
RULE = ("cases: cmp/cmpv (float,double x 3 styles; operand pairs placed on/next to the tolerance threshold, equal, opposite, zero; epsilons 0, <1, 1, >1), "
        "round/trunc (4 rounding styles x int/long/unsigned targets; arguments at integers, halves, tie boundaries, distance epsilon from an integer), "
        "laws on arbitrary finite bit patterns, minifloat mf/mfr/mfrow, pow/fact/binom at the representability boundary and exhaustive enumerations, "
        "sign, classifiers with one non-finite component; distinct = distinct op lines; non-trivial = oracle decided a law/definition on a call of the real "
        "code (skip/unrep lines and the documented-unsupported negative integer exponents are trivial)")
ASSUMPTIONS = [
    "the formulas of eq/ne/lt/gt/le/ge and the default epsilons are regenerated from float_cmp.cc by tools/translators/tr_c17.py; the style dispatch, vector loops, round/trunc and the integer helpers in lean/DuneVerif/Model/C17.lean are hand-written and tied by this differential run",
    "float/double operands are dyadic with few significant bits (f32: 12 bits in a 2^±11 window, f64: 26 bits in a 2^±26 window) so that every C++ intermediate is exact; the harness re-checks that with GMP",
    "the minifloat class is part of the harness (one rounding per operation, ties to even); its Lean counterpart MF is validated only through this run",
    "power is run with |p| <= 4096; round/trunc arguments are far inside the range of the integer target type",
    "the model of binomial describes the code after fixes/C17_binomial_overflow.patch",
]
TRUSTED = ["g++/libstdc++, ASan/UBSan, GMP as oracle", "translator tr_c17.py", "harness/cxx_c17.cc + Driver/C17.lean parsing/printing"]


def batches(tier, seed):
    res = []
    if tier == "quick":
        n, parts = 24000, 4
        res.append(dict(args=["--kind", "intall", "--cases", "0", "--tier", tier], tag="int", timeout=300))
        res.append(dict(args=["--kind", "mfall", "--from", str((seed * 7919) % 80000), "--cases", "1500", "--tier", tier], tag="mfrow", timeout=300))
        # a quarter of the exhaustive minifloat round/trunc table, rotating with the seed
        res.append(dict(args=["--kind", "mfrall", "--from", str((seed % 4) * 86400), "--cases", "86400", "--tier", tier], tag="mfr", timeout=300))
        res.append(dict(args=["--kind", "rt", "--seed", str(seed * 1000 + 500), "--cases", "4000", "--tier", tier], tag="rt", timeout=300))
    else:
        n, parts = 600000, 8
        res.append(dict(args=["--kind", "intall", "--cases", "0", "--tier", tier], tag="int", timeout=1800))
        res.append(dict(args=["--kind", "mfall", "--cases", "0", "--tier", tier], tag="mfrow", timeout=3000))
        res.append(dict(args=["--kind", "mfrall", "--cases", "0", "--tier", tier], tag="mfr", timeout=3000))
        for k in ("rt", "cmp"):
            res.append(dict(args=["--kind", k, "--seed", str(seed * 1000 + 600), "--cases", "100000", "--tier", tier], tag=k, timeout=3000))
    for i in range(parts):
        res.append(dict(args=["--seed", str(seed * 1000 + i), "--cases", str(n // parts), "--tier", tier], tag="g%d" % i,
                        timeout=(300 if tier == "quick" else 3000)))
    return res


def search_batches(seed):
    """after a broken correspondence / obligation: focused streams first (round/trunc near ties with caller-supplied and default
    epsilons in all formats, comparisons on the tolerance threshold, integer helpers at the representability boundary), then the mix"""
    res = [dict(args=["--kind", "mfrall", "--cases", "0", "--tier", "thorough"], timeout=900)]
    for i, k in enumerate(("rt", "cmp", "int", "cls")):
        res.append(dict(args=["--kind", k, "--seed", str(seed * 7919 + 13 + i), "--cases", "40000"], timeout=900))
    res.append(dict(args=["--kind", "intall", "--cases", "0", "--tier", "thorough"], timeout=900))
    res += [dict(args=["--seed", str(seed * 7919 + 113 + i), "--cases", "60000"], timeout=900) for i in range(2)]
    return res
