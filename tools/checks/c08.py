"""C08 — eigenvalue routines return an eigen-decomposition of the given matrix."""
from translators import tr_c08

PID = "C08"
CLAIM = True
MANIFEST_TEXT = (
    "Lean 4 theorems over the reals about an executable model of the closed-form eigenvalue code whose formulas and "
    "threshold constants are regenerated from fmatrixev.hh on every run: the 2x2 closed form returns the ordered roots "
    "of the characteristic polynomial summing to the trace (ev2_roots); with the code's identity threshold the returned "
    "vectors are unit, orthogonal eigenvectors in the general branch and have residual below the threshold in the "
    "special case (ev2_vectors, ev2_vectors_ident); the whole 2x2 routine (max-norm preconditioning, closed form, "
    "threshold, column choice) is exactly equivariant under scaling of the matrix (ev2_scale_invariant); cross products of two rows of A-lambda*I lie in its kernel and eig0 "
    "returns a unit eigenvector in the rank-2 case; the 3x3 values are ascending, sum to the trace, scale exactly with "
    "the matrix, and are roots of the characteristic polynomial for diagonal matrices and in the trigonometric branch "
    "(ev3_roots_partial, assuming |det B|/2 <= 1); the row-major/column-major hand-over to LAPACK is a transposition "
    "that is harmless for symmetric input and turns right into left eigenvectors for general input.  Each run executes "
    "the real routines (float/double/long double, sizes 1..8, closed form and LAPACK, scales 2^-498..2^498) on >= 24k "
    "generated matrices; a binary128 oracle decides order, trace, eigenvalue error, residual, unit norm, orthogonality, "
    "agreement of the two entry points and scale equivariance, and power sums / A v = lambda v for the non-symmetric "
    "routines; exact cases (2x2 with rational square roots, 3x3 diagonal branch, LAPACK hand-over through a recording "
    "fake) are compared bit-for-bit with the Lean model.")
MANIFEST_NOTE = (
    "Partial by nature: floating-point accuracy (residual sizes, orthogonality tolerances) is measured by the harness "
    "on generated inputs, not proved; the Lean theorems are exact-arithmetic statements about the model (sqrt/acos/cos "
    "as real functions).  Trusted: Lean kernel (+propext/Classical.choice/Quot.sound), Mathlib, tr_c08.py, the "
    "hand-written control flow of the model (tied by bit-exact differential runs on exact inputs only), LAPACK/OpenBLAS, "
    "libquadmath as reference arithmetic, g++/ASan/UBSan.  Not modelled: eig1/orthoComp (second and third 3x3 "
    "eigenvector), LAPACK itself.  Magnitudes exercised: 2^-498..2^498 (1e-150..1e150) for double and long double, "
    "2^-120..2^120 for float (its whole normal range), on all paths; this relies on the max-norm preconditioning of the "
    "2x2 path (fixes/C08_ev2_scaling.patch), without which the squares formed by the 2x2 closed form under/overflow.")
TECHNIQUE = ("Lean 4 proof over a generic closed-form model + translator for formulas and thresholds + differential "
             "correspondence (bit-exact on exact inputs) + binary128 property oracle")
TRANSLATORS = [tr_c08.translate]
HARNESS = dict(
    sources=["cxx_c08.cc"],
    repo_sources=["dune/common/fmatrixev.cc", "dune/common/exceptions.cc", "dune/common/stdstreams.cc"],
    libs=["-llapack", "-lblas", "-lquadmath"],
    # the sanitised template instantiations (8 sizes x 3 scalar types) take 80 s to optimise at -O1 and 20 s at -O0;
    # the run itself is cheap, so the later -O0 wins over the shared -O1
    flags=["-O0"],
)
RULE = ("cases: sym = symmetric n x n (n=1..3 closed form, 4..8 LAPACK, and LAPACK on request for n=1..8) in "
        "float/double/long double, built in long double as Q diag(spectrum) Q^T with spectra "
        "{random, repeated, clustered (gaps 1e-2..1e-17), rank-deficient, multiple of identity, +-c, graded, small "
        "integers} and structures {random rotations incl. nearly-identity and 45 degree, exactly diagonal, nearly diagonal "
        "(perturbation 1e-2..1e-20), single plane rotation, small integer matrices}, normalised to max entry in [1,2) and "
        "executed at scale 2^k, k over the whole supported range with bias to both ends, plus the same matrix at 2^0 for "
        "scale equivariance; ev2x/ev3x = exact integer/dyadic inputs with power-of-two max norm (Pythagorean discriminants, near-identity around the "
        "64 eps threshold, 3x3 off-diagonals around sqrt(eps)) compared bit-for-bit with the model; hand* = LAPACK hand-over "
        "through a recording fake ?syev/?geev; nsd/nsf = non-symmetric routines on Q T Q^T (real Schur form with and "
        "without 2x2 rotation blocks), integer triangular matrices and embedded rotations.  Oracle tolerances: eigenvalue "
        "error, residual |A v - lambda v|_2 and entry-point disagreement <= 1024 eps |A|_2 (1x1, 2x2, LAPACK; eps = double "
        "epsilon when LAPACK computes in double for long double input) resp. 32 sqrt(eps) |A|_2 (3x3 closed form); "
        "| |v|^2 - 1 | <= 256 eps; trace within n*1024 eps |A|_2; orthogonality |v_i.v_j| <= tol |A| / |l_i - l_j| for "
        "eigenvalue pairs that coincide exactly (then <= tol) or differ by more than tol |A|; non-symmetric: "
        "sum lambda^m = tr A^m for m = 1..n within 1024 eps m n |A|_F^m, |A v - lambda v| <= 1024 eps |A|_F |v|.  "
        "Observed maxima on the repaired tree over 10^6 cases: 64 eps (2x2), 14 eps (LAPACK), 1.15 sqrt(eps) (3x3).  "
        "distinct = distinct op lines; non-trivial = every case except 1x1 matrices and hand-over ops that never reach LAPACK")
ASSUMPTIONS = [
    "the Lean model lean/DuneVerif/Model/C08.lean is hand-written control flow around translated formulas; its fidelity "
    "rests on the bit-exact differential run on exact inputs (ev2x, ev3x, hand*) only",
    "floating-point accuracy is decided by the harness oracle on generated inputs; it is not proved",
    "formulas and thresholds (p, p2, q, clamp, eigenvalue assignments, identity threshold, candidate columns, cross "
    "product, 3x3 p1/q/p2/p/r/phi/eigenvalue formulas, diagonal thresholds, sort flag) are regenerated from fmatrixev.hh "
    "by tools/translators/tr_c08.py",
    "magnitude range exercised on every path: 2^-498..2^498 (double, long double), 2^-120..2^120 (float); base matrices "
    "are normalised to max entry in [1,2) and multiplied by an exact power of two",
    "bit-exact 2x2 cases use matrices whose max norm is a power of two, so that the preconditioning division is exact",
    "ev3_roots is proved in _partial form (diagonal matrices; trigonometric branch assuming the unclamped r in [-1,1])",
    "LAPACK (OpenBLAS) is trusted; a recording fake ?syev/?geev is interposed only for the hand-over cases",
]
TRUSTED = ["g++/libstdc++, ASan/UBSan, LAPACK/OpenBLAS, libquadmath (__float128) as oracle arithmetic",
           "translator tr_c08.py", "harness/cxx_c08.cc + Driver/C08.lean parsing/printing", "Mathlib (Real.sqrt, arccos, cos)"]
ENV = {"OPENBLAS_NUM_THREADS": "1", "OMP_NUM_THREADS": "1"}


def batches(tier, seed):
    n = 24000 if tier == "quick" else 800000
    parts = 4 if tier == "quick" else 16
    return [dict(args=["--seed", str(seed * 1000 + i), "--cases", str(n // parts), "--tier", tier], tag="g%d" % i,
                 env=ENV, timeout=(600 if tier == "quick" else 6000)) for i in range(parts)]


def search_batches(seed):
    return [dict(args=["--seed", str(seed * 7919 + 13 + i), "--cases", "60000"], env=ENV, timeout=1800) for i in range(3)]
