"""C08 — eigenvalue routines return an eigen-decomposition of the given matrix."""
from translators import tr_c08

PID = "C08"
CLAIM = True
MANIFEST_TEXT = (
    "Lean 4 theorems over the reals about an executable model of the closed-form eigenvalue code whose formulas, "
    "threshold constants and the 3x3 determinant block are regenerated from fmatrixev.hh / densematrix.hh on every run. "
    "2x2: the closed form returns the ordered roots of the characteristic polynomial summing to the trace (ev2_roots); "
    "with the code's identity threshold the returned vectors are unit, orthogonal eigenvectors in the general branch "
    "and have residual below the threshold in the special case (ev2_vectors, ev2_vectors_ident); the whole routine "
    "(max-norm preconditioning, closed form, threshold, column choice) is exactly equivariant under scaling "
    "(ev2_scale_invariant); both entry points agree (ev2_entry_points_agree).  3x3: for every symmetric matrix not "
    "treated as diagonal the three returned values are the whole spectrum with multiplicity - the characteristic "
    "polynomial factors as (t-l0)(t-l1)(t-l2), with no assumption on r, whose clamp is proved inactive using Mathlib's "
    "spectral theorem (ev3_spectrum, ev3_clamp_inactive); the complete eigenvector construction - eig0 on the simple "
    "extreme eigenvalue selected by the sign of r, orthoComp, eig1 with all its branches on the reduced 2x2 system, "
    "cross product, stable sort of the pairs - returns unit, mutually orthogonal vectors with (A - l_i I) v_i = 0, "
    "repeated eigenvalues included (ev3_vectors); in the diagonal special case coordinate vectors with residual at most "
    "sqrt(eps) times the max norm are returned (ev3_vectors_diag); values are ascending, sum to the trace, both entry "
    "points agree, and values and vectors scale exactly with the matrix (ev3_ascending, ev3_trace, "
    "ev3_entry_points_agree, ev3_scaling_exact); 1x1 is exact (ev1_exact).  The row-major/column-major hand-over to "
    "LAPACK is a transposition that is harmless for symmetric input and turns right into left eigenvectors for general "
    "input (lapack_handover_*).  The caller-owned output containers of the dynamic non-symmetric routine are modelled "
    "as lists with std::vector::resize semantics and an out-of-bounds outcome: for every content on entry (left over "
    "from a call with a larger or smaller matrix, pre-sized, vectors of other lengths, empty) a call never writes "
    "outside them and leaves exactly n values and n vectors of n entries, vector i = column i of LAPACK's result, "
    "hence right eigenvectors of A (nonsym_dynamic_outputs_fresh, nonsym_dynamic_vectors_right), and so does every "
    "history of calls on the same containers (nonsym_dynamic_history).  Round four: the control logic is regenerated "
    "as tables as well (Gen/C08T.lean) - eig0 (rows, cross-product pairs, lengths, and the decision tree of the search "
    "for the longest cross product, obtained by symbolic execution of the function body), orthoComp, eig1 (reduced matrix, the four normalisation sequences, result "
    "coefficients), the index assembly of both branches of `if (r >= 0)`, the compare-and-swap network of the diagonal "
    "special case, and the LAPACK call sites of fmatrixev.hh and dynmatrixev.hh (orientation of copy and copy-back, "
    "jobz/uplo/jobvl/jobvr, lwork, the size of every buffer); the driver runs the interpreters of these tables and "
    "ev3_control_translated proves them equal over the reals to the hand-written control flow (expressions up to ring "
    "identities, index tables by evaluation), so that "
    "ev3_vectors_translated and ev3_refines_specification (translated control flow -> abstract specification "
    "IsEigenDecomposition3: ascending, trace, whole spectrum with multiplicity, orthonormal eigenvectors) speak about "
    "the current source; lapack_sym_call / lapack_nonsym_call prove for every order that lwork and all buffers meet "
    "the requirements of ?syev / ?geev and that right eigenvectors are requested exactly when asked for; "
    "nonsym_spectrum_handover proves that what ?geev is handed has the characteristic polynomial of A "
    "(charpoly_transpose for the fixed-size routine).  Each run executes the real routines (float/double/long double, sizes 1..8, closed form "
    "and LAPACK, scales 2^-498..2^498) on >= 24k generated matrices; a binary128 oracle decides order, trace, eigenvalue "
    "error, residual, unit norm, orthogonality, agreement of the two entry points and scale equivariance, and power "
    "sums / A v = lambda v for the non-symmetric routines; the same generic Lean model run over IEEE double must "
    "reproduce the eigenvalues and eigenvectors of the C++ double closed-form code (1x1, 2x2, 3x3, all branches; "
    "quantised to 2^-24 of the scale) on every well-separated generated case, and exact cases (2x2 with rational "
    "square roots, 3x3 diagonal branch, LAPACK hand-over through a recording fake) are compared bit-for-bit.  Output "
    "arguments are never fresh: the fixed-size routines are entered with NaN-filled and again with junk-filled outputs "
    "and must answer identically; the dynamic routine runs in histories of 2-5 calls (shrinking, growing, alternating "
    "orders, with and without vectors, interleaved caller pre-sizing) on one pair of containers, on real LAPACK "
    "(oracle after every call) and through the recording fake (complete container contents compared with the model).  "
    "The fake and the wrappers in front of the real ?syev/?geev write the whole announced workspace work[0..lwork), so "
    "that a buffer shorter than announced is a sanitizer finding although LAPACK itself is not instrumented; the "
    "hand-over answers carry the job characters and lwork of the call.")
MANIFEST_NOTE = (
    "Partial by nature: floating-point accuracy (residual sizes, orthogonality tolerances) is measured by the harness "
    "on generated inputs, not proved; the Lean theorems are exact-arithmetic statements about the model (sqrt/acos/cos "
    "as real functions).  Trusted: Lean kernel (+propext/Classical.choice/Quot.sound), Mathlib (incl. the spectral "
    "theorem for Hermitian matrices), tr_c08.py, the hand-written control flow of the model (tied by the double-precision "
    "differential run on all closed-form paths and by bit-exact runs on exact inputs), LAPACK/OpenBLAS, libquadmath as "
    "reference arithmetic, g++/ASan/UBSan, glibc libm (acos/cos/sqrt are the same functions in harness and driver).  "
    "The tie of the translated control tables is exact: ev3_control_translated is an equality of functions, so a "
    "change of the source that only flips the sign of an eigenvector (operands of a cross product exchanged) or decides "
    "a tie differently (r > 0 for r >= 0) breaks the obligation although the property still holds (translated "
    "expressions are compared up to ring identities, so commuted factors and re-associated sums are fine; index tables "
    "are compared exactly; since round five the translated pieces are obtained by symbolic execution of the function "
    "bodies, so the spelling of the control flow - locals, ?: / if / guard clauses, helper lambdas, operand order of "
    "comparisons, counters versus indices, std algorithms versus loops - does not matter, and the eig0 maximum search is "
    "tied as a decision tree equivalent for all lengths); it is then "
    "reported after the search as no-failing-input-found.  The diagonal special case is tied as a table equality "
    "(ev3_diag_network_translated) and by running the interpreted tables in the driver.  "
    "Not modelled: LAPACK itself; the float and long double instantiations of the closed form are tied by the oracle and "
    "the exact cases only (the C++ float path mixes double literals into float arithmetic).  In the nearly diagonal case "
    "0 < p1 <= eps the 3x3 code returns the diagonal by design; there the statement is the residual bound, not exact "
    "roots.  Magnitudes exercised: 2^-498..2^498 (1e-150..1e150) for double and long double, 2^-120..2^120 for float, on "
    "all paths; this relies on the max-norm preconditioning of the 2x2 path (fixes/C08_ev2_scaling.patch).")
TECHNIQUE = ("Lean 4 proof over a generic closed-form model (reals) + translator (C++ subset parser + symbolic executor "
             "normalising the spelling of control flow) for formulas, thresholds, the 3x3 "
             "determinant, control tables (eig0/orthoComp/eig1/assembly/diagonal network) and LAPACK call sites + differential correspondence (same model over IEEE double on all closed-form paths, bit-exact "
             "on exact inputs) + binary128 property oracle")
TRANSLATORS = [tr_c08.translate]
HARNESS = dict(
    sources=["cxx_c08.cc"],
    repo_sources=["dune/common/fmatrixev.cc", "dune/common/exceptions.cc", "dune/common/stdstreams.cc"],
    libs=["-llapack", "-lblas", "-lquadmath"],
    # the sanitised template instantiations (8 sizes x 3 scalar types) take 80 s to optimise at -O1 and 20 s at -O0;
    # the run itself is cheap, so the later -O0 wins over the shared -O1
    flags=["-O0"],
)
RULE = ("cases: sym = symmetric n x n (n=1..3 closed form, 4..8 LAPACK, and LAPACK on request for n=1..8) in "
        "float/double/long double, built in long double as Q diag(spectrum) Q^T with spectra "
        "{random, repeated, clustered (gaps 1e-2..1e-17), rank-deficient, multiple of identity, +-c, graded, small "
        "integers} and structures {random rotations incl. nearly-identity and 45 degree, exactly diagonal, nearly diagonal "
        "(perturbation 1e-2..1e-20), single plane rotation, small integer matrices}, normalised to max entry in [1,2) and "
        "executed at scale 2^k, k over the whole supported range with bias to both ends, plus the same matrix at 2^0 for "
        "scale equivariance; dense/patterned 2x2 and 3x3 double matrices (uniform, small integers, eighths, zero patterns "
        "that decouple a coordinate, dominant diagonal); route cfq (double, n <= 3, spectrum with relative gaps >= 1/64 as "
        "decided by the binary128 reference at generation time): eigenvalues of both entry points and sign-normalised "
        "eigenvectors quantised to 2^-24 of the scale must equal those of the Lean model run over IEEE double; ev2x/ev3x = exact integer/dyadic inputs with power-of-two max norm (Pythagorean discriminants, near-identity around the "
        "64 eps threshold, 3x3 off-diagonals around sqrt(eps)) compared bit-for-bit with the model; hand* = LAPACK hand-over "
        "through a recording fake ?syev/?geev; nsd/nsf = non-symmetric routines on Q T Q^T (real Schur form with and "
        "without 2x2 rotation blocks), integer triangular matrices and embedded rotations; nsq/handnsq = histories "
        "`T C : seg;seg;..` of 2-5 calls of DynamicMatrixHelp::eigenValuesNonSym on the same eigenvalue vector "
        "(DynamicVector<complex<T>> or <complex<double>>) and eigenvector list, orders 1..6 shrinking / growing / "
        "random / alternating / constant, vectors requested in 4 of 5 calls, `pre a [l0,..]` segments where the caller "
        "sets the eigenvalue vector to a entries and the list to junk-filled vectors of the given lengths (equal, "
        "ragged, mostly empty); after every call: exactly n values, n vectors of n entries, and the nsd oracle (real "
        "LAPACK) resp. the complete container contents equal to the model's (fake).  Every sym/ev2x/ev3x case runs the "
        "routines twice, with NaN-filled and with junk-filled output arguments, and the answers must be identical; "
        "hand/handnsf/nsf outputs are pre-filled with junk.  Oracle tolerances: eigenvalue "
        "error, residual |A v - lambda v|_2 and entry-point disagreement <= 1024 eps |A|_2 (1x1, 2x2, LAPACK; eps = double "
        "epsilon when LAPACK computes in double for long double input) resp. 32 sqrt(eps) |A|_2 (3x3 closed form); "
        "| |v|^2 - 1 | <= 256 eps; trace within n*1024 eps |A|_2; orthogonality |v_i.v_j| <= tol |A| / |l_i - l_j| for "
        "eigenvalue pairs that coincide exactly (then <= tol) or differ by more than tol |A|; non-symmetric: "
        "sum lambda^m = tr A^m for m = 1..n within 1024 eps m n |A|_F^m, |A v - lambda v| <= 1024 eps |A|_F |v|.  "
        "hand/handns/handnsf answers end with `call=job.. lwork=..` (what was passed to LAPACK), equal to the translated "
        "call-site constants; the fake ?syev/?geev and the forwarding wrappers write work[0..lwork).  "
        "Observed maxima on the repaired tree over 10^6 cases: 64 eps (2x2), 14 eps (LAPACK), 1.15 sqrt(eps) (3x3).  "
        "distinct = distinct op lines; non-trivial = every case except 1x1 matrices and hand-over ops that never reach LAPACK")
ASSUMPTIONS = [
    "the Lean model lean/DuneVerif/Model/C08.lean is hand-written control flow around translated formulas; its fidelity "
    "rests on the differential runs: the model over IEEE double against the C++ double code on all closed-form paths "
    "(route cfq, quantised to 2^-24) and bit-exact runs on exact inputs (ev2x, ev3x, hand*)",
    "the double-precision differential run assumes that g++ -O0 on x86-64 evaluates double expressions without excess "
    "precision or contraction and that harness and driver use the same libm; cases are restricted to well-separated "
    "spectra so that ulp-level re-arrangements of the source do not change the quantised answer",
    "floating-point accuracy is decided by the harness oracle on generated inputs; it is not proved",
    "formulas and thresholds (p, p2, q, clamp, eigenvalue assignments, identity threshold, candidate columns, cross "
    "product, 3x3 p1/q/p2/p/r/phi/eigenvalue formulas, diagonal thresholds, sort flag) are regenerated from fmatrixev.hh "
    "by tools/translators/tr_c08.py, and so is the rows()==3 block of DenseMatrix::determinant (densematrix.hh)",
    "magnitude range exercised on every path: 2^-498..2^498 (double, long double), 2^-120..2^120 (float); base matrices "
    "are normalised to max entry in [1,2) and multiplied by an exact power of two",
    "bit-exact 2x2 cases use matrices whose max norm is a power of two, so that the preconditioning division is exact",
    "ev3_spectrum (exact roots) excludes by design the nearly diagonal case 0 < p1 <= eps of the scaled matrix, where the "
    "code returns the diagonal as an approximation; ev3_vectors_diag bounds the residual there by sqrt(eps) * max norm",
    "LAPACK (OpenBLAS) is trusted; a recording fake ?syev/?geev is interposed only for the hand-over cases",
    "translator tolerance (round five): the max-norm preconditioning and the whole eigenvector part of the 2x2 routine, "
    "crossProduct, eig0, orthoComp, eig1, and the copy loops around the three LAPACK calls are no longer matched as text: "
    "tr_c08.py parses the function body into a small AST (declarations, assignments incl. compound ones and ++/--, "
    "if/else, for, return, ?:, lambdas, calls of a fixed list of pure functions / methods, std::swap/copy/copy_n) and "
    "executes it symbolically along every path; compared / emitted is the resulting state (a decision tree over "
    "canonical comparison atoms `a < b` / `a <= b` - `>` and `>=` are written with exchanged operands, comparisons are "
    "never negated, so NaN is decided as in the source - with symbolic values at the leaves).  Hence renamed, hoisted "
    "or inlined locals, `?:` versus if/else versus guard clauses with early return, helper lambdas called several times, "
    "`a > b` versus `b < a`, a returned initialiser list versus a local filled entry by entry, running counters versus "
    "computed indices (also `buf[pos++]`, renamed / exchanged / count-down loop variables), std::copy / std::copy_n "
    "versus a hand loop give the same generated files.  The copy loops are executed for the concrete orders 1..5 (index "
    "expressions restricted to + - * over integers, loop variables, N/dim and counters initialised by an integer "
    "literal) and must produce the same orientation for all of them; the tie to all orders is this restriction, not a "
    "proof.  eig0: rows, cross products and lengths are identified by value, the search for the longest cross product "
    "becomes a decision tree (Gen.Sel) that Proofs/C08Tie proves equivalent over the reals to the hand-written maximum "
    "search for all lengths (rfl if the trees coincide, otherwise all combinations of comparison outcomes, contradictory "
    "ones closed by linarith) - a search that tests the lengths in another order is accepted, one that decides ties "
    "differently (`>=`) is not.  3x3 diagonal special case: read literally as a compare-and-swap network if written as "
    "one; otherwise executed, and every path must end in the state of the network (0,1),(1,2),(0,1) under the same "
    "comparison outcomes.  Still matched literally: eigenValues2dImpl and eigenValues3dImpl (locals named p, p2, q, p1, "
    "r, phi; the `q += matrix[i][i] / 3` loop; the clamp), the assembly `if (r >= 0) {eig0; eig1; crossProduct} else {..}` "
    "with the locals evec / eval, offDiagNorm and its threshold, the declarations of the LAPACK job characters, lwork "
    "and buffers (stack arrays / std::make_unique<double[]> per call with integer size expressions in N/dim), the four "
    "entry points, DenseMatrix::determinant rows()==3.  Anything outside the subset or these rules (while loops, range-for, "
    "static or thread_local buffers, unknown calls, a use before assignment, an undecidable loop bound) is a TranslateError "
    "= broken obligation, never a guess",
    "the interpreters in Model/C08T.lean are hand-written (core Lean); the line-protocol driver runs them, the theorems "
    "are transferred through Proofs/C08Tie.lean (over the reals: translated expressions identified with the hand-written "
    "ones by rfl or ring_nf, also inside sqrt; index tables by evaluation; the eig0 selection tree semantically, see above)",
    "LAPACK's interface requirements used in lapack_sym_call / lapack_nonsym_call (LWORK >= max(1,3N-1) for ?syev; "
    "LWORK >= max(1,3N), >= 4N with eigenvectors, for ?geev) are taken from the LAPACK documentation",
    "output arguments: their content on entry is treated as part of the input (any content for the fixed-size outputs, "
    "any sizes up to 12 for the dynamic containers); aliasing an output with the input matrix is not exercised; the "
    "comparison of the NaN-prefilled with the junk-prefilled run assumes that two calls on the same matrix in the same "
    "process are bitwise reproducible (single-threaded OpenBLAS)",
    "the container model (vresize / storePrefix / nsVecLoop in Model/C08.lean) is hand-written from dynmatrixev.hh; it is "
    "tied to the source by the handnsq histories, whose complete container contents must equal the model's",
]
TRUSTED = ["g++/libstdc++, ASan/UBSan, LAPACK/OpenBLAS, libquadmath (__float128) as oracle arithmetic, glibc libm",
           "translator tr_c08.py", "harness/cxx_c08.cc + Driver/C08.lean parsing/printing, Lean's Float (IEEE double)",
           "Mathlib (Real.sqrt, arccos, cos, spectral theorem for Hermitian matrices)"]
ENV = {"OPENBLAS_NUM_THREADS": "1", "OMP_NUM_THREADS": "1"}


def batches(tier, seed):
    n = 24000 if tier == "quick" else 800000
    parts = 4 if tier == "quick" else 16
    return [dict(args=["--seed", str(seed * 1000 + i), "--cases", str(n // parts), "--tier", tier], tag="g%d" % i,
                 env=ENV, timeout=(600 if tier == "quick" else 6000)) for i in range(parts)]


def search_batches(seed):
    return [dict(args=["--seed", str(seed * 7919 + 13 + i), "--cases", "60000"], env=ENV, timeout=1800) for i in range(3)]
