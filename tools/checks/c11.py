"""C11 — containers behave as their abstract sequence / map under every operation history."""
from translators import tr_c11

PID = "C11"
CLAIM = True
MANIFEST_TEXT = ("Lean 4 theorems, for all operation histories, all element values and all chunk sizes / capacities / block "
                 "sizes, that executable models of ArrayList (chunks/capacity/size/start incl. eraseToHere's chunk-count "
                 "formula, purge and deep copy), SLList (node chain + tail pointer + modify iterators + converting copy), "
                 "ReservedVector, BitSetVector (incl. the vector<bool> constructor's RangeError) and lru (node list + key index, "
                 "index rebuilt on copy) refine the abstract sequence / bounded vector / bit-block vector / recency-ordered map "
                 "(per-operation refinement under an explicit invariant, induction over the history - for ArrayList and lru "
                 "over interleaved histories of two instances with copies in both directions and self-assignment, for "
                 "ReservedVector against a nondeterministic specification in which only elements uncovered by a growing "
                 "resize are unspecified; ArrayList iterator stability under any number of push_backs, lru no-duplicate-keys, "
                 "SLList self-assignment identity; BitSetVector block operations = machine operations on the number the block "
                 "stands for, block<->number conversion lossless at every width and a conversion through a W-bit word exact "
                 "iff B <= W); the models are run against the real classes on >= 6000 random histories per run, compiled in "
                 "two build configurations (all checks on: asserts + DUNE_CHECK_BOUNDS + CHECK_RESERVEDVECTOR; release: NDEBUG) "
                 "and for template parameters on both sides of every boundary where behaviour can change (block sizes "
                 "1..129 around the 32/64/128-bit word boundaries of std::bitset, chunk sizes incl. powers of two and the "
                 "default 100, capacities up to 65) (every op observed on every instance: size, empty, front/back, full "
                 "forward/backward/const iteration, comparisons, find, held iterators, every view of a bit block) with "
                 "std::deque/list/vector/bitset/map shadow oracles deciding the property itself under ASan/UBSan. Round four: "
                 "tools/translators/tr_c11.py re-reads the straight-line member functions of arraylist.hh (chunkSize_, elementAt, "
                 "operator[], begin/end/size, the iterators' elementAt/dereference/advance/increment/decrement/distanceTo/equals, "
                 "push_back, purge, eraseToHere incl. its loop bound, clear), the block addressing of bitsetvector.hh (getBit, the "
                 "sizing constructors, resize, size, the vector<bool> constructor's test) and of reservedvector.hh (operator[], "
                 "front, back, at, size/empty/capacity, clear, resize, push_back x2, emplace_back, pop_back, all 12 begin/end "
                 "variants, fill, hash range, every CHECKSIZE) by symbolic execution of their statements in source order into "
                 "lean/DuneVerif/Gen/C11.lean on every run (round five: a tokenizer + expression/statement parser + executor with "
                 "eager evaluation, opaque iterator/reference values and an ordered effect trace, so the translation is a "
                 "function of what the code does - final member values, effects on chunks_/storage_, returned value per path - "
                 "and not of how it is spelled); 11 theorems (gen_*) prove that each model operation is exactly that "
                 "generated state transformer, both constnesses, and re-derive element access, iterator access, the freed-chunk "
                 "count and the capacity bound for the generated formulas; the harness additionally drives every operator of "
                 "RandomAccessIteratorFacade / ForwardIteratorFacade (it++, it--, -=, it+-n, it[-j], ->, < <= > >=) on the "
                 "ArrayList and SLList iterator classes. Round five: ReservedVector's iterator-pair constructor (the only member "
                 "of the five containers that takes an iterator range) is driven with random-access, pointer, bidirectional, "
                 "forward and two genuine single-pass input iterators (std::istream_iterator, a generator whose copies share "
                 "one source).")
MANIFEST_NOTE = ("Trusted: Lean kernel (+propext/Classical.choice/Quot.sound), tr_c11.py (its grammar: blocks, if/else, return, "
                 "throw, ?:, assignments, compound assignments, ++/--, locals of size_t-like / bool / auto type, iterator and "
                 "const-reference locals of the known opaque values, asserts without side effects, + - * / % ! && || and "
                 "comparisons, counting for/while loops whose counter the body does not read, std::copy/copy_n/move/fill/fill_n "
                 "and the known members of chunks_ / storage_, inlined calls of ReservedVector's own nullary accessors; quiet "
                 "by construction for renamed/hoisted locals, split compound statements, guard clauses, if/return vs ?:, "
                 "commuted operands and comparisons, respelled counting loops, braces, this->, reordered independent "
                 "statements; anything else - unknown calls, numeric casts, pointer/reference locals to numbers, other loop or "
                 "effect shapes, unsequenced side effects - is a loud TranslateError; size_t arithmetic is read as "
                 "natural-number arithmetic, exact inside the invariant), the "
                 "hand-written models' fidelity for everything the translator does not regenerate (SLList, lru, the BitSetVector "
                 "proxy loops, ArrayList copy, ReservedVector comparisons/constructors: checked by "
                 "differential execution only), harness/cxx_c11.cc + cxx_c11_rel.cc + c11_containers.hh and Driver/C11.lean "
                 "parsing/printing, libstdc++ containers as oracle, g++/ASan/UBSan. Pointer structure of SLList/lru is "
                 "abstracted to node ids; the models have value semantics, so 'a copy shares nothing with its original' is "
                 "true of the models by construction and is decided for the real classes by the two-instance harness only; "
                 "allocator interplay is only exercised (counting allocator), not modelled. ReservedVector slots uncovered by "
                 "resize()/the count constructor are unspecified; the protocol assigns them right after the call, so they are "
                 "never compared. The model is the same for both build configurations (the header token `rel` only selects "
                 "the binary's release build of the headers); that an out-of-range access throws in the checked build is not "
                 "part of the property and not checked. Template parameters are a finite sample chosen by region (word "
                 "boundaries of std::bitset, powers of two, the defaults); element type int and std::allocator only - no "
                 "statement of the five headers depends on them. Both translation units are compiled at -O0 -g1 and UBSan "
                 "without null/alignment/vptr/pointer-overflow/object-size (compile time; ASan still catches null and wild "
                 "accesses).")
TECHNIQUE = "Lean 4 refinement proofs (invariant + induction over operation histories) + translator for the straight-line index arithmetic / member updates of ArrayList, BitSetVector, ReservedVector + differential correspondence with std:: shadow oracles"
TRANSLATORS = [tr_c11.translate]
HARNESS = dict(
    # cxx_c11_rel.cc: the same runners (c11_containers.hh) against the headers in the release configuration (NDEBUG, no
    # DUNE_CHECK_BOUNDS / CHECK_RESERVEDVECTOR; library renamed to another namespace); cxx_c11.cc is "all checks on"
    sources=["cxx_c11.cc", "cxx_c11_rel.cc"],
    repo_sources=["dune/common/exceptions.cc", "dune/common/stdstreams.cc"],
    # -O0: five containers x ~25 template parameter values x two build configurations; -O1 with sanitizers takes minutes.
    # -g1 (line tables + function names for sanitizer reports) and a UBSan set without the checks that cannot concern
    # container contents (null/alignment/vptr/pointer-overflow/object-size; a null or wild access still dies under ASan)
    # keep the compile of both units at ~30 s; signed overflow, shifts, bounds, bool, enum, ... and ASan stay on
    flags=["-O0", "-g1", "-fno-sanitize=null,alignment,vptr,pointer-overflow,object-size,nonnull-attribute,returns-nonnull-attribute"],
)
RULE = ("cases: one random operation history (0..40 ops quick, ..60 thorough; ..16 for block sizes >= 100) per line over "
        "ArrayList<int,N> N in {0,1,2,3,4,7,8,16,100} (two instances; copy construction/assignment both ways, self-assignment; "
        "pushn = k appends in one op so that 100-element chunks are filled exactly / crossed), SLList<int> (two instances + "
        "modify iterator + converting copy to SLList<long>), ReservedVector<int,n> n in {1,2,4,7,16,65} (two instances; sizes "
        "biased to n, n-1), BitSetVector<B> B in {1,3,8,32,33,63,64,65,100,128,129} (incl. construction from vector<bool> of "
        "fitting / non-fitting length; bit positions, one-bit operands and shift counts biased to 0,31,32,63,64,65,127,128,B-1; "
        "operands with only the bits >= 64 / < 64), lru<int,int> (two instances with copies); a third of the histories (header "
        "token `rel`) run against the release build of the headers (NDEBUG, no bounds checks), the rest against the build "
        "with asserts, DUNE_CHECK_BOUNDS and CHECK_RESERVEDVECTOR; erase positions aimed at chunk boundaries +-1, bursts of "
        "pushes across chunk boundaries, iterators held across pushes, equal keys, full/empty containers, ~2% ops outside "
        "their precondition (skipped on both sides); thorough adds all words of length 6 (ArrayList N=1,2,3) / 5 (SLList, lru, "
        "two-list ArrayList N=2,3 and two-cache lru with copies) / 4 (BitSetVector<65>: bit writes at the word boundary, shifts "
        "by 1/64, block-to-block ops) / 3 (BitSetVector<129>, release build) over small op alphabets; distinct = distinct op "
        "lines; non-trivial = at least one op executed; round four: ReservedVector at(i) with i aimed at size() / size()-1 and "
        "both at() overloads judged independently; after every ArrayList op all operators of RandomAccessIteratorFacade on "
        "iterator and const_iterator at a position that moves with the history, after every SLList op it++ / -> of iterator, "
        "const_iterator and modify iterator; round five: half of the ReservedVector `init` ops go through `initr <kind> [l]`, the "
        "iterator-pair constructor with an iterator of category ra|ptr|bidi|fwd|in|is (in/is = genuine single-pass input "
        "iterators, chosen twice as often as each multi-pass kind; ~150 single-pass constructions of >= 2 elements per quick run)")
ASSUMPTIONS = [
    "the Lean models lean/DuneVerif/Model/C11/*.lean are hand-written; for the functions listed in MANIFEST_TEXT their formulas, conditions, loop bounds and statement order are tied to the source by tr_c11.py + the gen_* theorems, for the rest their fidelity to the headers rests on this differential run",
    "a source change that leaves the translator's grammar, or changes a generated formula for arguments outside the invariant only (e.g. BitSetVector::size() rounding up), is reported as a broken obligation even if no failing input exists (no-failing-input-found); round five widened the grammar (see MANIFEST_NOTE and design_notes/C11.md section 11) so that the nine behaviour-preserving refactorings on file (harmless/C11_r1h1-3, C03_r1h3, C16_r1h1, C16_r1h3, C11_r5o1-3) are quiet; known spellings that still alarm: range-for / iterator loops over chunks_, the freeing loop written with the counter in the subscript, helper functions other than ReservedVector's nullary accessors, numeric casts, rewrites of the facade's member operators beyond one level of forwarding, of BitSetVector's constructors and of ReservedVector::emplace_back / hash_value (still matched as text)",
    "the iterator-pair constructor of ReservedVector is driven with six iterator kinds (vector iterator, pointer, std::list, std::forward_list, std::istream_iterator and a generator iterator whose copies share one source); no other member of the five containers takes an iterator range or a generic range",
    "element type int, key type int; the theorems are generic in the element/key type (no statement of the headers branches on the type)",
    "template parameters N, n, B are sampled by region (see RULE); the theorems hold for all values",
    "the two build configurations (checks on / NDEBUG release) are expected to behave identically on histories inside the preconditions; one model serves both",
    "SLList is instantiated with a counting allocator providing allocate(n, hint) (std::allocator lost it in C++20, push_front needs it)",
    "operations outside their documented precondition (undefined behaviour / failing assert in C++) are not executed",
]
TRUSTED = ["g++/libstdc++ (std::deque/list/vector/bitset/map as oracle), ASan/UBSan", "translator tr_c11.py", "harness/cxx_c11.cc + Driver/C11.lean parsing/printing"]


def _seed(seed, i):
    # dv::Rng streams of adjacent seeds are shifted copies of each other: keep the seeds far apart
    return str((seed * 1000000007 + i * 7919000011) % (2 ** 63))


def batches(tier, seed):
    res = []
    if tier == "quick":
        for i in range(4):
            res.append(dict(args=["--seed", _seed(seed, i), "--cases", "1500", "--tier", tier], tag="g%d" % i, timeout=300))
        return res
    for i in range(12):
        res.append(dict(args=["--seed", _seed(seed, i), "--cases", "10000", "--tier", tier], tag="g%d" % i, timeout=3000))
    for kind, n in (("al1", 7 ** 6), ("al2", 7 ** 6), ("al3", 7 ** 6), ("sl", 10 ** 5), ("lru", 8 ** 5),
                    ("al2c", 10 ** 5), ("al3c", 10 ** 5), ("lruc", 10 ** 5), ("bv65", 12 ** 4), ("bv129r", 12 ** 3)):
        res.append(dict(args=["--enum", kind, "--cases", str(n), "--tier", tier], tag="enum_" + kind, timeout=3000))
    return res


def search_batches(seed):
    return [dict(args=["--seed", _seed(seed + 17, 100 + i), "--cases", "20000"], timeout=900) for i in range(3)]
